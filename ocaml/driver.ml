(* driver.ml -- line protocol around the extracted model: one S-expression per
   line in, one per line out.  Only tokenising/printing happens here; atoms are
   passed to the model as lists of Coq N (byte values). *)

let rec pos_of_int (n : int) : Model.positive =
  if n = 1 then Model.XH
  else if n land 1 = 0 then Model.XO (pos_of_int (n lsr 1))
  else Model.XI (pos_of_int (n lsr 1))
let n_of_int (n : int) : Model.n = if n = 0 then Model.N0 else Model.Npos (pos_of_int n)
let rec int_of_pos = function
  | Model.XH -> 1 | Model.XO p -> 2 * int_of_pos p | Model.XI p -> 2 * int_of_pos p + 1
let int_of_n = function Model.N0 -> 0 | Model.Npos p -> int_of_pos p

let parse (s : string) : Model.sexp =
  let len = String.length s in
  let pos = ref 0 in
  let rec skip () = if !pos < len && (s.[!pos] = ' ' || s.[!pos] = '\t') then (incr pos; skip ()) in
  let rec item () : Model.sexp =
    skip ();
    if !pos >= len then failwith "eof"
    else if s.[!pos] = '(' then begin
      incr pos;
      let rec items acc =
        skip ();
        if !pos >= len then failwith "unclosed"
        else if s.[!pos] = ')' then (incr pos; List.rev acc)
        else let x = item () in items (x :: acc) in
      Model.L (items [])
    end else begin
      let start = !pos in
      while !pos < len && s.[!pos] <> ' ' && s.[!pos] <> '(' && s.[!pos] <> ')' && s.[!pos] <> '\t' do incr pos done;
      let tok = String.sub s start (!pos - start) in
      Model.A (List.init (String.length tok) (fun i -> n_of_int (Char.code tok.[i])))
    end in
  item ()

let rec print (b : Buffer.t) (x : Model.sexp) : unit =
  match x with
  | Model.A l -> List.iter (fun c -> Buffer.add_char b (Char.chr (int_of_n c))) l
  | Model.L l ->
    Buffer.add_char b '(';
    List.iteri (fun i y -> if i > 0 then Buffer.add_char b ' '; print b y) l;
    Buffer.add_char b ')'

let () =
  let b = Buffer.create 65536 in
  (try
    while true do
      let line = input_line stdin in
      Buffer.clear b;
      (match (try Some (parse line) with _ -> None) with
       | Some req -> print b (Model.handle req)
       | None -> Buffer.add_string b "(parse-error)");
      Buffer.add_char b '\n';
      print_string (Buffer.contents b); flush stdout
    done
  with End_of_file -> ());
  flush stdout
