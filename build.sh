#!/bin/bash
# setup: build the whole Coq development (full .vo), extract the model, compile the OCaml driver.
set -e
cd "$(dirname "$0")"
export PYTHONPATH="${VERIF_REPO:-/repo}:$(pwd)/harness" PYTHONHASHSEED=0 TZ=UTC PYTHONDONTWRITEBYTECODE=1
/venv/bin/python -B harness/extract.py "${VERIF_REPO:-/repo}" coq/Extracted.v
( cd coq && coq_makefile -f _CoqProject -o Makefile >/dev/null && timeout 3000 make -j16 2>&1 | grep -v '^Closed under' | tail -40; test ${PIPESTATUS[0]} -eq 0 )
/venv/bin/python -B -c "import sys; sys.path.insert(0,'harness'); import common; common.build_model(); print('model built')"
