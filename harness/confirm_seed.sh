#!/bin/bash
# usage: confirm_seed.sh <prop id> <seed name> "<needs>"  -- confirm a sub-agent's seeded change and file it under /verif/seeded/
set -u
pid=$1; name=$2; needs=${3:-}
out=/tmp/seedwork/out-$pid; wt=/tmp/seedwork/wt-$pid
cd /tmp
PYTHONPATH=/repo PYTHONHASHSEED=0 /venv/bin/python $out/demo.py >/tmp/seedwork/demo-clean.log 2>&1; rc_clean=$?
PYTHONPATH=$wt PYTHONHASHSEED=0 /venv/bin/python $out/demo.py >/tmp/seedwork/demo-mut.log 2>&1; rc_mut=$?
/verif/harness/baseline.py $wt > /tmp/seedwork/baseline-$pid.log 2>&1; rc_base=$?
echo "demo clean rc=$rc_clean  demo mutated rc=$rc_mut  baseline-with-change rc=$rc_base"
tail -2 /tmp/seedwork/demo-mut.log
if [ $rc_clean -eq 0 ] && [ $rc_mut -ne 0 ] && [ $rc_base -eq 0 ]; then
  d=/verif/seeded/$name; mkdir -p $d
  git -C $wt diff -- torf > $d/patch.diff
  cp $out/demo.py $d/demo.py; cp $out/notes.md $d/notes.md 2>/dev/null
  python3 - "$pid" "$name" "$needs" <<'PY'
import json,sys
pid,name,needs=sys.argv[1:4]
json.dump({"property":pid,"name":name,"needs_to_manifest":needs,
 "confirmed":{"demo_on_unchanged_tree":"exit 0","demo_with_change":"non-zero","baseline_suite_with_change":"all 6708 stable tests pass (harness/baseline.py)"},
 "detected_by":"see DESIGN.md seeded table"},open(f"/verif/seeded/{name}/meta.json","w"),indent=1)
PY
  echo "KEPT $d"
else
  echo "NOT CONFIRMED"
fi
