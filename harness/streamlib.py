"""Helpers shared by the stream properties (C01 C02 C10 C11 C19 C20): build torrents and
content trees, run the real TorrentFileStream, canonicalise, talk to the model."""
import hashlib
import os

import torf
from torf import _stream
from torf import _errors as terr

from common import parse_sexp, atom_bytes

NAME = 'T'


# how listed files are named: 'plain' = path order equals list order; 'rev' / 'mixed' = the metainfo lists the files in an
# order that differs from the lexicographic path order (torrents made by other clients do that)
NAME_SCHEME = 'plain'


def leaf_of(i):
    if NAME_SCHEME == 'rev':
        return 'r%02d' % (99 - i)
    if NAME_SCHEME == 'mixed':
        return '%s%02d' % ('mfazkb'[i % 6], i)
    return 'f%02d' % i


def relpath_of(i, nested=False):
    if NAME_SCHEME == 'samebase':
        # every file in its own directory, all with one basename
        return ['d%02d' % i, 'same.bin']
    if nested and i % 3 == 1:
        return ['d%d' % (i % 2), leaf_of(i)]
    return [leaf_of(i)]


def make_torrent(sizes, L, nested=False, single=False, hashes=None, name=NAME):
    t = torf.Torrent()
    info = {'name': name, 'piece length': L}
    if single:
        info['length'] = sizes[0]
    else:
        info['files'] = [{'length': s, 'path': relpath_of(i, nested)} for i, s in enumerate(sizes)]
    if hashes is not None:
        info['pieces'] = b''.join(hashes)
    t._metainfo = {'info': info}
    return t


def gen_content(sizes, salt=0):
    """Deterministic, position-dependent content so that any shift is visible."""
    out = []
    pos = 0
    for i, s in enumerate(sizes):
        out.append(bytes(((pos + j) * 7 + (pos + j) // 251 + salt + 1) % 256 for j in range(s)))
        pos += s
    return out


def write_tree(root, contents, nested=False, single=False, name=NAME, skip=()):
    """Write files under root/name/...; returns content path.  skip: file indexes not created."""
    top = os.path.join(root, name)
    if single:
        if 0 not in skip and contents[0] is not None:
            with open(top, 'wb') as f:
                f.write(contents[0])
        return top
    os.makedirs(top, exist_ok=True)
    for i, c in enumerate(contents):
        if i in skip or c is None:
            continue
        p = os.path.join(top, *relpath_of(i, nested))
        os.makedirs(os.path.dirname(p), exist_ok=True)
        with open(p, 'wb') as f:
            f.write(c)
    return top


def sha1(b):
    return hashlib.sha1(b).digest()


def chunks(b, L):
    return [b[i:i + L] for i in range(0, len(b), L)]


class Canon:
    """Maps File objects / paths / exceptions of one torrent to small ids."""

    def __init__(self, torrent, content_path=None, single=False):
        self.t = torrent
        self.files = list(torrent.files)
        self.single = single
        self.cp = str(content_path) if content_path is not None else None
        self.by_rel = {}
        for i, f in enumerate(self.files):
            self.by_rel[tuple(f.parts[1:])] = i

    def fid(self, x):
        """file id of a File / path string (torrent-relative or content-path-relative)."""
        s = str(x)
        if self.single:
            return 0
        if self.cp and (s == self.cp or s.startswith(self.cp + os.sep)):
            rel = tuple(p for p in s[len(self.cp):].split(os.sep) if p)
        else:
            parts = tuple(p for p in s.split(os.sep) if p)
            rel = parts[1:]
        return self.by_rel.get(rel, -1)

    def xitem(self, e):
        if isinstance(e, terr.VerifyFileSizeError):
            return ('size', self.fid(e.filepath))
        if isinstance(e, terr.ReadError):
            return ('missing' if e.errno == 2 else 'read%s' % e.errno, self.fid(e.path))
        return (type(e).__name__, -1)

    def item(self, it):
        piece, filepath, excs = it
        return (None if piece is None else bytes(piece), self.fid(filepath), tuple(self.xitem(e) for e in excs))


def canon_exc(e):
    """Canonical form of an exception raised by the implementation."""
    if isinstance(e, terr.ReadError):
        return ('ReadError', e.errno or 0)
    if isinstance(e, terr.TorfError):
        return (type(e).__name__,)
    return (type(e).__name__,)


MODEL_EXN = {
    'DFileSize': ('VerifyFileSizeError',), 'DContent': ('VerifyContentError',), 'DValue': ('ValueError',),
    'IValue': ('ValueError',), 'IIndex': ('IndexError',), 'IAssert': ('AssertionError',),
    'IZeroDiv': ('ZeroDivisionError',), 'IType': ('TypeError',), 'IKey': ('KeyError',),
    'IOverflow': ('OverflowError',), 'IRecursion': ('RecursionError',), 'IRuntime': ('RuntimeError',),
    'IMemory': ('MemoryError',), 'IAttr': ('AttributeError',), 'IBinascii': ('Error',), 'IUnicode': ('UnicodeDecodeError',),
    'DMetainfo': ('MetainfoError',), 'DBdecode': ('BdecodeError',), 'DMagnet': ('MagnetError',), 'DURL': ('URLError',),
    'DPieceSize': ('PieceSizeError',), 'DPath': ('PathError',), 'DCommonPath': ('CommonPathError',),
    'DWrite': ('WriteError',), 'DIsDir': ('VerifyIsDirectoryError',), 'DNotDir': ('VerifyNotDirectoryError',),
}


def model_exn(x):
    """parsed model exception sexp -> canonical tuple comparable with canon_exc"""
    if isinstance(x, list) and x and x[0] == 'DRead':
        return ('ReadError', int(x[1]))
    return MODEL_EXN.get(x, (str(x),))


def model_res(r, conv):
    """(ok v) / (err e) -> ('ok', conv(v)) / ('err', canon)"""
    if r[0] == 'ok':
        return ('ok', conv(r[1]))
    return ('err', model_exn(r[1]))


def model_item(x):
    p, f, xs = x
    return (None if p == 'none' else atom_bytes(p), int(f), tuple((k, int(i)) for k, i in xs))


def disk_sexp(contents_on_disk):
    """contents_on_disk: dict id -> bytes (existing files)"""
    return [[i, c] for i, c in sorted(contents_on_disk.items())]


def files_sexp(sizes):
    return [[i, s] for i, s in enumerate(sizes)]


def impl_call(fn, *a, **kw):
    try:
        return ('ok', fn(*a, **kw))
    except Exception as e:  # noqa
        return ('err', canon_exc(e))


def open_fd_count(prefix):
    n = 0
    for fd in os.listdir('/proc/self/fd'):
        try:
            if os.readlink('/proc/self/fd/' + fd).startswith(prefix):
                n += 1
        except OSError:
            pass
    return n


def run_history_impl(t, canon, cp, ops, fd_prefix):
    """Run a history of operations on ONE TorrentFileStream.  Returns list of (outcome, open_fds)."""
    tfs = _stream.TorrentFileStream(t, content_path=cp)
    outs = []
    keep = []   # abandoned generators stay referenced (suspended, never resumed)
    try:
        for op in ops:
            if op[0] == 'iter':
                k = op[1]
                items = []
                try:
                    if k != 0:
                        gen = tfs.iter_pieces()
                        keep.append(gen)
                        for n, it in enumerate(gen):
                            items.append(canon.item(it))
                            if k > 0 and n + 1 >= k:
                                break
                    out = ('ok', items)
                except Exception as e:  # noqa
                    out = ('err', canon_exc(e))
            elif op[0] == 'get':
                out = impl_call(tfs.get_piece, op[1])
            elif op[0] == 'verify':
                out = impl_call(tfs.verify_piece, op[1])
            elif op[0] == 'close':
                tfs.close()
                out = ('closed',)
            else:
                raise AssertionError(op)
            outs.append((out, open_fd_count(fd_prefix)))
    finally:
        for g in keep:
            g.close()
        tfs.close()
    return outs


def model_history(r):
    """parsed model response of stream.history -> same shape as run_history_impl"""
    outs = []
    for o, n in r:
        if o == 'closed':
            outs.append((('closed',), int(n)))
        elif o[0] == 'err':
            outs.append((('err', model_exn(o[1])), int(n)))
        else:
            v = o[1]
            if isinstance(v, list):
                outs.append((('ok', [model_item(x) for x in v]), int(n)))
            elif v == 'none':
                outs.append((('ok', None), int(n)))
            elif v in ('t', 'f'):
                outs.append((('ok', v == 't'), int(n)))
            else:
                outs.append((('ok', atom_bytes(v)), int(n)))
    return outs


def exc_site(e):
    """Innermost function of the torf package (or flatbencode) on the traceback of e."""
    import traceback
    site = '?'
    for fr in traceback.extract_tb(e.__traceback__):
        if '/torf/' in fr.filename or 'flatbencode' in fr.filename:
            site = fr.name
    return site


def canon_exc_site(e):
    c = canon_exc(e)
    if isinstance(e, terr.TorfError):
        return c
    return c + ('@' + exc_site(e),)
