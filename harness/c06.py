"""C06 -- the infohash is the SHA-1 of exactly the info bytes that are written."""
import base64
import copy
import datetime
import hashlib
import io
import os

import torf

import metalib as ml
import streamlib as sl
from common import Model, Scratch, atom_bytes


def gen_cases(ck):
    rng = ck.rng
    quick = ck.tier == 'quick'
    out = []
    for i in range(500 if quick else 20000):
        md = ml.valid_meta(rng, exotic_types=True)
        # value types the converter accepts: bool, float, datetime, tuple, (single-element) set, nested
        if rng.random() < 0.6:
            tgt = md if rng.random() < 0.5 else md['info']
            tgt[rng.choice(['b', 'fl', 'when', 'tup', 'zset', 'ñ', '\U0001F600'])] = rng.choice(
                [True, False, 2.0, 7.5, -3.5, datetime.datetime(2001, 2, 3, 4, 5, 6), (1, 'x', b'\xff'), {5}, [True, {'k': 1.0}], {'é': {'a': ()}},
                 [True, False], (1, False, b'p'), [b'raw', 7], [[True]], {'k': [False, 2]}, [2.0, 3], [datetime.datetime(2001, 2, 3, 4, 5, 6), 1], (), [[], [b'']]])
        origin = rng.choice(['direct', 'direct', 'copy', 'reread', 'magnet-filled', 'edited', 'edited-nested'])
        out.append((md, origin))
    return out


def build(md, origin):
    t = ml.make_torrent(md)
    if origin == 'copy':
        t = t.copy()
    elif origin == 'reread':
        try:
            t = torf.Torrent.read_stream(io.BytesIO(t.dump()))
        except torf.TorfError:
            pass
    elif origin == 'magnet-filled':
        # a torrent that came from a magnet link (explicit info hash) and later got its info section
        m = torf.Magnet(xt='urn:btih:' + 'ab' * 20, dn='from magnet')
        t2 = m.torrent()
        t2._metainfo = copy.deepcopy(md)
        t = t2
    elif origin == 'edited-nested':
        # values below the top level of info are changed in place after the hash was asked for
        t.metainfo['info']['x-nested'] = {'a': [1], 'b': {'c': 'd'}}
        try:
            _ = t.infohash, t.infohash_base32, t.magnet()
        except torf.TorfError:
            pass
        info = t.metainfo['info']
        info['x-nested']['a'].append(2)
        info['x-nested']['b']['c'] = 'e'
        for f in info.get('files', []) if isinstance(info.get('files'), list) else []:
            if isinstance(f, dict) and isinstance(f.get('path'), list) and f['path'] and isinstance(f['path'][-1], str):
                f['path'][-1] += '.renamed'
    elif origin == 'edited':
        _ = t.is_ready
        t.metainfo['info']['source'] = 'edited after first hash'
    return t


def check(t, root):
    """returns list of (key, what, observed)"""
    v = []
    try:
        x = t.dump()
        ih = t.infohash
    except torf.MetainfoError:
        return None
    try:
        top, spans = ml.strict_bdecode(x)
    except ml.NotCanonical as e:
        return [('dump-not-canonical', 'dump() is not canonical bencoding: ' + str(e)[:60], x[:200])]
    s, e = spans[b'info']
    want = hashlib.sha1(x[s:e]).hexdigest()
    if ih != want:
        v.append(('infohash-not-sha1-of-span', 'infohash differs from sha1 of the info span in dump()', ih))
    try:
        if t.infohash_base32 != base64.b32encode(bytes.fromhex(want)):
            v.append(('base32-mismatch', 'infohash_base32 differs from base32(sha1(info span))', repr(t.infohash_base32)))
    except Exception as ex:  # noqa
        v.append(('base32-raises', repr(ex)[:80], ''))
    try:
        mg = t.magnet()
        if mg.infohash.lower() != want or ('urn:btih:' + want) not in str(mg):
            v.append(('magnet-hash-mismatch', 'magnet link carries a different hash', str(mg)[:120]))
    except torf.URLError:
        pass
    p = os.path.join(root, 'o.torrent')
    t.write(p, overwrite=True)
    if open(p, 'rb').read() != x:
        v.append(('written-file-differs-from-dump', 'written file differs from dump()', ''))
    s2 = io.BytesIO()
    t.write_stream(s2)
    if s2.getvalue() != x:
        v.append(('write_stream-differs-from-dump', 'write_stream output differs from dump()', ''))
    return v


def run(ck, model_ok):
    ck.rule = ('exportable metainfo (valid torrents + extra fields of every value type the converter accepts: str, bytes, int, bool, float, datetime, tuple, '
               'set, nested lists/dicts, non-ASCII keys) held by Torrent objects of different origins (direct, copy(), re-read, created by Magnet.torrent() and '
               'later given an info section, edited after a first infohash at the top level of info or in place inside nested values); oracle: independent strict parser locates the info span in dump(), its sha1 == '
               'infohash == base32 == magnet hash, written file == dump(), dump() canonical; model: dump and hashed bytes compared; non-trivial = distinct cases')
    m = Model()
    pend = []
    with Scratch() as root:
        for ci, (md, origin) in enumerate(gen_cases(ck)):
            t = build(md, origin)
            ck.case((ml.canon(md), origin))
            ck.count('origin:' + origin)
            case = {'md': ml.safe_repr(md), 'origin': origin}
            v = check(t, root)
            if v is None:
                ck.count('not-exportable')
                continue
            for key, what, obs in v:
                ck.fail('oracle', key, case, 'sha1(info span)', str(obs)[:200], what)
            if model_ok and ml.modelable(t._metainfo):
                w = ml.to_wire(t._metainfo)
                pend.append((case, t.dump(), t.infohash, m.add(['meta.dump', 'none', True, w]), m.add(['meta.infohash_input', 'none', w])))
            if ci < 2:
                ck.sample({'origin': origin, 'md': case['md'][:200]})
    if model_ok:
        out = m.run()
        for case, x, ih, i1, i2 in pend:
            ck.ties += 1
            md_ = sl.model_res(out[i1], atom_bytes)
            mi = sl.model_res(out[i2], atom_bytes)
            if md_ != ('ok', x) or mi[0] != 'ok' or hashlib.sha1(mi[1]).hexdigest() != ih:
                if case['origin'] == 'magnet-filled' and md_ == ('ok', x):
                    pass
                ck.fail('tie', 'dump/infohash', case, repr(md_)[:200], x.hex()[:200], 'model and implementation disagree')


def replay(rp):
    md = ml.eval_repr(rp['case']['md'])
    with Scratch() as root:
        v = check(build(md, rp['case']['origin']), root)
    return not v, v or 'infohash == sha1(info span)'
