"""C09 -- piece hashes never outlive the content layout they were computed for."""
import os
import shutil

import torf

import streamlib as sl
from common import Model, Scratch

K = 1024
SIZES = [16 * K, 32 * K, 48 * K, 64 * K, 128 * K]
BAD_SIZES = [1000, 16385, 0, -16384, 3 * 16384 + 1]


def make_tree(root, rng, sizes=None):
    top = os.path.join(root, 'Tree')
    os.makedirs(os.path.join(top, 'sub'))
    files = {}
    # small trees: few pieces, so that different piece lengths often give the same number of pieces
    small = rng.random() < 0.3
    for i in range(rng.randint(3, 6) if sizes is None else len(sizes)):
        rel = ('sub/' if i % 3 == 2 else '') + 'f%d.%s' % (i, rng.choice(['bin', 'txt', 'jpg']))
        size = rng.choice([10 * K, 20 * K, 30 * K, 17] if small else [10 * K, 30 * K, 70 * K, 100 * K, 150 * K, 300 * K, 17])
        if sizes is not None:
            size = sizes[i]
        with open(os.path.join(top, rel), 'wb') as f:
            f.write(bytes((i * 31 + j * 7) % 251 for j in range(size)))
        files[rel] = size
    return top, files


def gen_history(rng, files):
    ops = [('path',)]
    names = sorted(files)
    for _ in range(rng.randint(4, 20)):
        r = rng.random()
        if r < 0.18:
            ops.append(('generate',))
        elif r < 0.34:
            ops.append(('piece_size', rng.choice(SIZES + SIZES + [None] + BAD_SIZES)))
        elif r < 0.46:
            ops.append(('min', rng.choice(SIZES + [None, 1000, 32 * K * K])))
        elif r < 0.58:
            ops.append(('max', rng.choice(SIZES + [None, 1000, 64 * K * K])))
        elif r < 0.66:
            ops.append(('exclude', rng.choice(['*.bin', '*.txt', '*f1*', '*sub*', 'nomatch'])))
        elif r < 0.70:
            ops.append(('clear-filters',))
        elif r < 0.76:
            ops.append(('include', rng.choice(['*.bin', '*f0*'])))
        elif r < 0.82:
            ops.append(('remove-file', rng.choice(names)))
        elif r < 0.86:
            ops.append(('path',))
        elif r < 0.90:
            ops.append(('filepaths-remove', rng.choice(names)))
        elif r < 0.925:
            ops.append(('other', rng.choice(['name', 'comment', 'private', 'trackers'])))
        elif r < 0.945:
            ops.append(('exclude-regex', rng.choice([r'\.jpg$', r'f1', r'^nomatch$', r'sub/'])))
        elif r < 0.96:
            # a filter-list operation that fails half-way: the valid pattern is added, the invalid one raises; the same list is used again later
            ops.append(('exclude-regex-extend-bad', rng.choice([r'\.jpg$', r'\.bin$', r'^nomatch$'])))
            ops.append(rng.choice([('exclude-regex', r'\.txt$'), ('exclude-regex-clear',), ('exclude-regex', r'f0')]))
        elif r < 0.97:
            ops.append(('exclude-regex-clear',))
        elif r < 0.985:
            # a listed file changes its size on disk (same paths; the piece length usually stays the same), then the content is looked at again
            ops.append(('grow', rng.choice(names), rng.choice([1, 100, 3000, 20000])))
            ops.append(rng.choice([('path',), ('exclude', 'nomatch'), ('same-filters',), ('include', '*f0*')]))
        else:
            ops.append(('same-filters',))
    return ops


def snapshot(t):
    info = t.metainfo['info']
    return (t.size, info.get('piece length'), 'pieces' in info, t.piece_size_min, t.piece_size_max)


def layout_key(t):
    info = t.metainfo['info']
    if 'files' in info:
        return ('multi', tuple((tuple(f['path']), f['length']) for f in info['files']), info.get('name'))
    if 'length' in info:
        return ('single', info['length'], info.get('name'))
    return ('none',)


def filters_key(t):
    return (tuple(t.exclude_globs), tuple(r.pattern for r in t.exclude_regexs), tuple(t.include_globs), tuple(r.pattern for r in t.include_regexs))


def run_impl(top, ops):
    t = torf.Torrent()
    out = []
    tag = None          # (layout, piece length, filters) the present hashes were generated for
    edited = False      # the file list was edited directly (files / filepaths removal) since the last path assignment
    for op in ops:
        before = layout_key(t)
        did_layout = op[0] in ('path', 'exclude', 'include', 'clear-filters', 'same-filters', 'exclude-regex', 'exclude-regex-extend-bad', 'exclude-regex-clear')
        try:
            k = op[0]
            if k == 'path':
                t.path = top
            elif k == 'generate':
                t.generate(threads=1)
            elif k == 'piece_size':
                t.piece_size = op[1]
            elif k == 'min':
                t.piece_size_min = op[1]
            elif k == 'max':
                t.piece_size_max = op[1]
            elif k == 'exclude':
                t.exclude_globs.append(op[1])
            elif k == 'include':
                t.include_globs.append(op[1])
            elif k == 'exclude-regex':
                t.exclude_regexs.append(op[1])
            elif k == 'exclude-regex-extend-bad':
                t.exclude_regexs.extend([op[1], '[unclosed'])
            elif k == 'exclude-regex-clear':
                t.exclude_regexs.clear()
            elif k == 'clear-filters':
                t.exclude_globs = ()
                t.include_globs = ()
            elif k == 'same-filters':
                t.exclude_globs = list(t.exclude_globs)
            elif k == 'remove-file':
                match = [f for f in t.files if str(f).endswith(op[1])]
                if match:
                    did_layout = True
                    t.files.remove(match[0])
            elif k == 'filepaths-remove':
                match = [f for f in t.filepaths if str(f).endswith(op[1])]
                if match:
                    did_layout = True
                    t.filepaths.remove(match[0])
            elif k == 'grow':
                p = os.path.join(top, op[1])
                if os.path.exists(p):
                    with open(p, 'ab') as f:
                        f.write(b'\x5a' * op[2])
            elif k == 'other':
                if op[1] == 'name':
                    pass   # renaming changes the layout identity used by verify(); not a hash-relevant change of files
                elif op[1] == 'comment':
                    t.comment = 'x'
                elif op[1] == 'private':
                    t.private = not t.private
                else:
                    t.trackers = ['http://a.b/announce']
            res = ('ok',)
        except Exception as e:  # noqa
            res = ('err', sl.canon_exc(e))
        if op[0] == 'generate' and res == ('ok',) and 'pieces' in t.metainfo['info']:
            tag = (layout_key(t), t.metainfo['info'].get('piece length'), filters_key(t))
        viol = None
        info = t.metainfo['info']
        if 'pieces' in info:
            if tag is None or tag != (layout_key(t), info.get('piece length'), filters_key(t)):
                viol = ('stale-pieces', f'pieces present after {op} although layout / piece length / filters changed since hashing')
        if op[0] in ('remove-file', 'filepaths-remove') and did_layout:
            edited = True
        elif op[0] == 'path' and res == ('ok',):
            edited = False
        if viol is None and t.path is not None and not edited:
            # the file list is a function of the path and the current filters: compare with a fresh object
            try:
                fresh = torf.Torrent(path=t.path, exclude_globs=list(t.exclude_globs), exclude_regexs=[r.pattern for r in t.exclude_regexs],
                                     include_globs=list(t.include_globs), include_regexs=[r.pattern for r in t.include_regexs])
                if [str(f) for f in fresh.files] != [str(f) for f in t.files]:
                    viol = ('filters-not-applied', f'after {op} the file list {[str(f) for f in t.files]} is not what path + filters {filters_key(t)} give: {[str(f) for f in fresh.files]}')
            except torf.TorfError:
                pass
        pl = info.get('piece length')
        if viol is None and t.piece_size_min > t.piece_size_max:
            viol = ('min-greater-than-max', f'piece_size_min {t.piece_size_min} > piece_size_max {t.piece_size_max} after {op}')
        if viol is None and pl is not None:
            if pl <= 0 or pl % 16384 or not (t.piece_size_min <= pl <= t.piece_size_max):
                viol = ('piece-length-out-of-bounds', f'piece length {pl} vs bounds {t.piece_size_min}..{t.piece_size_max} after {op}')
        if viol is None:
            listed = sum(f.size for f in t.files)
            if t.size != listed or (t.mode == 'multifile') != ('files' in info) or (t.mode == 'singlefile') != ('length' in info):
                viol = ('size-or-mode-incoherent', f'size {t.size} vs listed {listed}, mode {t.mode}')
            elif pl and t.size and t.pieces != -(-t.size // pl):
                viol = ('piece-count', f'pieces {t.pieces} vs ceil({t.size}/{pl})')
        if viol is None and 'pieces' in info and t.path is not None and op[0] in ('generate', 'piece_size', 'min', 'max', 'other'):
            try:
                if t.is_ready and not t.verify(t.path, threads=1):
                    viol = ('ready-but-verify-false', 'is_ready but verify() returned False')
            except torf.TorfError as e:
                viol = ('ready-but-verify-raises', f'is_ready but verify() raised {type(e).__name__}')
        out.append((res, snapshot(t), viol, did_layout,
                    t.path is not None, None if tag is None else (hash(tag[0]), tag[1])))
    return out


def classify(op, viol):
    if viol[0] in ('min-greater-than-max', 'piece-length-out-of-bounds') and op[0] in ('min', 'max') and op[1] is None:
        return 'bound-reset-to-default:' + viol[0]
    return viol[0]


def run(ck, model_ok):
    ck.rule = ('random attribute histories (5..21 ops) on real trees (3..6 files, 17 B..300 KiB, one sub-directory): path, generate, piece_size (valid, None, '
               'invalid), piece_size_min/max (valid, None, invalid), exclude/include globs appended or re-assigned, files / filepaths removal, unrelated '
               'setters; after EVERY op the oracle checks: hashes present only for the layout and piece length they were generated for, piece length a '
               'multiple of 16 KiB within min..max, min <= max, size/mode/piece count coherent, and ready => verify(path) succeeds; a listed file growing on disk followed by a content setter; model compared on '
               '(size, piece length, pieces present, min, max) and outcome class; non-trivial = distinct histories')
    m = Model()
    pend = []
    n = 60 if ck.tier == 'quick' else 2500
    with Scratch() as root:
        for hi in range(n):
            d = os.path.join(root, 'h')
            os.makedirs(d)
            top, files = make_tree(d, ck.rng, sizes=[30 * K, 20 * K, 17] if hi == 3 else None)
            ops = gen_history(ck.rng, files)
            if hi == 0:
                ops = [('path',), ('piece_size', 48 * K), ('generate',), ('piece_size', 64 * K), ('generate',), ('min', 128 * K)]
            if hi == 1:
                ops = [('max', 64 * K * K), ('min', 32 * K * K), ('max', None), ('path',)]
            if hi == 2:
                ops = [('path',), ('max', 64 * K * K), ('min', 32 * K * K), ('generate',), ('max', None), ('exclude', '*f1*'), ('generate',)]
            if hi == 3:
                # 50 KiB: 32 KiB and 48 KiB pieces both give two pieces
                ops = [('path',), ('piece_size', 32 * K), ('generate',), ('piece_size', 48 * K), ('piece_size', 32 * K), ('generate',), ('min', 48 * K)]
            out = run_impl(top, ops)
            shutil.rmtree(d)
            ck.case(tuple(map(repr, ops)))
            case = {'files': files, 'ops': [list(o) for o in ops]}
            tainted = False    # a known finding (bounds reset to defaults) put the object into an incoherent state
            for op, (res, snap, viol, _, _, _) in zip(ops, out):
                ck.count('op:' + op[0])
                if res[0] == 'err':
                    ck.count('outcome:' + res[1][0])
                if viol:
                    key = classify(op, viol)
                    if tainted and viol[0] != 'stale-pieces':
                        continue           # consequence of the known incoherent bounds; stale hashes are still reported
                    ck.fail('oracle', key, dict(case, at=list(op)), 'C09 invariant', viol[1][:300], viol[1][:200])
                    if key.startswith('bound-reset-to-default') and (ck.prop, key) in ck.known:
                        tainted = True
                        continue
                    break
            if model_ok:
                mops = []
                lid = 0
                for op, (res, snap, viol, layout_op, haspath, _) in zip(ops, out):
                    k = op[0]
                    if layout_op:
                        lid += 1
                        mops.append(['layout', snap[0], lid, haspath])
                    elif k == 'generate':
                        mops.append(['generate'])
                    elif k == 'piece_size':
                        mops.append(['piece_size', 'none' if op[1] is None else op[1]])
                    elif k in ('min', 'max'):
                        mops.append([k, 'none' if op[1] is None else op[1]])
                    else:
                        mops.append(['other'])
                pend.append((case, ops, out, m.add(['attr.run', mops])))
            if hi < 2:
                ck.sample(case)
    if model_ok:
        res = m.run()
        for case, ops, out, idx in pend:
            ck.ties += 1
            for j, (op, (r, snap, viol, layout_op, _, _)) in enumerate(zip(ops, out)):
                mr, ms = res[idx][j]
                mres = sl.model_res(mr, lambda v: None)
                msnap = (int(ms[0]), None if ms[1] == 'none' else int(ms[1]), ms[2] != 'none', int(ms[3]), int(ms[4]))
                rr = ('ok', None) if r[0] == 'ok' else ('err', r[1][:1])
                if layout_op and r[0] == 'err' and r[1][0] in ('ReadError', 'PathError', 'CommonPathError', 'ValueError', 'error'):
                    break    # the file-list operation itself failed before _set_files: outside this model
                if mres == ('err', ('IOther',)):
                    break
                if (mres[0] != rr[0]) or (mres[0] == 'err' and mres[1] != rr[1]) or msnap != snap:
                    ck.fail('tie', op[0], dict(case, at=j), repr((mres, msnap)), repr((rr, snap)), 'model and implementation disagree')
                    break
        # calculate_piece_size against the implementation (float log2 / pow)
        m2 = Model()
        sizes = []
        for e in range(10, 46):
            for mp in (512, 1024, 1536, 2048):
                for d in (-1, 0, 1):
                    sizes.append(mp * 2 ** e + d)
        sizes += [1, 2, 1000, 2 ** 30, 2 ** 30 + 1, 8 * 2 ** 30, 8 * 2 ** 30 + 1, 16 * 2 ** 30, 16 * 2 ** 30 + 1]
        sizes = [z for z in sizes if z > 0]
        ids = [m2.add(['attr.calc', z, 16384, 16777216]) for z in sizes] + [m2.add(['attr.calc', z, 32768, 64 * K * K]) for z in sizes]
        o2 = m2.run()
        for z, i in zip(sizes + sizes, ids):
            lo, hi = (16384, 16777216) if i < len(sizes) else (32768, 64 * K * K)
            ck.ties += 1
            if int(o2[i]) != torf.Torrent.calculate_piece_size(z, lo, hi):
                ck.fail('tie', 'calculate_piece_size', {'size': z, 'lo': lo, 'hi': hi}, o2[i], torf.Torrent.calculate_piece_size(z, lo, hi),
                        'model (integer) and implementation (float log2) disagree')
    ck.notes += ['the file layout is abstracted to (identity, total size) in the model; which files a filter selects is C15\'s subject',
                 'content on disk changes only through the explicit grow operation (a listed file gets longer)']


def replay(rp):
    c = rp['case']
    with Scratch() as root:
        top = os.path.join(root, 'Tree')
        os.makedirs(os.path.join(top, 'sub'))
        for rel, size in c['files'].items():
            i = int(''.join(ch for ch in os.path.basename(rel) if ch.isdigit()) or 0)
            with open(os.path.join(top, rel), 'wb') as f:
                f.write(bytes((i * 31 + j * 7) % 251 for j in range(size)))
        ops = [tuple(o) for o in c['ops']]
        out = run_impl(top, ops)
    for op, (res, snap, viol, _, _, _) in zip(ops, out):
        if viol:
            return False, {'at': list(op), 'violation': viol}
    return True, 'invariant holds after every operation'
