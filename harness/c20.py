"""C20 -- the file-size check is exact and never disagrees with full verification."""
import os
import shutil

import torf

import streamlib as sl
from common import Model, Scratch

L = 16384


def gen_cases(ck):
    quick = ck.tier == 'quick'
    rng = ck.rng
    out = []
    for _ in range(300 if quick else 6000):
        single = rng.random() < 0.2
        nf = 1 if single else rng.choice([1, 2, 3, 4, 6])
        sizes = tuple(rng.choice([0, 1, 5, 100, 1000, 16384, 16385]) for _ in range(nf))
        if sum(sizes) == 0:
            sizes = sizes[:-1] + (7,)
        damage = {}
        if rng.random() < 0.7:
            for i in rng.sample(range(nf), rng.randint(1, nf)):
                damage[i] = rng.choice(['missing', 'short', 'long'])
        kind = rng.choice(['file', 'file', 'file', 'single-at-dir'] if single else ['file', 'file', 'file', 'multi-at-file', 'extra'])
        cb = rng.choice([None, 0, 0] + list(range(1, nf + 1)))
        # object history: the same Torrent object has already checked this path, then one recorded length is edited in place
        pre = None
        if kind in ('file', 'extra') and rng.random() < 0.3:
            pre = (rng.randrange(nf), rng.choice([1, -1, 1000]))
        names = rng.choice(['plain', 'plain', 'samebase'])
        out.append((sizes, single, damage, kind, cb, pre, names))
    return out


def build(root, sizes, single, damage, kind):
    contents = sl.gen_content(sizes)
    stream = b''.join(contents)
    hashes = [sl.sha1(c) for c in sl.chunks(stream, L)]
    t = sl.make_torrent(sizes, L, single=single, hashes=hashes)
    on_disk = []
    for i, c in enumerate(contents):
        d = damage.get(i)
        on_disk.append(None if d == 'missing' else c[:-1] if d == 'short' else c + b'x' if d == 'long' else c)
    if kind == 'single-at-dir':
        cp = os.path.join(root, sl.NAME)
        os.makedirs(os.path.join(cp, 'sub'))
    elif kind == 'multi-at-file':
        cp = os.path.join(root, sl.NAME)
        open(cp, 'wb').write(b'i am a file')
    else:
        cp = sl.write_tree(root, on_disk, single=single)
        if kind == 'extra' and not single:
            open(os.path.join(cp, 'extra-file'), 'wb').write(b'extra')
    return t, cp, on_disk


def apply_pre(t, cp, sizes, single, pre):
    """-> the recorded sizes after the history"""
    if pre is None:
        return tuple(sizes)
    try:
        t.verify_filesize(cp, callback=lambda *a: None)
    except Exception:  # noqa
        pass
    i, delta = pre
    new = max(0, sizes[i] + delta)
    if -(-(sum(sizes) - sizes[i] + new) // L) != -(-sum(sizes) // L) or sum(sizes) - sizes[i] + new == 0:
        return tuple(sizes)          # the edit would invalidate the torrent (piece count): keep the lengths (validate() must pass, see level_note)
    info = t.metainfo['info']
    if single:
        info['length'] = new
    else:
        info['files'][i]['length'] = new
    return tuple(new if k == i else s for k, s in enumerate(sizes))


def run_impl(t, cp, cb):
    calls = []
    files = list(t.files)

    def callback(torrent, fs_path, t_path, done, total, exc):
        idx = files.index(t_path)
        kind = None if exc is None else {'ReadError': 'enoent', 'VerifyFileSizeError': 'size', 'VerifyIsDirectoryError': 'isdir'}.get(type(exc).__name__, type(exc).__name__)
        calls.append((idx, done, kind, torrent is t, total))
        if cb and len(calls) == cb:
            return 'stop'
        return None
    try:
        r = t.verify_filesize(cp, callback=None if cb is None else callback)
        res = ('ret', r)
    except Exception as e:  # noqa
        res = ('raise', {'ReadError': 'enoent', 'VerifyFileSizeError': 'size', 'VerifyIsDirectoryError': 'isdir'}.get(type(e).__name__, type(e).__name__),
               getattr(e, 'errno', None))
    return res, calls


def oracle(sizes, kind, on_disk, cb, res, calls):
    """direct statement of C20"""
    n = len(sizes)
    if kind == 'single-at-dir':
        offending = [0]
    elif kind == 'multi-at-file':
        offending = list(range(n))
    else:
        offending = [i for i in range(n) if on_disk[i] is None or len(on_disk[i]) != sizes[i]]
    if cb is None:
        if not offending:
            if res != ('ret', True):
                return 'true-expected', f'all files match but result is {res}'
        else:
            if res[0] != 'raise' or res[1] not in ('enoent', 'size', 'isdir'):
                return 'error-expected', f'offending files {offending} but result is {res}'
        return None
    if any(not c[3] or c[4] != n for c in calls):
        return 'callback-args', 'callback did not receive the torrent / the number of files'
    if kind == 'single-at-dir':
        if res != ('ret', False) or len(calls) != 1 or calls[0][2] != 'isdir':
            return 'single-at-dir', f'{res} {calls}'
        return None
    exp_calls = n if cb == 0 else cb
    if len(calls) != exp_calls or [c[0] for c in calls] != list(range(exp_calls)) or [c[1] for c in calls] != list(range(1, exp_calls + 1)):
        return 'callback-sequence', f'expected one call per listed file in order (up to the cancelling call), got {calls}'
    for c in calls:
        if (c[2] is not None) != (c[0] in offending):
            return 'callback-error-flag', f'call {c} but offending={offending}'
    if cb == 0:
        if res != ('ret', not offending):
            return 'wrong-result', f'offending={offending} result={res}'
    elif res != ('ret', False):
        return 'cancel-result', f'cancelled at call {cb} but result is {res}'
    return None


def run(ck, model_ok):
    ck.rule = ('layouts (1..6 files, single- and multi-file; file names distinct, or one basename in different directories) x subsets of files missing / one byte short / one byte long x content path shapes (matching tree, extra '
               'files present, single-file torrent at a directory, multi-file torrent at a file) x callback absent / passive / cancelling at each file x object history (fresh, or '
               'a recorded length edited in place after a first check on the same object); oracle: '
               'True iff all listed files have the recorded size, otherwise read/size error raised or reported per offending file, one call per listed file in '
               'order; whenever full verify() succeeds the size check succeeds; model compared; non-trivial = distinct cases')
    m = Model()
    pend = []
    with Scratch() as root:
        for ci, (sizes, single, damage, kind, cb, pre, names) in enumerate(gen_cases(ck)):
            sl.NAME_SCHEME = names
            d = os.path.join(root, 'c')
            os.makedirs(d)
            t, cp, on_disk = build(d, sizes, single, damage, kind)
            orig_sizes = sizes
            sizes = apply_pre(t, cp, sizes, single, pre)
            res, calls = run_impl(t, cp, cb)
            ck.case((orig_sizes, single, tuple(sorted(damage.items())), kind, cb, pre, names))
            ck.count('names:' + names)
            if pre is not None:
                ck.count('history:edited-after-a-first-check')
            ck.count('kind:' + kind)
            ck.count('cb:' + ('none' if cb is None else 'passive' if cb == 0 else 'cancel'))
            case = {'sizes': list(orig_sizes), 'single': single, 'damage': {str(k): v for k, v in damage.items()}, 'kind': kind, 'cb': cb, 'pre': pre, 'names': names}
            v = oracle(sizes, kind, on_disk, cb, res, calls)
            if v:
                ck.fail('oracle', v[0], case, 'C20', v[1][:300], v[1][:200])
            # agreement with full verification
            if kind in ('file', 'extra') and pre is None:
                try:
                    full = t.verify(cp, threads=1)
                except Exception:  # noqa -- only a successful verify() matters here (IndexError on damaged zero-length entries: known C02 finding)
                    full = False
                if full and res != ('ret', True) and cb in (None, 0):
                    ck.fail('oracle', 'verify-ok-but-filesize-fails', case, True, repr(res), 'verify() succeeds but verify_filesize() does not')
            shutil.rmtree(d)
            sl.NAME_SCHEME = 'plain'
            if model_ok:
                if kind == 'multi-at-file':
                    disk = ['missing'] * len(sizes)
                else:
                    disk = ['missing' if c is None else len(c) for c in on_disk]
                pend.append((case, res, calls, m.add(['filesize.verify', 'none' if cb is None else cb, kind == 'single-at-dir', list(sizes), disk])))
            if ci < 3:
                ck.sample(dict(case, result=repr(res), calls=len(calls)))
    if model_ok:
        out = m.run()
        for case, res, calls, idx in pend:
            ck.ties += 1
            r, mc = out[idx]
            mres = ('ret', r[1] == 't') if r[0] == 'ret' else ('raise', r[1])
            mcalls = [(int(c[0]), int(c[1]), None if c[2] == 'none' else c[2]) for c in mc]
            ires = res[:2]
            if mres != ires or mcalls != [c[:3] for c in calls]:
                ck.fail('tie', 'verify_filesize', case, repr((mres, mcalls))[:300], repr((ires, calls))[:300], 'model and implementation disagree')


def replay(rp):
    c = rp['case']
    sl.NAME_SCHEME = c.get('names', 'plain')
    with Scratch() as root:
        t, cp, on_disk = build(root, tuple(c['sizes']), c['single'], {int(k): v for k, v in c['damage'].items()}, c['kind'])
        sizes = apply_pre(t, cp, tuple(c['sizes']), c['single'], tuple(c['pre']) if c.get('pre') else None)
        res, calls = run_impl(t, cp, c['cb'])
        v = oracle(sizes, c['kind'], on_disk, c['cb'], res, calls)
    return v is None, v or 'exact'
