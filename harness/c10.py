"""C10 -- missing or mis-sized files never shift later pieces."""
import itertools
import os
import shutil

import streamlib as sl
from c19 import build
from common import Model, Scratch

KINDS = ('missing', 'short', 'long')


def gen_cases(ck):
    quick = ck.tier == 'quick'
    cases = []
    corpus = [
        ((3, 3, 3), 4, {1: 'missing'}), ((4, 4), 4, {0: 'missing'}), ((4, 4), 4, {1: 'long'}),
        ((1, 1, 1, 1, 9), 4, {0: 'missing', 2: 'short'}), ((6, 1, 5), 4, {0: 'missing', 1: 'missing'}),
        ((2, 0, 6), 4, {1: 'missing'}), ((4, 0, 4), 4, {1: 'missing'}), ((5, 0, 3), 4, {0: 'missing', 1: 'missing'}),
        ((9, 2), 4, {1: 'missing'}), ((1, 9), 4, {0: 'long'}), ((3, 1, 1, 1, 6), 4, {0: 'short'}),
        ((8, 8), 4, {0: 'missing', 1: 'missing'}), ((2, 2, 2, 2, 2, 2), 4, {1: 'missing', 4: 'long'}),
    ]
    cases += corpus
    if quick:
        n = 2500
    else:
        n = 40000
        L = 4
        for nf in (1, 2, 3):
            for sizes in itertools.product(range(0, 7), repeat=nf):
                if sum(sizes) == 0:
                    continue
                for dm in itertools.product((None,) + KINDS, repeat=nf):
                    damage = {i: k for i, k in enumerate(dm) if k and not (k == 'short' and sizes[i] == 0)}
                    if damage:
                        cases.append((sizes, L, damage))
    for _ in range(n):
        L = ck.rng.choice([1, 2, 3, 4, 4, 4, 5, 8])
        nf = ck.rng.choice([1, 2, 3, 3, 4, 4, 5, 6, 8, 14, 30])
        zero_ok = ck.rng.random() < 0.25
        pool = [1, 1, 2, L - 1 or 1, L, L, L + 1, 2 * L, 2 * L + 1, 3 * L - 1] + ([0] if zero_ok else [])
        sizes = tuple(ck.rng.choice(pool) for _ in range(nf))
        if sum(sizes) == 0:
            continue
        damage = {}
        nb = ck.rng.choice([1, 1, 1, 2, 2, 3, nf])
        for i in ck.rng.sample(range(nf), min(nb, nf)):
            k = ck.rng.choice(KINDS)
            if k == 'short' and sizes[i] == 0:
                k = 'missing'
            damage[i] = k
        cases.append((sizes, L, damage))
    return cases


def spec_check(sizes, L, damage, contents, items):
    """Check the yielded items against the property; returns None or (key, what)."""
    total = sum(sizes)
    npieces = -(-total // L)
    offs = [0]
    for s in sizes:
        offs.append(offs[-1] + s)
    stream = b''.join(contents)
    if len(items) != npieces:
        return ('item-count', f'{len(items)} items for {npieces} pieces')
    bad_pos = [i for i in damage if sizes[i] > 0]
    for p, (piece, fid, xs) in enumerate(items):
        a, b = p * L, min((p + 1) * L, total) - 1
        spoiled = any(offs[i] <= b and a < offs[i] + sizes[i] for i in bad_pos)
        zero_bad_here = any(sizes[i] == 0 and a <= offs[i] <= b + 1 for i in damage)
        if spoiled:
            if piece is not None:
                return ('data-in-spoiled-piece', f'piece {p} overlaps a bad file but carries data')
        elif piece is None:
            if not zero_bad_here:
                return ('clean-piece-without-data', f'piece {p} overlaps no bad file but carries no data')
        elif piece != stream[a:b + 1]:
            return ('wrong-bytes', f'piece {p} carries wrong bytes')
    reported = [x for (_, _, xs) in items for x in xs]
    want = sorted(('missing' if k == 'missing' else 'size', i) for i, k in damage.items())
    if sorted(reported) != want:
        return ('bad-file-reporting', f'reported {sorted(reported)} expected {want}')
    return None


def classify(sizes, damage, got, viol):
    zero_bad = any(sizes[i] == 0 for i in damage)
    if zero_bad:
        if got[0] == 'err':
            return f'zero-length-bad-entry:{got[1][0]}'
        return f'zero-length-bad-entry:{viol[0]}'
    if got[0] == 'err':
        return f'raises:{got[1][0]}'
    return viol[0]


def run(ck, model_ok):
    ck.rule = ('layouts (1..30 files, sizes around multiples of L incl. 1-byte and (25%) zero-length entries) x subsets of files missing / one byte '
               'short / one byte long; the real iter_pieces() runs on real files; oracle: one item per piece, clean pieces carry the exact bytes, '
               'spoiled pieces carry None, each bad file reported exactly once; non-trivial = distinct (layout, damage) with >= 1 bad file')
    m = Model()
    pend = []
    cases = gen_cases(ck)
    with Scratch() as root:
        for ci, (sizes, L, damage) in enumerate(cases):
            d = os.path.join(root, 'c')
            os.makedirs(d)
            sl.NAME_SCHEME = names = ('plain', 'rev', 'mixed', 'plain')[ci % 4]
            t, cp, on_disk, good_chunks = build(d, sizes, L, damage)
            canon = sl.Canon(t, content_path=cp)
            # a third of the cases iterate a stream object that has been used before (handles of some files,
            # good or bad, are already cached by get_piece / verify_piece)
            warm = []
            if ci % 3 == 2:
                npieces = -(-sum(sizes) // L)
                warm = [(ck.rng.choice(['get', 'verify']), ck.rng.randrange(npieces)) for _ in range(ck.rng.randint(1, 4))]
            got = sl.run_history_impl(t, canon, cp, warm + [('iter', -1)], cp)[-1][0]
            shutil.rmtree(d)
            contents = sl.gen_content(sizes)
            ck.case((sizes, L, tuple(sorted(damage.items()))))
            ck.count('bad-files:%d' % min(len(damage), 4))
            if any(s == 0 for s in sizes):
                ck.count('has-zero-length-entry')
            viol = None
            if got[0] == 'err':
                viol = ('raises', f'iter_pieces raised {got[1]}')
            else:
                viol = spec_check(sizes, L, damage, contents, got[1])
            case = {'sizes': list(sizes), 'L': L, 'damage': {str(k): v for k, v in damage.items()}, 'warm': [list(o) for o in warm], 'names': names}
            ck.count('names:' + names)
            if viol and not model_ok:
                ck.fail('oracle', 'new:' + classify(sizes, damage, got, viol), case, 'spec_items', repr(got)[:600], viol[1])
            if model_ok:
                if warm:
                    ck.count('warm-stream')
                    req = ['stream.history', sl.disk_sexp(on_disk), sl.files_sexp(sizes), L, list(good_chunks), [list(o) for o in warm] + [['iter', -1]]]
                else:
                    req = ['stream.iter_pieces', sl.disk_sexp(on_disk), sl.files_sexp(sizes), L]
                pend.append((sizes, L, damage, got, viol, m.add(req), bool(warm), warm, names))
            if ci < 3:
                ck.sample({**case, 'items': repr(got)[:300]})
        if model_ok:
            res = m.run()
            for (sizes, L, damage, got, viol, idx, is_warm, warm, names) in pend:
                if is_warm:
                    mr = sl.model_history(res[idx])[-1][0]
                else:
                    mr = sl.model_res(res[idx], lambda v: [sl.model_item(x) for x in v])
                ck.ties += 1
                case = {'sizes': list(sizes), 'L': L, 'damage': {str(k): v for k, v in damage.items()}, 'warm': [list(o) for o in warm], 'names': names}
                if mr != got:
                    ck.fail('tie', 'iter_pieces', case, repr(mr)[:600], repr(got)[:600], 'model and implementation disagree')
                if viol:
                    key = classify(sizes, damage, got, viol)
                    if mr != got:
                        key = 'new:' + key
                    ck.fail('oracle', key, case, 'spec_items', repr(got)[:600], viol[1])
    sl.NAME_SCHEME = 'plain'
    # the same stream object walked again after a damaged file was repaired / the file list was edited (oracle: a fresh object)
    import c19
    c19.run_changing(ck)
    ck.notes += ['content on disk does not change during the iteration', 'plain path components; half of the cases list the files in an order that is not the path order']


def replay(rp):
    c = rp['case']
    if c.get('changing'):
        import c19
        return c19.replay_changing(c)
    sizes, L = tuple(c['sizes']), c['L']
    damage = {int(k): v for k, v in c['damage'].items()}
    sl.NAME_SCHEME = c.get('names', 'plain')
    with Scratch() as root:
        t, cp, on_disk, _ = build(root, sizes, L, damage)
        canon = sl.Canon(t, content_path=cp)
        got = sl.run_history_impl(t, canon, cp, [tuple(o) for o in c.get('warm', [])] + [('iter', -1)], cp)[-1][0]
    sl.NAME_SCHEME = 'plain'
    if got[0] == 'err':
        return False, f'iter_pieces raised {got[1]}'
    v = spec_check(sizes, L, damage, sl.gen_content(sizes), got[1])
    return v is None, v or 'items meet the specification'
