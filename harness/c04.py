"""C04 -- cancellation and failures shut the pipeline down cleanly."""
import pipecheck as pc


def run(ck, model_ok):
    ck.rule = ('as C03, with one fault per scenario: the callback cancels or raises from piece k on (every k), the n-th read call fails with EIO / MemoryError (forever or a few '
               'times), the start of one thread (reader, janitor, hasher1..4) is refused; oracle: returns or raises, no worker thread left, piece string stored only together with '
               'True and only complete and correct, the callback\'s exception object reaches the caller, read failures surface as ReadError, at most one more piece is queued '
               'after the stop flag is set; schedules replayed on the Coq model; non-trivial = distinct (scenario, seed)')
    pc.run_family(ck, model_ok, 'C04', [('faults', 900, 36000), ('plain', 100, 4000)])
    ck.notes += ['read faults are injected at file.read() through a proxy installed in torf._stream by the harness; thread start refusal through the substituted threading module']


def replay(rp):
    rec, verdicts = pc.replay_case(rp['case'])
    bad = [v for v in verdicts if v[0] == 'C04' and v[1] == rp['key'].replace('new:', '')] or [v for v in verdicts if v[0] == 'C04']
    return not bad, repr(bad)[:600]
