#!/usr/bin/env python3
"""Run the repository's baseline suite (guard off) and compare with /root/.vp/BASELINE.json.
usage: baseline.py [repo_dir]   -- exit 0 iff every stable_pass test passed."""
import json, os, subprocess, sys, tempfile
import xml.etree.ElementTree as ET
repo = sys.argv[1] if len(sys.argv) > 1 else '/repo'
base = json.load(open('/root/.vp/BASELINE.json'))
stable = set(base['stable_pass'])
with tempfile.TemporaryDirectory() as td:
    xml = os.path.join(td, 'j.xml')
    env = dict(os.environ)
    env.pop('TORF_VERIF', None)
    subprocess.run(['/venv/bin/python', '-m', 'pytest', '-q', '-p', 'no:cacheprovider', '--timeout=900',
                    '--continue-on-collection-errors', '-n', '8', '--junitxml=' + xml],
                   cwd=repo, env=env, stdout=subprocess.DEVNULL, stderr=subprocess.DEVNULL)
    passed = set()
    for tc in ET.parse(xml).getroot().iter('testcase'):
        if not any(ch.tag in ('failure', 'error', 'skipped') for ch in tc):
            passed.add(tc.get('classname') + '::' + tc.get('name'))
missing = sorted(stable - passed)
for _attempt in range(3):
  missing = sorted(stable - passed)
  if missing and len(missing) < 400:
      # machine under load (parallel work): re-run only the missing tests, serially, once
      ids = [m.replace('tests.', 'tests/', 1).replace('::', '.py::', 1) for m in missing]
      with tempfile.TemporaryDirectory() as td:
          xml = os.path.join(td, 'j.xml')
          subprocess.run(['/venv/bin/python', '-m', 'pytest', '-q', '-p', 'no:cacheprovider', '--timeout=900', '-n', '0',
                          '--junitxml=' + xml] + ids, cwd=repo, env=env, stdout=subprocess.DEVNULL, stderr=subprocess.DEVNULL)
          try:
              for tc in ET.parse(xml).getroot().iter('testcase'):
                  if not any(ch.tag in ('failure', 'error', 'skipped') for ch in tc):
                      passed.add(tc.get('classname') + '::' + tc.get('name'))
          except Exception as e:
              print('rerun failed', e)
      print(f'first pass missing={len(missing)}; after serial re-run missing={len(stable - passed)}')
      missing = sorted(stable - passed)
print(f'stable_pass={len(stable)} passed_now={len(passed)} missing={len(missing)}')
for m in missing[:40]:
    print('  MISSING', m)
sys.exit(1 if missing else 0)
