"""C18 -- reusing hashes from another torrent is sound, complete and atomic."""
import copy
import hashlib
import os
import random

import torf
import torf._reuse as treuse

import streamlib as sl
from c08 import benc
from common import Model, Scratch, atom_bytes

K16 = 16384
SIZES = [1, 100, 16384, 16385, 20000, 32768, 40000, 49152, 65536, 70000, 81920, 98304]
NAMES = ['Top', 'content', 'My Album']
RELS = [('a.bin',), ('b.dat',), ('sub', 'c.bin'), ('sub', 'd'), ('z', 'y', 'x.bin'), ('e',)]


def content_bytes(tag, size):
    seed = hashlib.sha1(repr(tag).encode()).digest()
    return (seed * (size // 20 + 1))[:size]


def pieces_of(name, single, order, data, L):
    """piece byte strings of the stream (files in `order`)"""
    stream = b''.join(data[r] for r in order)
    return [stream[i:i + L] for i in range(0, len(stream), L)]


def write_content(root, name, single, data):
    top = os.path.join(root, name)
    if single:
        with open(top, 'wb') as f:
            f.write(data[()])
        return top
    for rel, b in data.items():
        p = os.path.join(top, *rel)
        os.makedirs(os.path.dirname(p), exist_ok=True)
        with open(p, 'wb') as f:
            f.write(b)
    return top


def cand_metainfo(c):
    info = {'name': c['name'], 'piece length': c['L'], 'pieces': b''.join(hashlib.sha1(p).digest() for p in c['pieces'])}
    if c['single']:
        info['length'] = len(c['data'][()])
        if c.get('extra'):
            info['md5sum'] = 'd' * 32
    else:
        info['files'] = []
        for rel in c['order']:
            e = {'length': len(c['data'][rel]), 'path': ['/'.join(rel)] if c.get('joined') else list(rel)}
            if c.get('extra'):
                e['md5sum'] = 'c' * 32
                e['attr'] = 'x'
            info['files'].append(e)
    md = {'info': info}
    if c.get('extra'):
        md['comment'] = 'a candidate'
        md['announce'] = 'http://tracker.example/announce'
        info['private'] = 1
    return md


def gen_scenario(rng, si):
    name = rng.choice(NAMES)
    single = rng.random() < 0.25
    if single:
        data = {(): content_bytes((si, 'local'), rng.choice(SIZES[2:]))}
    else:
        rels = rng.sample(RELS, rng.randint(1, 4))
        data = {r: content_bytes((si, 'local', r), rng.choice(SIZES)) for r in rels}
    order = sorted(data)
    bounds = rng.choice([(None, None)] * 4 + [(None, K16), (2 * K16, None), (2 * K16, 4 * K16)])
    cands = []
    kinds = ['faithful', 'faithful', 'renamed', 'fileset', 'size', 'piece', 'piece', 'piece', 'plen-out-of-bounds', 'order', 'extra', 'unreadable', 'bdecode', 'metainfo',
             'not-a-torrent', 'piece-unsampled', 'path-joined']
    for ci in range(rng.randint(1, 6)):
        kind = rng.choice(kinds)
        c = {'kind': kind, 'name': name, 'single': single, 'data': dict(data), 'order': list(order), 'L': rng.choice([K16, K16, 2 * K16]), 'id': ci}
        if kind == 'renamed':
            c['name'] = name + '2'
        elif kind == 'fileset' and not single:
            if len(data) > 1 and rng.random() < 0.5:
                c['data'].pop(rng.choice(order))
            else:
                c['data'][('extra.bin',)] = b'x' * 10
            c['order'] = sorted(c['data'])
        elif kind == 'size':
            r = rng.choice(order)
            c['data'][r] = c['data'][r] + b'!'
        elif kind in ('piece', 'piece-unsampled'):
            # same names and sizes, one byte differs in a chosen piece of a chosen file
            r = rng.choice(order)
            sz = len(data[r])
            off = sum(len(data[x]) for x in order[:order.index(r)])
            first, last = off // c['L'], (off + sz - 1) // c['L']
            n = last - first + 1
            where = rng.choice(['first', 'middle', 'last']) if kind == 'piece' else 'other'
            cand_pieces = {'first': [first], 'middle': [first + n // 2], 'last': [last],
                           'other': [p for p in range(first, last + 1) if p not in (first, first + n // 2, last)]}[where]
            if not cand_pieces:
                kind = c['kind'] = 'faithful'
            else:
                p = rng.choice(cand_pieces)
                lo, hi = max(p * c['L'], off), min((p + 1) * c['L'], off + sz)
                pos = rng.choice([lo, hi - 1, (lo + hi) // 2]) - off
                b = bytearray(c['data'][r])
                b[pos] ^= 0x55
                c['data'][r] = bytes(b)
                c['where'] = (r, where, p)
        elif kind == 'plen-out-of-bounds':
            lo, hi = bounds
            if hi is not None:
                c['L'] = hi * 2
            elif lo is not None:
                c['L'] = lo // 2
            else:
                c['L'] = 32 * 1024 * 1024       # above the default maximum of 16 MiB
        elif kind == 'order' and not single:
            rng.shuffle(c['order'])
        elif kind == 'extra':
            c['extra'] = True
        elif kind == 'path-joined':
            # the same files, but nested paths are stored as ONE component with an embedded separator
            c['joined'] = True
        c['pieces'] = pieces_of(c['name'], single, c['order'], c['data'], c['L'])
        cands.append(c)
    shape = rng.choice(['file', 'dir', 'tree', 'several'])
    cb = rng.choice(['none', 'none', 'passive', 'passive', 'passive', 0, 1, 2, 3])
    damage = rng.random() < 0.15        # a local file changes after the torrent object was created
    own_extra = rng.random() < 0.2      # the torrent's own file entries carry additional fields
    return {'si': si, 'name': name, 'single': single, 'data': data, 'order': order, 'bounds': bounds, 'cands': cands, 'shape': shape, 'cb': cb, 'damage': damage, 'own_extra': own_extra}


def gen_directed(rng, si):
    """one candidate that differs from the local content in exactly one sampled (or unsampled) piece of a file with several pieces"""
    name = rng.choice(NAMES)
    single = rng.random() < 0.2
    L = rng.choice([K16, K16, 2 * K16])
    big = rng.choice([3, 4, 4, 5, 6, 6]) * L + rng.choice([0, 0, 1, -1, 5000])
    if single:
        data = {(): content_bytes((si, 'local'), big)}
    else:
        rels = rng.sample(RELS, rng.randint(2, 3))
        data = {r: content_bytes((si, 'local', r), rng.choice([100, 20000, L, L + 1, 2 * L])) for r in rels}
        data[sorted(rels)[rng.randint(0, len(rels) - 1)]] = content_bytes((si, 'big'), big)
    order = sorted(data)
    target = () if single else max(order, key=lambda r: len(data[r]))
    c = {'kind': 'piece', 'name': name, 'single': single, 'data': dict(data), 'order': list(order), 'L': L, 'id': 0}
    if not single and rng.random() < 0.5:
        # the candidate lists the same files in another order: its stream, hence its piece indexes, differ from the local order
        c['order'] = list(reversed(order)) if rng.random() < 0.5 else rng.sample(order, len(order))
    sz = len(data[target])
    off = sum(len(data[x]) for x in c['order'][:c['order'].index(target)])
    first, last = off // L, (off + sz - 1) // L
    n = last - first + 1
    where = rng.choice(['first', 'middle', 'middle', 'last', 'last', 'other'])
    pool = {'first': [first], 'middle': [first + n // 2], 'last': [last], 'other': [p for p in range(first, last + 1) if p not in (first, first + n // 2, last)]}[where]
    if not pool:
        where, pool = 'last', [last]
    p = rng.choice(pool)
    lo, hi = max(p * L, off), min((p + 1) * L, off + sz)
    pos = rng.choice([lo, hi - 1, (lo + hi) // 2]) - off
    b = bytearray(c['data'][target])
    b[pos] ^= 0x55
    c['data'][target] = bytes(b)
    c['where'] = (target, where, p)
    if where == 'other':
        c['kind'] = 'piece-unsampled'
    c['pieces'] = pieces_of(name, single, c['order'], c['data'], L)
    cands = [c]
    if not single and rng.random() < 0.5:
        # a second candidate with the same piece length: faithful, but listing the files in another order than the first one
        # (whatever the search remembers about the content from the first candidate belongs to another stream layout)
        o2 = list(reversed(c['order'])) if rng.random() < 0.6 else rng.sample(order, len(order))
        c2 = {'kind': 'faithful', 'name': name, 'single': single, 'data': dict(data), 'order': o2, 'L': L, 'id': 1}
        c2['pieces'] = pieces_of(name, single, o2, c2['data'], L)
        cands.append(c2)
    return {'si': si, 'name': name, 'single': single, 'data': data, 'order': order, 'bounds': (None, None), 'cands': cands, 'shape': 'file', 'cb': rng.choice(['none', 'passive']),
            'damage': False, 'own_extra': False}


def gen_removed(rng, si):
    """a faithful candidate, but one local file disappears between the creation of the Torrent object and reuse()"""
    sc = gen_directed(rng, si)
    c = sc['cands'][0]
    c['data'] = dict(sc['data'])
    c['kind'] = 'faithful'
    c.pop('where', None)
    c['pieces'] = pieces_of(sc['name'], sc['single'], c['order'], c['data'], c['L'])
    sc['cands'] = [c]
    sc['damage'] = 'remove'
    return sc


def pick_scenario(rng, si):
    return gen_removed(rng, si) if si % 12 == 5 else gen_directed(rng, si) if si % 3 == 2 else gen_scenario(rng, si)


def lay_out(root, sc, rng):
    """write candidate torrent files; returns (paths argument, {torrent file path: candidate})"""
    tdir = os.path.join(root, 'torrents')
    os.makedirs(tdir)
    by_path = {}
    paths = []
    for c in sc['cands']:
        sub = {'file': '', 'dir': '', 'tree': rng.choice(['', 'x', 'x/y', 'z']), 'several': f'p{c["id"] % 2}'}[sc['shape']]
        d = os.path.join(tdir, sub)
        os.makedirs(d, exist_ok=True)
        ext = rng.choice(['.torrent', '.torrent', '.TORRENT', '.Torrent'])
        p = os.path.join(d, f'c{c["id"]}-{c["kind"]}{ext}')
        if c['kind'] == 'unreadable':
            os.symlink(os.path.join(root, 'does-not-exist'), p)        # a dangling link: listed, but cannot be read
        elif c['kind'] == 'bdecode':
            open(p, 'wb').write(b'd4:infod4:name3:abc')
        elif c['kind'] == 'metainfo':
            md = cand_metainfo(c)
            md['info'].pop('pieces')
            open(p, 'wb').write(benc(md))
        elif c['kind'] == 'not-a-torrent':
            p = p[:p.rindex('.')] + '.txt'
            open(p, 'wb').write(benc(cand_metainfo(c)))
        else:
            open(p, 'wb').write(benc(cand_metainfo(c)))
        by_path[p] = c
        if sc['shape'] == 'file':
            paths.append(p)
    if sc['shape'] == 'file':
        arg = paths[0] if len(paths) == 1 and rng.random() < 0.5 else paths
    elif sc['shape'] == 'several':
        arg = [os.path.join(tdir, d) for d in sorted(os.listdir(tdir))] + [os.path.join(root, 'missing-dir')]
    else:
        arg = tdir
        open(os.path.join(tdir, 'README.txt'), 'w').write('no torrent')
    return arg, by_path


def comps(c, rel):
    """path components as stored in the candidate's metainfo"""
    return ('/'.join(rel),) if c.get('joined') and rel else tuple(rel)


def is_faithful(sc, c, local):
    return c['kind'] not in ('unreadable', 'bdecode', 'metainfo', 'not-a-torrent') and c['name'] == sc['name'] and \
        {comps(c, r): len(b) for r, b in c['data'].items()} == {r: len(b) for r, b in local.items()} and c['data'] == local


def sampled_ok(sc, c, local):
    """C18's acceptance condition stated from the definitions (independent of torf's geometry code)."""
    if c['name'] != sc['name'] or {comps(c, r): len(b) for r, b in c['data'].items()} != {r: len(b) for r, b in local.items()}:
        return False, 'files'
    lo = sc['bounds'][0] or 16384
    hi = sc['bounds'][1] or 16 * 1024 * 1024
    if not (lo <= c['L'] <= hi):
        return False, 'bounds'
    L = c['L']
    stream = b''.join(local[r] for r in c['order'])
    off = 0
    for r in c['order']:
        sz = len(local[r])
        if sz:
            first, last = off // L, (off + sz - 1) // L
            for p in {first, first + (last - first + 1) // 2, last}:
                if hashlib.sha1(stream[p * L:(p + 1) * L]).digest() != hashlib.sha1(c['pieces'][p]).digest():
                    return False, ('piece', r, p)
        off += sz
    return True, None


def run_one(root, sc, rng, ck, m, model_ok):
    cpath = write_content(os.path.join(root, 'content'), sc['name'], sc['single'], sc['data']) if not sc['single'] else \
        (os.makedirs(os.path.join(root, 'content'), exist_ok=True) or write_content(os.path.join(root, 'content'), sc['name'], True, sc['data']))
    arg, by_path = lay_out(root, sc, rng)
    kw = {}
    if sc['bounds'][1] is not None:
        kw['piece_size_max'] = sc['bounds'][1]
    if sc['bounds'][0] is not None:
        kw['piece_size_min'] = sc['bounds'][0]
    if sc['bounds'][0] is not None and sc['bounds'][1] is None:
        kw['piece_size_max'] = 16 * 1024 * 1024
    t = torf.Torrent(path=cpath, **kw)
    local = dict(sc['data'])
    if sc['damage']:
        r = rng.choice(sc['order'])
        x = rng.random()
        if sc['damage'] == 'remove':
            x = 1.0
        fp = cpath if sc['single'] else os.path.join(cpath, *r)
        if x < 0.6:
            local[r] = local[r][:-1] if x < 0.3 else local[r] + b'+'
            with open(fp, 'wb') as f:
                f.write(local[r])
        else:
            # the file disappears after the torrent object was created
            del local[r]
            os.remove(fp)
    if sc['own_extra']:
        if sc['single']:
            t.metainfo['info']['md5sum'] = 'a' * 32
        else:
            for f in t.metainfo['info']['files']:
                f['md5sum'] = 'b' * 32
    before = copy.deepcopy(t.metainfo)
    calls = []

    def callback(torrent, path, done, total, is_match, exc):
        calls.append((path, is_match, exc is not None, torrent is t))
        if isinstance(sc['cb'], int) and len(calls) - 1 == sc['cb']:
            return 'stop'
    try:
        res = ('ok', t.reuse(arg, callback=None if sc['cb'] == 'none' else callback))
    except BaseException as e:  # noqa
        res = ('err', sl.canon_exc_site(e))
    after = t.metainfo
    case = {'scenario': describe(sc), 'paths': 'file list' if isinstance(arg, list) else 'one path'}
    ck.count('result:' + (str(res[1]) if res[0] == 'ok' else 'raised:' + res[1][0]))
    ck.count('callback:' + str(sc['cb'] if not isinstance(sc['cb'], int) else 'cancel'))
    for c in sc['cands']:
        ck.count('candidate:' + c['kind'])
    readable = [c for c in sc['cands'] if c['kind'] not in ('unreadable', 'bdecode', 'metainfo', 'not-a-torrent')]
    bad = [c for c in sc['cands'] if c['kind'] in ('unreadable', 'bdecode', 'metainfo')]
    # ---- oracle ----
    if res == ('ok', True):
        info = after['info']
        acc = [c for c in readable if b''.join(hashlib.sha1(p).digest() for p in c['pieces']) == info.get('pieces') and c['L'] == info.get('piece length')
               and (c['single'] or [tuple(f['path']) for f in info.get('files', [])] == c['order'])]
        if not acc:
            ck.fail('oracle', 'new:accepted-nothing-known', case, 'pieces / piece length / file order of one candidate', repr({k: v for k, v in info.items() if k != 'pieces'})[:300],
                    'reuse() returned True but the torrent does not carry a candidate\'s hashes, piece length and file order')
        else:
            verdicts = [sampled_ok(sc, c, local) for c in acc]
            if not any(v[0] for v in verdicts):
                ck.fail('oracle', 'new:unsound-acceptance:' + str(verdicts[0][1][0] if isinstance(verdicts[0][1], tuple) else verdicts[0][1]), dict(case, accepted=acc[0]['kind'], why=repr(verdicts[0][1])),
                        'candidate rejected', 'accepted', 'a candidate was accepted although name / files / bounds / a sampled piece do not match')
            try:
                t.validate()
            except Exception as e:  # noqa
                ck.fail('oracle', 'new:invalid-after-acceptance', case, 'valid', repr(e)[:200], 'torrent invalid after reuse()')
            if any(is_faithful(sc, c, local) for c in acc) and not sc['damage']:
                try:
                    ok = t.verify(cpath, threads=1)
                except Exception as e:  # noqa
                    ok = repr(e)[:200]
                if ok is not True:
                    ck.fail('oracle', 'new:does-not-verify-after-acceptance', case, 'verify() True', repr(ok), 'torrent does not verify after reusing a faithful candidate')
            expect = dict(copy.deepcopy(before))
            for k in before:
                if k != 'info' and before[k] != after.get(k):
                    ck.fail('oracle', 'new:unrelated-field-changed', case, repr(before[k])[:100], repr(after.get(k))[:100], 'reuse() changed a field outside info')
    else:
        if after != before:
            ck.fail('oracle', 'new:not-atomic', dict(case, result=repr(res)), 'metainfo unchanged', repr({k: (v if k != 'pieces' else '...') for k, v in after['info'].items()})[:300],
                    'reuse() did not accept anything but changed the metainfo')
        if res[0] == 'err':
            if res[1][0] not in ('ReadError', 'BdecodeError', 'MetainfoError', 'VerifyFileSizeError'):
                ck.fail('oracle', 'new:undocumented-exception:' + res[1][0], dict(case, result=repr(res)), 'documented error', repr(res), 'reuse() raised an undocumented exception')
            elif sc['cb'] != 'none' and not sc['damage']:
                ck.fail('oracle', 'new:raised-with-callback', dict(case, result=repr(res)), 'error reported to the callback', repr(res), 'reuse() raised although a callback was given')
            elif not bad and not sc['damage'] and not (sc['shape'] == 'several'):
                ck.fail('oracle', 'new:raised-without-bad-torrent', dict(case, result=repr(res)), 'no exception', repr(res), 'reuse() raised although every torrent file is readable and valid')
        else:
            faithful = [c for c in readable if is_faithful(sc, c, local) and sampled_ok(sc, c, local)[0]]
            may_raise = sc['cb'] == 'none' and (bad or sc['shape'] == 'several')
            if faithful and not isinstance(sc['cb'], int) and not may_raise and not sc['damage']:
                ck.fail('oracle', 'new:faithful-candidate-not-found', dict(case, faithful=faithful[0]['id']), 'True', 'False', 'a faithful candidate in the searched paths was not found')
    for c in calls:
        if not c[3]:
            ck.fail('oracle', 'new:callback-torrent-argument', case, 'the torrent', 'another object', 'callback did not receive the torrent')
    # ---- model ----
    if model_ok:
        items = []
        order_paths = []
        for p, n, exc in treuse.find_torrent_files(*(arg if isinstance(arg, list) else [arg]), max_file_size=torf.Torrent.MAX_TORRENT_FILE_SIZE):
            order_paths.append(p)
            if exc is not None:
                items.append(['err', 'read'])
                continue
            try:
                torf.Torrent.read(p)
            except torf.ReadError:
                items.append(['err', 'read'])
                continue
            except torf.BdecodeError:
                items.append(['err', 'bdecode'])
                continue
            except torf.MetainfoError:
                items.append(['err', 'metainfo'])
                continue
            items.append(('cand', by_path[p]))
        strings = set()
        names = {}

        def path_str(name, rel, c=None):
            # the identity of a listed file: the name and the path components as stored (a component may hold a separator)
            return repr((name,) + (comps(c, rel) if c is not None else tuple(rel)))
        for c in sc['cands'] + [{'name': sc['name'], 'data': local}, {'name': sc['name'], 'data': sc['data']}]:
            names.setdefault(c['name'], len(names))
            for r in c['data']:
                strings.add(path_str(c['name'], r, c))
        ids = {s: i for i, s in enumerate(sorted(strings))}
        disk = [[ids[path_str(sc['name'], r)], b] for r, b in local.items()]
        tf = [[ids[path_str(sc['name'], r)], len(sc['data'][r])] for r in sc['order']]
        mitems = []
        for it in items:
            if it[0] == 'err':
                mitems.append(it)
            else:
                c = it[1]
                same_files = c['name'] == sc['name'] and sorted((comps(c, r), len(b)) for r, b in c['data'].items()) == sorted((r, len(b)) for r, b in sc['data'].items())
                mitems.append(['cand', [names[c['name']], [[ids[path_str(c['name'], r, c)], len(c['data'][r])] for r in c['order']], c['L'],
                                        c['pieces'] if same_files else []]])
        lo = sc['bounds'][0] or 16384
        hi = sc['bounds'][1] or 16 * 1024 * 1024
        cbw = sc['cb'] if isinstance(sc['cb'], str) else sc['cb']
        j = m.add(['reuse.run', disk, cbw, [names[sc['name']], tf, lo, hi], mitems])
        return (case, res, after, calls, order_paths, j, ids, sc)
    return None


def describe(sc):
    return {'rng_key': sc.get('rng_key'), 'si': sc['si'], 'name': sc['name'], 'single': sc['single'], 'files': [['/'.join(r), len(sc['data'][r])] for r in sc['order']], 'bounds': sc['bounds'],
            'candidates': [[c['kind'], c['L'], ['/'.join(r) for r in c['order']], repr(c.get('where'))] for c in sc['cands']], 'shape': sc['shape'], 'cb': sc['cb'], 'damage': sc['damage'], 'own_extra': sc['own_extra']}


def compare(ck, rec, out):
    case, res, after, calls, order_paths, j, ids, sc = rec
    ck.ties += 1
    r, files, plen, pieces, log = out[j]
    if r[0] == 'ok':
        mres = ('ok', r[1] == 't')
    else:
        mres = ('err', sl.model_exn(r[1]))
    ires = res if res[0] == 'ok' else ('err', res[1][:2] if res[1][0] == 'ReadError' else res[1][:1])
    if mres[0] == 'err' and mres[1][0] == 'ReadError' and ires[0] == 'err' and ires[1][0] == 'ReadError':
        mres = ires = ('err', ('ReadError',))        # errno of unreadable entries is not modelled
    if mres != ires:
        ck.fail('tie', 'result', case, repr(mres), repr(ires), 'model and implementation disagree on the result of reuse()')
        return
    if res == ('ok', True):
        info = after['info']
        rid = {v: k for k, v in ids.items()}
        m_files = ['/'.join(eval(rid[int(f[0])])[1:]) for f in files]  # noqa
        i_files = ['/'.join(f['path']) for f in info['files']] if 'files' in info else ['']
        m_pieces = b''.join(hashlib.sha1(atom_bytes(p)).digest() for p in pieces)
        if (m_files, int(plen), m_pieces) != (i_files, info['piece length'], info['pieces']):
            ck.fail('tie', 'copied-state', case, repr((m_files, plen))[:300], repr((i_files, info['piece length']))[:300], 'model and implementation copy different state')
            return
    if sc['cb'] != 'none':
        idx = {p: i for i, p in enumerate(order_paths)}
        # entries without a path (unreadable directories) are matched by position
        icalls = []
        for p, st, hasexc, _ in calls:
            icalls.append((idx.get(p, None), {False: 'false', None: 'none', True: 'true'}[st], hasexc))
        mcalls = [(int(c[0]), c[1], c[2] == 't') for c in log]
        if [(a if a is not None else b[0], s, e) for (a, s, e), b in zip(icalls, mcalls)] != mcalls or len(icalls) != len(mcalls):
            ck.fail('tie', 'callback-protocol', case, repr(mcalls)[:300], repr(icalls)[:300], 'model and implementation call the callback differently')


def run(ck, model_ok):
    ck.rule = ('random layouts (single / up to 4 files, sizes around multiples of 16 KiB so files span 1..6 pieces and start mid-piece) x candidate sets (faithful, renamed, '
               'different file set / size, one byte changed in the first / middle / last / another piece of one file, piece length out of bounds, permuted file order, extra fields, '
               'dangling / undecodable / invalid torrent files, wrong extension) x search path shapes (file, list of files, directory, tree, several directories incl. a missing one) '
               'x callback (none, passive, cancelling at call k) x configured piece size bounds x local file changed or removed after the Torrent object was created (incl. directed: faithful candidate, one local file removed); oracle: C18 from the definitions; '
               'model compared on result, copied state and callback protocol; non-trivial = distinct scenarios')
    quick = ck.tier == 'quick'
    m = Model()
    recs = []
    n = 75 if quick else 1200
    batch = 30
    for si in range(n):
        rng = random.Random(f'{ck.seed}-{ck.tier}-{si}')       # one stream per scenario: replayable in isolation
        sc = pick_scenario(rng, si)
        sc['rng_key'] = f'{ck.seed}-{ck.tier}-{si}'
        ck.case(repr(describe(sc)))
        with Scratch() as root:
            rec = run_one(root, sc, rng, ck, m, model_ok)
        if rec:
            recs.append(rec)
        if si < 2:
            ck.sample(describe(sc))
        if model_ok and (len(recs) >= batch or si == n - 1) and recs:
            out = m.run()
            for rec in recs:
                compare(ck, rec, out)
            recs = []
            m = Model()
    ck.notes += ['zero-length files and candidates with an empty path list are not generated (C11 known findings / C07)', 'the order in which find_torrent_files lists directory entries is taken from the implementation',
                 'hash = identity in the model: candidate hashes are sent as the piece contents they were computed from']


def replay(rp):
    from common import Check
    sc0 = rp['case']['scenario']
    rng = random.Random(sc0['rng_key'])
    sc = pick_scenario(rng, sc0['si'])
    sc['rng_key'] = sc0['rng_key']
    ck = Check('C18', 'quick', 0)
    with Scratch() as root:
        run_one(root, sc, rng, ck, Model(), False)
    bad = [v for v in ck.violations if v['key'] == rp['key']] or ck.violations
    return not bad, repr([(v['key'], v['observed']) for v in bad])[:600]
