"""C07 -- nothing structurally invalid is exported."""
import copy
import io

import torf

import metalib as ml
import streamlib as sl
from common import Model, atom_bytes

OPS = ('validate', 'is_ready', 'dump', 'infohash', 'write_stream')


def run_impl(md):
    out = {}
    for op in OPS:
        t = ml.make_torrent(md)
        try:
            if op == 'validate':
                t.validate()
                out[op] = ('ok', None)
            elif op == 'is_ready':
                out[op] = ('ok', t.is_ready)
            elif op == 'dump':
                out[op] = ('ok', t.dump())
            elif op == 'infohash':
                out[op] = ('ok', t.infohash)
            elif op == 'write_stream':
                s = io.BytesIO(b'previous')
                t.write_stream(s)
                out[op] = ('ok', s.getvalue())
        except Exception as e:  # noqa
            out[op] = ('err', sl.canon_exc_site(e))
    t = ml.make_torrent(md)
    try:
        out['magnet'] = ('ok', str(t.magnet()))
    except Exception as e:  # noqa
        out['magnet'] = ('err', sl.canon_exc_site(e))
    return out


def gen_cases(ck):
    quick = ck.tier == 'quick'
    cases = []
    L = ml.L16
    base = {'info': {'name': 'T', 'piece length': L, 'files': [{'length': 10, 'path': ['a']}, {'length': L, 'path': ['b']}],
                     'pieces': bytes(40)}}
    corpus = []
    c = copy.deepcopy(base); c['info']['files'][0]['length'] = -5; c['info']['files'][1]['length'] = L + 15; corpus.append((c, 'corpus compensating'))
    c = copy.deepcopy(base); c[5] = 'x'; corpus.append((c, 'corpus int key'))
    c = copy.deepcopy(base); c[b'k'] = 'x'; corpus.append((c, 'corpus bytes key'))
    c = copy.deepcopy(base); c['x'] = float('inf'); corpus.append((c, 'corpus inf value'))
    c = copy.deepcopy(base); c['x'] = 10 ** 5000; corpus.append((c, 'corpus huge int'))
    c = {'info': {'name': 'T', 'piece length': L, 'length': float('inf'), 'pieces': bytes(20)}}; corpus.append((c, 'corpus inf length'))
    c = {'info': {'name': 'T', 'piece length': L, 'length': float('nan'), 'pieces': bytes(20)}}; corpus.append((c, 'corpus nan length'))
    c = {'info': {'name': 'T', 'piece length': L, 'length': 10 ** 400, 'pieces': bytes(20)}}; corpus.append((c, 'corpus huge length'))
    c = {'info': {'name': 'T', 'piece length': 2 ** 52, 'length': 2 ** 53 + 1, 'pieces': bytes(40)}}; corpus.append((c, 'corpus 2^53 length'))
    c = {'info': {'name': 'T', 'piece length': L, 'length': 2.5, 'pieces': bytes(20)}}; corpus.append((c, 'corpus float length'))
    c = {'info': {'name': 'T', 'piece length': L * 2 ** 1020, 'length': 2.5, 'pieces': bytes(20)}}; corpus.append((c, 'corpus float length, huge piece length'))
    c = {'info': {'name': 'T', 'piece length': L, 'files': [{'length': 2.5, 'path': ['a']}, {'length': 2 ** 1024, 'path': ['b']}], 'pieces': bytes(20)}}
    corpus.append((c, 'corpus float length next to a huge length'))
    c = {'info': {'name': 'T', 'piece length': L, 'length': 2 ** 1024, 'pieces': bytes(20)}}; corpus.append((c, 'corpus 2^1024 length'))
    c = {'info': {'name': 'T', 'piece length': 2 ** 1024, 'length': 3 * 2 ** 1024 + 1, 'pieces': bytes(80)}}; corpus.append((c, 'corpus sound beyond float range'))
    c = copy.deepcopy(base); c['info']['files'] = {0: {'length': 10, 'path': ['a']}, 1: {'length': L, 'path': ['b']}}; corpus.append((c, 'corpus files as dict'))
    # a length with a fractional part just above a multiple of the piece length (known finding: validate counts with the float, the export truncates)
    corpus.append(({'info': {'name': 'T', 'piece length': L, 'length': L + 0.5, 'pieces': bytes(40)}}, 'corpus fractional length above a piece boundary'))
    for falsy in ([], (), {}, 0, None, ''):
        # a single-file length next to a 'files' entry that is present but falsy
        c = {'info': {'name': 'T', 'piece length': L, 'length': 10, 'files': falsy, 'pieces': bytes(20)}}
        corpus.append((c, 'corpus length and falsy files %r' % (falsy,)))
    c = copy.deepcopy(base); c['url-list'] = 'nourl'; corpus.append((c, 'corpus bad url-list'))
    c = copy.deepcopy(base); c['announce'] = 'http://h:99999'; corpus.append((c, 'corpus bad port'))
    c = copy.deepcopy(base); del c['info']; corpus.append((c, 'corpus no info'))
    cases += corpus
    n = 1500 if quick else 60000
    for _ in range(n):
        md = ml.valid_meta(ck.rng, exotic_types=True)
        k = ck.rng.choice([0, 0, 1, 1, 1, 2, 3])
        desc = []
        for _ in range(k):
            try:
                md, d = ml.mutate(ck.rng, md)
                desc.append(d)
            except (TypeError, KeyError, IndexError, AttributeError):
                pass
            if not isinstance(md, dict):
                break
        if isinstance(md, dict):
            cases.append((md, '; '.join(desc) or 'valid'))
    return cases


def fractional_lengths(md):
    """does a recorded length have a fractional part? (validate() counts pieces with the float, the export truncates it)"""
    info = md.get('info') if isinstance(md, dict) else None
    if not isinstance(info, dict):
        return False
    vals = [info.get('length')]
    if isinstance(info.get('files'), (list, tuple)):
        vals += [f.get('length') for f in info['files'] if isinstance(f, dict)]
    return any(isinstance(v, float) and v == v and v not in (float('inf'), float('-inf')) and v != int(v) for v in vals)


def classify(op, res, md, reason=None):
    if reason:
        key = 'unsound-export:' + reason.split(':')[0]
        if key == 'unsound-export:piece-count' and fractional_lengths(md):
            key += ':fractional-length'
        return key
    return 'export-raises:' + ''.join(res[1])


def analyse(md, out):
    """Oracle on the implementation's outcomes; yields (key, what, observed)."""
    v = out['validate']
    valid = v[0] == 'ok'
    for op in OPS + ('magnet',):
        r = out[op]
        if r[0] == 'err' and r[1] != ('MetainfoError',):
            yield classify(op, r, md), f'{op} raised {r[1]} instead of MetainfoError', repr(r)
    if out['is_ready'][0] == 'ok' and v[0] in ('ok',) and out['is_ready'][1] is not True:
        yield 'is_ready-false-but-valid', 'is_ready is False although validate() succeeds', repr(out['is_ready'])
    if out['is_ready'][0] == 'ok' and v == ('err', ('MetainfoError',)) and out['is_ready'][1] is not False:
        yield 'is_ready-true-but-invalid', 'is_ready is True although validate() raises', repr(out['is_ready'])
    for op in ('dump', 'write_stream'):
        r = out[op]
        if r[0] == 'ok':
            reason = ml.sound_export(r[1])
            if reason:
                yield classify(op, r, md, reason), f'{op} exported structurally invalid metainfo ({reason})', reason
            if not valid:
                yield f'{op}-succeeds-but-validate-fails', f'{op} returned although validate() fails', repr(v)
    if out['infohash'][0] == 'ok' and out['dump'][0] == 'ok':
        try:
            top, spans = ml.strict_bdecode(out['dump'][1])
            import hashlib
            s, e = spans[b'info']
            if hashlib.sha1(out['dump'][1][s:e]).hexdigest() != out['infohash'][1]:
                yield 'infohash-not-span', 'infohash differs from sha1 of the info span', out['infohash'][1]
        except (ml.NotCanonical, KeyError):
            pass


def model_outcomes(res):
    """parsed model responses for (validate, is_ready, dump, infohash_input) -> comparable"""
    return res


def run(ck, model_ok):
    ck.rule = ('structure-aware mutants of valid single/multi-file metainfo (0..3 mutations: delete / retype any node with any Python type incl. float inf/nan, '
               'None, object, set, tuple, datetime / negate, scale, +0.5 ints / compensating lengths / both length and files / pieces length or type / '
               'non-str keys / bad announce URLs) + fixed corpus; every export (validate, is_ready, dump, infohash, write_stream, magnet) runs on the real '
               'Torrent; oracle: result or MetainfoError only, dumped bytes strictly parse and are structurally sound, is_ready == validate succeeds; '
               'model compared where the mutant is representable; non-trivial = distinct mutants that are not plain valid')
    m = Model()
    pend = []
    cases = gen_cases(ck)
    nvalid = 0
    for ci, (md, desc) in enumerate(cases):
        out = run_impl(md)
        ck.case(ml.canon(md) if True else ci, nontrivial=(desc != 'valid'))
        if out['validate'][0] == 'ok':
            nvalid += 1
        ck.count('validate:' + (out['validate'][0] if out['validate'][0] == 'ok' else out['validate'][1][0]))
        ck.count('dump:' + (out['dump'][0] if out['dump'][0] == 'ok' else out['dump'][1][0]))
        viols = list(analyse(md, out))
        can_model = model_ok and ml.modelable(md)
        case = {'md': ml.safe_repr(md), 'mutations': desc}
        if viols and not can_model:
            for key, what, obs in viols:
                ck.fail('oracle', ('new:' if model_ok else 'new:') + key if False else key, case, 'result or MetainfoError; sound export', obs[:300], what)
        if can_model:
            w = ml.to_wire(md)
            ids = (m.add(['meta.validate', 'none', w]), m.add(['meta.is_ready', 'none', w]), m.add(['meta.dump', 'none', True, w]),
                   m.add(['meta.infohash_input', 'none', w]))
            pend.append((md, desc, out, viols, ids))
        if ci < 3:
            ck.sample({'mutations': desc, 'validate': repr(out['validate']), 'dump': repr(out['dump'])[:80]})
    ck.count('valid-cases', nvalid)
    if model_ok:
        import hashlib
        res = m.run()
        for md, desc, out, viols, ids in pend:
            mv, mr, mdp, mih = (res[i] for i in ids)
            ck.ties += 1
            case = {'md': ml.safe_repr(md), 'mutations': desc}
            exp = {
                'validate': sl.model_res(mv, lambda v: None),
                'is_ready': sl.model_res(mr, lambda v: v == 't'),
                'dump': sl.model_res(mdp, atom_bytes),
            }
            ih = sl.model_res(mih, atom_bytes)
            exp['infohash'] = ('ok', hashlib.sha1(ih[1]).hexdigest()) if ih[0] == 'ok' else ih
            unmodelled = any(v == ('err', ('IOther',)) for v in exp.values())
            agree = True
            if not unmodelled:
                for op in ('validate', 'is_ready', 'dump', 'infohash'):
                    if exp[op] != (out[op][0], out[op][1][:1]) if out[op][0] == 'err' else exp[op] != out[op]:
                        if ml.url_model_gap(md):
                            ck.count('model:url-outside-the-url-model')      # is_url is a parameter of the theorems
                            break
                        agree = False
                        ck.fail('tie', op, case, repr(exp[op])[:300], repr(out[op])[:300], 'model and implementation disagree')
                        break
            else:
                ck.count('model:not-modelled')
            for key, what, obs in viols:
                # known only if the faithful model exhibits the same outcome (see *_refuted theorems)
                k = key if (agree and not unmodelled) or unmodelled else 'new:' + key
                ck.fail('oracle', k, case, 'result or MetainfoError; sound export', obs[:300], what)
    ck.notes += ['Torrent.path is None in these cases (file-system checks of validate() are exercised by C09/C20)',
                 'URL strings are drawn from a pool on which the model\'s is_url agrees with urllib.parse']


def replay(rp):
    md = ml.eval_repr(rp['case']['md'])
    out = run_impl(md)
    v = list(analyse(md, out))
    return not v, v or 'all exports are results or MetainfoError and structurally sound'
