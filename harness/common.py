"""Shared machinery for all property checks: build (extract -> coq -> ocaml),
model process, S-expression wire format, verdict/evidence/known-findings."""
import fcntl
import hashlib
import json
import os
import re
import shutil
import subprocess
import sys
import tempfile
import time

VERIF = os.path.dirname(os.path.dirname(os.path.abspath(__file__)))
REPO = os.environ.get('VERIF_REPO', '/repo')
COQ = os.path.join(VERIF, 'coq')
OCAML = os.path.join(VERIF, 'ocaml')
MODEL_BIN = os.path.join(OCAML, '_build', 'model_main')
NPROC = str(min(16, os.cpu_count() or 4))

TRUSTED_BASE = [
    'Coq 8.16.1 kernel (coqc, full .vo build; vm_compute used for witnesses/Examples; native_compute not used)',
    'harness/extract.py translator: regenerates coq/Extracted.v from /repo on every run (fail-closed per section); source pins (sha1 of the normalised AST) of the functions that are modelled by hand',
    'no axioms: every property theorem is closed under the global context (Print Assumptions parsed on each run; coqchk -o on all Props: no axioms, no assumed positivity / guard / type-in-type)',
    'Coq extraction with ExtrOcamlBasic only (Extract Inductive bool/option/list/prod/unit/sumbool); no Extract Constant; OCaml 4.13.1',
    'ocaml/driver.ml: generic S-expression tokenizer/printer (no per-operation logic)',
    'harness correspondence check: generators, canonicalisation of exceptions to classes, comparison',
    'modelled-not-verified: CPython semantics of list/dict/int/float ops used by torf, stdlib (os.path, urllib.parse, re, base64), flatbencode, SHA-1 (abstract in theorems)',
]

# ---------------------------------------------------------------- sexp ----
def to_sexp(x):
    if x is True:
        return 't'
    if x is False:
        return 'f'
    if x is None:
        return 'none'
    if isinstance(x, int):
        return str(x)
    if isinstance(x, (bytes, bytearray)):
        return 'x' + bytes(x).hex()
    if isinstance(x, str):
        assert re.fullmatch(r'[A-Za-z0-9_.:#+\-]+', x), x
        return x
    if isinstance(x, (list, tuple)):
        return '(' + ' '.join(to_sexp(i) for i in x) + ')'
    raise TypeError(type(x))


def parse_sexp(s):
    toks = re.findall(r'\(|\)|[^\s()]+', s)
    pos = 0

    def item():
        nonlocal pos
        t = toks[pos]
        pos += 1
        if t == '(':
            out = []
            while toks[pos] != ')':
                out.append(item())
            pos += 1
            return out
        return t
    r = item()
    return r


def atom_int(a):
    return int(a)


def atom_bytes(a):
    assert a.startswith('x')
    return bytes.fromhex(a[1:])


# --------------------------------------------------------------- build ----
class BuildError(Exception):
    def __init__(self, stage, target, output):
        super().__init__(f'{stage}: {target}')
        self.stage, self.target, self.output = stage, target, output


def _run(cmd, cwd, timeout):
    p = subprocess.run(cmd, cwd=cwd, stdout=subprocess.PIPE, stderr=subprocess.STDOUT,
                       timeout=timeout, text=True, errors='replace')
    return p.returncode, p.stdout


class _Lock:
    def __enter__(self):
        self.f = open(os.path.join(VERIF, '.lock'), 'w')
        fcntl.flock(self.f, fcntl.LOCK_EX)

    def __exit__(self, *a):
        fcntl.flock(self.f, fcntl.LOCK_UN)
        self.f.close()


def all_v_files():
    out = []
    for l in open(os.path.join(COQ, '_CoqProject')):
        l = l.strip()
        if l.endswith('.v'):
            out.append(l)
    return out


def regenerate_extracted():
    """Run the translator; returns (ok, message).  Writes Extracted.v only when it changed."""
    rc, out = _run([sys.executable, os.path.join(VERIF, 'harness', 'extract.py'), REPO,
                    os.path.join(COQ, 'Extracted.v')], VERIF, 120)
    return rc == 0, out


def ensure_makefile():
    mk = os.path.join(COQ, 'Makefile')
    cp = os.path.join(COQ, '_CoqProject')
    if not os.path.exists(mk) or os.path.getmtime(mk) < os.path.getmtime(cp):
        rc, out = _run(['coq_makefile', '-f', '_CoqProject', '-o', 'Makefile'], COQ, 60)
        if rc != 0:
            raise BuildError('coq_makefile', '_CoqProject', out)


def make_targets(targets, timeout=1500):
    ensure_makefile()
    rc, out = _run(['timeout', str(timeout), 'make', '-j' + NPROC, '-k'] + targets, COQ, timeout + 30)
    return rc, out


def build_model():
    """(Re)extract and compile the OCaml model if any model source is newer than the binary."""
    srcs = [os.path.join(COQ, f) for f in all_v_files() if f.startswith(('lib/', 'model/'))]
    srcs += [os.path.join(COQ, 'Extracted.v'), os.path.join(COQ, 'Extract.v'), os.path.join(OCAML, 'driver.ml')]
    if os.path.exists(MODEL_BIN) and all(os.path.getmtime(s) <= os.path.getmtime(MODEL_BIN) for s in srcs if os.path.exists(s)):
        return
    models = [f[:-2] + '.vo' for f in all_v_files() if f.startswith(('lib/', 'model/'))] + ['Extracted.vo']
    rc, out = make_targets(models)
    if rc != 0:
        raise BuildError('coq-model', 'model/*.vo', out)
    gen = os.path.join(OCAML, 'gen')
    bld = os.path.join(OCAML, '_build')
    os.makedirs(gen, exist_ok=True)
    os.makedirs(bld, exist_ok=True)
    rc, out = _run(['timeout', '300', 'coqc', '-Q', COQ, 'Torf', os.path.join(COQ, 'Extract.v'), '-o', os.path.join(gen, 'Extract.vo')], gen, 330)
    if rc != 0:
        raise BuildError('extraction', 'Extract.v', out)
    for f in ('model.mli', 'model.ml'):
        shutil.copy(os.path.join(gen, f), os.path.join(bld, f))
    shutil.copy(os.path.join(OCAML, 'driver.ml'), os.path.join(bld, 'driver.ml'))
    rc, out = _run(['ocamlfind', 'ocamlopt', '-O3', '-w', '-a', 'model.mli', 'model.ml', 'driver.ml', '-o', 'model_main.tmp'], bld, 300)
    if rc != 0:
        raise BuildError('ocaml', 'model_main', out)
    os.replace(os.path.join(bld, 'model_main.tmp'), MODEL_BIN)


def build_props(prop_file, timeout=1500):
    """Build the dependency cone of Props/<x>.v, then compile the Props file itself capturing
    Print Assumptions output.  Returns dict(theorems, discharged, axioms, broken, log)."""
    src = os.path.join(COQ, prop_file)
    text = open(src).read()
    theorems = re.findall(r'^\s*Theorem\s+([A-Za-z0-9_\']+)', text, re.M)
    info = {'theorems': theorems, 'discharged': [], 'axioms': {}, 'broken': None, 'log': ''}
    # dependency cone: every 'From Torf Require ...' mentioned module
    deps = set()
    for m in re.finditer(r'From Torf Require (?:Import|Export)\s+([^.]*)\.', text):
        deps.update(m.group(1).split())
    vfiles = {os.path.splitext(os.path.basename(f))[0]: f for f in all_v_files()}
    vfiles['Extracted'] = 'Extracted.v'
    targets = [vfiles[d][:-2] + '.vo' for d in deps if d in vfiles]
    rc, out = make_targets(targets, timeout)
    info['log'] = out[-6000:]
    if rc != 0:
        m = re.search(r'File "\./([^"]+)", line (\d+)', out)
        info['broken'] = f'dependency build failed at {m.group(1)}:{m.group(2)}' if m else 'dependency build failed'
        mm = re.findall(r'Error:(.*(?:\n.*){0,6})', out)
        if mm:
            info['broken'] += ' :: ' + mm[0].strip()[:600]
        return info
    rc, out = _run(['timeout', '600', 'coqc', '-Q', '.', 'Torf', prop_file], COQ, 630)
    info['log'] += out[-6000:]
    # parse Print Assumptions blocks: they appear in order, one per theorem
    blocks = re.split(r'(?=Closed under the global context|Axioms:)', out)
    blocks = [b for b in blocks if b.startswith(('Closed under', 'Axioms:'))]
    for name, b in zip(theorems, blocks):
        if b.startswith('Closed under'):
            info['discharged'].append(name)
            info['axioms'][name] = []
        else:
            ax = re.findall(r'^([A-Za-z0-9_.\']+)\s*:', b, re.M)
            info['axioms'][name] = ax
            if all(a in ALLOWED_AXIOMS for a in ax):
                info['discharged'].append(name)
    if rc != 0:
        m = re.search(r'line (\d+), characters', out)
        line = int(m.group(1)) if m else 0
        # the theorem being proved at the error line
        failing = None
        for mt in re.finditer(r'^\s*Theorem\s+([A-Za-z0-9_\']+)', text, re.M):
            if text[:mt.start()].count('\n') + 1 <= line:
                failing = mt.group(1)
        info['broken'] = f'{prop_file}: theorem {failing} no longer checks (line {line})'
    elif len(info['discharged']) != len(theorems):
        missing = [t for t in theorems if t not in info['discharged']]
        info['broken'] = f'{prop_file}: assumptions not allowed or missing for {missing}'
    return info


ALLOWED_AXIOMS = {
    'functional_extensionality_dep', 'FunctionalExtensionality.functional_extensionality_dep',
    'Eqdep.Eq_rect_eq.eq_rect_eq', 'Classical_Prop.classic', 'proof_irrelevance',
}

GATE_RE = re.compile(r'\b(Admitted|admit|Axiom|Parameter|Conjecture|Admit Obligations|bypass_check)\b|Unset Guard|type-in-type|impredicative-set')


def grep_gate():
    bad = []
    for f in all_v_files() + ['Extract.v']:
        p = os.path.join(COQ, f)
        if not os.path.exists(p):
            continue
        txt = re.sub(r'\(\*.*?\*\)', '', open(p).read(), flags=re.S)
        for i, line in enumerate(txt.split('\n'), 1):
            if GATE_RE.search(line):
                bad.append(f'{f}:{i}: {line.strip()[:80]}')
    return bad


# --------------------------------------------------------------- model ----
class Model:
    """Batch evaluation of requests on the extracted model."""

    def __init__(self):
        self.reqs = []

    def add(self, req):
        self.reqs.append(to_sexp(req))
        return len(self.reqs) - 1

    def run(self):
        if not self.reqs:
            return []
        data = ('\n'.join(self.reqs) + '\n').encode()
        if os.environ.get('VERIF_DEBUG'):
            open('/tmp/verif-last-reqs.txt', 'wb').write(data)
        p = subprocess.run(['bash', '-c', 'ulimit -s unlimited 2>/dev/null; exec "$0"', MODEL_BIN], input=data, stdout=subprocess.PIPE, stderr=subprocess.PIPE, timeout=3600)
        lines = p.stdout.decode().split('\n')
        if p.returncode != 0 or len(lines) - 1 != len(self.reqs):
            raise BuildError('model-run', 'model_main', f'rc={p.returncode} got {len(lines)-1}/{len(self.reqs)} lines; stderr={p.stderr.decode()[-500:]}')
        out = [parse_sexp(l) for l in lines[:-1]]
        self.reqs = []
        return out


# ------------------------------------------------------ known findings ----
def load_known():
    known, fixed = {}, []
    p = os.path.join(VERIF, 'KNOWN_FINDINGS')
    if os.path.exists(p):
        for l in open(p):
            l = l.strip()
            m = re.match(r'known:\s+property=(\S+)\s+key=(\S+)\s+(.*)', l)
            if m:
                known[(m.group(1), m.group(2))] = m.group(3)
            elif l.startswith('fixed:'):
                fixed.append(l)
    return known, fixed


# --------------------------------------------------------------- check ----
class Check:
    def __init__(self, prop, tier, seed):
        self.prop, self.tier, self.seed = prop, tier, seed
        self.t0 = time.time()
        self.evaluations = 0
        self.nontrivial = set()
        self.samples = []
        self.dist = {}
        self.violations = []      # dicts: kind, key, case, expected, observed, what
        self.known_hits = {}      # key -> (what, count)
        self.ties = 0             # model/impl comparisons done
        self.tie_breaks = []
        self.proof = None
        self.notes = []
        self.rule = ''
        self.extra = {}
        self.known, self.fixed = load_known()
        self.exhaustive = False

    # counting helpers
    def count(self, bucket, n=1):
        self.dist[bucket] = self.dist.get(bucket, 0) + n

    def case(self, key=None, nontrivial=True):
        self.evaluations += 1
        if nontrivial and key is not None:
            if len(self.nontrivial) < 2_000_000:
                self.nontrivial.add(key if isinstance(key, (int, str)) else hashlib.blake2b(repr(key).encode(), digest_size=8).digest())

    def sample(self, s, limit=4):
        if len(self.samples) < limit:
            self.samples.append(s)

    def fail(self, kind, key, case, expected, observed, what):
        """A failing input found on the implementation (kind='oracle') or a model/impl
        disagreement (kind='tie')."""
        if kind == 'oracle' and (self.prop, key) in self.known:
            w, c = self.known_hits.get(key, (self.known[(self.prop, key)], 0))
            self.known_hits[key] = (w, c + 1)
            return
        if kind == 'tie':
            self.tie_breaks.append({'key': key, 'case': case, 'model': expected, 'impl': observed, 'what': what})
            return
        self.violations.append({'kind': kind, 'key': key, 'case': case, 'expected': expected, 'observed': observed, 'what': what})

    # verdict
    def finish(self, module):
        wall = time.time() - self.t0
        rdir = os.path.join(VERIF, 'replay')
        os.makedirs(rdir, exist_ok=True)
        lines = []
        exit_code = 0
        pr = self.proof or {'theorems': [], 'discharged': [], 'broken': 'proof step not run', 'axioms': {}}
        for key, (what, c) in sorted(self.known_hits.items()):
            lines.append(f'KNOWN-FINDING: property={self.prop} key={key} {what} (hit {c}x this run)')
        # concrete violations first (dedupe by key, keep smallest case)
        bykey = {}
        for v in self.violations:
            k = v['key']
            if k not in bykey or len(json.dumps(v['case'], default=str)) < len(json.dumps(bykey[k]['case'], default=str)):
                bykey[k] = v
        for i, (k, v) in enumerate(sorted(bykey.items(), key=lambda kv: str(kv[0]))):
            path = os.path.join(rdir, f'{self.prop}-{re.sub(r"[^A-Za-z0-9_.-]", "_", str(k))[:60]}.json')
            json.dump({'property': self.prop, **v}, open(path, 'w'), indent=1, default=str)
            lines.append(f'VIOLATION property={self.prop} replay={path}')
            exit_code = 1
        broken = []
        if pr.get('broken'):
            broken.append(('proof', pr['broken']))
        if self.tie_breaks:
            broken.append(('correspondence', f'{len(self.tie_breaks)} model/implementation disagreement(s); first: {json.dumps(self.tie_breaks[0], default=str)[:1500]}'))
        for b in self.extra.get('broken', []):
            broken.append(b)
        if broken and not bykey:
            path = os.path.join(rdir, f'{self.prop}-unproved.json')
            json.dump({'property': self.prop, 'kind': 'no-failing-input-found',
                       'no_longer_checks': [{'what': w, 'detail': d} for w, d in broken],
                       'tie_breaks': self.tie_breaks[:5]}, open(path, 'w'), indent=1, default=str)
            lines.append(f'VIOLATION property={self.prop} replay={path} no-failing-input-found')
            exit_code = 1
        elif broken:
            for w, d in broken:
                lines.append(f'NOTE property={self.prop} {w} no longer checks: {d[:200]} ... {d[-400:]}')
        ev = {
            'property_id': self.prop,
            'tier': self.tier,
            'seed': self.seed,
            'level': 'proof',
            'coverage': {
                'obligations': max(1, len(pr['theorems'])),
                'discharged': len(pr['discharged']),
                'checker_cmd': f'cd /verif/coq && make (cone of Props/{self.prop}.v) && coqc -Q . Torf Props/{self.prop}.v  [Print Assumptions under every theorem]',
                'trusted_base': TRUSTED_BASE + self.extra.get('trusted', []),
                'theorems': pr['theorems'],
                'discharged_names': pr['discharged'],
                'axioms_reported': pr.get('axioms', {}),
                'evaluations': self.evaluations,
                'distinct_nontrivial': len(self.nontrivial),
                'rule': self.rule,
                'samples': self.samples,
                'model_impl_comparisons': self.ties,
                'model_impl_disagreements': len(self.tie_breaks),
                'traces_validated_against_impl': self.extra.get('traces', self.ties),
                'distribution': dict(sorted(self.dist.items())),
                'exhaustive': self.exhaustive,
                'known_findings_hit': {k: c for k, (w, c) in self.known_hits.items()},
                'proof_status': pr.get('broken') or 'all obligations discharged',
            },
            'assumptions': self.notes,
            'wall_s': round(wall, 2),
            'violations': len(bykey) + (1 if (broken and not bykey) else 0),
        }
        if os.environ.get('VERIF_DEBUG'):
            json.dump(self.tie_breaks[:200], open(os.path.join(rdir, f'{self.prop}-ties.json'), 'w'), indent=1, default=str)
        os.makedirs(os.path.join(VERIF, 'evidence'), exist_ok=True)
        tmp = os.path.join(VERIF, 'evidence', f'.{self.prop}.json.tmp')
        json.dump(ev, open(tmp, 'w'), indent=1, default=str)
        os.replace(tmp, os.path.join(VERIF, 'evidence', f'{self.prop}.json'))
        for l in lines:
            print(l)
        print(f'{self.prop} tier={self.tier} seed={self.seed}: obligations={len(pr["theorems"])} discharged={len(pr["discharged"])} '
              f'evaluations={self.evaluations} nontrivial={len(self.nontrivial)} model/impl={self.ties} disagreements={len(self.tie_breaks)} '
              f'violations={ev["violations"]} known={len(self.known_hits)} wall={wall:.1f}s -> exit {exit_code}')
        return exit_code


class Scratch:
    """Scratch directory outside /repo and /verif, removed on exit."""

    def __enter__(self):
        self.d = tempfile.mkdtemp(prefix='torfverif-')
        return self.d

    def __exit__(self, *a):
        shutil.rmtree(self.d, ignore_errors=True)


def exc_class(e):
    """Canonical class name of an exception raised by the implementation."""
    import torf
    if isinstance(e, torf.TorfError):
        return type(e).__name__
    return type(e).__name__
