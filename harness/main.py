"""Entry point: ./check Cxx [--tier quick|thorough] [--replay file]"""
import argparse
import importlib
import json
import os
import random
import sys
import traceback

import common
from common import Check, BuildError


PINS = {
 "C01": [
  "torf/_stream.py:TorrentFileStream.iter_pieces",
  "torf/_stream.py:TorrentFileStream._iter_from_file_handle",
  "torf/_stream.py:TorrentFileStream._read_from_fh",
  "torf/_stream.py:TorrentFileStream._get_open_file",
  "torf/_stream.py:TorrentFileStream._get_file_size_from_fs",
  "torf/_generate.py:Worker",
  "torf/_generate.py:Reader",
  "torf/_generate.py:HasherPool",
  "torf/_generate.py:Collector",
  "torf/_stream.py:TorrentFileStream.__init__",
  "torf/_torrent.py:Torrent.generate",
  "torf/_torrent.py:Torrent.hashes",
  "torf/_torrent.py:Torrent.pieces",
  "torf/_torrent.py:Torrent.files",
  "torf/_torrent.py:Torrent.size",
  "torf/_utils.py:File",
  "torf/_utils.py:Files"
 ],
 "C10": [
  "torf/_stream.py:TorrentFileStream.iter_pieces",
  "torf/_stream.py:TorrentFileStream._iter_from_file_handle",
  "torf/_stream.py:TorrentFileStream._get_open_file",
  "torf/_stream.py:TorrentFileStream._get_file_size_from_fs",
  "torf/_stream.py:_MissingPieces",
  "torf/_stream.py:TorrentFileStream._get_content_path",
  "torf/_stream.py:TorrentFileStream.__init__",
  "torf/_stream.py:TorrentFileStream.get_piece_indexes_of_file",
  "torf/_stream.py:TorrentFileStream.get_files_at_piece_index",
  "torf/_stream.py:TorrentFileStream.get_files_at_byte_range",
  "torf/_stream.py:TorrentFileStream.get_byte_range_of_file",
  "torf/_stream.py:TorrentFileStream.get_file_position",
  "torf/_errors.py:VerifyFileSizeError",
  "torf/_errors.py:ReadError",
  "torf/_utils.py:File"
 ],
 "C11": [
  "torf/_stream.py:TorrentFileStream.get_piece",
  "torf/_stream.py:TorrentFileStream.get_piece_hash",
  "torf/_stream.py:TorrentFileStream.verify_piece",
  "torf/_stream.py:TorrentFileStream.get_absolute_piece_indexes",
  "torf/_stream.py:TorrentFileStream.get_relative_piece_indexes",
  "torf/_stream.py:TorrentFileStream.get_file_position",
  "torf/_stream.py:TorrentFileStream._get_content_path",
  "torf/_stream.py:TorrentFileStream.__init__",
  "torf/_stream.py:TorrentFileStream.max_piece_index",
  "torf/_stream.py:TorrentFileStream.get_file_at_position",
  "torf/_stream.py:TorrentFileStream.get_piece_indexes_of_file",
  "torf/_stream.py:TorrentFileStream.get_files_at_byte_range",
  "torf/_stream.py:TorrentFileStream.get_byte_range_of_file",
  "torf/_stream.py:TorrentFileStream.get_files_at_piece_index",
  "torf/_stream.py:TorrentFileStream._get_open_file",
  "torf/_utils.py:File",
  "torf/_torrent.py:Torrent.hashes"
 ],
 "C19": [
  "torf/_stream.py:TorrentFileStream.iter_pieces",
  "torf/_stream.py:TorrentFileStream._iter_from_file_handle",
  "torf/_stream.py:TorrentFileStream._get_open_file",
  "torf/_stream.py:TorrentFileStream.get_piece",
  "torf/_stream.py:TorrentFileStream.get_piece_hash",
  "torf/_stream.py:TorrentFileStream.verify_piece",
  "torf/_stream.py:TorrentFileStream.close",
  "torf/_stream.py:TorrentFileStream.__init__",
  "torf/_stream.py:TorrentFileStream.__enter__",
  "torf/_stream.py:TorrentFileStream.__exit__",
  "torf/_stream.py:TorrentFileStream._read_from_fh",
  "torf/_stream.py:TorrentFileStream._get_content_path",
  "torf/_stream.py:_MissingPieces"
 ],
 "C05": [
  "torf/_utils.py:decode_value",
  "torf/_utils.py:decode_list",
  "torf/_utils.py:decode_dict",
  "torf/_utils.py:encode_list",
  "torf/_torrent.py:Torrent.creation_date",
  "torf/_torrent.py:Torrent.private",
  "torf/_utils.py:encode_value",
  "torf/_utils.py:encode_dict",
  "torf/_torrent.py:Torrent.read_stream",
  "torf/_torrent.py:Torrent.read",
  "torf/_torrent.py:Torrent.dump",
  "torf/_torrent.py:Torrent.convert",
  "torf/_torrent.py:Torrent.metainfo",
  "torf/_torrent.py:Torrent.__init__"
 ],
 "C06": [
  "torf/_utils.py:encode_list",
  "torf/_utils.py:encode_value",
  "torf/_utils.py:encode_dict",
  "torf/_torrent.py:Torrent.infohash",
  "torf/_torrent.py:Torrent.infohash_base32",
  "torf/_torrent.py:Torrent.magnet",
  "torf/_torrent.py:Torrent.dump",
  "torf/_torrent.py:Torrent.convert",
  "torf/_torrent.py:Torrent.write",
  "torf/_torrent.py:Torrent.write_stream",
  "torf/_torrent.py:Torrent.metainfo",
  "torf/_torrent.py:Torrent.randomize_infohash",
  "torf/_torrent.py:Torrent.copy",
  "torf/_magnet.py:Magnet.__init__",
  "torf/_magnet.py:Magnet.__str__"
 ],
 "C07": [
  "torf/_utils.py:assert_type",
  "torf/_utils.py:key_exists_in_list_or_dict",
  "torf/_utils.py:is_url",
  "torf/_utils.py:encode_list",
  "torf/_utils.py:is_non_negative",
  "torf/_utils.py:is_md5sum",
  "torf/_utils.py:is_divisible_by_16_kib",
  "torf/_utils.py:force_as_string",
  "torf/_utils.py:iterable_startswith",
  "torf/_utils.py:encode_value",
  "torf/_utils.py:encode_dict",
  "torf/_utils.py:Iterable",
  "torf/_torrent.py:Torrent.validate",
  "torf/_torrent.py:Torrent.is_ready",
  "torf/_torrent.py:Torrent.dump",
  "torf/_torrent.py:Torrent.convert",
  "torf/_torrent.py:Torrent.infohash",
  "torf/_torrent.py:Torrent.magnet",
  "torf/_torrent.py:Torrent.metainfo",
  "torf/_torrent.py:Torrent.write_stream",
  "torf/_errors.py:MetainfoError"
 ],
 "C08": [
  "torf/_utils.py:decode_value",
  "torf/_utils.py:decode_list",
  "torf/_utils.py:decode_dict",
  "torf/_utils.py:assert_type",
  "torf/_torrent.py:Torrent.creation_date",
  "torf/_torrent.py:Torrent.private",
  "torf/_torrent.py:Torrent.read_stream",
  "torf/_torrent.py:Torrent.read",
  "torf/_torrent.py:Torrent.validate",
  "torf/_torrent.py:Torrent.metainfo",
  "torf/_utils.py:is_non_negative",
  "torf/_utils.py:is_md5sum",
  "torf/_utils.py:is_divisible_by_16_kib",
  "torf/_utils.py:force_as_string",
  "torf/_utils.py:iterable_startswith",
  "torf/_utils.py:encode_value",
  "torf/_utils.py:encode_dict",
  "torf/_utils.py:encode_list",
  "torf/_magnet.py:Magnet.from_string",
  "torf/_magnet.py:Magnet.__init__",
  "torf/_errors.py:BdecodeError",
  "torf/_errors.py:MetainfoError",
  "torf/_errors.py:MagnetError",
  "torf/_errors.py:URLError"
 ],
 "C17": [
  "torf/_torrent.py:Torrent.write",
  "torf/_torrent.py:Torrent.write_stream",
  "torf/_torrent.py:Torrent.dump",
  "torf/_torrent.py:Torrent.convert",
  "torf/_torrent.py:Torrent.validate",
  "torf/_errors.py:WriteError"
 ],
 "C16": [
  "torf/_utils.py:MonitoredList",
  "torf/_utils.py:URL",
  "torf/_utils.py:URLs",
  "torf/_utils.py:Trackers",
  "torf/_utils.py:flatten",
  "torf/_torrent.py:Torrent.trackers",
  "torf/_torrent.py:Torrent._trackers_changed",
  "torf/_torrent.py:Torrent.webseeds",
  "torf/_torrent.py:Torrent._webseeds_changed",
  "torf/_torrent.py:Torrent.httpseeds",
  "torf/_torrent.py:Torrent._httpseeds_changed",
  "torf/_utils.py:is_url",
  "torf/_torrent.py:Torrent.metainfo",
  "torf/_errors.py:URLError"
 ],
 "C20": [
  "torf/_torrent.py:Torrent.verify_filesize",
  "torf/_torrent.py:Torrent.partial_size",
  "torf/_utils.py:real_size",
  "torf/_torrent.py:Torrent.files",
  "torf/_torrent.py:Torrent.mode",
  "torf/_torrent.py:Torrent.name",
  "torf/_errors.py:VerifyFileSizeError",
  "torf/_errors.py:ReadError",
  "torf/_errors.py:VerifyIsDirectoryError",
  "torf/_errors.py:VerifyNotDirectoryError",
  "torf/_utils.py:File",
  "torf/_utils.py:iterable_startswith"
 ],
 "C13": [
  "torf/_magnet.py:Magnet.__str__",
  "torf/_magnet.py:Magnet.from_string",
  "torf/_magnet.py:Magnet.dn",
  "torf/_magnet.py:Magnet.tr",
  "torf/_magnet.py:Magnet.ws",
  "torf/_magnet.py:Magnet.xs",
  "torf/_magnet.py:Magnet.as_",
  "torf/_magnet.py:Magnet.kt",
  "torf/_magnet.py:Magnet.xl",
  "torf/_magnet.py:Magnet.__init__",
  "torf/_utils.py:URL",
  "torf/_magnet.py:Magnet.x",
  "torf/_magnet.py:Magnet.xt",
  "torf/_magnet.py:Magnet.infohash",
  "torf/_magnet.py:Magnet.torrent",
  "torf/_torrent.py:Torrent.magnet",
  "torf/_utils.py:URLs",
  "torf/_utils.py:is_url",
  "torf/_torrent.py:Torrent.name",
  "torf/_torrent.py:Torrent.size"
 ],
 "C14": [
  "torf/_magnet.py:Magnet.torrent",
  "torf/_magnet.py:Magnet.get_info",
  "torf/_magnet.py:Magnet._set_info_from_torrent",
  "torf/_magnet.py:Magnet._infohash_hex",
  "torf/_magnet.py:Magnet._has_info",
  "torf/_magnet.py:Magnet.xl",
  "torf/_magnet.py:Magnet.xt",
  "torf/_magnet.py:Magnet.infohash",
  "torf/_magnet.py:Magnet.__init__",
  "torf/_utils.py:download",
  "torf/_utils.py:download_http",
  "torf/_utils.py:URL",
  "torf/_utils.py:is_url",
  "torf/_errors.py:MagnetError"
 ],
 "C09": [
  "torf/_torrent.py:Torrent._set_files",
  "torf/_torrent.py:Torrent.piece_size",
  "torf/_torrent.py:Torrent.piece_size_min",
  "torf/_torrent.py:Torrent.piece_size_max",
  "torf/_torrent.py:Torrent.generate",
  "torf/_torrent.py:Torrent.path",
  "torf/_torrent.py:Torrent.files",
  "torf/_torrent.py:Torrent.filepaths",
  "torf/_utils.py:MonitoredList",
  "torf/_utils.py:Filepaths",
  "torf/_utils.py:Files",
  "torf/_torrent.py:Torrent._filepaths_changed",
  "torf/_torrent.py:Torrent._files_changed",
  "torf/_torrent.py:Torrent._filters_changed",
  "torf/_torrent.py:Torrent.exclude_globs",
  "torf/_torrent.py:Torrent.exclude_regexs",
  "torf/_torrent.py:Torrent.include_globs",
  "torf/_torrent.py:Torrent.include_regexs",
  "torf/_torrent.py:Torrent.metainfo",
  "torf/_torrent.py:Torrent.name",
  "torf/_torrent.py:Torrent.size",
  "torf/_torrent.py:Torrent.mode",
  "torf/_torrent.py:Torrent.pieces",
  "torf/_torrent.py:Torrent.calculate_piece_size",
  "torf/_torrent.py:Torrent.__init__",
  "torf/_utils.py:File",
  "torf/_utils.py:Filepath",
  "torf/_utils.py:filter_files",
  "torf/_utils.py:list_files",
  "torf/_errors.py:PieceSizeError"
 ],
 "C02": [
  "torf/_torrent.py:Torrent.verify",
  "torf/_generate.py:VerifyCallback",
  "torf/_errors.py:VerifyContentError",
  "torf/_stream.py:TorrentFileStream.iter_pieces",
  "torf/_stream.py:TorrentFileStream._iter_from_file_handle",
  "torf/_stream.py:_MissingPieces",
  "torf/_stream.py:TorrentFileStream.__init__",
  "torf/_stream.py:TorrentFileStream._get_content_path",
  "torf/_errors.py:VerifyFileSizeError",
  "torf/_errors.py:ReadError",
  "torf/_torrent.py:Torrent.hashes",
  "torf/_torrent.py:Torrent.files"
 ],
 "C03": [
  "torf/_generate.py:Worker",
  "torf/_generate.py:Reader",
  "torf/_generate.py:HasherPool",
  "torf/_generate.py:Collector",
  "torf/_generate.py:GenerateCallback",
  "torf/_generate.py:VerifyCallback",
  "torf/_generate.py:_IntervaledCallback",
  "torf/_generate.py:_TranslatingCallback",
  "torf/_torrent.py:Torrent.generate",
  "torf/_torrent.py:Torrent.verify"
 ],
 "C04": [
  "torf/_generate.py:Worker",
  "torf/_generate.py:Reader",
  "torf/_generate.py:HasherPool",
  "torf/_generate.py:Collector",
  "torf/_torrent.py:Torrent.generate",
  "torf/_generate.py:GenerateCallback",
  "torf/_generate.py:VerifyCallback",
  "torf/_generate.py:_IntervaledCallback",
  "torf/_generate.py:_TranslatingCallback",
  "torf/_torrent.py:Torrent.verify",
  "torf/_stream.py:TorrentFileStream._read_from_fh",
  "torf/_errors.py:ReadError"
 ],
 "C12": [
  "torf/_generate.py:Collector",
  "torf/_generate.py:_IntervaledCallback",
  "torf/_generate.py:_TranslatingCallback",
  "torf/_generate.py:GenerateCallback",
  "torf/_generate.py:VerifyCallback",
  "torf/_torrent.py:Torrent.generate",
  "torf/_torrent.py:Torrent.verify",
  "torf/_torrent.py:Torrent.pieces"
 ],
 "C15": [
  "torf/_utils.py:list_files",
  "torf/_utils.py:filter_files",
  "torf/_torrent.py:Torrent._set_files",
  "torf/_torrent.py:Torrent.path",
  "torf/_utils.py:File",
  "torf/_torrent.py:Torrent.name",
  "torf/_torrent.py:Torrent.files",
  "torf/_torrent.py:Torrent.filepaths",
  "torf/_torrent.py:Torrent._filters_changed",
  "torf/_torrent.py:Torrent.exclude_globs",
  "torf/_torrent.py:Torrent.exclude_regexs",
  "torf/_torrent.py:Torrent.include_globs",
  "torf/_torrent.py:Torrent.include_regexs",
  "torf/_torrent.py:Torrent.__init__",
  "torf/_utils.py:Filepath",
  "torf/_utils.py:Filepaths",
  "torf/_utils.py:Files",
  "torf/_utils.py:MonitoredList",
  "torf/_utils.py:real_size"
 ],
 "C18": [
  "torf/_reuse.py:find_torrent_files",
  "torf/_reuse.py:is_file_match",
  "torf/_reuse.py:_get_filepaths_and_sizes",
  "torf/_reuse.py:is_content_match",
  "torf/_reuse.py:copy",
  "torf/_reuse.py:ReuseCallback",
  "torf/_torrent.py:Torrent.reuse",
  "torf/_torrent.py:Torrent.name",
  "torf/_torrent.py:Torrent.files",
  "torf/_torrent.py:Torrent.piece_size",
  "torf/_torrent.py:Torrent.piece_size_min",
  "torf/_torrent.py:Torrent.piece_size_max",
  "torf/_torrent.py:Torrent.read",
  "torf/_torrent.py:Torrent.hashes",
  "torf/_stream.py:TorrentFileStream.verify_piece",
  "torf/_stream.py:TorrentFileStream.get_piece",
  "torf/_stream.py:TorrentFileStream.get_piece_indexes_of_file",
  "torf/_utils.py:File"
 ]
}


def main():
    ap = argparse.ArgumentParser()
    ap.add_argument('prop')
    ap.add_argument('--tier', default=os.environ.get('VERIF_TIER', 'quick'), choices=['quick', 'thorough'])
    ap.add_argument('--replay')
    ap.add_argument('--no-proof', action='store_true', help='skip the Coq proof step (debugging only; never registered)')
    a = ap.parse_args()
    seed = int(os.environ.get('VERIF_SEED', '0'))
    mod = importlib.import_module(a.prop.lower())
    if a.replay:
        rp = json.load(open(a.replay))
        if rp.get('kind') == 'no-failing-input-found':
            print(json.dumps(rp, indent=1)[:3000])
            print('replay: no concrete input recorded; re-run the check to re-establish the broken obligation/correspondence')
            sys.exit(1)
        ok, detail = mod.replay(rp)
        print(('REPLAY-PASS ' if ok else 'REPLAY-FAIL ') + str(detail)[:3000])
        sys.exit(0 if ok else 1)
    ck = Check(a.prop, a.tier, seed)
    ck.rng = random.Random(f'{a.prop}:{seed}')
    with common._Lock():
        ok, msg = common.regenerate_extracted()
        if not ok:
            ck.extra.setdefault('broken', []).append(('translator', f'harness/extract.py failed: {msg.strip()[:800]}'))
            # keep the previous Extracted.v so that the model still runs for the search
        # per-property status of the translator: failed sections and pinned (hand-modelled) source that changed
        try:
            st = json.load(open(os.path.join(common.COQ, 'extract_status.json')))
            for name, info in st.get('failed_sections', {}).items():
                if a.prop in info.get('properties', []):
                    ck.extra.setdefault('broken', []).append(('translator', f'section {name}: {info["error"][:600]}'))
            want = json.load(open(os.path.join(common.VERIF, 'harness', 'pins.json')))
            changed = [k for k in PINS.get(a.prop, []) if st.get('pins', {}).get(k) != want.get(k)]
            if changed:
                ck.extra.setdefault('broken', []).append(('source-pin', 'hand-modelled source changed (model no longer known to mirror it): ' + ', '.join(changed)))
        except (OSError, ValueError) as e:
            if ok:
                ck.extra.setdefault('broken', []).append(('translator', f'no extraction status: {e}'))
        gate = common.grep_gate()
        if gate:
            ck.extra.setdefault('broken', []).append(('gate', 'forbidden construct in Coq sources: ' + '; '.join(gate[:5])))
        if a.no_proof:
            ck.proof = {'theorems': [], 'discharged': [], 'broken': 'skipped (--no-proof)', 'axioms': {}}
        else:
            try:
                ck.proof = common.build_props(f'Props/{a.prop}.v')
            except Exception as e:  # build infrastructure failure
                ck.proof = {'theorems': [], 'discharged': [], 'broken': f'proof build failed: {e}', 'axioms': {}}
        try:
            common.build_model()
            model_ok = True
        except BuildError as e:
            model_ok = False
            ck.extra.setdefault('broken', []).append(('model-build', f'{e.stage} {e.target}: {e.output[-800:]}'))
    try:
        mod.run(ck, model_ok)
    except BuildError as e:
        ck.extra.setdefault('broken', []).append(('model-run', f'{e.stage}: {e.output[-800:]}'))
    except Exception:
        ck.extra.setdefault('broken', []).append(('harness', traceback.format_exc()[-1500:]))
    sys.exit(ck.finish(mod))


if __name__ == '__main__':
    main()
