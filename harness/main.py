"""Entry point: ./check Cxx [--tier quick|thorough] [--replay file]"""
import argparse
import importlib
import json
import os
import random
import sys
import traceback

import common
from common import Check, BuildError


PINS = {
 "C01": [
  "torf/_stream.py:TorrentFileStream.iter_pieces",
  "torf/_stream.py:TorrentFileStream._iter_from_file_handle",
  "torf/_stream.py:TorrentFileStream._read_from_fh",
  "torf/_stream.py:TorrentFileStream._get_open_file",
  "torf/_stream.py:TorrentFileStream._get_file_size_from_fs",
  "torf/_generate.py:Worker",
  "torf/_generate.py:Reader",
  "torf/_generate.py:HasherPool",
  "torf/_generate.py:Collector"
 ],
 "C10": [
  "torf/_stream.py:TorrentFileStream.iter_pieces",
  "torf/_stream.py:TorrentFileStream._iter_from_file_handle",
  "torf/_stream.py:TorrentFileStream._get_open_file",
  "torf/_stream.py:TorrentFileStream._get_file_size_from_fs",
  "torf/_stream.py:_MissingPieces",
  "torf/_stream.py:TorrentFileStream._get_content_path"
 ],
 "C11": [
  "torf/_stream.py:TorrentFileStream.get_piece",
  "torf/_stream.py:TorrentFileStream.get_piece_hash",
  "torf/_stream.py:TorrentFileStream.verify_piece",
  "torf/_stream.py:TorrentFileStream.get_absolute_piece_indexes",
  "torf/_stream.py:TorrentFileStream.get_relative_piece_indexes",
  "torf/_stream.py:TorrentFileStream.get_file_position",
  "torf/_stream.py:TorrentFileStream._get_content_path"
 ],
 "C19": [
  "torf/_stream.py:TorrentFileStream.iter_pieces",
  "torf/_stream.py:TorrentFileStream._iter_from_file_handle",
  "torf/_stream.py:TorrentFileStream._get_open_file",
  "torf/_stream.py:TorrentFileStream.get_piece",
  "torf/_stream.py:TorrentFileStream.get_piece_hash",
  "torf/_stream.py:TorrentFileStream.verify_piece",
  "torf/_stream.py:TorrentFileStream.close"
 ],
 "C05": [
  "torf/_utils.py:decode_value",
  "torf/_utils.py:decode_list",
  "torf/_utils.py:decode_dict",
  "torf/_utils.py:encode_list",
  "torf/_torrent.py:Torrent.creation_date",
  "torf/_torrent.py:Torrent.private"
 ],
 "C06": [
  "torf/_utils.py:encode_list"
 ],
 "C07": [
  "torf/_utils.py:assert_type",
  "torf/_utils.py:key_exists_in_list_or_dict",
  "torf/_utils.py:is_url",
  "torf/_utils.py:encode_list"
 ],
 "C08": [
  "torf/_utils.py:decode_value",
  "torf/_utils.py:decode_list",
  "torf/_utils.py:decode_dict",
  "torf/_utils.py:assert_type",
  "torf/_torrent.py:Torrent.creation_date",
  "torf/_torrent.py:Torrent.private"
 ],
 "C17": [],
 "C16": [
  "torf/_utils.py:MonitoredList",
  "torf/_utils.py:URL",
  "torf/_utils.py:URLs",
  "torf/_utils.py:Trackers",
  "torf/_utils.py:flatten",
  "torf/_torrent.py:Torrent.trackers",
  "torf/_torrent.py:Torrent._trackers_changed",
  "torf/_torrent.py:Torrent.webseeds",
  "torf/_torrent.py:Torrent._webseeds_changed",
  "torf/_torrent.py:Torrent.httpseeds",
  "torf/_torrent.py:Torrent._httpseeds_changed"
 ],
 "C20": [
  "torf/_torrent.py:Torrent.verify_filesize",
  "torf/_torrent.py:Torrent.partial_size",
  "torf/_utils.py:real_size"
 ],
 "C13": [
  "torf/_magnet.py:Magnet.__str__",
  "torf/_magnet.py:Magnet.from_string",
  "torf/_magnet.py:Magnet.dn",
  "torf/_magnet.py:Magnet.tr",
  "torf/_magnet.py:Magnet.ws",
  "torf/_magnet.py:Magnet.xs",
  "torf/_magnet.py:Magnet.as_",
  "torf/_magnet.py:Magnet.kt",
  "torf/_magnet.py:Magnet.xl",
  "torf/_magnet.py:Magnet.__init__",
  "torf/_utils.py:URL"
 ],
 "C14": [
  "torf/_magnet.py:Magnet.torrent",
  "torf/_magnet.py:Magnet.get_info",
  "torf/_magnet.py:Magnet._set_info_from_torrent",
  "torf/_magnet.py:Magnet._infohash_hex",
  "torf/_magnet.py:Magnet._has_info",
  "torf/_magnet.py:Magnet.xl"
 ],
 "C09": [
  "torf/_torrent.py:Torrent._set_files",
  "torf/_torrent.py:Torrent.piece_size",
  "torf/_torrent.py:Torrent.piece_size_min",
  "torf/_torrent.py:Torrent.piece_size_max",
  "torf/_torrent.py:Torrent.generate",
  "torf/_torrent.py:Torrent.path",
  "torf/_torrent.py:Torrent.files",
  "torf/_torrent.py:Torrent.filepaths",
  "torf/_utils.py:MonitoredList",
  "torf/_utils.py:Filepaths",
  "torf/_utils.py:Files"
 ],
 "C02": [
  "torf/_torrent.py:Torrent.verify",
  "torf/_generate.py:VerifyCallback",
  "torf/_errors.py:VerifyContentError"
 ],
 "C03": [
  "torf/_generate.py:Worker",
  "torf/_generate.py:Reader",
  "torf/_generate.py:HasherPool",
  "torf/_generate.py:Collector"
 ],
 "C04": [
  "torf/_generate.py:Worker",
  "torf/_generate.py:Reader",
  "torf/_generate.py:HasherPool",
  "torf/_generate.py:Collector",
  "torf/_torrent.py:Torrent.generate"
 ],
 "C12": [
  "torf/_generate.py:Collector",
  "torf/_generate.py:_IntervaledCallback",
  "torf/_generate.py:_TranslatingCallback",
  "torf/_generate.py:GenerateCallback",
  "torf/_generate.py:VerifyCallback"
 ],
 "C15": [
  "torf/_utils.py:list_files",
  "torf/_utils.py:filter_files",
  "torf/_torrent.py:Torrent._set_files",
  "torf/_torrent.py:Torrent.path",
  "torf/_utils.py:File"
 ],
 "C18": [
  "torf/_reuse.py:find_torrent_files",
  "torf/_reuse.py:is_file_match",
  "torf/_reuse.py:_get_filepaths_and_sizes",
  "torf/_reuse.py:is_content_match",
  "torf/_reuse.py:copy",
  "torf/_reuse.py:ReuseCallback",
  "torf/_torrent.py:Torrent.reuse"
 ]
}


def main():
    ap = argparse.ArgumentParser()
    ap.add_argument('prop')
    ap.add_argument('--tier', default=os.environ.get('VERIF_TIER', 'quick'), choices=['quick', 'thorough'])
    ap.add_argument('--replay')
    ap.add_argument('--no-proof', action='store_true', help='skip the Coq proof step (debugging only; never registered)')
    a = ap.parse_args()
    seed = int(os.environ.get('VERIF_SEED', '0'))
    mod = importlib.import_module(a.prop.lower())
    if a.replay:
        rp = json.load(open(a.replay))
        if rp.get('kind') == 'no-failing-input-found':
            print(json.dumps(rp, indent=1)[:3000])
            print('replay: no concrete input recorded; re-run the check to re-establish the broken obligation/correspondence')
            sys.exit(1)
        ok, detail = mod.replay(rp)
        print(('REPLAY-PASS ' if ok else 'REPLAY-FAIL ') + str(detail)[:3000])
        sys.exit(0 if ok else 1)
    ck = Check(a.prop, a.tier, seed)
    ck.rng = random.Random(f'{a.prop}:{seed}')
    with common._Lock():
        ok, msg = common.regenerate_extracted()
        if not ok:
            ck.extra.setdefault('broken', []).append(('translator', f'harness/extract.py failed: {msg.strip()[:800]}'))
            # keep the previous Extracted.v so that the model still runs for the search
        # per-property status of the translator: failed sections and pinned (hand-modelled) source that changed
        try:
            st = json.load(open(os.path.join(common.COQ, 'extract_status.json')))
            for name, info in st.get('failed_sections', {}).items():
                if a.prop in info.get('properties', []):
                    ck.extra.setdefault('broken', []).append(('translator', f'section {name}: {info["error"][:600]}'))
            want = json.load(open(os.path.join(common.VERIF, 'harness', 'pins.json')))
            changed = [k for k in PINS.get(a.prop, []) if st.get('pins', {}).get(k) != want.get(k)]
            if changed:
                ck.extra.setdefault('broken', []).append(('source-pin', 'hand-modelled source changed (model no longer known to mirror it): ' + ', '.join(changed)))
        except (OSError, ValueError) as e:
            if ok:
                ck.extra.setdefault('broken', []).append(('translator', f'no extraction status: {e}'))
        gate = common.grep_gate()
        if gate:
            ck.extra.setdefault('broken', []).append(('gate', 'forbidden construct in Coq sources: ' + '; '.join(gate[:5])))
        if a.no_proof:
            ck.proof = {'theorems': [], 'discharged': [], 'broken': 'skipped (--no-proof)', 'axioms': {}}
        else:
            try:
                ck.proof = common.build_props(f'Props/{a.prop}.v')
            except Exception as e:  # build infrastructure failure
                ck.proof = {'theorems': [], 'discharged': [], 'broken': f'proof build failed: {e}', 'axioms': {}}
        try:
            common.build_model()
            model_ok = True
        except BuildError as e:
            model_ok = False
            ck.extra.setdefault('broken', []).append(('model-build', f'{e.stage} {e.target}: {e.output[-800:]}'))
    try:
        mod.run(ck, model_ok)
    except BuildError as e:
        ck.extra.setdefault('broken', []).append(('model-run', f'{e.stage}: {e.output[-800:]}'))
    except Exception:
        ck.extra.setdefault('broken', []).append(('harness', traceback.format_exc()[-1500:]))
    sys.exit(ck.finish(mod))


if __name__ == '__main__':
    main()
