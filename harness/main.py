"""Entry point: ./check Cxx [--tier quick|thorough] [--replay file]"""
import argparse
import importlib
import json
import os
import random
import sys
import traceback

import common
from common import Check, BuildError


def main():
    ap = argparse.ArgumentParser()
    ap.add_argument('prop')
    ap.add_argument('--tier', default=os.environ.get('VERIF_TIER', 'quick'), choices=['quick', 'thorough'])
    ap.add_argument('--replay')
    ap.add_argument('--no-proof', action='store_true', help='skip the Coq proof step (debugging only; never registered)')
    a = ap.parse_args()
    seed = int(os.environ.get('VERIF_SEED', '0'))
    mod = importlib.import_module(a.prop.lower())
    if a.replay:
        rp = json.load(open(a.replay))
        if rp.get('kind') == 'no-failing-input-found':
            print(json.dumps(rp, indent=1)[:3000])
            print('replay: no concrete input recorded; re-run the check to re-establish the broken obligation/correspondence')
            sys.exit(1)
        ok, detail = mod.replay(rp)
        print(('REPLAY-PASS ' if ok else 'REPLAY-FAIL ') + str(detail)[:3000])
        sys.exit(0 if ok else 1)
    ck = Check(a.prop, a.tier, seed)
    ck.rng = random.Random(f'{a.prop}:{seed}')
    with common._Lock():
        ok, msg = common.regenerate_extracted()
        if not ok:
            ck.extra.setdefault('broken', []).append(('translator', f'harness/extract.py could not extract the expected source shape: {msg.strip()[:800]}'))
            # keep the previous Extracted.v so that the model still runs for the search
        gate = common.grep_gate()
        if gate:
            ck.extra.setdefault('broken', []).append(('gate', 'forbidden construct in Coq sources: ' + '; '.join(gate[:5])))
        if a.no_proof:
            ck.proof = {'theorems': [], 'discharged': [], 'broken': 'skipped (--no-proof)', 'axioms': {}}
        else:
            try:
                ck.proof = common.build_props(f'Props/{a.prop}.v')
            except Exception as e:  # build infrastructure failure
                ck.proof = {'theorems': [], 'discharged': [], 'broken': f'proof build failed: {e}', 'axioms': {}}
        try:
            common.build_model()
            model_ok = True
        except BuildError as e:
            model_ok = False
            ck.extra.setdefault('broken', []).append(('model-build', f'{e.stage} {e.target}: {e.output[-800:]}'))
    try:
        mod.run(ck, model_ok)
    except BuildError as e:
        ck.extra.setdefault('broken', []).append(('model-run', f'{e.stage}: {e.output[-800:]}'))
    except Exception:
        ck.extra.setdefault('broken', []).append(('harness', traceback.format_exc()[-1500:]))
    sys.exit(ck.finish(mod))


if __name__ == '__main__':
    main()
