"""C11 -- stream geometry and random access agree with the byte stream."""
import itertools
import os

import torf
from torf import _stream

import streamlib as sl
from common import Model, Scratch, atom_bytes

RELS = [0, 1, 2, -1, -2, 7, -7]


def layouts(ck):
    quick = ck.tier == 'quick'
    out = []
    # fixed corner corpus first (includes minimised earlier failures)
    corpus = [((3, 10, 1), 4), ((0, 4), 4), ((4, 0), 4), ((2, 0, 4), 4), ((4, 0, 4), 4), ((1,), 1), ((8,), 4),
              ((3, 3, 3), 4), ((1, 1, 1, 1, 1, 1), 4), ((5,), 4), ((0, 0, 3), 2), ((4, 4), 4), ((0, 5, 0), 4),
              ((2, 2, 0), 4), ((7, 1), 4), (tuple([1] * 14) + (20,), 16), (tuple([2] * 13), 32)]
    out += corpus
    if quick:
        for _ in range(260):
            L = ck.rng.choice([1, 2, 3, 4, 4, 5, 8])
            n = ck.rng.choice([1, 2, 2, 3, 3, 4, 5, 6, 12])
            out.append((tuple(ck.rng.choice(list(range(0, 2 * L + 2)) + [L, L, L - 1 if L > 1 else 1, L + 1]) for _ in range(n)), L))
    else:
        for L in (1, 2, 3, 4):
            for n in (1, 2, 3):
                for sizes in itertools.product(range(0, 2 * L + 2), repeat=n):
                    out.append((sizes, L))
        for _ in range(3000):
            L = ck.rng.choice([1, 2, 3, 4, 5, 8, 16])
            n = ck.rng.choice([4, 5, 6, 8, 12, 20])
            out.append((tuple(ck.rng.choice(list(range(0, 2 * L + 2)) + [L, L, L + 1]) for _ in range(n)), L))
    # one piece spanning more files than the open-handle cap
    for _ in range(12 if quick else 200):
        L = ck.rng.choice([16, 24, 32])
        n = ck.rng.randint(12, 30)
        out.append((tuple(ck.rng.choice([1, 1, 1, 2, 3]) for _ in range(n)) + (ck.rng.choice([L, 2 * L + 3]),), L))
    # real-size layouts (piece lengths that torf itself produces); geometry only
    for _ in range(20 if quick else 300):
        L = ck.rng.choice([16384, 32768, 49152])
        n = ck.rng.choice([1, 2, 3, 5])
        out.append((tuple(ck.rng.choice([L - 1, L, L + 1, 2 * L, 1, 0, 3 * L + 7, ck.rng.randrange(0, 4 * L)]) for _ in range(n)), L))
    # near the float-exactness bound 2^53 (geometry only)
    for k in (0, 1, 2):
        out.append(((2 ** 53 - 3 - k, 1, 1), 2 ** 51))
    return [(s, L) for s, L in out if sum(s) > 0]


def queries(sizes, L, with_disk):
    total = sum(sizes)
    npieces = -(-total // L)
    n = len(sizes)
    qs = [('max_piece_index',)]
    small = total <= 64
    for i in range(n):
        qs.append(('file_position', i))
        qs.append(('byte_range_of_file', i))
        qs.append(('piece_indexes_of_file', i, False))
        qs.append(('piece_indexes_of_file', i, True))
        qs.append(('absolute_piece_indexes', i, tuple(RELS)))
        qs.append(('relative_piece_indexes', i, tuple(RELS)))
    qs.append(('file_position', -1))
    positions = range(-1, total + 2) if small else [-1, 0, 1, total // 2, total - 1, total, total + 1] + \
        [x for s in itertools.accumulate(sizes) for x in (s - 1, s)]
    for p in positions:
        qs.append(('file_at_position', p))
    pidx = range(-1, npieces + 2) if small else [-1, 0, 1, npieces // 2, npieces - 1, npieces, npieces + 1]
    for i in pidx:
        qs.append(('files_at_piece_index', i))
        if with_disk:
            qs.append(('get_piece', i))
            qs.append(('verify_piece', i))
    if small:
        for a in range(0, total + 1):
            for b in (a, a + 1, a + L - 1, a + L, total - 1, total + 3):
                if a <= b:
                    qs.append(('files_at_byte_range', a, b))
    else:
        for a, b in [(0, 0), (0, total - 1), (L - 1, L), (total - 1, total + 5), (total, total + 1)]:
            qs.append(('files_at_byte_range', a, b))
    return qs


def oracle(sizes, L, q, stream_bytes, good_hashes):
    """Arithmetic definition on the concatenated stream, from per-byte ownership.  Returns
    ('ok', v) / ('err', ('ValueError',)) / None (no expectation)."""
    total = sum(sizes)
    offs = [0]
    for s in sizes:
        offs.append(offs[-1] + s)
    VE = ('err', ('ValueError',))

    def files_in(a, b):
        return [i for i, s in enumerate(sizes) if s > 0 and offs[i] <= b and a < offs[i] + s]
    k = q[0]
    if k == 'max_piece_index':
        return ('ok', (total - 1) // L)
    if k == 'file_position':
        return ('ok', offs[q[1]]) if q[1] >= 0 else VE
    if k == 'byte_range_of_file':
        if sizes[q[1]] == 0:
            return None
        return ('ok', (offs[q[1]], offs[q[1]] + sizes[q[1]] - 1))
    if k == 'file_at_position':
        p = q[1]
        if p < 0 or p >= total:
            return VE
        return ('ok', next(i for i, s in enumerate(sizes) if offs[i] <= p < offs[i] + s))
    if k == 'files_at_byte_range':
        return ('ok', files_in(q[1], q[2]))
    if k == 'files_at_piece_index':
        i = q[1]
        if i < 0 or i * L >= total:
            return VE
        return ('ok', files_in(i * L, (i + 1) * L - 1))
    if k == 'piece_indexes_of_file':
        i, excl = q[1], q[2]
        if sizes[i] == 0:
            return ('ok', [])
        pis = list(range(offs[i] // L, (offs[i] + sizes[i] - 1) // L + 1))
        if excl:
            pis = [p for p in pis if files_in(p * L, (p + 1) * L - 1) == [i]]
        return ('ok', pis)
    if k in ('absolute_piece_indexes', 'relative_piece_indexes'):
        i, rels = q[1], q[2]
        if sizes[i] == 0:
            return None
        amin, amax = offs[i] // L, (offs[i] + sizes[i] - 1) // L
        mx = amax - amin if k == 'absolute_piece_indexes' else (sizes[i] - 1) // L
        base = amin if k == 'absolute_piece_indexes' else 0
        res = set()
        for r in rels:
            r1 = mx - abs(r) + 1 if r < 0 else r
            res.add(base + max(0, min(mx, r1)))
        return ('ok', sorted(res))
    if k == 'get_piece':
        i = q[1]
        if i < 0 or i * L >= total:
            return VE
        return ('ok', stream_bytes[i * L:(i + 1) * L])
    if k == 'verify_piece':
        i = q[1]
        if i < -len(good_hashes) or i * L >= total:
            return VE
        if i < 0:
            return VE
        return ('ok', True)
    raise AssertionError(k)


def run_impl(t, canon, q, cp):
    tfs = _stream.TorrentFileStream(t, content_path=cp)
    files = canon.files
    k = q[0]
    try:
        if k == 'max_piece_index':
            return ('ok', tfs.max_piece_index)
        if k == 'file_position':
            f = files[q[1]] if q[1] >= 0 else torf.File('T/unknown', 3)
            return ('ok', tfs.get_file_position(f))
        if k == 'byte_range_of_file':
            return ('ok', tuple(tfs.get_byte_range_of_file(files[q[1]])))
        if k == 'file_at_position':
            return ('ok', canon.fid(tfs.get_file_at_position(q[1])))
        if k == 'files_at_byte_range':
            return ('ok', [canon.fid(f) for f in tfs.get_files_at_byte_range(q[1], q[2])])
        if k == 'files_at_piece_index':
            return ('ok', [canon.fid(f) for f in tfs.get_files_at_piece_index(q[1])])
        if k == 'piece_indexes_of_file':
            return ('ok', list(tfs.get_piece_indexes_of_file(files[q[1]], exclusive=q[2])))
        if k == 'absolute_piece_indexes':
            return ('ok', list(tfs.get_absolute_piece_indexes(files[q[1]], q[2])))
        if k == 'relative_piece_indexes':
            return ('ok', list(tfs.get_relative_piece_indexes(files[q[1]], q[2])))
        if k == 'get_piece':
            return ('ok', tfs.get_piece(q[1]))
        if k == 'verify_piece':
            return ('ok', tfs.verify_piece(q[1]))
    except Exception as e:  # noqa
        return ('err', sl.canon_exc(e))
    finally:
        tfs.close()
    raise AssertionError(k)


def model_req(sizes, L, q, disk, model_hashes):
    fs = sl.files_sexp(sizes)
    k = q[0]
    if k == 'max_piece_index':
        return ['geom.max_piece_index', fs, L]
    if k == 'file_position':
        return ['geom.file_position', fs, [q[1], sizes[q[1]]] if q[1] >= 0 else [999, 3]]
    if k == 'byte_range_of_file':
        return ['geom.byte_range_of_file', fs, [q[1], sizes[q[1]]]]
    if k == 'file_at_position':
        return ['geom.file_at_position', fs, q[1]]
    if k == 'files_at_byte_range':
        return ['geom.files_at_byte_range', fs, q[1], q[2]]
    if k == 'files_at_piece_index':
        return ['geom.files_at_piece_index', fs, L, q[1]]
    if k == 'piece_indexes_of_file':
        return ['geom.piece_indexes_of_file', fs, L, [q[1], sizes[q[1]]], q[2]]
    if k == 'absolute_piece_indexes':
        return ['geom.absolute_piece_indexes', fs, L, [q[1], sizes[q[1]]], list(q[2])]
    if k == 'relative_piece_indexes':
        return ['geom.relative_piece_indexes', L, [q[1], sizes[q[1]]], list(q[2])]
    if k == 'get_piece':
        return ['stream.history', disk, fs, L, model_hashes, [['get', q[1]]]]
    if k == 'verify_piece':
        return ['stream.history', disk, fs, L, model_hashes, [['verify', q[1]]]]
    raise AssertionError(k)


def model_conv(q, r):
    k = q[0]
    if k in ('max_piece_index', 'file_position'):
        return sl.model_res(r, int)
    if k == 'byte_range_of_file':
        return sl.model_res(r, lambda v: (int(v[0]), int(v[1])))
    if k == 'file_at_position':
        return sl.model_res(r, lambda v: int(v[0]))
    if k in ('files_at_byte_range', 'files_at_piece_index'):
        return sl.model_res(r, lambda v: [int(f[0]) for f in v])
    if k in ('piece_indexes_of_file', 'absolute_piece_indexes', 'relative_piece_indexes'):
        return sl.model_res(r, lambda v: [int(x) for x in v])
    if k == 'get_piece':
        return sl.model_res(r[0][0], atom_bytes)
    if k == 'verify_piece':
        return sl.model_res(r[0][0], lambda v: None if v == 'none' else v == 't')
    raise AssertionError(k)


def classify(sizes, L, q, got, exp):
    """Key identifying the failing call site / input class (for KNOWN_FINDINGS)."""
    zero = any(s == 0 for s in sizes)
    k = q[0]
    if zero:
        if k in ('files_at_byte_range', 'files_at_piece_index'):
            if got[0] == 'ok' and exp[0] == 'ok':
                return 'zero-length-file-listed-in-range'
            if got[0] == 'ok' and exp[0] == 'err':
                return 'out-of-range-piece-index-accepted-because-of-zero-length-file'
        if k == 'piece_indexes_of_file':
            if q[2] and got[0] == 'err':
                return 'piece-indexes-exclusive-raises-with-zero-length-files'
            return 'zero-length-file-changes-piece-indexes'
        if k in ('get_piece', 'verify_piece') and got == ('err', ('AssertionError',)):
            return 'get_piece-AssertionError-with-zero-length-file'
    return f'{k}:{got[0]}-vs-{exp[0]}'


def norm(v):
    if isinstance(v, tuple) and len(v) == 2 and v[0] == 'ok' and isinstance(v[1], (list, tuple)):
        return ('ok', list(v[1]))
    return v


def run(ck, model_ok):
    ck.rule = ('layouts: fixed corner corpus + random/exhaustive small layouts (sizes 0..2L+1, 1..12 files, L in 1..16) + real piece '
               'lengths + sizes near 2^53; per layout every geometry method is queried at every position / piece index / file '
               '(small layouts) with and without a content path; get_piece/verify_piece read real files. A case is one (layout, variant, query); '
               'non-trivial = distinct (layout, query) whose expected answer is not the out-of-range error')
    m = Model()
    pending = []
    lay = layouts(ck)
    with Scratch() as root:
        for li, (sizes, L) in enumerate(lay):
            total = sum(sizes)
            with_disk = total <= 4096
            contents = sl.gen_content(sizes) if with_disk else None
            stream_bytes = b''.join(contents) if with_disk else b''
            good = [sl.sha1(c) for c in sl.chunks(stream_bytes, L)] if with_disk else []
            model_hashes = sl.chunks(stream_bytes, L) if with_disk else []
            d = os.path.join(root, str(li))
            cp = None
            if with_disk:
                os.makedirs(d)
                cp = sl.write_tree(d, contents)
            t = sl.make_torrent(sizes, L, hashes=good if with_disk else None)
            canon = sl.Canon(t, content_path=cp)
            disk = sl.disk_sexp(dict(enumerate(contents))) if with_disk else []
            qs = queries(sizes, L, with_disk)
            variants = [('content_path', cp)] if with_disk else [('nopath', None), ('content_path', '/nonexistent/dir/X')]
            if with_disk and li % 3 == 0:
                variants.append(('nopath', None))
            for vname, vcp in variants:
                for q in qs:
                    if q[0] in ('get_piece', 'verify_piece') and vcp is None:
                        continue
                    if vcp is not None and not with_disk:
                        canon.cp = vcp
                    got = norm(run_impl(t, canon, q, vcp))
                    exp = oracle(sizes, L, q, stream_bytes, good)
                    ck.case((sizes, L, q), nontrivial=(exp is not None and exp[0] == 'ok'))
                    ck.count('query:' + q[0])
                    ck.count('variant:' + vname)
                    if exp is not None and got[0] == 'err':
                        ck.count('outcome:error')
                    bad = exp is not None and norm(exp) != got
                    if bad and not model_ok:
                        ck.fail('oracle', 'new:' + classify(sizes, L, q, got, exp),
                                {'sizes': list(sizes), 'L': L, 'query': list(q), 'variant': vname},
                                repr(exp), repr(got), f'{q[0]} disagrees with the arithmetic definition')
                    if model_ok:
                        pending.append((sizes, L, q, vname, got, m.add(model_req(sizes, L, q, disk, model_hashes)), exp if bad else None))
            if li < 3:
                ck.sample({'sizes': list(sizes), 'L': L, 'queries': len(qs), 'example': [list(qs[5]), repr(oracle(sizes, L, qs[5], stream_bytes, good))]})
            if len(m.reqs) > 40000:
                flush(ck, m, pending)
                pending = []
        flush(ck, m, pending)
    ck.count('layouts', len(lay))
    ck.exhaustive = False
    # random access vs sequential access on ONE stream object whose environment changes between operations (oracle: a fresh object)
    import c19
    c19.run_changing(ck)
    ck.notes += ['float division floor(a/b) equals integer floor division for |a|,|b| < 2^53 (sizes near 2^53 are exercised, not proved)',
                 'File objects compare by (path, size); torrent file lists are duplicate-free (Files de-duplicates)']


def flush(ck, m, pending):
    if not pending:
        return
    res = m.run()
    for (sizes, L, q, vname, got, idx, exp) in pending:
        mr = norm(model_conv(q, res[idx]))
        ck.ties += 1
        case = {'sizes': list(sizes), 'L': L, 'query': list(q), 'variant': vname}
        if mr != got:
            ck.fail('tie', f'{q[0]}', case, repr(mr), repr(got), 'model and implementation disagree')
        if exp is not None:
            # a failure is a KNOWN finding only if the faithful model of the unchanged code (see the
            # *_refuted theorems in Props/C11.v) exhibits exactly the same answer; anything else is new
            key = classify(sizes, L, q, got, exp)
            if mr != got:
                key = 'new:' + key
            ck.fail('oracle', key, case, repr(exp), repr(got), f'{q[0]} disagrees with the arithmetic definition')


def replay(rp):
    c = rp['case']
    if c.get('changing'):
        import c19
        return c19.replay_changing(c)
    sizes, L, q = tuple(c['sizes']), c['L'], tuple(tuple(x) if isinstance(x, list) else x for x in c['query'])
    with Scratch() as root:
        contents = sl.gen_content(sizes)
        stream_bytes = b''.join(contents)
        good = [sl.sha1(x) for x in sl.chunks(stream_bytes, L)]
        cp = sl.write_tree(root, contents) if c['variant'] != 'nopath' else None
        t = sl.make_torrent(sizes, L, hashes=good)
        canon = sl.Canon(t, content_path=cp)
        got = norm(run_impl(t, canon, q, cp))
        exp = oracle(sizes, L, q, stream_bytes, good)
    return (exp is None or norm(exp) == got), {'expected': repr(exp), 'observed': repr(got)}
