#!/bin/bash
# usage: seed_rows.sh <seed dir name> ...  -- run the check of each named seeded change and print its DETECTION.md row
cd /verif
if [ -n "$(git -C /repo status --porcelain)" ]; then echo "/repo not clean"; exit 2; fi
for n in "$@"; do
  p=${n%%-*}
  git -C /repo apply /verif/seeded/$n/patch.diff || { echo "| $n | - | patch does not apply | | |"; continue; }
  log=$(./check $p --tier quick 2>&1); rc=$?
  viol=$(echo "$log" | grep '^VIOLATION' | sed 's/.*replay=\/verif\/replay\///; s/\.json//' | tr '\n' ' ' | cut -c1-300)
  notes=$(echo "$log" | grep '^NOTE' | sed 's/NOTE property=[A-Z0-9]* //; s/ no longer checks.*//' | sort -u | tr '\n' ',' )
  echo "| $n | $p | $rc | $viol | $notes |"
  git -C /repo checkout -- .
done
