"""Cooperative scheduler standing in for `threading`, `queue` and the monotonic clock
inside torf._generate.  Every fake thread runs in a real OS thread, but only one
of them runs at a time; control changes hands only at scheduling points (queue
put/get, event set/wait, thread start/join/is_alive, clock reads, reads and
writes of Reader._stop).  At each point a chooser picks which thread performs its
pending operation next and, for operations with a timeout, whether the timeout
expires -- so one seed (or one explicit list of choices) is one interleaving,
replayable exactly.  No change to /repo is needed: the module attributes
torf._generate.queue / .threading / .time_monotonic are substituted for the
duration of a run."""
import random
import threading as real_threading


class SchedAbort(BaseException):
    """Raised inside fake threads to unwind them after a deadlock / step limit."""


class Empty(Exception):
    pass


class Full(Exception):
    pass


# a timeout that expires advances the clock by at least its length (multiples of 7 ms)
TIMEOUT_MS = {0.5: 504, 1.0: 1001}


class Op:
    __slots__ = ('kind', 'obj', 'arg', 'timeout')

    def __init__(self, kind, obj=None, arg=None, timeout=None):
        self.kind, self.obj, self.arg, self.timeout = kind, obj, arg, timeout


class FThread:
    def __init__(self, sched, name, target, tid):
        self.sched, self.name, self.target, self.tid = sched, name, target, tid
        self.started = False
        self.finished = False
        self.pending = None
        self.alt = None
        self.sem = real_threading.Semaphore(0)
        self.real = None
        self.exc = None

    def _run(self):
        self.sem.acquire()            # wait until scheduled for the first time
        sched = self.sched
        self.pending = None
        try:
            if not sched.aborting:
                self.target()
        except SchedAbort:
            pass
        except BaseException as e:  # noqa
            self.exc = e
        finally:
            self.finished = True
            sched.log(self.tid, 'exit', None, None)
            sched.thread_exit(self)


class Sched:
    """chooser(options) -> index; options is a list of (tid, kind, alt) with alt in ('go', 'timeout')."""

    def __init__(self, chooser, max_steps=200000, start_refusals=(), clock_step=None):
        self.chooser = chooser
        self.max_steps = max_steps
        self.start_refusals = set(start_refusals)     # names of threads whose start() is refused
        self.threads = []
        self.current = None
        self.now_ms = 0              # fake monotonic clock, integer milliseconds
        self.steps = 0
        self.trace = []               # (tid, kind, alt, detail)
        self.aborting = False
        self.verdict = None           # None | 'deadlock' | 'step-limit'
        self.done = real_threading.Semaphore(0)
        self.clock_step = clock_step or (lambda: 0)      # -> milliseconds, multiples of 7 (never exactly on a threshold)
        self.main = FThread(self, 'main', None, 0)
        self.main.started = True
        self.threads.append(self.main)
        self.current = self.main
        self.queues = []
        self.record = True

    # ---- bookkeeping ----
    def log(self, tid, kind, alt, detail):
        if self.record:
            self.trace.append((tid, kind, alt, detail))

    def new_thread(self, name, target):
        t = FThread(self, name, target, len(self.threads))
        self.threads.append(t)
        return t

    def enabled(self, t):
        """alternatives enabled for thread t's pending operation"""
        op = t.pending
        if op is None:
            return []
        k = op.kind
        if k == 'put':
            q = op.obj
            return ['go'] if (q.maxsize <= 0 or len(q.items) < q.maxsize) else []
        if k == 'get':
            q = op.obj
            if q.items:
                return ['go']
            return ['timeout'] if op.timeout is not None else []
        if k == 'wait':
            ev = op.obj
            if ev.flag:
                return ['go']
            return ['timeout'] if op.timeout is not None else []
        if k == 'join':
            return ['go'] if op.obj.finished else []
        return ['go']                 # set, start, alive, clock, stop-read, stop-write, begin

    def options(self):
        out = []
        for t in self.threads:
            if t.started and not t.finished and t.pending is not None:
                for alt in self.enabled(t):
                    out.append((t.tid, t.pending.kind, alt))
        return out

    def pick(self):
        """choose the next (thread, alt); returns None if nothing is enabled"""
        opts = self.options()
        if not opts:
            return None
        self.steps += 1
        if self.steps > self.max_steps:
            self.verdict = self.verdict or 'step-limit'
            return None
        i = self.chooser(opts)
        tid, kind, alt = opts[i]
        t = self.threads[tid]
        t.alt = alt
        return t

    def abort_all(self):
        self.aborting = True
        for t in self.threads:
            if t.started and not t.finished and t is not self.current:
                t.sem.release()

    # ---- the scheduling point ----
    def point(self, op):
        """Called by the running fake thread: declare the pending operation, let the chooser pick
        who goes next; returns the chosen alternative for this thread once it is picked."""
        me = self.current
        if self.aborting:
            raise SchedAbort()
        me.pending = op
        nxt = self.pick()
        if nxt is None:
            if self.verdict is None:
                self.verdict = 'deadlock'
            self.blocked_state = [(t.name, t.pending.kind if t.pending else None) for t in self.threads if t.started and not t.finished]
            self.abort_all()
            me.pending = None
            raise SchedAbort()
        if nxt is not me:
            self.current = nxt
            nxt.sem.release()
            me.sem.acquire()
            if self.aborting:
                me.pending = None
                raise SchedAbort()
        self.current = me
        me.pending = None
        return me.alt

    def thread_exit(self, t):
        """t finished: hand control to somebody else (never returns control to t)"""
        if self.aborting:
            # the aborting thread woke everybody; nothing to schedule
            alive = [x for x in self.threads if x.started and not x.finished]
            if not alive:
                self.done.release()
            return
        nxt = self.pick()
        if nxt is None:
            alive = [x for x in self.threads if x.started and not x.finished]
            if alive:
                if self.verdict is None:
                    self.verdict = 'deadlock'
                self.blocked_state = [(x.name, x.pending.kind if x.pending else None) for x in alive]
                self.aborting = True
                for x in alive:
                    x.sem.release()
            else:
                self.done.release()
            return
        self.current = nxt
        nxt.sem.release()

    # ---- running a scenario on the main fake thread ----
    def run(self, fn):
        """Run fn() as the main fake thread (in the calling OS thread). Returns ('ok', value) / ('err', exc)."""
        try:
            res = ('ok', fn())
        except SchedAbort:
            res = ('abort', self.verdict)
        except BaseException as e:  # noqa
            res = ('err', e)
        # let the remaining fake threads run to completion (they may still be unwinding / working)
        self.main.finished = True
        self.log(0, 'exit', None, None)
        leftover = [t.name for t in self.threads if t.started and not t.finished]
        if leftover and not self.aborting:
            # drive the remaining threads until they finish or block forever
            nxt = self.pick()
            if nxt is None:
                if self.verdict is None:
                    self.verdict = 'leftover-blocked'
                self.blocked_state = [(t.name, t.pending.kind if t.pending else None) for t in self.threads if t.started and not t.finished]
                self.aborting = True
                for t in self.threads:
                    if t.started and not t.finished:
                        t.sem.release()
            else:
                self.current = nxt
                nxt.sem.release()
            self.done.acquire()
        elif leftover:
            self.done.acquire()
        for t in self.threads[1:]:
            if t.real is not None:
                t.real.join()
        return res, leftover


# ---- the fake modules ----
class FakeQueue:
    def __init__(self, sched, maxsize=0):
        self.sched = sched
        self.maxsize = maxsize
        self.items = []
        self.qid = len(sched.queues)
        sched.queues.append(self)

    def put(self, item, block=True, timeout=None):
        s = self.sched
        s.point(Op('put', self))
        self.items.append(item)
        s.log(s.current.tid, 'put', 'go', self.qid)

    def get(self, block=True, timeout=None):
        s = self.sched
        alt = s.point(Op('get', self, timeout=timeout))
        if alt == 'timeout':
            s.now_ms += TIMEOUT_MS[timeout]
            s.log(s.current.tid, 'get', 'timeout', self.qid)
            raise Empty()
        item = self.items.pop(0)
        s.log(s.current.tid, 'get', 'go', self.qid)
        return item

    def qsize(self):
        return len(self.items)


class FakeEvent:
    def __init__(self, sched):
        self.sched = sched
        self.flag = False

    def set(self):
        s = self.sched
        s.point(Op('set', self))
        self.flag = True
        s.log(s.current.tid, 'set', 'go', None)

    def is_set(self):
        return self.flag

    def wait(self, timeout=None):
        s = self.sched
        alt = s.point(Op('wait', self, timeout=timeout))
        if alt == 'timeout':
            s.now_ms += TIMEOUT_MS[timeout]
            s.log(s.current.tid, 'wait', 'timeout', None)
            return False
        s.log(s.current.tid, 'wait', 'go', None)
        return True


class FakeThreadObj:
    """threading.Thread stand-in"""

    def __init__(self, sched, name=None, target=None, **kw):
        self.sched = sched
        self.name = name
        self.ft = sched.new_thread(name, target)

    def start(self):
        s = self.sched
        s.point(Op('start', self.ft))
        if self.ft.started:
            raise RuntimeError('threads can only be started once')
        if self.name in s.start_refusals:
            s.log(s.current.tid, 'start', 'refused', self.ft.tid)
            raise RuntimeError("can't start new thread")
        self.ft.started = True
        self.ft.pending = Op('begin')
        self.ft.real = real_threading.Thread(target=self.ft._run, name='fake-' + str(self.name), daemon=True)
        self.ft.real.start()
        s.log(s.current.tid, 'start', 'go', self.ft.tid)

    def is_alive(self):
        s = self.sched
        s.point(Op('alive', self.ft))
        r = self.ft.started and not self.ft.finished
        s.log(s.current.tid, 'alive', 'go', (self.ft.tid, r))
        return r

    def join(self, timeout=None):
        s = self.sched
        if not self.ft.started:
            raise RuntimeError('cannot join thread before it is started')
        s.point(Op('join', self.ft))
        s.log(s.current.tid, 'join', 'go', self.ft.tid)


class FakeThreading:
    def __init__(self, sched):
        self.sched = sched

    def Thread(self, *a, **kw):
        return FakeThreadObj(self.sched, *a, **kw)

    def Event(self):
        return FakeEvent(self.sched)

    def current_thread(self):
        class _T:
            name = self.sched.current.name
        return _T()


class FakeQueueModule:
    Empty = Empty
    Full = Full

    def __init__(self, sched):
        self.sched = sched

    def Queue(self, maxsize=0):
        return FakeQueue(self.sched, maxsize)


def install(sched, gen_module):
    """Substitute the module attributes of torf._generate; returns an undo function."""
    saved = (gen_module.queue, gen_module.threading, gen_module.time_monotonic, gen_module.Reader.__dict__.get('_stop'))
    gen_module.queue = FakeQueueModule(sched)
    gen_module.threading = FakeThreading(sched)

    def clock():
        sched.point(Op('clock'))
        inc = sched.clock_step()
        sched.now_ms += inc
        sched.log(sched.current.tid, 'clock', 'go', inc)
        return sched.now_ms / 1000.0
    gen_module.time_monotonic = clock

    def get_stop(self):
        sched.point(Op('stop-read'))
        v = self.__dict__.get('_stop_value', False)
        sched.log(sched.current.tid, 'stop-read', 'go', v)
        return v

    def set_stop(self, v):
        if '_stop_value' in self.__dict__:       # the initialisation in __init__ is not a shared access
            sched.point(Op('stop-write'))
            sched.log(sched.current.tid, 'stop-write', 'go', v)
        self.__dict__['_stop_value'] = v
    gen_module.Reader._stop = property(get_stop, set_stop)

    def undo():
        gen_module.queue, gen_module.threading, gen_module.time_monotonic = saved[:3]
        if saved[3] is None:
            try:
                del gen_module.Reader._stop
            except AttributeError:
                pass
        else:
            gen_module.Reader._stop = saved[3]
    return undo


# ---- choosers ----
class RandomChooser:
    """Seeded pseudo-random schedule; timeout alternatives get weight w_timeout."""

    def __init__(self, seed, w_timeout=1.0, sticky=0.0):
        self.rng = random.Random(seed)
        self.w_timeout = w_timeout
        self.sticky = sticky          # probability of continuing with the thread that ran last
        self.choices = []
        self.last = None

    def __call__(self, opts):
        if self.sticky and self.last is not None and self.rng.random() < self.sticky:
            same = [i for i, o in enumerate(opts) if o[0] == self.last and o[2] == 'go']
            if same:
                self.choices.append(same[0])
                return same[0]
        ws = [self.w_timeout if o[2] == 'timeout' else 1.0 for o in opts]
        if not any(ws):
            ws = [1.0] * len(opts)          # w_timeout = 0: a timeout only expires when nothing else can run
        i = self.rng.choices(range(len(opts)), weights=ws)[0]
        self.choices.append(i)
        self.last = opts[i][0]
        return i


class ReplayChooser:
    """Replays explicit choices (thread id, alternative); falls back to the first option when exhausted."""

    def __init__(self, picks):
        self.picks = list(picks)
        self.k = 0
        self.diverged = False

    def __call__(self, opts):
        if self.k < len(self.picks):
            tid, alt = self.picks[self.k]
            self.k += 1
            for i, o in enumerate(opts):
                if o[0] == tid and o[2] == alt:
                    return i
            self.diverged = True
        return 0
