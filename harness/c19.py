"""C19 -- content-stream objects give history-independent answers."""
import os

import streamlib as sl
from common import Model, Scratch

CAP = 10


def gen_cases(ck):
    quick = ck.tier == 'quick'
    n_cases = 180 if quick else 3000
    cases = []
    # corpus first: minimal histories that failed before
    cases.append(((5, 7, 3), 4, {}, [('iter', -1), ('iter', -1)]))
    cases.append(((9,), 4, {}, [('get', 1), ('iter', -1)]))
    cases.append(((5, 7, 3), 4, {}, [('iter', 2), ('iter', -1), ('close',), ('iter', -1)]))
    cases.append((tuple([3] * 14), 4, {}, [('iter', -1), ('get', 0), ('verify', 3), ('close',)]))
    # cache-pressure histories: fill the open-handle table in a chosen order with indexed reads,
    # then read pieces that straddle two files (one of them the oldest open handle, the other not open)
    for _ in range(n_cases // 3):
        L = ck.rng.choice([2, 3, 4])
        nf = ck.rng.randint(CAP + 2, CAP + 12)
        sizes = tuple(ck.rng.choice([L + 1, 2 * L + 1, 2 * L - 1, 3 * L]) for _ in range(nf))
        offs = [0]
        for z in sizes:
            offs.append(offs[-1] + z)
        npieces = -(-offs[-1] // L)
        owners = []
        for pi in range(npieces):
            a, b = pi * L, min((pi + 1) * L, offs[-1]) - 1
            owners.append([i for i in range(nf) if offs[i] <= b and a < offs[i + 1]])
        inside = {}
        straddle = {}
        for pi, ow in enumerate(owners):
            if len(ow) == 1:
                inside.setdefault(ow[0], pi)
            elif len(ow) == 2:
                straddle.setdefault(ow[0], pi)
        order = [f for f in ck.rng.sample(range(nf), nf) if f in inside]
        ops = []
        opened = []
        for f in order[:CAP + 1]:
            if (f - 1) in opened[:1]:
                continue   # keep "oldest | not-open neighbour" pairs available
            ops.append((ck.rng.choice(['get', 'get', 'verify']), inside[f]))
            opened.append(f)
        cands = [q for q in opened[:2] if q in straddle and (q + 1) not in opened]
        for q in cands + ck.rng.sample(sorted(straddle), min(3, len(straddle))):
            ops.append((ck.rng.choice(['get', 'verify']), straddle[q]))
        if ck.rng.random() < 0.3:
            ops.insert(ck.rng.randrange(len(ops)), ('iter', ck.rng.randint(1, npieces)))
        cases.append((sizes, L, {}, ops))
    for _ in range(n_cases):
        L = ck.rng.choice([2, 3, 4, 4, 8])
        nf = ck.rng.choice([1, 2, 3, 3, 4, 12, 15, 24, 30])
        sizes = tuple(ck.rng.choice([1, 2, L - 1 or 1, L, L + 1, 2 * L + 1, 3 * L]) for _ in range(nf))
        damage = {}
        if ck.rng.random() < 0.3:
            for _ in range(ck.rng.choice([1, 1, 2])):
                damage[ck.rng.randrange(nf)] = ck.rng.choice(['missing', 'short', 'long'])
        npieces = -(-sum(sizes) // L)
        ops = []
        for _ in range(ck.rng.randint(2, 12 if not quick else 8)):
            r = ck.rng.random()
            if r < 0.3:
                ops.append(('iter', -1))
            elif r < 0.5:
                ops.append(('iter', ck.rng.randint(0, npieces)))
            elif r < 0.75:
                ops.append(('get', ck.rng.randint(-1, npieces)))
            elif r < 0.92:
                ops.append(('verify', ck.rng.randint(-1, npieces)))
            else:
                ops.append(('close',))
        cases.append((sizes, L, damage, ops))
    return cases


def build(root, sizes, L, damage):
    contents = sl.gen_content(sizes)
    stream = b''.join(contents)
    good = [sl.sha1(c) for c in sl.chunks(stream, L)]
    on_disk = {}
    for i, c in enumerate(contents):
        d = damage.get(i)
        if d == 'missing':
            continue
        on_disk[i] = c[:-1] if d == 'short' else (c + b'\xee' if d == 'long' else c)
    cp = sl.write_tree(root, [on_disk.get(i) for i in range(len(sizes))])
    t = sl.make_torrent(sizes, L, hashes=good)
    return t, cp, on_disk, sl.chunks(stream, L)


def run(ck, model_ok):
    ck.rule = ('random operation histories (2..12 ops: full iteration, iteration abandoned after k items, get_piece, verify_piece, close) on one '
               'TorrentFileStream over layouts with 1..30 files (fewer and more than the open-handle cap), 30% with missing/short/long files; '
               'oracle: every op result equals the result of the same op on a FRESH stream object, open descriptors <= cap+1, 0 after close; '
               'non-trivial = distinct (layout, damage, history) with at least 2 reading ops')
    m = Model()
    pend = []
    cases = gen_cases(ck)
    with Scratch() as root:
        for ci, (sizes, L, damage, ops) in enumerate(cases):
            d = os.path.join(root, str(ci))
            os.makedirs(d)
            t, cp, on_disk, model_hashes = build(d, sizes, L, damage)
            canon = sl.Canon(t, content_path=cp)
            got = sl.run_history_impl(t, canon, cp, ops, cp)
            ck.case((sizes, L, tuple(sorted(damage.items())), tuple(ops)), nontrivial=sum(1 for o in ops if o[0] != 'close') >= 2)
            ck.count('files>cap' if len(sizes) > CAP + 1 else 'files<=cap')
            if damage:
                ck.count('damaged-layouts')
            fresh = {}
            errored = False
            for (op, (out, nfd)) in zip(ops, got):
                ck.count('op:' + op[0])
                case = {'sizes': list(sizes), 'L': L, 'damage': {str(k): v for k, v in damage.items()}, 'ops': [list(o) for o in ops], 'at': list(op)}
                if op[0] == 'close':
                    if nfd != 0:
                        ck.fail('oracle', 'open-after-close', case, 0, nfd, 'files still open after close()')
                    continue
                if op[0] == 'iter' and op[1] >= 0:
                    ref_op = ('iter', -1)
                else:
                    ref_op = op
                if ref_op not in fresh:
                    fresh[ref_op] = sl.run_history_impl(t, canon, cp, [ref_op], cp)[0][0]
                exp = fresh[ref_op]
                if op[0] == 'iter' and op[1] >= 0 and exp[0] == 'ok':
                    exp = ('ok', exp[1][:op[1]])
                if op[0] == 'iter' and op[1] >= 0 and exp[0] == 'err':
                    exp = None   # a failing generator may yield a prefix first
                if exp is not None and out != exp:
                    ck.fail('oracle', f'history-dependent:{op[0]}', case, repr(exp)[:400], repr(out)[:400],
                            'result differs from the same operation on a fresh stream object')
                if nfd > CAP + 1:
                    ck.fail('oracle', 'too-many-open-files', case, f'<= {CAP + 1}', nfd, 'more than cap+1 files open')
            if model_ok:
                pend.append((sizes, L, damage, ops, got,
                             m.add(['stream.history', sl.disk_sexp(on_disk), sl.files_sexp(sizes), L, model_hashes, [list(o) if o[0] != 'close' else ['close'] for o in ops]])))
            if ci < 3:
                ck.sample({'sizes': list(sizes), 'L': L, 'damage': {str(k): v for k, v in damage.items()}, 'ops': [list(o) for o in ops]})
        if model_ok:
            res = m.run()
            for (sizes, L, damage, ops, got, idx) in pend:
                mr = sl.model_history(res[idx])
                ck.ties += 1
                errored = False
                for j, (op, g, mo) in enumerate(zip(ops, got, mr)):
                    g_out, g_fd = g
                    m_out, m_fd = mo
                    if g_out[0] == 'err' and op[0] == 'iter':
                        errored = True   # partially consumed failing generator: handle table not modelled
                    if op[0] == 'close':
                        errored = False
                    same = (g_out == m_out) and (errored or g_fd == m_fd)
                    if not same:
                        ck.fail('tie', f'history:{op[0]}', {'sizes': list(sizes), 'L': L, 'damage': {str(k): v for k, v in damage.items()},
                                                           'ops': [list(o) for o in ops], 'at': j},
                                repr(mo)[:400], repr(g)[:400], 'model and implementation disagree')
                        break
    run_changing(ck)
    ck.notes += ['content on disk does not change during a modelled history; a second family of histories (oracle only) changes the disk / the file list between operations',
                 'a suspended iteration is never resumed after another operation']


def path_of(cp, i):
    return os.path.join(cp, *sl.relpath_of(i))


def changing_history(root, sizes, L, damage, ops):
    """run one history with environment changes; -> list of (op, expected (fresh object), observed (held object))"""
    from torf import _stream
    t, cp, on_disk, _ = build(root, sizes, L, damage)
    contents = sl.gen_content(sizes)
    bad = []
    tfs = _stream.TorrentFileStream(t, content_path=cp)
    keep = []
    try:
        for op in ops:
            if op[0] == 'repair':
                os.makedirs(os.path.dirname(path_of(cp, op[1])), exist_ok=True)
                open(path_of(cp, op[1]), 'wb').write(contents[op[1]])
                continue
            if op[0] == 'drop-first':
                files = t.metainfo['info']['files']
                if len(files) > 1:
                    del files[0]
                continue
            canon = sl.Canon(t, content_path=cp)

            def run_on(stream):
                if op[0] == 'iter':
                    gen = stream.iter_pieces()
                    keep.append(gen)
                    items = []
                    try:
                        for k, it in enumerate(gen):
                            items.append(canon.item(it))
                            if op[1] > 0 and k + 1 >= op[1]:
                                break
                        return ('ok', items)
                    except Exception as e:  # noqa
                        return ('err', sl.canon_exc(e), len(items))
                return sl.impl_call(stream.get_piece if op[0] == 'get' else stream.verify_piece, op[1])
            out = run_on(tfs)
            with _stream.TorrentFileStream(t, content_path=cp) as fresh:
                exp = run_on(fresh)
            if out != exp:
                bad.append((op, exp, out))
                break
    finally:
        for g in keep:
            g.close()
        tfs.close()
    return bad


def run_changing(ck):
    """Histories in which the environment changes between two operations on the SAME stream object: a damaged file is
    repaired or the first file is taken out of the torrent.  "Depends only on the torrent, the content on disk and the
    arguments": every reading operation must give what a FRESH stream object gives at that moment.
    (Files are never damaged or removed while the stream may hold an open handle to them: reading an unlinked file through
    a cached handle is the operating system's behaviour, not a property of torf.)"""
    rng = ck.rng
    n = 80 if ck.tier == 'quick' else 1500
    with Scratch() as root:
        for hi in range(n):
            L = rng.choice([2, 3, 4, 4, 8])
            nf = rng.choice([2, 3, 4, 5, 8, 13])
            sizes = tuple(rng.choice([1, 2, L - 1 or 1, L, L + 1, 2 * L + 1, 3 * L]) for _ in range(nf))
            damage = {rng.randrange(nf): rng.choice(['missing', 'short', 'long'])} if rng.random() < 0.7 else {}
            ops = []
            for _ in range(rng.randint(3, 9)):
                r = rng.random()
                npieces = max(1, -(-sum(sizes) // L))
                if r < 0.3:
                    ops.append(('iter', rng.choice([-1, -1, rng.randint(1, npieces)])))
                elif r < 0.5:
                    ops.append(('get', rng.randrange(npieces)))
                elif r < 0.65:
                    ops.append(('verify', rng.randrange(npieces)))
                elif r < 0.85:
                    ops.append(('repair', rng.choice(sorted(damage)) if damage else rng.randrange(nf)))
                else:
                    ops.append(('drop-first',))
            ck.case(('changing', sizes, L, tuple(sorted(damage.items())), tuple(ops)))
            for op in ops:
                ck.count('changing-op:' + op[0])
            d = os.path.join(root, 'h%d' % hi)
            os.makedirs(d)
            for op, exp, out in changing_history(d, sizes, L, damage, ops):
                case = {'changing': True, 'sizes': list(sizes), 'L': L, 'damage': {str(k): v for k, v in damage.items()}, 'ops': [list(o) for o in ops], 'at': list(op)}
                ck.fail('oracle', f'history-dependent:{op[0]}', case, repr(exp)[:400], repr(out)[:400],
                        'after a change of the content on disk / the file list the result differs from the same operation on a fresh stream object')


def replay_changing(c):
    with Scratch() as root:
        bad = changing_history(root, tuple(c['sizes']), c['L'], {int(k): v for k, v in c['damage'].items()}, [tuple(o) for o in c['ops']])
    return not bad, [{'op': list(op), 'fresh': repr(exp)[:300], 'observed': repr(out)[:300]} for op, exp, out in bad] or 'equal to a fresh object'


def replay(rp):
    c = rp['case']
    if c.get('changing'):
        return replay_changing(c)
    sizes, L = tuple(c['sizes']), c['L']
    damage = {int(k): v for k, v in c['damage'].items()}
    ops = [tuple(o) for o in c['ops']]
    with Scratch() as root:
        t, cp, on_disk, _ = build(root, sizes, L, damage)
        canon = sl.Canon(t, content_path=cp)
        got = sl.run_history_impl(t, canon, cp, ops, cp)
        ok = True
        detail = []
        for op, (out, nfd) in zip(ops, got):
            if op[0] == 'close':
                ok &= nfd == 0
                continue
            ref = ('iter', -1) if op[0] == 'iter' else op
            exp = sl.run_history_impl(t, canon, cp, [ref], cp)[0][0]
            if op[0] == 'iter' and op[1] >= 0:
                exp = ('ok', exp[1][:op[1]]) if exp[0] == 'ok' else None
            if exp is not None and exp != out:
                ok = False
                detail.append({'op': list(op), 'fresh': repr(exp)[:300], 'observed': repr(out)[:300]})
            if nfd > CAP + 1:
                ok = False
                detail.append({'op': list(op), 'open_fds': nfd})
    return ok, detail
