#!/usr/bin/env python3
"""Fail-closed translator: /repo/torf/*.py  ->  coq/Extracted.v

It does not translate arbitrary Python.  It extracts exactly the source facts
the Coq models/theorems are parametrised by (constants, arithmetic/boolean
expressions at named sites, regexes, rule tables) and aborts with a non-zero
exit ("extraction failed: ...") when the expected syntactic shape is absent.

usage: extract.py <repo> <out.v>
"""
import ast
import os
import sys


class Fail(Exception):
    pass


def fail(msg):
    raise Fail(msg)


# ------------------------------------------------------------ locating ----
def parse(repo, rel):
    p = os.path.join(repo, rel)
    try:
        return ast.parse(open(p).read(), p)
    except (OSError, SyntaxError) as e:
        fail(f'cannot parse {rel}: {e}')


def find_class(mod, name):
    for n in mod.body:
        if isinstance(n, ast.ClassDef) and n.name == name:
            return n
    fail(f'class {name} not found')


def find_func(scope, name, setter=False):
    for n in scope.body:
        if isinstance(n, ast.FunctionDef) and n.name == name:
            is_setter = any(isinstance(d, ast.Attribute) and d.attr == 'setter' for d in n.decorator_list)
            if is_setter == setter:
                return n
    fail(f'function {name} (setter={setter}) not found')


def class_const(cls, name):
    for n in cls.body:
        if isinstance(n, ast.Assign) and len(n.targets) == 1 and isinstance(n.targets[0], ast.Name) and n.targets[0].id == name:
            return n.value
    fail(f'class constant {name} not found')


def const_int(node):
    """Evaluate a constant integer expression (literals, + - * **, int(float literal))."""
    if isinstance(node, ast.Constant) and isinstance(node.value, int) and not isinstance(node.value, bool):
        return node.value
    if isinstance(node, ast.BinOp):
        a, b = const_int(node.left), const_int(node.right)
        if isinstance(node.op, ast.Add):
            return a + b
        if isinstance(node.op, ast.Sub):
            return a - b
        if isinstance(node.op, ast.Mult):
            return a * b
        if isinstance(node.op, ast.Pow) and b >= 0:
            return a ** b
    if isinstance(node, ast.UnaryOp) and isinstance(node.op, ast.USub):
        return -const_int(node.operand)
    if isinstance(node, ast.Call) and isinstance(node.func, ast.Name) and node.func.id == 'int' and len(node.args) == 1 \
            and isinstance(node.args[0], ast.Constant) and isinstance(node.args[0].value, float) and node.args[0].value == int(node.args[0].value):
        return int(node.args[0].value)
    fail(f'not a constant int expression: {ast.dump(node)[:120]}')


# ------------------------------------------- expression translation ----
class Expr:
    """Translate a side-effect-free int/bool Python expression into Gallina over Z.
    `env` maps Python names / dotted attributes to Coq variable names."""

    def __init__(self, env):
        self.env = env

    def name_of(self, node):
        if isinstance(node, ast.Name):
            key = node.id
        elif isinstance(node, ast.Attribute) and isinstance(node.value, ast.Name):
            key = node.value.id + '.' + node.attr
        elif isinstance(node, ast.Attribute) and isinstance(node.value, ast.Attribute) and isinstance(node.value.value, ast.Name):
            key = node.value.value.id + '.' + node.value.attr + '.' + node.attr
        else:
            fail(f'unsupported name: {ast.dump(node)[:100]}')
        if key not in self.env:
            fail(f'unexpected variable {key!r} (known: {sorted(self.env)})')
        return self.env[key]

    def z(self, n):
        if isinstance(n, ast.Constant) and isinstance(n.value, int) and not isinstance(n.value, bool):
            return f'({n.value})' if n.value < 0 else str(n.value)
        if isinstance(n, (ast.Name, ast.Attribute)):
            return self.name_of(n)
        if isinstance(n, ast.BinOp):
            ops = {ast.Add: '+', ast.Sub: '-', ast.Mult: '*', ast.Mod: 'mod', ast.FloorDiv: '/'}
            for k, v in ops.items():
                if isinstance(n.op, k):
                    return f'({self.z(n.left)} {v} {self.z(n.right)})'
            fail(f'unsupported operator {type(n.op).__name__}')
        if isinstance(n, ast.UnaryOp) and isinstance(n.op, ast.USub):
            return f'(- {self.z(n.operand)})'
        if isinstance(n, ast.Call) and isinstance(n.func, ast.Name) and n.func.id in ('min', 'max') and len(n.args) == 2 and not n.keywords:
            f = 'Z.min' if n.func.id == 'min' else 'Z.max'
            return f'({f} {self.z(n.args[0])} {self.z(n.args[1])})'
        if isinstance(n, ast.Call) and isinstance(n.func, ast.Name) and n.func.id == 'abs' and len(n.args) == 1:
            return f'(Z.abs {self.z(n.args[0])})'
        fail(f'unsupported int expression: {ast.dump(n)[:120]}')

    def b(self, n):
        if isinstance(n, ast.BoolOp):
            op = ' && ' if isinstance(n.op, ast.And) else ' || '
            return '(' + op.join(self.b(v) for v in n.values) + ')'
        if isinstance(n, ast.UnaryOp) and isinstance(n.op, ast.Not):
            return f'(negb {self.b(n.operand)})'
        if isinstance(n, ast.Compare):
            ops = {ast.LtE: '<=?', ast.Lt: '<?', ast.GtE: '>=?', ast.Gt: '>?', ast.Eq: '=?'}
            parts = []
            left = n.left
            for op, right in zip(n.ops, n.comparators):
                if isinstance(op, ast.NotEq):
                    parts.append(f'(negb ({self.z(left)} =? {self.z(right)}))')
                else:
                    for k, v in ops.items():
                        if isinstance(op, k):
                            parts.append(f'({self.z(left)} {v} {self.z(right)})')
                            break
                    else:
                        fail(f'unsupported comparison {type(op).__name__}')
                left = right
            return '(' + ' && '.join(parts) + ')'
        if isinstance(n, ast.Constant) and isinstance(n.value, bool):
            return 'true' if n.value else 'false'
        fail(f'unsupported bool expression: {ast.dump(n)[:120]}')


def only(nodes, typ, what):
    got = [n for n in nodes if isinstance(n, typ)]
    if len(got) != 1:
        fail(f'expected exactly one {typ.__name__} in {what}, found {len(got)}')
    return got[0]


def assign_value(stmts, target, what):
    got = [s for s in stmts if isinstance(s, ast.Assign) and len(s.targets) == 1
           and isinstance(s.targets[0], ast.Name) and s.targets[0].id == target]
    if len(got) != 1:
        fail(f'expected exactly one assignment to {target} in {what}, found {len(got)}')
    return got[0].value


def floor_div_args(node, what):
    """math.floor(a / b)  ->  (a, b)"""
    if (isinstance(node, ast.Call) and isinstance(node.func, ast.Attribute) and node.func.attr == 'floor'
            and len(node.args) == 1 and isinstance(node.args[0], ast.BinOp) and isinstance(node.args[0].op, ast.Div)):
        return node.args[0].left, node.args[0].right
    fail(f'{what}: expected math.floor(a / b), got {ast.dump(node)[:120]}')


def ceil_div_args(node, what):
    if (isinstance(node, ast.Call) and isinstance(node.func, ast.Attribute) and node.func.attr == 'ceil'
            and len(node.args) == 1 and isinstance(node.args[0], ast.BinOp) and isinstance(node.args[0].op, ast.Div)):
        return node.args[0].left, node.args[0].right
    fail(f'{what}: expected math.ceil(a / b), got {ast.dump(node)[:120]}')


# ------------------------------------------------------- extraction ----
def extract(repo):
    out = []
    emit = out.append
    emit('(* GENERATED by harness/extract.py from the working tree of /repo -- do not edit. *)')
    emit('From Coq Require Import ZArith List Bool.')
    emit('Import ListNotations.')
    emit('Open Scope Z_scope.')
    emit('')

    stream = parse(repo, 'torf/_stream.py')
    torrent = parse(repo, 'torf/_torrent.py')
    utils = parse(repo, 'torf/_utils.py')
    errors = parse(repo, 'torf/_errors.py')

    TFS = find_class(stream, 'TorrentFileStream')
    T = find_class(torrent, 'Torrent')

    # ---- constants
    emit('(* constants *)')
    emit(f'Definition ex_max_open_files : Z := {const_int(class_const(TFS, "max_open_files"))}.')
    emit(f'Definition ex_piece_size_min_default : Z := {const_int(class_const(T, "piece_size_min_default"))}.')
    emit(f'Definition ex_piece_size_max_default : Z := {const_int(class_const(T, "piece_size_max_default"))}.')
    emit(f'Definition ex_max_torrent_file_size : Z := {const_int(class_const(T, "MAX_TORRENT_FILE_SIZE"))}.')

    # ---- _utils.is_divisible_by_16_kib
    f = find_func(utils, 'is_divisible_by_16_kib')
    body = [s for s in f.body if not (isinstance(s, ast.Expr) and isinstance(s.value, ast.Constant))]
    if not (len(body) == 2 and isinstance(body[0], ast.If) and isinstance(body[1], ast.Return)
            and len(body[0].body) == 1 and isinstance(body[0].body[0], ast.Return)
            and isinstance(body[0].body[0].value, ast.Constant) and body[0].body[0].value.value is False
            and not body[0].orelse):
        fail('is_divisible_by_16_kib: unexpected shape')
    e = Expr({'num': 'num'})
    emit('(* _utils.is_divisible_by_16_kib *)')
    emit(f'Definition ex_is_divisible_by_16_kib (num : Z) : bool := if {e.b(body[0].test)} then false else {e.b(body[1].value)}.')

    # ---- TorrentFileStream.get_files_at_byte_range
    f = find_func(TFS, 'get_files_at_byte_range')
    a = only(f.body, ast.Assert, 'get_files_at_byte_range')
    loop = only(f.body, ast.For, 'get_files_at_byte_range')
    if not (isinstance(loop.iter, ast.Attribute) and loop.iter.attr == 'files'):
        fail('get_files_at_byte_range: loop does not iterate over torrent.files')
    env = {'first_byte_index': 'a', 'last_byte_index': 'b', 'pos': 'pos', 'file.size': 'sz',
           'file_first_byte_index': 'ffb', 'file_last_byte_index': 'flb'}
    e = Expr(env)
    iff = only(loop.body, ast.If, 'get_files_at_byte_range loop')
    if iff.orelse:
        fail('get_files_at_byte_range: unexpected else')
    aug = only(loop.body, ast.AugAssign, 'get_files_at_byte_range loop')
    if not (isinstance(aug.target, ast.Name) and aug.target.id == 'pos' and isinstance(aug.op, ast.Add)):
        fail('get_files_at_byte_range: pos update')
    if loop.body.index(aug) < loop.body.index(iff):
        fail('get_files_at_byte_range: pos updated before the test')
    emit('(* TorrentFileStream.get_files_at_byte_range *)')
    emit(f'Definition ex_fabr_assert (a b : Z) : bool := {e.b(a.test)}.')
    emit(f'Definition ex_fabr_first (pos sz : Z) : Z := {e.z(assign_value(loop.body, "file_first_byte_index", "fabr"))}.')
    emit(f'Definition ex_fabr_last (pos sz : Z) : Z := {e.z(assign_value(loop.body, "file_last_byte_index", "fabr"))}.')
    emit(f'Definition ex_fabr_test (a b ffb flb : Z) : bool := {e.b(iff.test)}.')
    emit(f'Definition ex_fabr_step (pos sz : Z) : Z := pos + {e.z(aug.value)}.')

    # ---- get_files_at_piece_index
    f = find_func(TFS, 'get_files_at_piece_index')
    iff = only(f.body, ast.If, 'get_files_at_piece_index')
    env = {'piece_index': 'i', 'piece_size': 'L'}
    e = Expr(env)
    emit('(* TorrentFileStream.get_files_at_piece_index *)')
    emit(f'Definition ex_fapi_guard (i : Z) : bool := {e.b(iff.test)}.')
    emit(f'Definition ex_fapi_start (i L : Z) : Z := {e.z(assign_value(iff.body, "piece_start_pos", "fapi"))}.')
    emit(f'Definition ex_fapi_end (i L : Z) : Z := {e.z(assign_value(iff.body, "piece_end_pos", "fapi"))}.')

    # ---- get_file_at_position
    f = find_func(TFS, 'get_file_at_position')
    iff = only(f.body, ast.If, 'get_file_at_position')
    e = Expr({'position': 'position', 'pos': 'pos', 'file.size': 'sz'})
    loop = only(iff.body, ast.For, 'get_file_at_position')
    if not (len(loop.body) == 2 and isinstance(loop.body[0], ast.AugAssign) and isinstance(loop.body[1], ast.If)
            and isinstance(loop.body[0].op, ast.Add)
            and len(loop.body[1].orelse) == 1 and isinstance(loop.body[1].orelse[0], ast.AugAssign)
            and isinstance(loop.body[1].orelse[0].op, ast.Add)):
        fail('get_file_at_position: unexpected loop shape')
    emit('(* TorrentFileStream.get_file_at_position *)')
    emit(f'Definition ex_fap_guard (position : Z) : bool := {e.b(iff.test)}.')
    emit(f'Definition ex_fap_adv (pos sz : Z) : Z := pos + {e.z(loop.body[0].value)}.')
    emit(f'Definition ex_fap_hit (pos position : Z) : bool := {e.b(loop.body[1].test)}.')
    emit(f'Definition ex_fap_next (pos : Z) : Z := pos + {e.z(loop.body[1].orelse[0].value)}.')

    # ---- get_piece_indexes_of_file (first/last index arithmetic)
    f = find_func(TFS, 'get_piece_indexes_of_file')
    e = Expr({'stream_pos': 'sp', 'file.size': 'sz', 'piece_size': 'L', 'first_piece_index': 'first', 'last_piece_index': 'last'})
    n1, d1 = floor_div_args(assign_value(f.body, 'first_piece_index', 'gpiof'), 'first_piece_index')
    n2, d2 = floor_div_args(assign_value(f.body, 'last_piece_index', 'gpiof'), 'last_piece_index')
    rng = assign_value(f.body, 'piece_indexes', 'gpiof')
    if not (isinstance(rng, ast.Call) and isinstance(rng.func, ast.Name) and rng.func.id == 'list'
            and isinstance(rng.args[0], ast.Call) and rng.args[0].func.id == 'range' and len(rng.args[0].args) == 2):
        fail('get_piece_indexes_of_file: piece_indexes is not list(range(a, b))')
    emit('(* TorrentFileStream.get_piece_indexes_of_file *)')
    emit(f'Definition ex_piof_first_num (sp sz : Z) : Z := {e.z(n1)}.')
    emit(f'Definition ex_piof_first_den (L : Z) : Z := {e.z(d1)}.')
    emit(f'Definition ex_piof_last_num (sp sz : Z) : Z := {e.z(n2)}.')
    emit(f'Definition ex_piof_last_den (L : Z) : Z := {e.z(d2)}.')
    emit(f'Definition ex_piof_range_lo (first last : Z) : Z := {e.z(rng.args[0].args[0])}.')
    emit(f'Definition ex_piof_range_hi (first last : Z) : Z := {e.z(rng.args[0].args[1])}.')

    # ---- get_byte_range_of_file
    f = find_func(TFS, 'get_byte_range_of_file')
    ret = only(f.body, ast.Return, 'get_byte_range_of_file')
    if not (isinstance(ret.value, ast.Tuple) and len(ret.value.elts) == 2):
        fail('get_byte_range_of_file: return shape')
    e = Expr({'start': 'start', 'file.size': 'sz'})
    emit('(* TorrentFileStream.get_byte_range_of_file *)')
    emit(f'Definition ex_brof_lo (start sz : Z) : Z := {e.z(ret.value.elts[0])}.')
    emit(f'Definition ex_brof_hi (start sz : Z) : Z := {e.z(ret.value.elts[1])}.')

    # ---- max_piece_index
    f = find_func(TFS, 'max_piece_index')
    ret = only(f.body, ast.Return, 'max_piece_index')
    n, d = floor_div_args(ret.value, 'max_piece_index')
    e = Expr({'self._torrent.size': 'size', 'self._torrent.piece_size': 'L'})
    emit('(* TorrentFileStream.max_piece_index *)')
    emit(f'Definition ex_mpi_num (size : Z) : Z := {e.z(n)}.')
    emit(f'Definition ex_mpi_den (L : Z) : Z := {e.z(d)}.')

    # ---- get_piece arithmetic
    f = find_func(TFS, 'get_piece')
    e = Expr({'piece_index': 'i', 'piece_size': 'L', 'torrent_size': 'size', 'min_piece_index': 'mn',
              'max_piece_index': 'mx', 'first_byte_index_of_piece': 'fb', 'last_byte_index_of_piece': 'lb',
              'file_pos': 'fpos', 'file.size': 'sz', 'exp_piece_size': 'exp'})
    n, d = floor_div_args(assign_value(f.body, 'max_piece_index', 'get_piece'), 'get_piece.max_piece_index')
    ifs = [s for s in f.body if isinstance(s, ast.If)]
    if len(ifs) != 3:
        fail(f'get_piece: expected 3 top-level ifs, found {len(ifs)}')
    rng_if, seek_if, exp_if = ifs
    if not (len(rng_if.body) == 1 and isinstance(rng_if.body[0], ast.Raise)):
        fail('get_piece: range check shape')
    if not (isinstance(seek_if.test, ast.Compare) and isinstance(seek_if.test.ops[0], ast.Eq)
            and isinstance(seek_if.test.comparators[0], ast.Constant) and seek_if.test.comparators[0].value == 1):
        fail('get_piece: seek branch test')
    emit('(* TorrentFileStream.get_piece *)')
    emit(f'Definition ex_gp_min : Z := {e.z(assign_value(f.body, "min_piece_index", "get_piece"))}.')
    emit(f'Definition ex_gp_max_num (size : Z) : Z := {e.z(n)}.')
    emit(f'Definition ex_gp_max_den (L : Z) : Z := {e.z(d)}.')
    emit(f'Definition ex_gp_out_of_range (mn mx i : Z) : bool := {e.b(rng_if.test)}.')
    emit(f'Definition ex_gp_first_byte (i L : Z) : Z := {e.z(assign_value(f.body, "first_byte_index_of_piece", "get_piece"))}.')
    emit(f'Definition ex_gp_last_byte (fb L size : Z) : Z := {e.z(assign_value(f.body, "last_byte_index_of_piece", "get_piece"))}.')
    emit(f'Definition ex_gp_seek_single (fb fpos : Z) : Z := {e.z(assign_value(seek_if.body, "seek_to", "get_piece"))}.')
    emit(f'Definition ex_gp_seek_multi (fpos sz L : Z) : Z := {e.z(assign_value(seek_if.orelse, "seek_to", "get_piece"))}.')
    emit(f'Definition ex_gp_is_last (lb size : Z) : bool := {e.b(exp_if.test)}.')
    emit(f'Definition ex_gp_exp_last (size L : Z) : Z := {e.z(assign_value(exp_if.body, "exp_piece_size", "get_piece"))}.')

    # ---- _errors.VerifyContentError overlap computation
    VCE = find_class(errors, 'VerifyContentError')
    f = find_func(VCE, '__init__')
    chain = only(f.body, ast.If, 'VerifyContentError.__init__')
    try:
        els = chain.orelse[0].orelse
    except (IndexError, AttributeError):
        fail('VerifyContentError: if/elif/else chain not found')
    loop = only(els, ast.For, 'VerifyContentError else-branch')
    iff = only(loop.body, ast.If, 'VerifyContentError loop')
    e = Expr({'piece_index': 'i', 'piece_size': 'L', 'err_i_beg': 'eb', 'err_i_end': 'ee', 'cur_pos': 'pos',
              'filesize': 'sz', 'file_i_beg': 'fb', 'file_i_end': 'fe'})
    emit('(* _errors.VerifyContentError: files covered by the corrupt piece *)')
    emit(f'Definition ex_vce_beg (i L : Z) : Z := {e.z(assign_value(els, "err_i_beg", "VCE"))}.')
    emit(f'Definition ex_vce_end (eb L : Z) : Z := {e.z(assign_value(els, "err_i_end", "VCE"))}.')
    emit(f'Definition ex_vce_fbeg (pos : Z) : Z := {e.z(assign_value(loop.body, "file_i_beg", "VCE"))}.')
    emit(f'Definition ex_vce_fend (fb sz : Z) : Z := {e.z(assign_value(loop.body, "file_i_end", "VCE"))}.')
    emit(f'Definition ex_vce_test (eb ee fb fe : Z) : bool := {e.b(iff.test)}.')

    # ---- Torrent.calculate_piece_size thresholds
    f = find_func(T, 'calculate_piece_size')
    chain = only(f.body[:3], ast.If, 'calculate_piece_size head')
    table = []
    node = chain
    while True:
        if not (isinstance(node.test, ast.Compare) and isinstance(node.test.left, ast.Name) and node.test.left.id == 'size'
                and len(node.test.ops) == 1 and isinstance(node.test.ops[0], ast.LtE)):
            fail('calculate_piece_size: threshold test shape')
        table.append((const_int(node.test.comparators[0]), const_int(assign_value(node.body, 'max_pieces', 'cps'))))
        if len(node.orelse) == 1 and isinstance(node.orelse[0], ast.If):
            node = node.orelse[0]
        else:
            default = const_int(assign_value(node.orelse, 'max_pieces', 'cps else'))
            break
    emit('(* Torrent.calculate_piece_size: (size threshold, max_pieces) table and default *)')
    emit('Definition ex_cps_table : list (Z * Z) := [' + '; '.join(f'({a}, {b})' for a, b in table) + '].')
    emit(f'Definition ex_cps_default : Z := {default}.')
    ret = f.body[-1]
    if not (isinstance(ret, ast.Return) and ast.unparse(ret.value) == 'int(min(max(piece_size, min_size), max_size))'):
        fail('calculate_piece_size: clamp expression changed: ' + ast.unparse(ret.value))
    emit('Definition ex_cps_clamp (piece_size min_size max_size : Z) : Z := Z.min (Z.max piece_size min_size) max_size.')

    # ---- Torrent.pieces / hashes digest width
    f = find_func(T, 'hashes')
    widths = {n.value for n in ast.walk(f) if isinstance(n, ast.Constant) and isinstance(n.value, int) and not isinstance(n.value, bool)}
    if widths != {0, 20}:
        fail(f'Torrent.hashes: unexpected integer literals {widths}')
    emit('Definition ex_digest_width : Z := 20.')
    f = find_func(T, 'pieces')
    rets = [n for n in ast.walk(f) if isinstance(n, ast.Return)]
    n, d = ceil_div_args(rets[0].value, 'Torrent.pieces')
    if not (ast.unparse(n) == 'size' and ast.unparse(d) == 'piece_size'):
        fail('Torrent.pieces: expected math.ceil(size / piece_size)')

    emit('')
    return '\n'.join(out) + '\n'


def main():
    repo, outp = sys.argv[1], sys.argv[2]
    try:
        text = extract(repo)
    except Fail as e:
        print(f'extraction failed: {e}')
        sys.exit(2)
    old = open(outp).read() if os.path.exists(outp) else None
    if old != text:
        with open(outp + '.tmp', 'w') as f:
            f.write(text)
        os.replace(outp + '.tmp', outp)
        print('Extracted.v updated')
    else:
        print('Extracted.v unchanged')


if __name__ == '__main__':
    main()
