#!/usr/bin/env python3
"""Fail-closed translator: /repo/torf/*.py  ->  coq/Extracted.v

It does not translate arbitrary Python.  It extracts exactly the source facts
the Coq models/theorems are parametrised by (constants, arithmetic/boolean
expressions at named sites, regexes, rule tables) and aborts with a non-zero
exit ("extraction failed: ...") when the expected syntactic shape is absent.

usage: extract.py <repo> <out.v>
"""
import ast
import os
import sys


class Fail(Exception):
    pass


def fail(msg):
    raise Fail(msg)


# ------------------------------------------------------------ locating ----
def parse(repo, rel):
    p = os.path.join(repo, rel)
    try:
        return ast.parse(open(p).read(), p)
    except (OSError, SyntaxError) as e:
        fail(f'cannot parse {rel}: {e}')


def find_class(mod, name):
    for n in mod.body:
        if isinstance(n, ast.ClassDef) and n.name == name:
            return n
    fail(f'class {name} not found')


def find_func(scope, name, setter=False):
    for n in scope.body:
        if isinstance(n, ast.FunctionDef) and n.name == name:
            is_setter = any(isinstance(d, ast.Attribute) and d.attr == 'setter' for d in n.decorator_list)
            if is_setter == setter:
                return n
    fail(f'function {name} (setter={setter}) not found')


def class_const(cls, name):
    for n in cls.body:
        if isinstance(n, ast.Assign) and len(n.targets) == 1 and isinstance(n.targets[0], ast.Name) and n.targets[0].id == name:
            return n.value
    fail(f'class constant {name} not found')


def const_int(node):
    """Evaluate a constant integer expression (literals, + - * **, int(float literal))."""
    if isinstance(node, ast.Constant) and isinstance(node.value, int) and not isinstance(node.value, bool):
        return node.value
    if isinstance(node, ast.BinOp):
        a, b = const_int(node.left), const_int(node.right)
        if isinstance(node.op, ast.Add):
            return a + b
        if isinstance(node.op, ast.Sub):
            return a - b
        if isinstance(node.op, ast.Mult):
            return a * b
        if isinstance(node.op, ast.Pow) and b >= 0:
            return a ** b
    if isinstance(node, ast.UnaryOp) and isinstance(node.op, ast.USub):
        return -const_int(node.operand)
    if isinstance(node, ast.Call) and isinstance(node.func, ast.Name) and node.func.id == 'int' and len(node.args) == 1 \
            and isinstance(node.args[0], ast.Constant) and isinstance(node.args[0].value, float) and node.args[0].value == int(node.args[0].value):
        return int(node.args[0].value)
    fail(f'not a constant int expression: {ast.dump(node)[:120]}')


# ------------------------------------------- expression translation ----
class Expr:
    """Translate a side-effect-free int/bool Python expression into Gallina over Z.
    `env` maps Python names / dotted attributes to Coq variable names."""

    def __init__(self, env):
        self.env = env

    def name_of(self, node):
        if isinstance(node, ast.Name):
            key = node.id
        elif isinstance(node, ast.Attribute) and isinstance(node.value, ast.Name):
            key = node.value.id + '.' + node.attr
        elif isinstance(node, ast.Attribute) and isinstance(node.value, ast.Attribute) and isinstance(node.value.value, ast.Name):
            key = node.value.value.id + '.' + node.value.attr + '.' + node.attr
        else:
            fail(f'unsupported name: {ast.dump(node)[:100]}')
        if key not in self.env:
            fail(f'unexpected variable {key!r} (known: {sorted(self.env)})')
        return self.env[key]

    def z(self, n):
        if isinstance(n, ast.Constant) and isinstance(n.value, int) and not isinstance(n.value, bool):
            return f'({n.value})' if n.value < 0 else str(n.value)
        if isinstance(n, (ast.Name, ast.Attribute)):
            return self.name_of(n)
        if isinstance(n, ast.BinOp):
            ops = {ast.Add: '+', ast.Sub: '-', ast.Mult: '*', ast.Mod: 'mod', ast.FloorDiv: '/'}
            for k, v in ops.items():
                if isinstance(n.op, k):
                    return f'({self.z(n.left)} {v} {self.z(n.right)})'
            fail(f'unsupported operator {type(n.op).__name__}')
        if isinstance(n, ast.UnaryOp) and isinstance(n.op, ast.USub):
            return f'(- {self.z(n.operand)})'
        if isinstance(n, ast.Call) and isinstance(n.func, ast.Name) and n.func.id in ('min', 'max') and len(n.args) == 2 and not n.keywords:
            f = 'Z.min' if n.func.id == 'min' else 'Z.max'
            return f'({f} {self.z(n.args[0])} {self.z(n.args[1])})'
        if isinstance(n, ast.Call) and isinstance(n.func, ast.Name) and n.func.id == 'abs' and len(n.args) == 1:
            return f'(Z.abs {self.z(n.args[0])})'
        fail(f'unsupported int expression: {ast.dump(n)[:120]}')

    def b(self, n):
        if isinstance(n, ast.BoolOp):
            op = ' && ' if isinstance(n.op, ast.And) else ' || '
            return '(' + op.join(self.b(v) for v in n.values) + ')'
        if isinstance(n, ast.UnaryOp) and isinstance(n.op, ast.Not):
            return f'(negb {self.b(n.operand)})'
        if isinstance(n, ast.Compare):
            ops = {ast.LtE: '<=?', ast.Lt: '<?', ast.GtE: '>=?', ast.Gt: '>?', ast.Eq: '=?'}
            parts = []
            left = n.left
            for op, right in zip(n.ops, n.comparators):
                if isinstance(op, ast.NotEq):
                    parts.append(f'(negb ({self.z(left)} =? {self.z(right)}))')
                else:
                    for k, v in ops.items():
                        if isinstance(op, k):
                            parts.append(f'({self.z(left)} {v} {self.z(right)})')
                            break
                    else:
                        fail(f'unsupported comparison {type(op).__name__}')
                left = right
            return '(' + ' && '.join(parts) + ')'
        if isinstance(n, ast.Constant) and isinstance(n.value, bool):
            return 'true' if n.value else 'false'
        fail(f'unsupported bool expression: {ast.dump(n)[:120]}')


def only(nodes, typ, what):
    got = [n for n in nodes if isinstance(n, typ)]
    if len(got) != 1:
        fail(f'expected exactly one {typ.__name__} in {what}, found {len(got)}')
    return got[0]


def assign_value(stmts, target, what):
    got = [s for s in stmts if isinstance(s, ast.Assign) and len(s.targets) == 1
           and isinstance(s.targets[0], ast.Name) and s.targets[0].id == target]
    if len(got) != 1:
        fail(f'expected exactly one assignment to {target} in {what}, found {len(got)}')
    return got[0].value


def floor_div_args(node, what):
    """math.floor(a / b)  ->  (a, b)"""
    if (isinstance(node, ast.Call) and isinstance(node.func, ast.Attribute) and node.func.attr == 'floor'
            and len(node.args) == 1 and isinstance(node.args[0], ast.BinOp) and isinstance(node.args[0].op, ast.Div)):
        return node.args[0].left, node.args[0].right
    fail(f'{what}: expected math.floor(a / b), got {ast.dump(node)[:120]}')


def ceil_div_args(node, what):
    if (isinstance(node, ast.Call) and isinstance(node.func, ast.Attribute) and node.func.attr == 'ceil'
            and len(node.args) == 1 and isinstance(node.args[0], ast.BinOp) and isinstance(node.args[0].op, ast.Div)):
        return node.args[0].left, node.args[0].right
    fail(f'{what}: expected math.ceil(a / b), got {ast.dump(node)[:120]}')


# ------------------------------------------------------- extraction ----

def _run_section(name, props, fn, out, failed, old_sections):
    """Run one extraction section.  On failure the section's previous text (if any) is kept so that
    the model still builds, and the failure is recorded for the properties the section serves."""
    start = len(out)
    out.append(f'(* SECTION {name} *)')
    try:
        fn()
    except Fail as e:
        del out[start + 1:]
        failed[name] = {'error': str(e), 'properties': props}
        if name in old_sections:
            out.extend(old_sections[name])
        else:
            raise
    out.append(f'(* END {name} *)')


def extract(repo, old_sections):
    out = []
    emit = out.append
    failed = {}
    emit('(* GENERATED by harness/extract.py from the working tree of /repo -- do not edit. *)')
    emit('From Coq Require Import ZArith NArith List Bool.')
    emit('Import ListNotations.')
    emit('Open Scope Z_scope.')
    emit('')

    stream = parse(repo, 'torf/_stream.py')
    torrent = parse(repo, 'torf/_torrent.py')
    utils = parse(repo, 'torf/_utils.py')
    errors = parse(repo, 'torf/_errors.py')

    TFS = find_class(stream, 'TorrentFileStream')
    T = find_class(torrent, 'Torrent')


    def sec_constants():
        # ---- constants
        emit('(* constants *)')
        emit(f'Definition ex_max_open_files : Z := {const_int(class_const(TFS, "max_open_files"))}.')
        emit(f'Definition ex_piece_size_min_default : Z := {const_int(class_const(T, "piece_size_min_default"))}.')
        emit(f'Definition ex_piece_size_max_default : Z := {const_int(class_const(T, "piece_size_max_default"))}.')
        emit(f'Definition ex_max_torrent_file_size : Z := {const_int(class_const(T, "MAX_TORRENT_FILE_SIZE"))}.')


    _run_section('constants', ['C01', 'C09', 'C19', 'C08', 'C02', 'C03', 'C04', 'C12', 'C18'], sec_constants, out, failed, old_sections)

    def sec_is_divisible_by_16_kib():
        # ---- _utils.is_divisible_by_16_kib
        f = find_func(utils, 'is_divisible_by_16_kib')
        body = [s for s in f.body if not (isinstance(s, ast.Expr) and isinstance(s.value, ast.Constant))]
        if not (len(body) == 2 and isinstance(body[0], ast.If) and isinstance(body[1], ast.Return)
                and len(body[0].body) == 1 and isinstance(body[0].body[0], ast.Return)
                and isinstance(body[0].body[0].value, ast.Constant) and body[0].body[0].value.value is False
                and not body[0].orelse):
            fail('is_divisible_by_16_kib: unexpected shape')
        e = Expr({'num': 'num'})
        emit('(* _utils.is_divisible_by_16_kib *)')
        emit(f'Definition ex_is_divisible_by_16_kib (num : Z) : bool := if {e.b(body[0].test)} then false else {e.b(body[1].value)}.')


    _run_section('is_divisible_by_16_kib', ['C07', 'C09'], sec_is_divisible_by_16_kib, out, failed, old_sections)

    def sec_get_files_at_byte_range():
        # ---- TorrentFileStream.get_files_at_byte_range
        f = find_func(TFS, 'get_files_at_byte_range')
        a = only(f.body, ast.Assert, 'get_files_at_byte_range')
        loop = only(f.body, ast.For, 'get_files_at_byte_range')
        if not (isinstance(loop.iter, ast.Attribute) and loop.iter.attr == 'files'):
            fail('get_files_at_byte_range: loop does not iterate over torrent.files')
        env = {'first_byte_index': 'a', 'last_byte_index': 'b', 'pos': 'pos', 'file.size': 'sz',
               'file_first_byte_index': 'ffb', 'file_last_byte_index': 'flb'}
        e = Expr(env)
        iff = only(loop.body, ast.If, 'get_files_at_byte_range loop')
        if iff.orelse:
            fail('get_files_at_byte_range: unexpected else')
        aug = only(loop.body, ast.AugAssign, 'get_files_at_byte_range loop')
        if not (isinstance(aug.target, ast.Name) and aug.target.id == 'pos' and isinstance(aug.op, ast.Add)):
            fail('get_files_at_byte_range: pos update')
        if loop.body.index(aug) < loop.body.index(iff):
            fail('get_files_at_byte_range: pos updated before the test')
        emit('(* TorrentFileStream.get_files_at_byte_range *)')
        emit(f'Definition ex_fabr_assert (a b : Z) : bool := {e.b(a.test)}.')
        emit(f'Definition ex_fabr_first (pos sz : Z) : Z := {e.z(assign_value(loop.body, "file_first_byte_index", "fabr"))}.')
        emit(f'Definition ex_fabr_last (pos sz : Z) : Z := {e.z(assign_value(loop.body, "file_last_byte_index", "fabr"))}.')
        emit(f'Definition ex_fabr_test (a b ffb flb : Z) : bool := {e.b(iff.test)}.')
        emit(f'Definition ex_fabr_step (pos sz : Z) : Z := pos + {e.z(aug.value)}.')


    _run_section('get_files_at_byte_range', ['C11', 'C10', 'C01', 'C02', 'C18', 'C19'], sec_get_files_at_byte_range, out, failed, old_sections)

    def sec_get_files_at_piece_index():
        # ---- get_files_at_piece_index
        f = find_func(TFS, 'get_files_at_piece_index')
        iff = only(f.body, ast.If, 'get_files_at_piece_index')
        env = {'piece_index': 'i', 'piece_size': 'L'}
        e = Expr(env)
        emit('(* TorrentFileStream.get_files_at_piece_index *)')
        emit(f'Definition ex_fapi_guard (i : Z) : bool := {e.b(iff.test)}.')
        emit(f'Definition ex_fapi_start (i L : Z) : Z := {e.z(assign_value(iff.body, "piece_start_pos", "fapi"))}.')
        emit(f'Definition ex_fapi_end (i L : Z) : Z := {e.z(assign_value(iff.body, "piece_end_pos", "fapi"))}.')


    _run_section('get_files_at_piece_index', ['C11', 'C10', 'C02', 'C18'], sec_get_files_at_piece_index, out, failed, old_sections)

    def sec_get_file_at_position():
        # ---- get_file_at_position
        f = find_func(TFS, 'get_file_at_position')
        iff = only(f.body, ast.If, 'get_file_at_position')
        e = Expr({'position': 'position', 'pos': 'pos', 'file.size': 'sz'})
        loop = only(iff.body, ast.For, 'get_file_at_position')
        if not (len(loop.body) == 2 and isinstance(loop.body[0], ast.AugAssign) and isinstance(loop.body[1], ast.If)
                and isinstance(loop.body[0].op, ast.Add)
                and len(loop.body[1].orelse) == 1 and isinstance(loop.body[1].orelse[0], ast.AugAssign)
                and isinstance(loop.body[1].orelse[0].op, ast.Add)):
            fail('get_file_at_position: unexpected loop shape')
        emit('(* TorrentFileStream.get_file_at_position *)')
        emit(f'Definition ex_fap_guard (position : Z) : bool := {e.b(iff.test)}.')
        emit(f'Definition ex_fap_adv (pos sz : Z) : Z := pos + {e.z(loop.body[0].value)}.')
        emit(f'Definition ex_fap_hit (pos position : Z) : bool := {e.b(loop.body[1].test)}.')
        emit(f'Definition ex_fap_next (pos : Z) : Z := pos + {e.z(loop.body[1].orelse[0].value)}.')


    _run_section('get_file_at_position', ['C11', 'C19'], sec_get_file_at_position, out, failed, old_sections)

    def sec_get_piece_indexes_of_file():
        # ---- get_piece_indexes_of_file (first/last index arithmetic)
        f = find_func(TFS, 'get_piece_indexes_of_file')
        e = Expr({'stream_pos': 'sp', 'file.size': 'sz', 'piece_size': 'L', 'first_piece_index': 'first', 'last_piece_index': 'last'})
        n1, d1 = floor_div_args(assign_value(f.body, 'first_piece_index', 'gpiof'), 'first_piece_index')
        n2, d2 = floor_div_args(assign_value(f.body, 'last_piece_index', 'gpiof'), 'last_piece_index')
        rng = assign_value(f.body, 'piece_indexes', 'gpiof')
        if not (isinstance(rng, ast.Call) and isinstance(rng.func, ast.Name) and rng.func.id == 'list'
                and isinstance(rng.args[0], ast.Call) and rng.args[0].func.id == 'range' and len(rng.args[0].args) == 2):
            fail('get_piece_indexes_of_file: piece_indexes is not list(range(a, b))')
        emit('(* TorrentFileStream.get_piece_indexes_of_file *)')
        emit(f'Definition ex_piof_first_num (sp sz : Z) : Z := {e.z(n1)}.')
        emit(f'Definition ex_piof_first_den (L : Z) : Z := {e.z(d1)}.')
        emit(f'Definition ex_piof_last_num (sp sz : Z) : Z := {e.z(n2)}.')
        emit(f'Definition ex_piof_last_den (L : Z) : Z := {e.z(d2)}.')
        emit(f'Definition ex_piof_range_lo (first last : Z) : Z := {e.z(rng.args[0].args[0])}.')
        emit(f'Definition ex_piof_range_hi (first last : Z) : Z := {e.z(rng.args[0].args[1])}.')


    _run_section('get_piece_indexes_of_file', ['C11', 'C10', 'C02', 'C18'], sec_get_piece_indexes_of_file, out, failed, old_sections)

    def sec_get_byte_range_of_file():
        # ---- get_byte_range_of_file
        f = find_func(TFS, 'get_byte_range_of_file')
        ret = only(f.body, ast.Return, 'get_byte_range_of_file')
        if not (isinstance(ret.value, ast.Tuple) and len(ret.value.elts) == 2):
            fail('get_byte_range_of_file: return shape')
        e = Expr({'start': 'start', 'file.size': 'sz'})
        emit('(* TorrentFileStream.get_byte_range_of_file *)')
        emit(f'Definition ex_brof_lo (start sz : Z) : Z := {e.z(ret.value.elts[0])}.')
        emit(f'Definition ex_brof_hi (start sz : Z) : Z := {e.z(ret.value.elts[1])}.')


    _run_section('get_byte_range_of_file', ['C11', 'C10'], sec_get_byte_range_of_file, out, failed, old_sections)

    def sec_max_piece_index():
        # ---- max_piece_index
        f = find_func(TFS, 'max_piece_index')
        ret = only(f.body, ast.Return, 'max_piece_index')
        n, d = floor_div_args(ret.value, 'max_piece_index')
        e = Expr({'self._torrent.size': 'size', 'self._torrent.piece_size': 'L'})
        emit('(* TorrentFileStream.max_piece_index *)')
        emit(f'Definition ex_mpi_num (size : Z) : Z := {e.z(n)}.')
        emit(f'Definition ex_mpi_den (L : Z) : Z := {e.z(d)}.')


    _run_section('max_piece_index', ['C11'], sec_max_piece_index, out, failed, old_sections)

    def sec_get_piece():
        # ---- get_piece arithmetic
        f = find_func(TFS, 'get_piece')
        e = Expr({'piece_index': 'i', 'piece_size': 'L', 'torrent_size': 'size', 'min_piece_index': 'mn',
                  'max_piece_index': 'mx', 'first_byte_index_of_piece': 'fb', 'last_byte_index_of_piece': 'lb',
                  'file_pos': 'fpos', 'file.size': 'sz', 'exp_piece_size': 'exp'})
        n, d = floor_div_args(assign_value(f.body, 'max_piece_index', 'get_piece'), 'get_piece.max_piece_index')
        ifs = [s for s in f.body if isinstance(s, ast.If)]
        if len(ifs) != 3:
            fail(f'get_piece: expected 3 top-level ifs, found {len(ifs)}')
        rng_if, seek_if, exp_if = ifs
        if not (len(rng_if.body) == 1 and isinstance(rng_if.body[0], ast.Raise)):
            fail('get_piece: range check shape')
        if not (isinstance(seek_if.test, ast.Compare) and isinstance(seek_if.test.ops[0], ast.Eq)
                and isinstance(seek_if.test.comparators[0], ast.Constant) and seek_if.test.comparators[0].value == 1):
            fail('get_piece: seek branch test')
        emit('(* TorrentFileStream.get_piece *)')
        emit(f'Definition ex_gp_min : Z := {e.z(assign_value(f.body, "min_piece_index", "get_piece"))}.')
        emit(f'Definition ex_gp_max_num (size : Z) : Z := {e.z(n)}.')
        emit(f'Definition ex_gp_max_den (L : Z) : Z := {e.z(d)}.')
        emit(f'Definition ex_gp_out_of_range (mn mx i : Z) : bool := {e.b(rng_if.test)}.')
        emit(f'Definition ex_gp_first_byte (i L : Z) : Z := {e.z(assign_value(f.body, "first_byte_index_of_piece", "get_piece"))}.')
        emit(f'Definition ex_gp_last_byte (fb L size : Z) : Z := {e.z(assign_value(f.body, "last_byte_index_of_piece", "get_piece"))}.')
        emit(f'Definition ex_gp_seek_single (fb fpos : Z) : Z := {e.z(assign_value(seek_if.body, "seek_to", "get_piece"))}.')
        emit(f'Definition ex_gp_seek_multi (fpos sz L : Z) : Z := {e.z(assign_value(seek_if.orelse, "seek_to", "get_piece"))}.')
        emit(f'Definition ex_gp_is_last (lb size : Z) : bool := {e.b(exp_if.test)}.')
        emit(f'Definition ex_gp_exp_last (size L : Z) : Z := {e.z(assign_value(exp_if.body, "exp_piece_size", "get_piece"))}.')


    _run_section('get_piece', ['C11', 'C19', 'C18'], sec_get_piece, out, failed, old_sections)

    def sec_VerifyContentError():
        # ---- _errors.VerifyContentError overlap computation
        VCE = find_class(errors, 'VerifyContentError')
        f = find_func(VCE, '__init__')
        chain = only(f.body, ast.If, 'VerifyContentError.__init__')
        try:
            els = chain.orelse[0].orelse
        except (IndexError, AttributeError):
            fail('VerifyContentError: if/elif/else chain not found')
        loop = only(els, ast.For, 'VerifyContentError else-branch')
        iff = only(loop.body, ast.If, 'VerifyContentError loop')
        e = Expr({'piece_index': 'i', 'piece_size': 'L', 'err_i_beg': 'eb', 'err_i_end': 'ee', 'cur_pos': 'pos',
                  'filesize': 'sz', 'file_i_beg': 'fb', 'file_i_end': 'fe'})
        emit('(* _errors.VerifyContentError: files covered by the corrupt piece *)')
        emit(f'Definition ex_vce_beg (i L : Z) : Z := {e.z(assign_value(els, "err_i_beg", "VCE"))}.')
        emit(f'Definition ex_vce_end (eb L : Z) : Z := {e.z(assign_value(els, "err_i_end", "VCE"))}.')
        emit(f'Definition ex_vce_fbeg (pos : Z) : Z := {e.z(assign_value(loop.body, "file_i_beg", "VCE"))}.')
        emit(f'Definition ex_vce_fend (fb sz : Z) : Z := {e.z(assign_value(loop.body, "file_i_end", "VCE"))}.')
        emit(f'Definition ex_vce_test (eb ee fb fe : Z) : bool := {e.b(iff.test)}.')


    _run_section('VerifyContentError', ['C02'], sec_VerifyContentError, out, failed, old_sections)

    def sec_calculate_piece_size():
        # ---- Torrent.calculate_piece_size thresholds
        f = find_func(T, 'calculate_piece_size')
        chain = only(f.body[:3], ast.If, 'calculate_piece_size head')
        table = []
        node = chain
        while True:
            if not (isinstance(node.test, ast.Compare) and isinstance(node.test.left, ast.Name) and node.test.left.id == 'size'
                    and len(node.test.ops) == 1 and isinstance(node.test.ops[0], ast.LtE)):
                fail('calculate_piece_size: threshold test shape')
            table.append((const_int(node.test.comparators[0]), const_int(assign_value(node.body, 'max_pieces', 'cps'))))
            if len(node.orelse) == 1 and isinstance(node.orelse[0], ast.If):
                node = node.orelse[0]
            else:
                default = const_int(assign_value(node.orelse, 'max_pieces', 'cps else'))
                break
        emit('(* Torrent.calculate_piece_size: (size threshold, max_pieces) table and default *)')
        emit('Definition ex_cps_table : list (Z * Z) := [' + '; '.join(f'({a}, {b})' for a, b in table) + '].')
        emit(f'Definition ex_cps_default : Z := {default}.')
        ret = f.body[-1]
        if not (isinstance(ret, ast.Return) and ast.unparse(ret.value) == 'int(min(max(piece_size, min_size), max_size))'):
            fail('calculate_piece_size: clamp expression changed: ' + ast.unparse(ret.value))
        emit('Definition ex_cps_clamp (piece_size min_size max_size : Z) : Z := Z.min (Z.max piece_size min_size) max_size.')


    _run_section('calculate_piece_size', ['C09'], sec_calculate_piece_size, out, failed, old_sections)

    def sec_hashes_pieces():
        # ---- Torrent.pieces / hashes digest width
        f = find_func(T, 'hashes')
        widths = {n.value for n in ast.walk(f) if isinstance(n, ast.Constant) and isinstance(n.value, int) and not isinstance(n.value, bool)}
        if widths != {0, 20}:
            fail(f'Torrent.hashes: unexpected integer literals {widths}')
        emit('Definition ex_digest_width : Z := 20.')
        f = find_func(T, 'pieces')
        rets = [n for n in ast.walk(f) if isinstance(n, ast.Return)]
        n, d = ceil_div_args(rets[0].value, 'Torrent.pieces')
        if not (ast.unparse(n) == 'size' and ast.unparse(d) == 'piece_size'):
            fail('Torrent.pieces: expected math.ceil(size / piece_size)')



    _run_section('hashes_pieces', ['C01', 'C02', 'C09'], sec_hashes_pieces, out, failed, old_sections)

    def sec_validate_rules():
        # ---- Torrent.validate: rule table (arguments of every utils.assert_type call) ----
        emit('(* Torrent.validate: rule table *)')
        emit('Inductive ex_key := XK (s : list N) | XI | XJ.')
        emit('Inductive ex_type := XTdict | XTstr | XTbytes | XTint | XTbool | XTfloat | XTdatetime | XTiterable | XTmapping.')
        emit('Inductive ex_check := XCnone | XC16kib | XCurl | XCmd5 | XCnonneg.')
        emit('Record ex_rule := { xr_path : list ex_key; xr_types : list ex_type; xr_must : bool; xr_check : ex_check }.')
        TYPES = {'dict': 'XTdict', 'str': 'XTstr', 'bytes': 'XTbytes', 'int': 'XTint', 'bool': 'XTbool', 'float': 'XTfloat',
                 'datetime': 'XTdatetime', 'utils.Iterable': 'XTiterable', 'abc.Mapping': 'XTmapping'}
        CHECKS = {'utils.is_divisible_by_16_kib': 'XC16kib', 'utils.is_url': 'XCurl', 'utils.is_md5sum': 'XCmd5', 'utils.is_non_negative': 'XCnonneg'}

        def bytes_lit(st):
            return '[' + '; '.join(str(b) for b in st.encode()) + ']%N'

        def rule_of(call, loopvars):
            if not (isinstance(call, ast.Call) and ast.unparse(call.func) == 'utils.assert_type'):
                fail('validate: expected utils.assert_type call, got ' + ast.unparse(call)[:80])
            if len(call.args) != 3 or ast.unparse(call.args[0]) != 'md':
                fail('validate: assert_type positional arguments: ' + ast.unparse(call)[:80])
            keys = []
            if not isinstance(call.args[1], ast.Tuple):
                fail('validate: keys not a tuple')
            for k in call.args[1].elts:
                if isinstance(k, ast.Constant) and isinstance(k.value, str):
                    keys.append('XK ' + bytes_lit(k.value))
                elif isinstance(k, ast.Name) and k.id in loopvars:
                    keys.append(loopvars[k.id])
                else:
                    fail('validate: unexpected key ' + ast.unparse(k))
            types = []
            if not isinstance(call.args[2], ast.Tuple):
                fail('validate: types not a tuple')
            for t in call.args[2].elts:
                u = ast.unparse(t)
                if u not in TYPES:
                    fail('validate: unexpected type ' + u)
                types.append(TYPES[u])
            must, check = 'true', 'XCnone'
            for kw in call.keywords:
                if kw.arg == 'must_exist' and isinstance(kw.value, ast.Constant) and isinstance(kw.value.value, bool):
                    must = 'true' if kw.value.value else 'false'
                elif kw.arg == 'check' and ast.unparse(kw.value) in CHECKS:
                    check = CHECKS[ast.unparse(kw.value)]
                else:
                    fail('validate: unexpected keyword ' + ast.unparse(kw))
            return '{| xr_path := [%s]; xr_types := [%s]; xr_must := %s; xr_check := %s |}' % ('; '.join(keys), '; '.join(types), must, check)

        f = find_func(T, 'validate')
        body = [st for st in f.body if not (isinstance(st, ast.Expr) and isinstance(st.value, ast.Constant))]
        if not (ast.unparse(body[0]) == 'md = self.metainfo' and ast.unparse(body[1]) == "info = md['info']"):
            fail('validate: prologue changed')
        common = []
        idx = 2
        while idx < len(body) and isinstance(body[idx], ast.Expr):
            common.append(rule_of(body[idx].value, {}))
            idx += 1
        loop = body[idx]
        if not (isinstance(loop, ast.For) and ast.unparse(loop.iter) == "enumerate(md.get('announce-list', ()))"):
            fail('validate: announce-list loop not found where expected')
        if not (len(loop.body) == 2 and isinstance(loop.body[0], ast.Expr) and isinstance(loop.body[1], ast.For)
                and ast.unparse(loop.body[1].iter) == "enumerate(md['announce-list'][i])" and len(loop.body[1].body) == 1):
            fail('validate: announce-list loop shape')
        al_i = rule_of(loop.body[0].value, {'i': 'XI'})
        al_ij = rule_of(loop.body[1].body[0].value, {'i': 'XI', 'j': 'XJ'})
        chain = body[idx + 1]
        if idx + 2 != len(body) or not isinstance(chain, ast.If):
            fail('validate: expected a single if/elif chain after the announce-list loop')
        tests = []
        node = chain
        branches = []
        while True:
            tests.append(ast.unparse(node.test))
            branches.append(node.body)
            if len(node.orelse) == 1 and isinstance(node.orelse[0], ast.If):
                node = node.orelse[0]
            else:
                final_else = node.orelse
                break
        exp_tests = ["len(info['pieces']) == 0", "len(info['pieces']) % 20 != 0", "'length' in info and 'files' in info",
                     "'length' in info", "'files' in info"]
        if tests != exp_tests:
            fail(f'validate: branch tests changed: {tests}')
        for b in branches[:3] + [final_else]:
            if not (len(b) == 1 and isinstance(b[0], ast.Raise) and 'MetainfoError' in ast.unparse(b[0])):
                fail('validate: expected a single raise MetainfoError in a structural branch')
        single = branches[3]
        srules = []
        k = 0
        while k < len(single) and isinstance(single[k], ast.Expr):
            srules.append(rule_of(single[k].value, {}))
            k += 1
        def guarded_count(node, expr):
            """try: exp_piece_count = <expr>  except OverflowError as e: raise error.MetainfoError(...)"""
            return (isinstance(node, ast.Try) and len(node.body) == 1 and ast.unparse(node.body[0]) == 'exp_piece_count = ' + expr
                    and len(node.handlers) == 1 and node.handlers[0].type is not None and ast.unparse(node.handlers[0].type) == 'OverflowError'
                    and len(node.handlers[0].body) == 1 and isinstance(node.handlers[0].body[0], ast.Raise)
                    and 'MetainfoError' in ast.unparse(node.handlers[0].body[0]) and not node.orelse and not node.finalbody)
        rest = [ast.unparse(x) for x in single[k:k + 3]]
        if not (rest[0] == "piece_count = int(len(info['pieces']) / 20)"
                and guarded_count(single[k + 1], "-(-info['length'] // info['piece length'])")
                and rest[2].startswith('if piece_count != exp_piece_count:')):
            fail('validate: singlefile piece count check changed: ' + repr(rest))
        if not (len(single) == k + 4 and ast.unparse(single[k + 3].test) == 'self.path is not None'):
            fail('validate: singlefile path check shape')
        multi = branches[4]
        if not (isinstance(multi[0], ast.Expr) and isinstance(multi[1], ast.For)
                and ast.unparse(multi[1].iter) == "enumerate(info['files'])"):
            fail('validate: multifile branch shape')
        files_rule = rule_of(multi[0].value, {})
        frules = []
        for st in multi[1].body:
            if isinstance(st, ast.Expr):
                frules.append(rule_of(st.value, {'i': 'XI'}))
            elif isinstance(st, ast.For) and ast.unparse(st.iter) == "enumerate(fileinfo['path'])" and len(st.body) == 1:
                path_rule = rule_of(st.body[0].value, {'i': 'XI', 'j': 'XJ'})
            else:
                fail('validate: unexpected statement in files loop: ' + ast.unparse(st)[:80])
        rest = [ast.unparse(x) for x in multi[2:5]]
        if not (rest[0] == "piece_count = int(len(info['pieces']) / 20)"
                and guarded_count(multi[3], "-(-sum((fileinfo['length'] for fileinfo in info['files'])) // info['piece length'])")
                and rest[2].startswith('if piece_count != exp_piece_count:')):
            fail('validate: multifile piece count check changed: ' + repr(rest))
        if not (len(multi) == 6 and ast.unparse(multi[5].test) == 'self.path is not None'):
            fail('validate: multifile path check shape')
        emit('Definition ex_rules_common : list ex_rule := [' + ';\n  '.join(common) + '].')
        emit('Definition ex_rule_al_i : ex_rule := ' + al_i + '.')
        emit('Definition ex_rule_al_ij : ex_rule := ' + al_ij + '.')
        emit('Definition ex_rules_single : list ex_rule := [' + ';\n  '.join(srules) + '].')
        emit('Definition ex_rule_files : ex_rule := ' + files_rule + '.')
        emit('Definition ex_rules_file_i : list ex_rule := [' + ';\n  '.join(frules) + '].')
        emit('Definition ex_rule_path_j : ex_rule := ' + path_rule + '.')


    _run_section('validate_rules', ['C07', 'C08', 'C05', 'C06', 'C17'], sec_validate_rules, out, failed, old_sections)

    def sec_encode_converters():
        # ---- _utils.ENCODE_ALLOWED_TYPES / ENCODE_CONVERTERS (dispatch order) ----
        conv = None
        allowed = None
        for n in utils.body:
            if isinstance(n, ast.Assign) and len(n.targets) == 1 and isinstance(n.targets[0], ast.Name):
                if n.targets[0].id == 'ENCODE_CONVERTERS':
                    conv = n.value
                if n.targets[0].id == 'ENCODE_ALLOWED_TYPES':
                    allowed = n.value
        if conv is None or allowed is None or not isinstance(conv, ast.Dict):
            fail('ENCODE_CONVERTERS / ENCODE_ALLOWED_TYPES not found')
        if ast.unparse(allowed) != '(bytes, int)':
            fail('ENCODE_ALLOWED_TYPES changed: ' + ast.unparse(allowed))
        got = [(ast.unparse(k), ast.unparse(v)) for k, v in zip(conv.keys, conv.values)]
        want = [('str', "lambda val: str(val).encode(encoding='utf-8', errors='replace')"), ('float', 'int'), ('bool', 'int'),
                ('collections.abc.Mapping', 'encode_dict'), ('collections.abc.Sequence', 'encode_list'),
                ('collections.abc.Collection', 'encode_list'), ('datetime', 'lambda dt: int(dt.timestamp())')]
        if got != want:
            fail(f'ENCODE_CONVERTERS changed: {got}')
        emit('(* _utils.ENCODE_CONVERTERS: checked to be the table the model implements (str, float, bool, Mapping, Sequence, Collection, datetime) *)')
        emit('Definition ex_converters_checked : bool := true.')
        ed = find_func(utils, 'encode_dict')
        if ast.unparse(ed).replace(' ', '').replace('\n', '') != ("defencode_dict(dct):dct_enc=collections.OrderedDict()forkeyindct:ifnotisinstance(key,str):raiseValueError(f'Invalidkey:{key!r}')"
                "forkey,valueinsorted(dct.items()):key_enc=str(key).encode('utf8')value_enc=encode_value(value)"
                "dct_enc[key_enc]=value_encreturndct_enc"):
            fail('encode_dict changed')
        ev = find_func(utils, 'encode_value')
        if ast.unparse(ev).replace(' ', '').replace('\n', '') != ("defencode_value(value):iftype(value)inENCODE_ALLOWED_TYPES:returnvalueelse:"
                "forcls,converterinENCODE_CONVERTERS.items():ifisinstance(value,cls):returnconverter(value)raiseValueError(f'Invalidvalue:{value!r}')"):
            fail('encode_value changed')



    _run_section('encode_converters', ['C05', 'C06', 'C07', 'C17'], sec_encode_converters, out, failed, old_sections)

    def sec_write_order():
        # ---- Torrent.write / write_stream / dump / read_stream: order of effects ----
        emit('(* Torrent.write / write_stream / dump: order of effects *)')
        emit('Inductive ex_wstep := WCheckExists | WDump | WOpenWrite.')
        emit('Inductive ex_sstep := SDump | SSeekTruncate | SWrite.')
        emit('Inductive ex_dstep := DValidate | DConvertEncode.')
        f = find_func(T, 'write')
        steps = []
        for st in f.body:
            u = ast.unparse(st)
            if isinstance(st, ast.Expr) and isinstance(st.value, ast.Constant):
                continue
            if isinstance(st, ast.If) and u.startswith('if not overwrite and os.path.exists(filepath):') and 'raise error.WriteError(errno.EEXIST, filepath)' in u:
                steps.append('WCheckExists')
            elif u == 'content = io.BytesIO()' or u == 'content.seek(0)':
                continue
            elif u == 'self.write_stream(content, validate=validate)':
                steps.append('WDump')
            elif isinstance(st, ast.Try) and "open(filepath, 'wb')" in u and 'f.write(content.read())' in u and 'raise error.WriteError(e.errno, filepath)' in u:
                # the try statement must do nothing but open-write and map OSError to WriteError (no clean-up that touches the target)
                if ' '.join(u.split()) != "try: with open(filepath, 'wb') as f: f.write(content.read()) except OSError as e: raise error.WriteError(e.errno, filepath)":
                    fail('Torrent.write: unexpected try statement around open/write: ' + ' '.join(u.split())[:300])
                steps.append('WOpenWrite')
            else:
                fail('Torrent.write: unexpected statement: ' + u[:100])
        if sorted(steps) != sorted(['WCheckExists', 'WDump', 'WOpenWrite']):
            fail(f'Torrent.write: steps {steps}')
        emit('Definition ex_write_steps : list ex_wstep := [' + '; '.join(steps) + '].')
        f = find_func(T, 'write_stream')
        steps = []
        for st in f.body:
            u = ast.unparse(st)
            if isinstance(st, ast.Expr) and isinstance(st.value, ast.Constant):
                continue
            if u == 'content = self.dump(validate=validate)':
                steps.append('SDump')
            elif isinstance(st, ast.Try) and 'raise error.WriteError(e.errno)' in u:
                if st.orelse or st.finalbody or len(st.handlers) != 1 or ' '.join(ast.unparse(st.handlers[0]).split()) != 'except OSError as e: raise error.WriteError(e.errno)':
                    fail('write_stream: unexpected handlers of the try statement: ' + ' '.join(u.split())[:300])
                for t in st.body:
                    tu = ast.unparse(t)
                    if isinstance(t, ast.If) and ast.unparse(t.test) == 'stream.seekable()' and [ast.unparse(x) for x in t.body] == ['stream.seek(0)', 'stream.truncate(0)']:
                        steps.append('SSeekTruncate')
                    elif tu == 'stream.write(content)':
                        steps.append('SWrite')
                    else:
                        fail('write_stream: unexpected statement in try: ' + tu[:100])
            else:
                fail('write_stream: unexpected statement: ' + u[:100])
        if sorted(steps) != sorted(['SDump', 'SSeekTruncate', 'SWrite']):
            fail(f'write_stream: steps {steps}')
        emit('Definition ex_write_stream_steps : list ex_sstep := [' + '; '.join(steps) + '].')
        f = find_func(T, 'dump')
        body = [st for st in f.body if not (isinstance(st, ast.Expr) and isinstance(st.value, ast.Constant))]
        if [' '.join(ast.unparse(x).split()) for x in body] != ['if validate: self.validate()', 'metainfo = self.convert()',
                'try: return bencode.encode(metainfo) except ValueError as e: raise error.MetainfoError(e)']:
            fail('Torrent.dump changed: ' + repr([ast.unparse(x) for x in body]))
        emit('Definition ex_dump_steps : list ex_dstep := [DValidate; DConvertEncode].')
        f = find_func(T, 'convert')
        body = [st for st in f.body if not (isinstance(st, ast.Expr) and isinstance(st.value, ast.Constant))]
        if ast.unparse(body[0]).replace('\n', ' ').split() != 'try: return utils.encode_dict(self.metainfo) except (ValueError, OverflowError) as e: raise error.MetainfoError(e)'.split():
            fail('Torrent.convert changed')
        f = find_func(T, 'is_ready')
        body = [st for st in f.body if not (isinstance(st, ast.Expr) and isinstance(st.value, ast.Constant))]
        if ast.unparse(body[0]).split() != 'try: self.validate() except error.MetainfoError: return False else: return True'.split():
            fail('Torrent.is_ready changed')
        f = find_func(T, 'infohash')
        body = [st for st in f.body if not (isinstance(st, ast.Expr) and isinstance(st.value, ast.Constant))]
        want = ("try: try: self.validate() try: info = bencode.encode(utils.encode_dict(self.metainfo['info'])) except (ValueError, OverflowError) as e: raise error.MetainfoError(e) "
                "else: return hashlib.sha1(info).hexdigest() except error.MetainfoError as e: try: return self._infohash "
                "except AttributeError: raise e")
        got = ast.unparse(body[0]).split()
        if got[0:2] == ['try:', 'try:']:
            got = got[1:]   # tolerate the nested/unnested spelling difference of ast.unparse
        if ' '.join(got) != ' '.join(want.split()[1:]):
            fail('Torrent.infohash changed: ' + ' '.join(got)[:300])



    _run_section('write_order', ['C17'], sec_write_order, out, failed, old_sections)

    def sec_read_stream():
        # ---- Torrent.read_stream: which exceptions of the decoder / converters are mapped to documented errors ----
        f = find_func(T, 'read_stream')
        src = ast.unparse(f)
        tries = [n for n in ast.walk(f) if isinstance(n, ast.Try)]
        dec = [t for t in tries if any(ast.unparse(x) == 'metainfo_enc = bencode.decode(content)' for x in t.body)]
        if len(dec) != 1 or len(dec[0].handlers) != 1 or ast.unparse(dec[0].handlers[0].body[0]) != 'raise error.BdecodeError()':
            fail('read_stream: try around bencode.decode not found')
        ht = dec[0].handlers[0].type
        names = [ast.unparse(x) for x in (ht.elts if isinstance(ht, ast.Tuple) else [ht])]
        NM = {'bencode.DecodingError': 'XDecodingError', 'ValueError': 'XValueError', 'OverflowError': 'XOverflowError', 'MemoryError': 'XMemoryError'}
        for n in names:
            if n not in NM:
                fail('read_stream: unexpected exception caught around decode: ' + n)
        emit('(* Torrent.read_stream: exceptions mapped to documented errors *)')
        emit('Inductive ex_exc := XDecodingError | XValueError | XOverflowError | XMemoryError | XRecursionError | XOSError.')
        emit('Definition ex_read_decode_catches : list ex_exc := [' + '; '.join(NM[n] for n in names) + '].')
        rec = [t for t in tries if any('utils.decode_dict(metainfo_enc)' in ast.unparse(x) for x in t.body)
               and t is not dec[0]]
        rc = []
        if rec:
            if not (len(rec) == 1 and len(rec[0].handlers) == 1 and ast.unparse(rec[0].handlers[0].body[0]) == 'raise error.BdecodeError()'):
                fail('read_stream: unexpected try around decode_dict')
            ht = rec[0].handlers[0].type
            for n in [ast.unparse(x) for x in (ht.elts if isinstance(ht, ast.Tuple) else [ht])]:
                if n != 'RecursionError':
                    fail('read_stream: unexpected exception caught around decode_dict: ' + n)
                rc.append('XRecursionError')
        emit('Definition ex_read_convert_catches : list ex_exc := [' + '; '.join(rc) + '].')
        # which 'pieces' values are taken out before decoding and put back raw
        strip = [n for n in ast.walk(f) if isinstance(n, ast.If) and any("metainfo_enc[b'info'].pop(b'pieces')" in ast.unparse(x) for x in n.body)]
        if len(strip) != 1:
            fail("read_stream: the 'pieces' extraction was not found")
        test = ' '.join(ast.unparse(strip[0].test).split())
        body = [' '.join(ast.unparse(x).split()) for x in strip[0].body]
        orelse = [' '.join(ast.unparse(x).split()) for x in strip[0].orelse]
        if body != ["pieces = metainfo_enc[b'info'].pop(b'pieces')", 'metainfo = utils.decode_dict(metainfo_enc)', "metainfo['info']['pieces'] = pieces"] \
                or orelse != ['metainfo = utils.decode_dict(metainfo_enc)']:
            fail("read_stream: unexpected statements around the 'pieces' extraction: " + '; '.join(body + orelse)[:300])
        pre = "b'info' in metainfo_enc and isinstance(metainfo_enc[b'info'], dict) and "
        if test == pre + "(b'pieces' in metainfo_enc[b'info'])" or test == pre + "b'pieces' in metainfo_enc[b'info']":
            any_val = 'true'
        elif test == pre + "isinstance(metainfo_enc[b'info'].get(b'pieces'), (bytes, bytearray))":
            any_val = 'false'
        else:
            fail("read_stream: unexpected condition of the 'pieces' extraction: " + test[:300])
        if rec and strip[0] not in list(ast.walk(rec[0])):
            fail("read_stream: the 'pieces' extraction is outside the try that catches RecursionError")
        emit("(* read_stream keeps info['pieces'] undecoded: for every value (true) or only for byte strings (false) *)")
        emit(f'Definition ex_read_strips_any_pieces : bool := {any_val}.')
        cd = [t for t in tries if any("torrent.creation_date = metainfo_enc[b'creation date']" in ast.unparse(x) for x in t.body)]
        cc = []
        if cd:
            if not (len(cd) == 1 and len(cd[0].handlers) == 1 and ast.unparse(cd[0].handlers[0].body[0]).startswith('raise error.MetainfoError(')):
                fail('read_stream: unexpected try around creation_date')
            ht = cd[0].handlers[0].type
            M2 = {'ValueError': 'XValueError', 'OverflowError': 'XOverflowError', 'OSError': 'XOSError'}
            for n in [ast.unparse(x) for x in (ht.elts if isinstance(ht, ast.Tuple) else [ht])]:
                if n not in M2:
                    fail('read_stream: unexpected exception caught around creation_date: ' + n)
                cc.append(M2[n])
        elif "torrent.creation_date = metainfo_enc[b'creation date']" not in src:
            fail('read_stream: creation date assignment not found')
        emit('Definition ex_read_cdate_catches : list ex_exc := [' + '; '.join(cc) + '].')
        if "utils.assert_type(metainfo, ('info',), (dict,), must_exist=validate)" not in src:
            fail('read_stream: info-is-dict assertion not found')
        order = [src.index("utils.assert_type(metainfo, ('info',), (dict,), must_exist=validate)"), src.index("torrent.creation_date = metainfo_enc[b'creation date']"),
                 src.index("torrent.private = metainfo_enc[b'info'][b'private']"), src.index('torrent.validate()')]
        if order != sorted(order):
            fail('read_stream: order of info assertion / creation date / private / validate changed')



    _run_section('read_stream', ['C08', 'C05'], sec_read_stream, out, failed, old_sections)

    def sec_magnet_regex():
        # ---- _magnet.py: regexes (via re._parser), match methods, parameter tables ----
        import re as _re
        import re._parser as _sp
        import re._constants as _sc
        magnet = parse(repo, 'torf/_magnet.py')
        MG = find_class(magnet, 'Magnet')

        def regex_of(name):
            node = class_const(MG, name)
            if not (isinstance(node, ast.Call) and ast.unparse(node.func) == 're.compile' and isinstance(node.args[0], ast.Constant)):
                fail(f'{name}: not a re.compile(<literal>) call')
            flags = 0
            for kw in node.keywords:
                if kw.arg != 'flags':
                    fail(f'{name}: unexpected keyword')
                for part in ast.unparse(kw.value).split('|'):
                    part = part.strip()
                    if part not in ('re.IGNORECASE', 're.ASCII', 're.I', 're.A'):
                        fail(f'{name}: unsupported flag {part}')
                    flags |= _re.IGNORECASE if part in ('re.IGNORECASE', 're.I') else _re.ASCII
            return node.args[0].value, flags

        def expand(lo, hi, flags):
            out = [(lo, hi)]
            if flags & _re.IGNORECASE:
                for a, b, d in ((97, 122, -32), (65, 90, 32)):
                    l2, h2 = max(lo, a), min(hi, b)
                    if l2 <= h2:
                        out.append((l2 + d, h2 + d))
                if not flags & _re.ASCII:
                    letters = set()
                    for (l2, h2) in list(out):
                        letters.update(chr(c).lower() for c in range(max(l2, 65), min(h2, 122) + 1))
                    if 's' in letters:
                        out.append((0x17f, 0x17f))
                    if 'k' in letters:
                        out.append((0x212a, 0x212a))
                    if 'i' in letters:
                        out.append((0x130, 0x131))
            return out

        def conv(items, flags):
            res = []
            for op, av in items:
                if op is _sc.AT:
                    res.append({_sc.AT_BEGINNING: 'RBol', _sc.AT_END: 'REnd', _sc.AT_END_STRING: 'REndZ'}.get(av) or fail(f'regex: unsupported anchor {av}'))
                elif op is _sc.LITERAL:
                    res.append('RCls [' + '; '.join(f'({a}, {b})' for a, b in expand(av, av, flags)) + ']')
                elif op is _sc.IN:
                    rs = []
                    for o2, a2 in av:
                        if o2 is _sc.RANGE:
                            rs += expand(a2[0], a2[1], flags)
                        elif o2 is _sc.LITERAL:
                            rs += expand(a2, a2, flags)
                        else:
                            fail(f'regex: unsupported class item {o2}')
                    res.append('RCls [' + '; '.join(f'({a}, {b})' for a, b in rs) + ']')
                elif op is _sc.MAX_REPEAT:
                    lo, hi, sub = av
                    if lo != hi:
                        fail('regex: only exact repetition {n} is supported')
                    res.append(f'RRep {lo} (RSeq [' + '; '.join(conv(sub, flags)) + '])')
                elif op is _sc.BRANCH:
                    res.append('RAlt [' + '; '.join('RSeq [' + '; '.join(conv(alt, flags)) + ']' for alt in av[1]) + ']')
                elif op is _sc.SUBPATTERN:
                    res.append('RGroup (RSeq [' + '; '.join(conv(av[3], flags)) + '])')
                else:
                    fail(f'regex: unsupported opcode {op}')
            return res

        emit('(* _magnet.py: regexes and how they are applied *)')
        emit('From Torf Require Import Regex.')
        for nm, coqname in (('_INFOHASH_REGEX', 'ex_infohash_re'), ('_XT_REGEX', 'ex_xt_re')):
            pat, flags = regex_of(nm)
            tree = _sp.parse(pat, flags)
            emit(f'Definition {coqname} : re := RSeq [' + '; '.join(conv(list(tree), flags)) + '].')
        src_xt = ast.unparse(find_func(MG, 'xt', setter=True))
        src_ih = ast.unparse(find_func(MG, 'infohash', setter=True))
        for nm, src, what in (('ex_infohash_method_in_xt', src_xt, 'self._INFOHASH_REGEX.'), ('ex_xt_method', src_xt, 'self._XT_REGEX.'),
                              ('ex_infohash_method', src_ih, 'self._INFOHASH_REGEX.')):
            i = src.find(what)
            if i < 0:
                fail(f'{nm}: regex use not found')
            meth = src[i + len(what):].split('(')[0]
            if meth not in ('match', 'fullmatch'):
                fail(f'{nm}: unsupported regex method {meth}')
            emit(f'Definition {nm} : rmethod := {"MMatch" if meth == "match" else "MFullmatch"}.')
        want_xt = ("@xt.setter def xt(self, value): value = str(value) if self._INFOHASH_REGEX.match(value): self._infohash = value else: "
                   "match = self._XT_REGEX.match(value) if match: self._infohash = match.group(1) else: raise error.MagnetError(value, 'Invalid exact topic (\"xt\")')")
        if ' '.join(src_xt.split()).replace('.fullmatch(', '.match(') != want_xt:
            fail('Magnet.xt setter changed: ' + ' '.join(src_xt.split())[:300])
        want_ih = ("@infohash.setter def infohash(self, value): value = str(value) match = self._INFOHASH_REGEX.match(value) if match: self._infohash = value "
                   "else: raise error.MagnetError(value, 'Invalid info hash')")
        if ' '.join(src_ih.split()).replace('.fullmatch(', '.match(') != want_ih:
            fail('Magnet.infohash setter changed: ' + ' '.join(src_ih.split())[:300])
        kp = class_const(MG, '_KNOWN_PARAMETERS')
        if ast.unparse(kp) != "('xt', 'dn', 'xl', 'tr', 'xs', 'as', 'ws', 'kt')":
            fail('_KNOWN_PARAMETERS changed: ' + ast.unparse(kp))




    _run_section('magnet_regex', ['C14', 'C13', 'C08'], sec_magnet_regex, out, failed, old_sections)

    emit('')
    return '\n'.join(out) + '\n', failed

def main():
    import json
    repo, outp = sys.argv[1], sys.argv[2]
    old_sections = {}
    old = open(outp).read() if os.path.exists(outp) else None
    if old:
        cur = None
        for line in old.split('\n'):
            m1 = line.startswith('(* SECTION ') and line.endswith(' *)')
            if m1:
                cur = line[len('(* SECTION '):-3]
                old_sections[cur] = []
            elif line.startswith('(* END ') and cur:
                cur = None
            elif cur is not None:
                old_sections[cur].append(line)
    try:
        text, failed = extract(repo, old_sections)
    except Fail as e:
        print(f'extraction failed: {e}')
        sys.exit(2)
    pins = source_pins(repo)
    status = {'failed_sections': failed, 'pins': pins}
    with open(os.path.join(os.path.dirname(outp), 'extract_status.json'), 'w') as f:
        json.dump(status, f, indent=1)
    if old != text:
        with open(outp + '.tmp', 'w') as f:
            f.write(text)
        os.replace(outp + '.tmp', outp)
        print('Extracted.v updated')
    else:
        print('Extracted.v unchanged')
    for name, info in failed.items():
        print(f'extraction failed in section {name}: {info["error"]}')


def source_pins(repo):
    """sha1 of the normalised source (ast.unparse) of the functions/classes that hand-written models mirror."""
    import hashlib
    pins = {}
    targets = {
        'torf/_stream.py': ['TorrentFileStream.iter_pieces', 'TorrentFileStream._iter_from_file_handle', 'TorrentFileStream._read_from_fh',
                            'TorrentFileStream._get_open_file', 'TorrentFileStream._get_file_size_from_fs', 'TorrentFileStream.close',
                            'TorrentFileStream.get_piece', 'TorrentFileStream.get_piece_hash', 'TorrentFileStream.verify_piece',
                            'TorrentFileStream.get_absolute_piece_indexes', 'TorrentFileStream.get_relative_piece_indexes',
                            'TorrentFileStream.get_file_position', 'TorrentFileStream._get_content_path', '_MissingPieces',
                            'TorrentFileStream.__init__', 'TorrentFileStream.__enter__', 'TorrentFileStream.__exit__', 'TorrentFileStream.max_piece_index',
                            'TorrentFileStream.get_file_at_position', 'TorrentFileStream.get_piece_indexes_of_file', 'TorrentFileStream.get_files_at_byte_range',
                            'TorrentFileStream.get_byte_range_of_file', 'TorrentFileStream.get_files_at_piece_index'],
        'torf/_generate.py': ['Worker', 'Reader', 'HasherPool', 'Collector', '_IntervaledCallback', '_TranslatingCallback', 'GenerateCallback', 'VerifyCallback'],
        'torf/_torrent.py': ['Torrent._set_files', 'Torrent.piece_size', 'Torrent.piece_size_min', 'Torrent.piece_size_max', 'Torrent.generate', 'Torrent.verify',
                             'Torrent.verify_filesize', 'Torrent.trackers', 'Torrent._trackers_changed', 'Torrent.webseeds', 'Torrent._webseeds_changed',
                             'Torrent.httpseeds', 'Torrent._httpseeds_changed', 'Torrent.path', 'Torrent.files', 'Torrent.filepaths', 'Torrent.reuse',
                             'Torrent.partial_size', 'Torrent.magnet', 'Torrent.creation_date', 'Torrent.private', 'Torrent.size', 'Torrent.mode', 'Torrent.pieces',
                             'Torrent._filepaths_changed', 'Torrent._files_changed', 'Torrent._filters_changed', 'Torrent.exclude_globs', 'Torrent.exclude_regexs',
                             'Torrent.include_globs', 'Torrent.include_regexs', 'Torrent.metainfo', 'Torrent.name', 'Torrent.location', 'Torrent.filetree',
                             'Torrent.infohash_base32', 'Torrent.randomize_infohash', 'Torrent.read', 'Torrent.copy', 'Torrent.__init__', 'Torrent.hashes',
                             'Torrent.calculate_piece_size', 'Torrent.is_ready', 'Torrent.validate', 'Torrent.dump', 'Torrent.convert', 'Torrent.infohash',
                             'Torrent.write', 'Torrent.write_stream', 'Torrent.read_stream'],
        'torf/_utils.py': ['MonitoredList', 'URL', 'URLs', 'Trackers', 'is_url', 'assert_type', 'key_exists_in_list_or_dict', 'decode_value', 'decode_list',
                           'decode_dict', 'encode_list', 'list_files', 'filter_files', 'real_size', 'File', 'Filepath', 'Filepaths', 'Files', 'flatten',
                           'is_non_negative', 'is_md5sum', 'is_divisible_by_16_kib', 'force_as_string', 'iterable_startswith', 'download', 'download_http',
                           'encode_value', 'encode_dict', 'Iterable'],
        'torf/_magnet.py': ['Magnet.__str__', 'Magnet.from_string', 'Magnet.torrent', 'Magnet.get_info', 'Magnet._set_info_from_torrent', 'Magnet.xl',
                            'Magnet.dn', 'Magnet.tr', 'Magnet.ws', 'Magnet.xs', 'Magnet.as_', 'Magnet.kt', 'Magnet._infohash_hex', 'Magnet.__init__', 'Magnet._has_info', 'Magnet.x', 'Magnet.xt', 'Magnet.infohash'],
        'torf/_reuse.py': ['find_torrent_files', 'is_file_match', '_get_filepaths_and_sizes', 'is_content_match', 'copy', 'ReuseCallback'],
        'torf/_errors.py': ['VerifyContentError', 'VerifyFileSizeError', 'ReadError', 'TorfError', 'MetainfoError', 'BdecodeError', 'MagnetError', 'URLError',
                            'WriteError', 'PieceSizeError', 'PathError', 'VerifyIsDirectoryError', 'VerifyNotDirectoryError', 'ConnectionError'],
    }
    for rel, names in targets.items():
        try:
            mod = ast.parse(open(os.path.join(repo, rel)).read())
        except (OSError, SyntaxError):
            for n in names:
                pins[rel + ':' + n] = 'unparsable'
            continue
        for n in names:
            parts = n.split('.')
            nodes = [x for x in mod.body if isinstance(x, (ast.ClassDef, ast.FunctionDef)) and x.name == parts[0]]
            if len(parts) == 2 and nodes:
                nodes = [x for x in nodes[0].body if isinstance(x, ast.FunctionDef) and x.name == parts[1]]
            if not nodes:
                pins[rel + ':' + n] = 'missing'
                continue
            src = '\n'.join(ast.unparse(strip_docstrings(x)) for x in nodes)
            pins[rel + ':' + n] = hashlib.sha1(src.encode()).hexdigest()
    return pins


def strip_docstrings(node):
    import copy
    node = copy.deepcopy(node)
    for x in ast.walk(node):
        if isinstance(x, (ast.FunctionDef, ast.ClassDef)) and x.body and isinstance(x.body[0], ast.Expr) \
                and isinstance(x.body[0].value, ast.Constant) and isinstance(x.body[0].value.value, str):
            x.body = x.body[1:] or [ast.Pass()]
    return node


if __name__ == '__main__':
    main()
