#!/bin/bash
# usage: [PROPS='C05 C06'] thorough_all.sh [seed]  -- every claimed check in the thorough tier; prints one line per check and the alarms.
# With VERIF_REPO set (e.g. vp run --with-repo: VERIF_REPO=$VP_RUN_REPO) it runs against that copy of the repository.
cd "$(dirname "$0")/.."
./build.sh >/dev/null 2>&1 || { echo "build failed"; exit 2; }
sd=${1:-0}
props=${PROPS:-$(python3 -c "import json; print(' '.join(c['property_id'] for c in json.load(open('MANIFEST.json'))['checks']))")}
for p in $props; do
  out=$(VERIF_SEED=$sd ./check $p --tier thorough 2>&1); rc=$?
  echo "$p seed=$sd rc=$rc $(echo "$out" | tail -1 | cut -c1-220)"
  if [ $rc -ne 0 ]; then echo "$out" | grep -E "^(VIOLATION|NOTE)" | cut -c1-600; fi
done
