"""C17 -- a failed or refused export leaves no trace."""
import io
import os
import stat

import metalib as ml
import streamlib as sl
from common import Model, Scratch, atom_bytes

import copy


class NonSeekable(io.RawIOBase):
    def __init__(self, prior, fail=False):
        self.data = bytearray(prior)
        self.fail = fail

    def writable(self):
        return True

    def seekable(self):
        return False

    def write(self, b):
        if self.fail:
            raise OSError(28, 'No space left on device')
        self.data += bytes(b)
        return len(b)


class FailingSeekable(io.BytesIO):
    def write(self, b):
        raise OSError(28, 'No space left on device')


def gen_cases(ck):
    quick = ck.tier == 'quick'
    out = []
    n = 400 if quick else 8000
    L = ml.L16
    unconv = {'info': {'name': 'T', 'piece length': L, 'length': 5, 'pieces': bytes(20)}, 'weird': None}
    unconv2 = {'info': {'name': 'T', 'piece length': L, 'length': 5, 'pieces': bytes(20)}, 5: 'intkey'}
    unconv3 = {'info': {'name': 'T', 'piece length': L, 'length': 5, 'pieces': bytes(20), 'x': object()}}
    for md in (unconv, unconv2, unconv3):
        for target in ('absent', 'file', 'dir', 'dangling-symlink', 'socket', 'symlink-to-file'):
            for ow in (True, False):
                for v in (True, False):
                    out.append((md, 'corpus unconvertible', target, ow, v))
    for _ in range(n):
        md = ml.valid_meta(ck.rng)
        desc = 'valid'
        if ck.rng.random() < 0.7:
            for _ in range(ck.rng.choice([1, 1, 2])):
                try:
                    md, d = ml.mutate(ck.rng, md)
                    desc = d if desc == 'valid' else desc + '; ' + d
                except (TypeError, KeyError, IndexError, AttributeError):
                    pass
                if not isinstance(md, dict):
                    break
        if not isinstance(md, dict):
            continue
        target = ck.rng.choice(['absent', 'file', 'file', 'dir', 'noperm', 'noperm-absent', 'dangling-symlink', 'socket', 'symlink-to-file', 'symlink-to-dir'])
        out.append((md, desc, target, ck.rng.random() < 0.5, ck.rng.random() < 0.8))
    return out


PRIOR = b'PRIOR CONTENT 0123456789'
PRIOR_LONG = PRIOR * 4000


def prior_of(kind):
    return PRIOR_LONG if kind == 'bytesio-long-at-0' else PRIOR


def node_state(p):
    """what is at path p (not following a final symlink)"""
    import stat
    try:
        st = os.lstat(p)
    except OSError:
        return ('absent',)
    if stat.S_ISLNK(st.st_mode):
        return ('symlink', os.readlink(p))
    if stat.S_ISDIR(st.st_mode):
        return ('dir',)
    if stat.S_ISSOCK(st.st_mode):
        return ('socket',)
    return ('file', open(p, 'rb').read())


def run_write(root, md, target, overwrite, validate):
    p = os.path.join(root, 't.torrent')
    sock = None
    if target == 'file':
        open(p, 'wb').write(PRIOR)
    elif target == 'dir':
        os.mkdir(p)
    elif target in ('noperm', 'noperm-absent'):
        # root ignores permission bits: use a path whose parent is a regular file (ENOTDIR) for "cannot open"
        blocker = os.path.join(root, 'blocker')
        open(blocker, 'wb').write(b'x')
        p = os.path.join(blocker, 't.torrent')
    elif target == 'dangling-symlink':
        os.symlink(os.path.join(root, 'no-such-dir', 'x.torrent'), p)      # exists() is False, open() fails with ENOENT
    elif target == 'symlink-to-dir':
        os.mkdir(os.path.join(root, 'adir'))
        os.symlink(os.path.join(root, 'adir'), p)
    elif target == 'symlink-to-file':
        open(os.path.join(root, 'real.torrent'), 'wb').write(PRIOR)
        os.symlink(os.path.join(root, 'real.torrent'), p)
    elif target == 'socket':
        import socket
        sock = socket.socket(socket.AF_UNIX)
        sock.bind(p)                                                          # open() fails with ENXIO
    before = node_state(p)
    t = ml.make_torrent(md)
    try:
        t.write(p, validate=validate, overwrite=overwrite)
        res = ('ok', None)
    except Exception as e:  # noqa
        res = ('err', sl.canon_exc_site(e))
    after = node_state(p)
    if target == 'symlink-to-file' and after == before:
        after = ('symlink-to-file', open(os.path.join(root, 'real.torrent'), 'rb').read())
        before = ('symlink-to-file', PRIOR)
    if sock is not None:
        sock.close()
    try:
        dumped = ('ok', ml.make_torrent(md).dump(validate=validate))
    except Exception as e:  # noqa
        dumped = ('err', sl.canon_exc_site(e))
    return res, after, dumped, before


def run_stream(md, kind, validate):
    if kind == 'bytesio':
        s = io.BytesIO(PRIOR)
        s.seek(3)
    elif kind == 'bytesio-long-at-0':
        # prior content longer than any dump, stream position still at the beginning
        s = io.BytesIO(PRIOR_LONG)
    elif kind in ('file-append', 'file-rplus'):
        # a real file with prior content, opened for appending (writes ignore the seek position) / for update
        import tempfile
        fd, fpath = tempfile.mkstemp(prefix='c17-')
        os.write(fd, PRIOR)
        os.close(fd)
        t = ml.make_torrent(md)
        try:
            with open(fpath, 'a+b' if kind == 'file-append' else 'r+b') as f:
                try:
                    t.write_stream(f, validate=validate)
                    res = ('ok', None)
                except Exception as e:  # noqa
                    res = ('err', sl.canon_exc_site(e))
            content = open(fpath, 'rb').read()
        finally:
            os.unlink(fpath)
        return res, content
    elif kind == 'nonseekable':
        s = NonSeekable(PRIOR)
    elif kind == 'nonseekable-fail':
        s = NonSeekable(PRIOR, fail=True)
    else:
        s = FailingSeekable(PRIOR)
    t = ml.make_torrent(md)
    try:
        t.write_stream(s, validate=validate)
        res = ('ok', None)
    except Exception as e:  # noqa
        res = ('err', sl.canon_exc_site(e))
    content = bytes(s.data) if isinstance(s, NonSeekable) else s.getvalue()
    return res, content


def oracle_write(target, overwrite, res, after, dumped, before):
    """yields (key, what)"""
    existing = target in ('file', 'symlink-to-file', 'dir', 'symlink-to-dir', 'socket')
    if res[0] == 'ok':
        got = after[1] if after[0] in ('file', 'symlink-to-file') else None
        if dumped[0] != 'ok' or got != dumped[1]:
            yield 'success-but-not-dumped-bytes', 'write() succeeded but the file does not hold exactly dump()'
        if existing and not overwrite:
            yield 'overwrote-without-flag', 'write() replaced an existing file although overwrite=False'
    else:
        if after != before:
            yield 'failed-write-left-trace', f'write() failed ({res[1]}) but the target changed from {before[:1]} to {after[:1]}'
        if existing and not overwrite and res[1] != ('WriteError',):
            yield 'refusal-not-WriteError', f'refused overwrite raised {res[1]}'


def run(ck, model_ok):
    ck.rule = ('metainfo = valid or mutated (70%) or unconvertible-but-valid (values None/object/non-str keys); targets: absent / existing file / directory / '
               'unopenable path / dangling symlink / symlink to a file or a directory / unix socket x overwrite flag x validate flag; streams: BytesIO with prior content, real files with prior content opened a+b / r+b, non-seekable writer with prior content, writers whose '
               'write() fails; oracle: a failed write leaves the target byte-identical (or absent), refusal raises WriteError, success leaves exactly dump(); '
               'model compared where representable; non-trivial = distinct (metainfo, target, flags) whose export fails')
    m = Model()
    pend = []
    cases = gen_cases(ck)
    with Scratch() as root:
        for ci, (md, desc, target, ow, v) in enumerate(cases):
            d = os.path.join(root, str(ci))
            os.mkdir(d)
            res, after, dumped, before = run_write(d, md, target, ow, v)
            ck.case((ml.canon(md), target, ow, v), nontrivial=(res[0] == 'err'))
            ck.count('write:' + target + (':ok' if res[0] == 'ok' else ':' + res[1][0]))
            case = {'md': ml.safe_repr(md), 'mutations': desc, 'target': target, 'overwrite': ow, 'validate': v}
            for key, what in oracle_write(target, ow, res, after, dumped, before):
                ck.fail('oracle', key, case, 'no trace / exact dump', repr((res, after))[:300], what)
            sres = {}
            for kind in ('bytesio', 'bytesio-long-at-0', 'file-append', 'file-rplus', 'nonseekable', 'nonseekable-fail', 'seekable-fail'):
                r, content = run_stream(md, kind, v)
                sres[kind] = (r, content)
                ck.count('stream:' + kind + (':ok' if r[0] == 'ok' else ':' + r[1][0]))
                scase = dict(case, stream=kind)
                if r[0] == 'ok':
                    want = dumped[1] if kind.startswith(('bytesio', 'file-')) else PRIOR + dumped[1] if dumped[0] == 'ok' else None
                    if dumped[0] != 'ok' or content != want:
                        ck.fail('oracle', 'stream-success-wrong-content', scase, 'dump()', repr(content)[:200], 'write_stream succeeded with unexpected stream content')
                else:
                    if dumped[0] != 'ok' and content != prior_of(kind):
                        ck.fail('oracle', 'stream-modified-without-content', scase, repr(PRIOR), repr(content)[:200],
                                'write_stream modified the stream although no complete content was produced')
            if model_ok and ml.modelable(md):
                w = ml.to_wire(md)
                tw = {'absent': 'absent', 'file': ['file', PRIOR], 'dir': 'dir', 'noperm': 'noperm-absent', 'noperm-absent': 'noperm-absent'}.get(target)
                # symlinks and sockets at the target are outside the file-system model: oracle only
                i1 = m.add(['meta.write', 'none', ow, v, w, tw]) if tw is not None else None
                # stream state in the model: seekable?, prior content, position, does write() fail?
                i2 = m.add(['meta.write_stream', 'none', v, w, True, PRIOR, 3, False])
                i3 = m.add(['meta.write_stream', 'none', v, w, False, PRIOR, len(PRIOR), False])
                i4 = m.add(['meta.write_stream', 'none', v, w, False, PRIOR, len(PRIOR), True])
                i5 = m.add(['meta.write_stream', 'none', v, w, True, PRIOR, 0, False])
                pend.append((case, res, after, sres, (i1, i2, i3, i4, i5)))
            if ci < 3:
                ck.sample(dict(case, md=case['md'][:200], result=repr(res)))
        if model_ok:
            out = m.run()
            for case, res, after, sres, ids in pend:
                ck.ties += 1
                if ids[0] is not None:
                    mw = out[ids[0]]
                    mres = sl.model_res(mw[0], lambda v: None)
                    mt = mw[1]
                    mafter = ('absent',) if mt in ('absent', 'noperm-absent') else ('dir',) if mt == 'dir' else ('file', atom_bytes(mt[1]))
                    unm = mres == ('err', ('IOther',))
                    if not unm and (mres != (res[0], res[1][:1] if res[0] == 'err' else None) or mafter != after):
                        ck.fail('tie', 'write', case, repr((mres, mafter))[:300], repr((res, after))[:300], 'model and implementation disagree')
                for kind, idx in (('bytesio', ids[1]), ('bytesio-long-at-0', ids[4]), ('nonseekable', ids[2]), ('nonseekable-fail', ids[3])):
                    ms = out[idx]
                    msres = sl.model_res(ms[0], lambda v: None)
                    mcontent = atom_bytes(ms[1])
                    r, content = sres[kind]
                    if msres == ('err', ('IOther',)):
                        continue
                    if kind == 'bytesio-long-at-0' and mcontent == PRIOR:
                        mcontent = PRIOR_LONG     # the model ran with the short prior content; untouched means untouched
                    if msres != (r[0], r[1][:1] if r[0] == 'err' else None) or mcontent != content:
                        ck.fail('tie', 'write_stream:' + kind, case, repr((msres, mcontent))[:300], repr((r, content))[:300], 'model and implementation disagree')
    ck.notes += ['the sandbox runs as root: "unwritable target" is a path below a regular file (ENOTDIR), not a permission failure']


def replay(rp):
    c = rp['case']
    md = ml.eval_repr(c['md'])
    with Scratch() as root:
        res, after, dumped, before = run_write(root, md, c['target'], c['overwrite'], c['validate'])
        v = list(oracle_write(c['target'], c['overwrite'], res, after, dumped, before))
        if 'stream' in c:
            r, content = run_stream(md, c['stream'], c['validate'])
            if r[0] == 'err' and dumped[0] != 'ok' and content != prior_of(c['stream']):
                v.append(('stream-modified-without-content', repr(content)[:100]))
            if r[0] == 'ok' and c['stream'].startswith(('bytesio', 'file-')) and (dumped[0] != 'ok' or content != dumped[1]):
                v.append(('stream-success-wrong-content', repr(content)[:100]))
    return not v, v or 'no trace left'
