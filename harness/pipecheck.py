"""Scenario runner and oracles shared by the pipeline properties C02 C03 C04 C12: one scenario =
(layout, damage, mode, thread count, callback plan, interval, read faults, thread-start refusals, schedule seed).
Every scenario is run on the real torf code under the cooperative scheduler, judged by the oracles
(tagged by property) and replayed step by step on the Coq model (coq/model/Pipeline.v)."""
import os
import random
import shutil

import torf

import pipeline as P
import streamlib as sl
import sched as S

K16 = 16384
# ms, multiples of 7: sums never hit 100 / 500 / 5000 ms exactly.  'fine': a busy thread reads the clock many times within 100 ms
CLOCK_PROFILES = {'mixed': [0, 0, 35, 301, 1211], 'fine': [0, 7, 7, 35], 'coarse': [301, 1211, 5005]}


def gen_scenario(rng, family):
    """family: 'plain' (C03), 'faults' (C04), 'progress' (C12), 'verify' (C02)"""
    mode = 'verify' if family == 'verify' else rng.choice(['generate', 'generate', 'verify'])
    sc = {'family': family, 'mode': mode, 'threads': rng.choice([1, 1, 2, 3, 4]), 'plan': 'absent', 'interval': 0, 'reads': {}, 'refuse': [],
          'w_timeout': rng.choice([0.05, 0.3, 1.0, 3.0]), 'sticky': rng.choice([0, 0, 0.5, 0.9]), 'damage': {}, 'clock': rng.choice(['mixed', 'mixed', 'fine', 'coarse'])}
    if mode == 'generate':
        L = rng.choice([4, 4, 8])
        nf = rng.choice([1, 2, 3, 5])
        sc['sizes'] = tuple(rng.choice([1, 3, 4, 5, 8, 9, 13, 16, 31]) for _ in range(nf))
        sc['single'] = nf == 1 and rng.random() < 0.5
    else:
        L = K16
        nf = rng.choice([1, 2, 3, 4])
        pool = [1, 100, L - 1, L, L + 1, 2 * L, 3 * L + 5, 20000] + ([0] if family == 'verify' else [])
        sc['sizes'] = tuple(rng.choice(pool) for _ in range(nf))
        if nf >= 2 and rng.random() < 0.3:
            # a file that begins in the middle of a piece and ends exactly on a piece boundary
            a_ = rng.choice([1, 100, 10000, L - 1])
            sizes = list(sc['sizes'])
            k = rng.randrange(nf - 1)
            sizes[k], sizes[k + 1] = a_, rng.choice([1, 2]) * L - a_
            for j in range(k):
                sizes[j] = rng.choice([L, 2 * L]) if sizes[j] else 0
            sc['sizes'] = tuple(sizes)
        if sum(sc['sizes']) == 0:
            sc['sizes'] = (5,) * nf
        sc['single'] = nf == 1 and rng.random() < 0.5
        sc['renamed'] = rng.random() < 0.3
        # the metainfo may list the files in an order that is not the path order
        sc['names'] = rng.choice(['plain', 'plain', 'rev', 'mixed'])
        if rng.random() < (0.75 if family == 'verify' else 0.4):
            cands = [i for i in range(nf) if sc['sizes'][i] > 0] if family != 'verify' else list(range(nf))
            for i in rng.sample(cands, rng.choice([1, 1, 1, 2]) if len(cands) > 1 else 1):
                kinds = ['missing', 'short', 'long', 'flip'] if sc['sizes'][i] > 0 else ['missing', 'long']
                k = rng.choice(kinds)
                if k == 'flip':
                    sz = sc['sizes'][i]
                    k = ('flip', rng.choice([0, sz - 1, sz // 2, rng.randrange(sz)]))
                    start = sum(sc['sizes'][:i])
                    inside = [p for p in range(-(-start // L), (start + sz) // L) if p * L >= start and (p + 1) * L <= start + sz]
                    if family == 'verify' and len(inside) >= 2 and rng.random() < 0.5:
                        # a replaced byte range: piece p of the content becomes byte-identical to another piece q of the same torrent
                        p_, q_ = rng.sample(inside, 2)
                        k = ('twin', p_ * L - start, q_ * L - start)
                sc['damage'][i] = k
    sc['L'] = L
    total = -(-sum(sc['sizes']) // L)
    if family in ('progress', 'verify') or rng.random() < 0.4:
        sc['plan'] = rng.choice(['quiet', 'quiet', 'absent']) if family != 'progress' else 'quiet'
    if family == 'progress':
        sc['interval'] = rng.choice([0, 0, 0.5, 5])
        if rng.random() < 0.15:
            sc['plan'] = ['cancel', rng.randint(1, max(1, total))]
    if family == 'faults':
        kind = rng.choice(['cancel', 'raise', 'eio', 'oom', 'oomN', 'refuse', 'refuse'])
        if kind in ('cancel', 'raise'):
            sc['plan'] = [kind, rng.randint(1, max(1, total + 1))]
        elif kind == 'eio':
            sc['reads'] = {rng.randint(0, total + 2): 'eio'}
        elif kind == 'oom':
            sc['reads'] = {rng.randint(0, total + 2): 'oom'}
            if rng.random() < 0.6:
                # a failing read is retried within microseconds: no timeout of another thread expires between two
                # retries and the clock hardly moves
                sc['w_timeout'], sc['clock'] = 0, 'fine'
        elif kind == 'oomN':
            sc['reads'] = {rng.randint(0, total + 2): ('oom', rng.randint(1, 6))}
        else:
            sc['refuse'] = [rng.choice(['reader', 'janitor', 'hasher1', 'hasher2', 'hasher3', 'hasher4'])]
        if rng.random() < 0.3 and sc['plan'] == 'absent':
            sc['plan'] = 'quiet'
    return sc


def run_scenario(root, sc, seed):
    """-> record with everything the oracles and the tie need"""
    rng = random.Random(f'clock-{seed}')
    d = os.path.join(root, 'c')
    if os.path.exists(d):
        shutil.rmtree(d)
    os.makedirs(d)
    sl.NAME_SCHEME = sc.get('names', 'plain') if sc['mode'] == 'verify' else 'plain'
    t, cp, ref, on_disk = P.build(d, sc['sizes'], sc['L'], single=sc['single'], for_verify=sc['mode'] == 'verify', damage=sc['damage'],
                                  disk_name='renamed dir' if sc.get('renamed') else None)
    calls = []
    raised = KeyError('boom from the callback')
    plan = sc['plan']

    def decide(done):
        if isinstance(plan, list):
            if done >= plan[1]:
                if plan[0] == 'cancel':
                    return 'stop'
                raise raised
        return None
    if sc['mode'] == 'generate':
        def cb(tor, fp, done, total):
            calls.append({'torrent_ok': tor is t, 'fp': fp, 'done': done, 'total': total, 'pi': None, 'exc': None})
            return decide(done)
    else:
        def cb(tor, fp, done, total, pi, ph, exc):
            calls.append({'torrent_ok': tor is t, 'fp': fp, 'done': done, 'total': total, 'pi': pi, 'exc': exc, 'hash': ph})
            return decide(done)
    ch = S.RandomChooser(seed, w_timeout=sc['w_timeout'], sticky=sc['sticky'])
    before = dict(t.metainfo['info'])
    r = P.run(sc['mode'], t, cp, sc['threads'], ch, callback=None if plan == 'absent' else cb, interval=sc['interval'],
              faults=P.Faults(sc['reads']) if sc['reads'] else None, start_refusals=sc['refuse'],
              clock_step=lambda: rng.choice(CLOCK_PROFILES[sc['clock']]), max_steps=30000)
    return {'sc': sc, 'seed': seed, 't': t, 'cp': cp, 'ref': ref, 'on_disk': on_disk, 'calls': calls, 'raised': raised, 'r': r, 'before': before,
            'pieces_after': t.metainfo['info'].get('pieces'), 'total': t.pieces}


def expected_errors(sc):
    """classes of the errors the damaged files correspond to"""
    out = set()
    for i, k in sc['damage'].items():
        out.add({'missing': 'ReadError', 'short': 'VerifyFileSizeError', 'long': 'VerifyFileSizeError'}.get(k, 'VerifyContentError'))
    return out


def judge(rec):
    """-> list of (property, key, what)"""
    sc, r = rec['sc'], rec['r']
    out = []
    res = r['result']
    plain = not sc['reads'] and not sc['refuse'] and not isinstance(sc['plan'], list)
    refused_vital = [n for n in sc['refuse'] if n in ('reader', 'janitor', 'hasher1')]
    zero_len_damage = any(sc['sizes'][i] == 0 for i in sc['damage'])
    # ---- termination and threads (C03 / C04) ----
    owner = 'C03' if plain else 'C04'
    tag = '' if plain else ':' + fault_tag(sc)
    if refused_vital and (r['verdict'] is not None or r['leftover']):
        # one defect, two faces: the call raises RuntimeError at once and the threads started so far are abandoned
        out.append(('C04', f'start-refused:{refused_vital[0]}:worker-threads-left-running',
                    f'thread start of {refused_vital[0]} refused: threads left behind {r["leftover"]} (verdict {r["verdict"]}, blocked {r["blocked"]})'))
    elif r['verdict'] is not None:
        out.append((owner, f'does-not-terminate:{r["verdict"]}{tag}', f'verdict {r["verdict"]}; blocked {r["blocked"]}'))
    elif r['leftover']:
        out.append((owner, f'worker-thread-alive-after-return{tag}', f'threads still running when the call returned: {r["leftover"]}'))
    if res[0] == 'err':
        e = res[1]
        documented = isinstance(e, torf.TorfError) or (e is rec['raised']) or (isinstance(e, RuntimeError) and 'start new thread' in str(e) and refused_vital)
        if not documented:
            key = f'internal-error:{type(e).__name__}'
            out.append(('C02' if zero_len_damage else owner, key + (':zero-length-damage' if zero_len_damage else tag), f'raised {type(e).__name__}: {e}'))
    # ---- outcome equals the sequential reference (C03) ----
    if plain and r['verdict'] is None and not zero_len_damage:
        if sc['mode'] == 'generate':
            if res != ('ok', True) or rec['pieces_after'] != b''.join(rec['ref']):
                out.append(('C03', 'outcome-differs-from-reference:generate', f'result {res!r:.80}, pieces correct: {rec["pieces_after"] == b"".join(rec["ref"])}'))
        else:
            if not sc['damage']:
                if res != ('ok', True):
                    out.append(('C03', 'outcome-differs-from-reference:verify-clean', f'result {res!r:.80}'))
            elif sc['plan'] == 'absent':
                if not (res[0] == 'err' and type(res[1]).__name__ in expected_errors(sc)):
                    out.append(('C03', 'outcome-differs-from-reference:verify-damaged', f'result {res!r:.120} expected one of {sorted(expected_errors(sc))}'))
            elif res != ('ok', False):
                out.append(('C03', 'outcome-differs-from-reference:verify-damaged-callback', f'result {res!r:.80}'))
    # ---- C02: content verification is exact ----
    if sc['mode'] == 'verify' and plain and r['verdict'] is None:
        import streamlib as sl
        damaged = bool(sc['damage'])
        zl = ':zero-length-entry' if zero_len_damage else ''
        if not damaged:
            if res != ('ok', True):
                out.append(('C02', 'intact-content-rejected', f'result {res!r:.100}'))
        elif sc['plan'] == 'absent':
            if res[0] == 'ok':
                out.append(('C02', 'damage-not-detected' + zl, f'verify() returned {res[1]} for damage {sc["damage"]}'))
            elif not isinstance(res[1], (torf.VerifyContentError, torf.VerifyFileSizeError, torf.ReadError)):
                if not (type(res[1]).__name__, zl) == ('IndexError', ':zero-length-entry'):      # reported above as internal-error
                    out.append(('C02', 'undocumented-error:' + type(res[1]).__name__ + zl, f'{res[1]!r:.100}'))
            elif len(sc['damage']) == 1 and isinstance(list(sc['damage'].values())[0], tuple) and isinstance(res[1], torf.VerifyContentError):
                (i, k), = sc['damage'].items()
                sl.NAME_SCHEME = sc.get('names', 'plain') if sc['mode'] == 'verify' else 'plain'
                fpath = rec['cp'] if sc['single'] else os.path.join(rec['cp'], *sl.relpath_of(i))
                piece = (sum(sc['sizes'][:i]) + k[1]) // sc['L']
                if res[1].piece_index != piece or fpath not in [str(f) for f in res[1].files]:
                    out.append(('C02', 'error-does-not-name-piece-and-file', f'flipped byte {k[1]} of file {i} (piece {piece}); raised: piece {res[1].piece_index}, files ' +
                                repr([os.path.basename(str(f)) for f in res[1].files])[:150]))
        else:
            if res != ('ok', False):
                if res[0] == 'ok':
                    out.append(('C02', 'damage-not-detected' + zl, f'verify() returned {res[1]} with a callback for damage {sc["damage"]}'))
            errs = [c for c in rec['calls'] if c['exc'] is not None]
            if res[0] == 'ok' and not errs:
                out.append(('C02', 'no-error-reported' + zl, f'damage {sc["damage"]}: the callback never received an error'))
            elif res[0] == 'ok' and len(sc['damage']) == 1:
                (i, k), = sc['damage'].items()
                sl.NAME_SCHEME = sc.get('names', 'plain') if sc['mode'] == 'verify' else 'plain'
                fpath = rec['cp'] if sc['single'] else os.path.join(rec['cp'], *sl.relpath_of(i))
                if isinstance(k, tuple):
                    piece = (sum(sc['sizes'][:i]) + k[1]) // sc['L']
                    hit = [c for c in errs if isinstance(c['exc'], torf.VerifyContentError) and c['pi'] == piece and fpath in [str(f) for f in c['exc'].files]]
                    if not hit:
                        out.append(('C02', 'error-does-not-name-piece-and-file', f'flipped byte {k[1]} of file {i} (piece {piece}); reported: ' +
                                    repr([(type(c['exc']).__name__, c['pi'], [os.path.basename(str(f)) for f in getattr(c['exc'], 'files', ())]) for c in errs])[:200]))
                elif sc['sizes'][i] > 0:
                    named = [c for c in errs if str(getattr(c['exc'], 'path', getattr(c['exc'], 'filepath', None))) == fpath]
                    if not named:
                        out.append(('C02', 'error-does-not-name-file', f'{k} file {i}; reported: ' + repr([(type(c['exc']).__name__, str(getattr(c['exc'], 'path', getattr(c['exc'], 'filepath', None)))) for c in errs])[:200]))
    # ---- C04: nothing partial is stored, errors are typed, cancellation is prompt ----
    if sc['mode'] == 'generate':
        stored = rec['pieces_after']
        if stored is not None and not (res == ('ok', True) and stored == b''.join(rec['ref'])):
            out.append(('C04', 'partial-or-wrong-pieces-stored' + tag, f'result {res!r:.60}, {len(stored) // 20} hashes stored'))
        if res == ('ok', True) and stored != b''.join(rec['ref']):
            out.append(('C04', 'true-without-complete-pieces' + tag, 'True returned without the complete piece string'))
    if isinstance(sc['plan'], list) and sc['plan'][0] == 'raise' and any(c['done'] >= sc['plan'][1] for c in rec['calls']):
        if not (res[0] == 'err' and res[1] is rec['raised']):
            out.append(('C04', 'callback-exception-not-propagated', f'result {res!r:.80}'))
    if sc['reads'] and not sc['damage'] and res[0] == 'err' and not isinstance(res[1], torf.ReadError) and res[1] is not rec['raised']:
        out.append(('C04', 'read-failure-not-a-read-error', f'{type(res[1]).__name__}'))
    tr = r['trace']
    sw = [i for i, e in enumerate(tr) if e[1] == 'stop-write']
    if sw:
        later_puts = [e for e in tr[sw[0]:] if e[0] == 1 and e[1] == 'put']
        if len(later_puts) > 2:          # at most one piece in flight plus the end-of-stream marker
            out.append(('C04', 'reader-keeps-reading-after-stop', f'{len(later_puts)} puts after the stop flag was set'))
    # ---- C12: progress reports ----
    calls = rec['calls']
    if calls:
        total = rec['total']
        if any(not c['torrent_ok'] for c in calls):
            out.append(('C12', 'callback-torrent-argument', 'callback did not receive the torrent'))
        if any(c['total'] != total for c in calls):
            out.append(('C12', 'callback-total', f'totals {sorted({c["total"] for c in calls})} vs {total}'))
        dones = [c['done'] for c in calls]
        early = sc['mode'] == 'verify' and len(calls) == 1 and calls[0]['done'] == 0 and calls[0]['exc'] is not None
        if not early:
            if any(not (1 <= d <= total) for d in dones):
                out.append(('C12', 'done-out-of-range', f'{dones[:20]} total {total}'))
            if any(b < a for a, b in zip(dones, dones[1:])):
                out.append(('C12', 'done-decreases', f'{dones[:30]}'))
            for a, b in zip(calls, calls[1:]):
                if a['done'] == b['done'] and not (b['exc'] is not None and a['pi'] == b['pi']):
                    out.append(('C12', 'done-repeated-without-error', f'{dones[:30]}'))
                    break
            cancelled = isinstance(sc['plan'], list) and any(c['done'] >= sc['plan'][1] for c in calls)
            finished = res[0] == 'ok' or (res[0] == 'err' and False)
            if sc['interval'] == 0 and not sc['reads'] and r['verdict'] is None and res[0] == 'ok':
                exp = list(range(1, (dones[-1] if dones else 0) + 1))
                if sorted(set(dones)) != exp:
                    out.append(('C12', 'zero-interval-skips-values', f'{dones[:30]}'))
            if not cancelled and res[0] == 'ok' and r['verdict'] is None and not sc['reads'] and not sc['refuse']:
                if dones[-1] != total:
                    out.append(('C12', 'last-call-not-total', f'last done {dones[-1]} total {total} interval {sc["interval"]}'))
    if sc['mode'] == 'verify' and sc['plan'] != 'absent' and res[0] == 'ok' and r['verdict'] is None and not zero_len_damage:
        # every error the reader met and every hash mismatch must reach the callback, whatever the interval
        cancelled = isinstance(sc['plan'], list) and any(c['done'] >= sc['plan'][1] for c in calls)
        if not cancelled:
            met = [type(e).__name__ for ev in r['events'] if ev[0] == 'exc' for e in ev[1]]
            got = [type(c['exc']).__name__ for c in calls if c['exc'] is not None and type(c['exc']).__name__ != 'VerifyContentError']
            if sorted(met) != sorted(got):
                out.append(('C12', 'error-suppressed-by-interval', f'met {met} reported {got} interval {sc["interval"]}'))
            ref = rec['ref']
            bad = [i for i, ev in enumerate([e for e in r['events'] if e[0] in ('piece', 'exc', 'none')]) if ev[0] == 'piece' and i < len(ref) and ev[1] != ref[i]]
            rep = sorted(c['pi'] for c in calls if type(c['exc']).__name__ == 'VerifyContentError')
            if bad != rep:
                out.append(('C12', 'mismatch-suppressed-by-interval', f'mismatching pieces {bad} reported {rep} interval {sc["interval"]}'))
    return out


def fault_tag(sc):
    if sc['refuse']:
        return 'start-refused:' + sc['refuse'][0]
    if sc['reads']:
        v = list(sc['reads'].values())[0]
        return 'read-fault:' + (v if isinstance(v, str) else 'oom-transient')
    if isinstance(sc['plan'], list):
        return 'callback-' + sc['plan'][0]
    return 'none'


def describe(rec_or_sc, seed=None):
    sc = rec_or_sc['sc'] if 'sc' in rec_or_sc else rec_or_sc
    d = {k: (v if not isinstance(v, tuple) else list(v)) for k, v in sc.items() if k not in ('damage', 'reads')}
    d['damage'] = {str(k): (v if isinstance(v, str) else list(v)) for k, v in sc['damage'].items()}
    d['reads'] = {str(k): (v if isinstance(v, str) else list(v)) for k, v in sc['reads'].items()}
    d['seed'] = rec_or_sc.get('seed', seed)
    return d


def undescribe(d):
    sc = dict(d)
    seed = sc.pop('seed')
    sc['sizes'] = tuple(sc['sizes'])
    sc['damage'] = {int(k): (v if isinstance(v, str) else tuple(v)) for k, v in d['damage'].items()}
    sc['reads'] = {int(k): (v if isinstance(v, str) else tuple(v)) for k, v in d['reads'].items()}
    return sc, seed


def tie_request(rec, m):
    sc, r = rec['sc'], rec['r']
    ids = P.Ids()
    names = [n for n, _, _ in r['threads']]
    expected = rec['ref'] if sc['mode'] == 'verify' else None
    req = P.model_request(r, rec['total'], sc['threads'], sc['interval'], sc['plan'], expected, sc['refuse'], names, ids)
    return m.add(req), ids


def tie_compare(rec, out, ids):
    sc, r = rec['sc'], rec['r']
    calls = []
    for c in rec['calls']:
        calls.append((c['done'], c['pi'] if c['pi'] is not None else None, P.exc_id(c['exc'])))
    res = r['result']
    stored = None
    if sc['mode'] == 'generate' and rec['pieces_after'] is not None:
        stored = [rec['pieces_after'][i:i + 20] for i in range(0, len(rec['pieces_after']), 20)]
    mcalls_fix = out[4]
    if sc['mode'] == 'generate':
        # the generate callback has no piece index argument
        calls = [(d, None, e) for d, _, e in calls]
        out = list(out)
        out[4] = [[a, 'none', c] for a, b, c in mcalls_fix]
        calls = [(d, None, e) for d, _, e in calls]
    return P.compare_with_model(r, out, [(d, p, e) for d, p, e in calls], stored, ids)


def run_family(ck, model_ok, prop, plan):
    """plan: list of (family, count quick, count thorough).  Reports the oracle tags of `prop`."""
    from common import Model, Scratch
    quick = ck.tier == 'quick'
    other = {}
    ck.extra.setdefault('trusted', []).append(
        'harness/sched.py: cooperative scheduler substituted for threading / queue / time_monotonic / Reader._stop inside torf._generate for the '
        'duration of a run (assumptions: code between two scheduling points is atomic; a timeout can expire exactly when its wait condition is unmet); '
        'fault injection by a file proxy installed in torf._stream')
    with Scratch() as root:
        for family, nq, nt in plan:
            n = nq if quick else nt
            m = Model()
            pend = []
            for i in range(n):
                seed = f'{ck.seed}-{ck.tier}-{prop}-{family}-{i}'
                rng = random.Random(seed)
                sc = gen_scenario(rng, family)
                rec = run_scenario(root, sc, seed)
                ck.case(repr(describe(rec)))
                ck.count('family:' + family)
                ck.count('mode:' + sc['mode'])
                ck.count('threads:%d' % sc['threads'])
                ck.count('fault:' + fault_tag(sc))
                res = rec['r']['result']
                ck.count('outcome:' + (repr(res[1]) if res[0] == 'ok' else res[0] + ':' + (type(res[1]).__name__ if res[0] == 'err' else str(res[1]))))
                ck.count('steps', rec['r']['steps'])
                verdicts = judge(rec)
                rec['verdicts'] = verdicts
                if i < 2:
                    ck.sample(describe(rec))
                if model_ok:
                    j, ids = tie_request(rec, m)
                    pend.append((rec, j, ids))
                else:
                    report(ck, prop, rec, None, other)
                rec['r']['trace_len'] = len(rec['r']['trace'])
                if model_ok and (len(pend) >= 150 or i == n - 1):
                    out = m.run()
                    for rec2, j, ids in pend:
                        ck.ties += 1
                        d = tie_compare(rec2, out[j], ids)
                        if d:
                            ck.fail('tie', d[0], dict(describe(rec2)), d[1], d[2], 'the model, replaying the recorded schedule, and the implementation disagree')
                        report(ck, prop, rec2, d, other)
                        rec2['r']['trace'] = None
                    pend = []
                    m = Model()
    if other:
        ck.notes.append('oracle tags of other properties seen in this run (reported by their own checks): ' + repr(sorted(other.items()))[:300])


def report(ck, prop, rec, tie_diff, other):
    for p, key, what in rec['verdicts']:
        if p != prop:
            other[p + ':' + key] = other.get(p + ':' + key, 0) + 1
            continue
        # a finding is classified by its plain key only if the faithful model reproduces the run
        k = key if tie_diff is None else 'new:' + key
        ck.fail('oracle', k, describe(rec), 'see property ' + prop, what[:300], what[:200])


def replay_case(case):
    from common import Scratch
    sc, seed = undescribe(case)
    with Scratch() as root:
        rec = run_scenario(root, sc, seed)
    return rec, judge(rec)
