"""C02 -- content verification is exact."""
import pipecheck as pc


def run(ck, model_ok):
    ck.rule = ('verify() of layouts with 1..4 files around piece boundaries (sizes 0, 1, 100, L-1, L, L+1, 2L, 3L+5, 20000; L = 16 KiB), single-file and multi-file, top-level '
               'directory renamed on disk, x damage (none; one or two files missing / one byte short / one byte long / one byte flipped at the first, last, middle or a random '
               'position / a whole piece replaced by the bytes of another piece of the same torrent) x thread counts 1..4 x with and without callback, under the cooperative scheduler; oracle: True iff undamaged; without callback a content / size / read '
               'error; with callback False and an error naming the damaged piece and a file set containing the altered file; schedules replayed on the Coq model; '
               'non-trivial = distinct (scenario, seed)')
    pc.run_family(ck, model_ok, 'C02', [('verify', 1200, 30000)])
    if model_ok:
        # which files a content error names: model (coq/model/Corrupt.v) against torf.VerifyContentError
        import torf
        from common import Model
        m = Model()
        pend = []
        rng = ck.rng
        for _ in range(400 if ck.tier == 'quick' else 20000):
            L = rng.choice([1, 2, 4, 16384])
            sizes = [rng.choice([0, 0, 1, 2, 3, L - 1 if L > 1 else 1, L, L + 1, 2 * L, 3 * L + 1]) for _ in range(rng.randint(1, 6))]
            npieces = max(1, -(-sum(sizes) // L))
            i = rng.randrange(npieces + 1)
            files = [(f'f{k}', sz) for k, sz in enumerate(sizes)]
            want = [int(f[1:]) for f in torf.VerifyContentError('x', i, L, tuple(files)).files]
            pend.append(((sizes, i, L), want, m.add(['verr.files', [[k, sz] for k, sz in enumerate(sizes)], i, L])))
        out = m.run()
        for case, want, j in pend:
            ck.ties += 1
            ck.case(('verr', case))
            got = [int(x) for x in out[j][1]] if out[j][0] == 'ok' else out[j]
            if got != want:
                ck.fail('tie', 'content-error-files', {'sizes': case[0], 'piece': case[1], 'L': case[2]}, repr(got), repr(want), 'model and VerifyContentError name different files')
    object_histories(ck)
    ck.notes += ['SHA-1 collisions are not considered; content on disk is fixed during a run']


def object_histories(ck):
    """verify() on ONE Torrent object before and after its recorded hashes are replaced (same piece count): the outcome must
    follow the hashes the torrent records NOW (oracle only, real threads)."""
    import hashlib
    import os
    import torf
    import streamlib as sl
    from common import Scratch
    rng = ck.rng
    L = 16384
    with Scratch() as root:
        for hi in range(12 if ck.tier == 'quick' else 300):
            sizes = tuple(rng.choice([1, 100, L - 1, L, L + 1, 2 * L + 5, 40000]) for _ in range(rng.choice([1, 2, 3])))
            single = len(sizes) == 1 and rng.random() < 0.5
            contents = sl.gen_content(sizes)
            d = os.path.join(root, 'o%d' % hi)
            os.makedirs(d)
            cp = sl.write_tree(d, contents, single=single)
            stream = b''.join(contents)
            hashes = [hashlib.sha1(stream[i:i + L]).digest() for i in range(0, len(stream), L)]
            t = sl.make_torrent(sizes, L, single=single, hashes=hashes)
            how = rng.choice(['assign', 'assign', 'reuse'])
            threads = rng.choice([1, 2, 4])
            case = {'object-history': True, 'sizes': list(sizes), 'single': single, 'how': how, 'threads': threads}
            ck.case(('object-history', sizes, single, how, threads))

            def verify():
                try:
                    return ('ret', t.verify(cp, threads=threads))
                except torf.TorfError as e:
                    return ('raise', type(e).__name__)
                except Exception as e:  # noqa
                    return ('internal', type(e).__name__)
            r1 = verify()
            # the content changes in one byte and the torrent gets the hashes of the changed content
            fi = rng.randrange(len(sizes))
            pos = rng.randrange(sizes[fi])
            changed = list(contents)
            changed[fi] = contents[fi][:pos] + bytes([contents[fi][pos] ^ 0x5a]) + contents[fi][pos + 1:]
            fpath = cp if single else os.path.join(cp, *sl.relpath_of(fi))
            open(fpath, 'wb').write(changed[fi])
            stream2 = b''.join(changed)
            hashes2 = [hashlib.sha1(stream2[i:i + L]).digest() for i in range(0, len(stream2), L)]
            if how == 'assign':
                t.metainfo['info']['pieces'] = b''.join(hashes2)
            else:
                t2 = sl.make_torrent(sizes, L, single=single, hashes=hashes2)
                tf = os.path.join(d, 'new.torrent')
                t2.write(tf)
                t._path = __import__('pathlib').Path(cp)
                try:
                    t.reuse(tf)
                except Exception:  # noqa
                    t.metainfo['info']['pieces'] = b''.join(hashes2)
            r2 = verify()
            open(fpath, 'wb').write(contents[fi])          # back to the old content: no longer what the torrent records
            r3 = verify()
            if r1 != ('ret', True) or r2 != ('ret', True) or r3[0] != 'raise' or r3[1] not in ('VerifyContentError',):
                ck.fail('oracle', 'object-history:verify-follows-stale-hashes', case, "True, True, VerifyContentError", repr((r1, r2, r3)),
                        'verify() on an object whose recorded hashes were replaced does not follow the hashes it records now')



def replay(rp):
    if rp['case'].get('object-history'):
        return False, 're-run ./check C02 with the same seed (object histories are regenerated from the seed)'
    rec, verdicts = pc.replay_case(rp['case'])
    bad = [v for v in verdicts if v[0] == 'C02']
    return not bad, repr(bad)[:600]
