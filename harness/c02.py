"""C02 -- content verification is exact."""
import pipecheck as pc


def run(ck, model_ok):
    ck.rule = ('verify() of layouts with 1..4 files around piece boundaries (sizes 0, 1, 100, L-1, L, L+1, 2L, 3L+5, 20000; L = 16 KiB), single-file and multi-file, top-level '
               'directory renamed on disk, x damage (none; one or two files missing / one byte short / one byte long / one byte flipped at the first, last, middle or a random '
               'position) x thread counts 1..4 x with and without callback, under the cooperative scheduler; oracle: True iff undamaged; without callback a content / size / read '
               'error; with callback False and an error naming the damaged piece and a file set containing the altered file; schedules replayed on the Coq model; '
               'non-trivial = distinct (scenario, seed)')
    pc.run_family(ck, model_ok, 'C02', [('verify', 1200, 30000)])
    if model_ok:
        # which files a content error names: model (coq/model/Corrupt.v) against torf.VerifyContentError
        import torf
        from common import Model
        m = Model()
        pend = []
        rng = ck.rng
        for _ in range(400 if ck.tier == 'quick' else 20000):
            L = rng.choice([1, 2, 4, 16384])
            sizes = [rng.choice([0, 0, 1, 2, 3, L - 1 if L > 1 else 1, L, L + 1, 2 * L, 3 * L + 1]) for _ in range(rng.randint(1, 6))]
            npieces = max(1, -(-sum(sizes) // L))
            i = rng.randrange(npieces + 1)
            files = [(f'f{k}', sz) for k, sz in enumerate(sizes)]
            want = [int(f[1:]) for f in torf.VerifyContentError('x', i, L, tuple(files)).files]
            pend.append(((sizes, i, L), want, m.add(['verr.files', [[k, sz] for k, sz in enumerate(sizes)], i, L])))
        out = m.run()
        for case, want, j in pend:
            ck.ties += 1
            ck.case(('verr', case))
            got = [int(x) for x in out[j][1]] if out[j][0] == 'ok' else out[j]
            if got != want:
                ck.fail('tie', 'content-error-files', {'sizes': case[0], 'piece': case[1], 'L': case[2]}, repr(got), repr(want), 'model and VerifyContentError name different files')
    ck.notes += ['SHA-1 collisions are not considered; content on disk is fixed during a run']


def replay(rp):
    rec, verdicts = pc.replay_case(rp['case'])
    bad = [v for v in verdicts if v[0] == 'C02']
    return not bad, repr(bad)[:600]
