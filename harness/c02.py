"""C02 -- content verification is exact."""
import pipecheck as pc


def run(ck, model_ok):
    ck.rule = ('verify() of layouts with 1..4 files around piece boundaries (sizes 0, 1, 100, L-1, L, L+1, 2L, 3L+5, 20000; L = 16 KiB), single-file and multi-file, top-level '
               'directory renamed on disk, x damage (none; one or two files missing / one byte short / one byte long / one byte flipped at the first, last, middle or a random '
               'position) x thread counts 1..4 x with and without callback, under the cooperative scheduler; oracle: True iff undamaged; without callback a content / size / read '
               'error; with callback False and an error naming the damaged piece and a file set containing the altered file; schedules replayed on the Coq model; '
               'non-trivial = distinct (scenario, seed)')
    pc.run_family(ck, model_ok, 'C02', [('verify', 1200, 80000)])
    ck.notes += ['SHA-1 collisions are not considered; content on disk is fixed during a run']


def replay(rp):
    rec, verdicts = pc.replay_case(rp['case'])
    bad = [v for v in verdicts if v[0] == 'C02']
    return not bad, repr(bad)[:600]
