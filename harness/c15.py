"""C15 -- created torrents depend only on the content tree and the settings."""
import fnmatch
import os
import random
import re
import shutil

import torf
import torf._utils as tutils

from common import Model, Scratch

FILE_NAMES = ['...', '....', '..x', 'a.txt', 'A.txt', 'B.txt', 'b.TXT', 'c.jpg', 'C.JPG', 'readme', 'README', '.hidden', '.git', 'data.bin', 'x', 'X', 'with space.txt',
              'dot.', 'z9', '日本.txt', '文', 'a-b', 'a_b', '10', '9', '~tmp']
DIR_NAMES = ['...', 'sub', 'Sub', 'SUB', '.cache', 'docs', 'a', 'A', 'deep', 'with space', '文件', 'dot.', 'b']
TOP_NAMES = ['Top', 'top', '.Top', 'My Album', 'name.', 'T文', 'x', 'CONTENT']
GLOBS = ['*.txt', '*.TXT', '*.jpg', '{N}/sub/*', '{n}/SUB/*', '*/[a-c]*', '*?.bin', '[!a]*', '{N}/*', '*readme', '*/docs/*', '{N}/?', '*[0-9]', '*/a/*', '*a*',
         '{N}/[!.]*', '*.[jt][px][gt]', 'nomatch*']
# regexes as (bol, ast); ast forms mirror coq/lib/Regex.v
def lit(s):
    return ['seq'] + [['cls', [ord(c), ord(c)]] for c in s]
ANY = ['cls', [0, 9], [11, 0x10FFFF]]
REGEXS = [(False, lit('.txt')), (False, ['seq', lit('txt'), ['end']]), (True, lit('{N}/sub')), (True, lit('{N}/a')), (False, ['seq', ['cls', [65, 90]], ['cls', [46, 46]]]),
          (False, ['seq', lit('/'), ['cls', [97, 99]], ANY, ['end']]), (False, ['alt', lit('jpg'), lit('bin')]), (True, ['seq', lit('{N}/'), ['rep', 1, ['cls', [48, 57]]]]),
          (False, lit('README')), (False, ['seq', lit('sub/'), ANY]), (True, ['seq', lit('{N}'), ['end']]), (False, ['seq', ['grp', ['alt', lit('a'), lit('B')]], lit('.')]),
          (False, lit('docs'))]


def render_re(ast):
    t = ast[0]
    if t == 'cls':
        rs = ast[1:]
        if rs == ANY[1:]:
            return '.'
        if len(rs) == 1 and rs[0][0] == rs[0][1]:
            return re.escape(chr(rs[0][0]))
        return '[' + ''.join(re.escape(chr(a)) + '-' + re.escape(chr(b)) for a, b in rs) + ']'
    if t == 'seq':
        return ''.join(render_re(x) for x in ast[1:])
    if t == 'alt':
        return '(?:' + '|'.join(render_re(x) for x in ast[1:]) + ')'
    if t == 'grp':
        return '(' + render_re(ast[1]) + ')'
    if t == 'rep':
        return '(?:' + render_re(ast[2]) + '){' + str(ast[1]) + '}'
    if t == 'end':
        return '$'
    raise ValueError(t)


def subst(x, name):
    if isinstance(x, str):
        return x.replace('{N}', name).replace('{n}', name.swapcase())
    if isinstance(x, list) and x and x[0] == 'seq' and all(isinstance(c, list) and c[0] == 'cls' for c in x[1:]):
        s = ''.join(chr(c[1][0]) for c in x[1:])
        if '{N}' in s:
            return lit(s.replace('{N}', name))
        return x
    if isinstance(x, list):
        return [subst(c, name) for c in x]
    return x


def gen_tree(rng, force_single=False):
    """-> (top name, single?, {rel path tuple: size})"""
    name = rng.choice(TOP_NAMES)
    if force_single:
        return name, True, {(): rng.choice([1, 7, 3000, 20000])}
    if rng.random() < 0.12:
        return name, True, {(): rng.choice([0, 1, 7, 3000])}
    files = {}
    dirs = [()]
    for _ in range(rng.randint(0, 4)):
        d = rng.choice(dirs) + (rng.choice(DIR_NAMES),)
        if d not in dirs and len(d) <= 3:
            dirs.append(d)
    style = rng.random()
    for _ in range(rng.randint(1, 9)):
        d = rng.choice(dirs) if style > 0.25 else rng.choice(dirs[1:] or dirs)    # sometimes: everything below one subdirectory
        if style < 0.1 and len(dirs) > 1:
            d = dirs[1]
        rel = d + (rng.choice(FILE_NAMES),)
        if any(rel[:k] in files for k in range(1, len(rel))) or any(f[:len(rel)] == rel for f in files):
            continue
        files[rel] = rng.choice([0, 0, 1, 2, 5, 100, 1000, 20000])
    if not files:
        files[('a.txt',)] = 3
    return name, False, files


def gen_filters(rng, name):
    def some(pool, p):
        return [subst(rng.choice(pool), name) for _ in range(rng.choice([1, 1, 2]))] if rng.random() < p else []
    return {'ex_globs': some(GLOBS, 0.5), 'ex_regexs': some(REGEXS, 0.4), 'in_globs': some(GLOBS, 0.3), 'in_regexs': some(REGEXS, 0.2)}


def gen_directed_filters(rng, name, files):
    """one file that is hit by a pattern of one kind and a pattern of another kind: every include/exclude precedence pair"""
    rels = [r for r, s_ in files.items() if s_ > 0 and r and not any(p.startswith('.') for p in r) and all(ord(ch) < 128 for ch in '/'.join(r))]
    fl = {'ex_globs': [], 'ex_regexs': [], 'in_globs': [], 'in_regexs': []}
    if not rels:
        return gen_filters(rng, name)
    rel = rng.choice(rels)
    subject = name + '/' + '/'.join(rel)
    glob_ = rng.choice(['*' + rel[-1], name.swapcase() + '/*', '*' + rel[-1][-2:].upper(), subject])
    regex = (rng.random() < 0.5, lit(subject) if rng.random() < 0.5 else lit(rel[-1]))
    if regex[0]:
        regex = (True, lit(subject))
    inc, exc = rng.choice([('in_globs', 'ex_regexs'), ('in_regexs', 'ex_globs'), ('in_globs', 'ex_globs'), ('in_regexs', 'ex_regexs')])
    fl[inc].append(glob_ if 'globs' in inc else regex)
    fl[exc].append(glob_ if 'globs' in exc else regex)
    if rng.random() < 0.3:
        fl['ex_globs'].append('*')      # everything else is excluded
    return fl


def materialise(loc, name, single, files):
    top = os.path.join(loc, name)
    if single:
        os.makedirs(loc, exist_ok=True)
        with open(top, 'wb') as f:
            f.write(bytes((i * 7 + 1) % 251 for i in range(files[()])))
    else:
        os.makedirs(top, exist_ok=True)
        for rel, size in files.items():
            p = os.path.join(top, *rel)
            os.makedirs(os.path.dirname(p), exist_ok=True)
            with open(p, 'wb') as f:
                f.write(bytes((i * 13 + len(rel[-1])) % 251 for i in range(size)))
    os.makedirs(os.path.join(loc, 'sibling'), exist_ok=True)
    return top


def configs(loc, name, single, files, other):
    """(kind, cwd, spelled path)"""
    top = os.path.join(loc, name)
    out = [('abs', '/', top), ('abs-elsewhere', other, top), ('abs-dot-segments', '/', os.path.join(loc, '.', name, '.')),
           ('abs-via-sibling', '/', os.path.join(loc, 'sibling', '..', name)), ('abs-double-slash', other, loc + '//' + name),
           ('rel-from-parent', loc, name), ('rel-dot-prefix', loc, './' + name), ('rel-from-sibling', os.path.join(loc, 'sibling'), '../' + name),
           ('rel-via-sibling', loc, 'sibling/../' + name)]
    if not single:
        out += [('abs-trailing-slash', '/', top + '/'), ('rel-trailing-slash', loc, name + '/'), ('inside-dot', top, '.'), ('inside-dot-slash', top, './'),
                ('inside-via-parent', top, '../' + name)]
        subs = sorted({rel[:1] for rel in files if len(rel) > 1})
        if subs:
            sub = subs[0][0]
            out += [('sub-dotdot', os.path.join(top, sub), '..'), ('sub-dotdot-slash', os.path.join(top, sub), '../'), ('sub-dotdot-dot', os.path.join(top, sub), '../.'),
                    ('inside-sub-dotdot', top, sub + '/..'), ('abs-sub-dotdot', '/', os.path.join(top, sub, '..')),
                    ('sub-up-and-down', os.path.join(top, sub), '../../' + name), ('parent-sub-dotdot', loc, name + '/' + sub + '/..')]
    return out


class Walk:
    """os.walk with the directory listing order chosen by a seed (None = file system order)."""
    real = os.walk

    def __init__(self, seed):
        self.seed = seed

    def __call__(self, top, *a, **kw):
        rng = random.Random(self.seed)
        for dirpath, dirnames, filenames in Walk.real(top, *a, **kw):
            if self.seed is not None:
                dirnames.sort()
                filenames.sort()
                rng.shuffle(dirnames)
                rng.shuffle(filenames)
            yield dirpath, dirnames, filenames


def observe(cwd, spelled, filters, walk_seed):
    """Run the implementation; returns (observation, list_files result relative to the content path)."""
    listed = []
    real_list = tutils.list_files

    def list_files(path):
        r = real_list(path)
        listed.append((str(path), [str(x) for x in r]))
        return r
    old = os.getcwd()
    os.chdir(cwd)
    os.walk = Walk(walk_seed)
    tutils.list_files = list_files
    try:
        t = torf.Torrent(exclude_globs=filters['ex_globs'], exclude_regexs=[('^' if b else '') + render_re(a) for b, a in filters['ex_regexs']],
                         include_globs=filters['in_globs'], include_regexs=[('^' if b else '') + render_re(a) for b, a in filters['in_regexs']])
        try:
            t.path = spelled
        except Exception as e:  # noqa
            return ('raised', type(e).__name__, str(e)[:120]), listed
        info = t.metainfo['info']
        if 'files' in info:
            obs = ('multi', info.get('name'), [(tuple(f['path']), f['length']) for f in info['files']], info.get('piece length'), [str(f) for f in t.files])
        elif 'length' in info:
            obs = ('single', info.get('name'), info['length'], info.get('piece length'), [str(f) for f in t.files])
        else:
            obs = ('empty',)
        return obs, listed
    finally:
        os.walk = Walk.real
        tutils.list_files = real_list
        os.chdir(old)


def is_hidden(rel):
    return any(p.startswith('.') for p in rel)


def spec(name, single, files, filters):
    """C15 stated directly on the abstract tree."""
    def excluded(subject):
        def g(pats):
            return any(fnmatch.fnmatchcase(subject.casefold(), p.casefold()) for p in pats)

        def r(pats):
            return any(re.search(('^' if b else '') + render_re(a), subject) for b, a in pats)
        if r(filters['in_regexs']) or g(filters['in_globs']):
            return False
        return r(filters['ex_regexs']) or g(filters['ex_globs'])
    kept = {rel: size for rel, size in files.items() if size > 0 and not is_hidden(rel) and not excluded('/'.join((name,) + rel))}
    if not kept:
        return ('empty',)
    if single:
        return ('single', name, kept[()])
    return ('multi', name, sorted(kept.items()))


def strip(obs):
    return obs[:3]


def enc_str(s):
    return [ord(c) for c in s]


def model_req(cwd, spelled, filters, listed_rel):
    ab = spelled.startswith('/')
    raw = spelled.split('/')
    if ab:
        raw = raw[1:]
    fl = [[enc_str(g) for g in filters['ex_globs']], [['t' if b else 'f', a] for b, a in filters['ex_regexs']],
          [enc_str(g) for g in filters['in_globs']], [['t' if b else 'f', a] for b, a in filters['in_regexs']]]
    return ['tree.set_path', [enc_str(c) for c in cwd.split('/')[1:] if c], 't' if ab else 'f', [enc_str(c) for c in raw], fl,
            [[[enc_str(c) for c in rel], size] for rel, size in listed_rel]]


def from_model(x):
    def s(v):
        return ''.join(chr(int(c)) for c in v)
    if x[0] != 'ok':
        return ('raised', x)
    y = x[1]
    if y[0] == 'empty':
        return ('empty',)
    if y[0] == 'single':
        return ('single', s(y[1]), int(y[2]))
    return ('multi', s(y[1]), [(tuple(s(c) for c in e[0]), int(e[1])) for e in y[2]])


def modelable(name, files, filters):
    txt = name + ''.join('/'.join(r) for r in files) + ''.join(filters['ex_globs'] + filters['in_globs'])
    return all(ord(c) < 128 or c.casefold() == c == c.upper() for c in txt)


def run(ck, model_ok):
    ck.rule = ('random trees (case variants, hidden and empty entries, nesting up to 3, names with spaces / trailing dots / CJK, everything below one subdirectory, '
               'single files) x 2 locations x up to 21 spellings+working directories (absolute, relative, ".", "..", "sub/..", trailing slash, double slash, via sibling) '
               'x shuffled directory listing orders x random glob/regex include/exclude sets; oracle: every configuration gives the result of the spec function of '
               '(name, relative paths, sizes, filters); model compared on every ASCII/caseless case; non-trivial = distinct (tree, filters, configuration)')
    quick = ck.tier == 'quick'
    m = Model()
    pend = []
    order_seen = {}
    with Scratch() as root:
        other = os.path.join(root, 'elsewhere')
        os.makedirs(other)
        for ti in range(45 if quick else 1500):
            name, single, files = gen_tree(ck.rng, force_single=(ti % 6 == 3))     # every sixth tree is a single non-empty file
            locs = [os.path.join(root, f't{ti}', 'l1'), os.path.join(root, f't{ti}', 'some deep', 'Dir.2')]
            for loc in locs:
                materialise(loc, name, single, files)
            for fi in range(2 if quick else 3):
                filters = {'ex_globs': [], 'ex_regexs': [], 'in_globs': [], 'in_regexs': []} if fi == 0 else \
                    gen_directed_filters(ck.rng, name, files) if (fi == 1 and ti % 2 == 0 and not single) else gen_filters(ck.rng, name)
                want = spec(name, single, files, filters)
                ck.count('spec:' + want[0])
                for li, loc in enumerate(locs):
                    cfgs = configs(loc, name, single, files, other)
                    if quick and li == 1:
                        cfgs = ck.rng.sample(cfgs, min(4, len(cfgs)))
                    for kind, cwd, spelled in cfgs:
                        seed = ck.rng.choice([None, 1, 2, 3])
                        case = {'name': name, 'single': single, 'files': [['/'.join(r), s] for r, s in files.items()], 'filters': repr(filters),
                                'location': li, 'config': kind, 'walk_seed': seed}
                        ck.case(repr(case))
                        ck.count('config:' + kind)
                        obs, listed = observe(cwd, spelled, filters, seed)
                        if obs[0] == want[0] == 'multi' and obs[1] == want[1] and sorted(obs[2]) == want[2]:
                            # same files: the order need not be the spec's, but it must not depend on the configuration
                            first = order_seen.setdefault((ti, fi), (obs[2], kind, seed))
                            if obs[2] != first[0]:
                                ck.fail('oracle', 'new:file-order-depends-on-configuration', dict(case, other_config=first[1], other_walk_seed=first[2]),
                                        repr(first[0])[:400], repr(obs[2])[:400], 'the order of the file list differs between two configurations of the same tree')
                        elif strip(obs) != want:
                            ck.fail('oracle', classify(obs, want, files, kind), case, repr(want)[:400], repr(obs)[:400],
                                    'name / file list differ from the function of the tree and the settings')
                        elif obs[0] != 'empty':
                            exp_files = [name] if single else [name + '/' + '/'.join(r) for r, _ in want[2]]
                            if obs[4] != exp_files:
                                ck.fail('oracle', 'new:files-attribute', case, repr(exp_files)[:300], repr(obs[4])[:300], 'Torrent.files differs from the info dictionary')
                        if model_ok and modelable(name, files, filters) and len(listed) == 1:
                            base, lst = listed[0]
                            rels = []
                            for p in lst:
                                rel = os.path.relpath(p, base)
                                rel = () if rel == '.' else tuple(rel.split('/'))
                                rels.append((rel, files.get(rel, -1)))
                            if sorted(r for r, _ in rels) != sorted(files):
                                ck.fail('tie', 'list_files-not-a-permutation', case, repr(sorted(files))[:300], repr(rels)[:300], 'list_files did not return exactly the files of the tree')
                                continue
                            pend.append((case, obs, m.add(model_req(cwd, spelled, filters, rels))))
                        if ti < 2 and fi == 0 and li == 0 and kind == 'abs':
                            ck.sample(case)
            for loc in locs:
                shutil.rmtree(os.path.dirname(loc) if loc.endswith('l1') else loc, ignore_errors=True)
        # piece hashes are a function of the tree as well: same infohash from two locations / spellings
        for ti in range(6 if quick else 60):
            name, single, files = gen_tree(ck.rng)
            hashes = set()
            for li in range(2):
                loc = os.path.join(root, f'h{ti}', f'loc{li}')
                top = materialise(loc, name, single, files)
                cwd, spelled = [('/', top), (loc, './' + name)][li]
                old = os.getcwd()
                os.chdir(cwd)
                os.walk = Walk(li + 1)
                try:
                    t = torf.Torrent(path=spelled, created_by=None, creation_date=None)
                    if t.files:
                        t.generate(threads=2)
                        hashes.add(t.infohash)
                finally:
                    os.walk = Walk.real
                    os.chdir(old)
            ck.case(('infohash', ti))
            if len(hashes) > 1:
                ck.fail('oracle', 'new:infohash-differs', {'name': name, 'files': [['/'.join(r), s] for r, s in files.items()]}, 'one infohash', repr(hashes), 'infohash depends on location / spelling')
    if model_ok:
        out = m.run()
        for case, obs, i in pend:
            ck.ties += 1
            mo = from_model(out[i])
            if mo != strip(obs):
                ck.fail('tie', case['config'], case, repr(mo)[:400], repr(strip(obs))[:400], 'model and implementation compute different name / file list')
        # pattern languages on their own
        pend2 = []
        rng = ck.rng
        for _ in range(300 if quick else 20000):
            name = rng.choice(['Top', 'x'])
            subj = name + '/' + '/'.join(rng.choice(DIR_NAMES[:8] + FILE_NAMES[:16]) for _ in range(rng.randint(1, 3)))
            if rng.random() < 0.5:
                g = subst(rng.choice(GLOBS), name)
                if rng.random() < 0.3:
                    g = ''.join(rng.choice('*?[]!a-cA.x/') for _ in range(rng.randint(1, 6)))
                if '[' in g and not re.fullmatch(r'[^\[\]]*(\[!?[a-z0-9.]([a-z0-9.]|-[a-z0-9])*\][^\[\]]*)*', g.casefold()):
                    continue      # character sets outside the modelled fragment of fnmatch.translate
                want = fnmatch.fnmatch(subj.casefold(), g.casefold())
                pend2.append((('glob', g, subj), want, m.add(['tree.glob', enc_str(g), enc_str(subj)])))
            else:
                b, a = rng.choice(REGEXS)
                a = subst(a, name)
                want = re.search(('^' if b else '') + render_re(a), subj) is not None
                pend2.append((('regex', ('^' if b else '') + render_re(a), subj), want, m.add(['tree.rx', ['t' if b else 'f', a], enc_str(subj)])))
        out = m.run()
        for case, want, i in pend2:
            ck.ties += 1
            ck.count('pattern:' + case[0])
            if (out[i] == 't') != want:
                ck.fail('tie', 'pattern:' + case[0], {'pattern': case[1], 'subject': case[2]}, repr(out[i]), repr(want), 'model and Python disagree on a pattern match')
    ck.notes += ['symbolic links, unreadable entries and non-UTF-8 names are outside the model', 'cased non-ASCII names are checked by the oracle only (casefold is modelled for ASCII)',
                 'the listing order is varied by substituting os.walk in the harness process; list_files is wrapped to record what it returned']


def classify(obs, want, files, kind):
    if obs[0] == 'raised':
        return 'new:raised:' + obs[1]
    if obs[0] == want[0] == 'multi' and obs[1] != want[1]:
        return 'new:name:' + kind
    got = dict(obs[2]) if obs[0] == 'multi' else {}
    exp = dict(want[2]) if want[0] == 'multi' else {}
    extra = [r for r in got if r not in exp]
    missing = [r for r in exp if r not in got]
    if extra and all(files.get(r) == 0 for r in extra) and not missing:
        return 'new:empty-file-kept:' + kind
    if extra and all(is_hidden(r) for r in extra) and not missing:
        return 'new:hidden-kept'
    if extra or missing:
        return 'new:pattern-filter:' + kind
    if obs[0] == want[0] == 'multi' and sorted(obs[2]) == sorted(want[2]):
        return 'new:file-order'
    return 'new:layout:' + kind


def replay(rp):
    c = rp['case']
    if 'config' not in c:
        return True, 'not replayable in isolation'
    files = {tuple(r.split('/')) if r else (): s for r, s in c['files']}
    filters = eval(c['filters'])  # noqa
    with Scratch() as root:
        other = os.path.join(root, 'elsewhere')
        os.makedirs(other)
        loc = [os.path.join(root, 't', 'l1'), os.path.join(root, 't', 'some deep', 'Dir.2')][c['location']]
        materialise(loc, c['name'], c['single'], files)
        cfgs = {kind: (cwd, spelled) for kind, cwd, spelled in configs(loc, c['name'], c['single'], files, other)}
        if c['config'] in cfgs:
            obs, _ = observe(*cfgs[c['config']], filters, c['walk_seed'])
            want = spec(c['name'], c['single'], files, filters)
            if 'other_config' in c and c['other_config'] in cfgs:
                obs2, _ = observe(*cfgs[c['other_config']], filters, c['other_walk_seed'])
                return obs == obs2, repr((obs, obs2))[:600]
            if obs[0] == want[0] == 'multi':
                return (obs[1], sorted(obs[2])) == (want[1], want[2]), repr(obs)[:400]
            return strip(obs) == want, repr(obs)[:400]
    return True, 'configuration not found'
