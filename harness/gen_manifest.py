#!/usr/bin/env python3
"""Regenerates MANIFEST.json from the table below (claimed properties) and properties.jsonl."""
import json
props = [json.loads(l) for l in open('/verif/properties.jsonl')]
TECH = "machine-checked proof in Coq over a model tied to the source by a translator and a model-vs-implementation correspondence run"
C = {
 'C01': ("Unbounded Coq theorems (any hash H): on intact content the modelled piece reader yields exactly the L-sized chunks of the files' concatenation for every layout / piece length / handle table; chunk count = ceil(size/L), only the last chunk short, digest string length. Model tied to torf by a correspondence run (real iter_pieces vs extracted model) and by real Torrent.generate(threads=1..8) against sha1-of-chunks.",
         "The thread pipeline between reader and stored string is covered here only by real-thread runs (its model/theorems are C03's); SHA-1 abstract in theorems; Coq kernel, extract.py, extraction, harness trusted."),


 'C05': ("Unbounded Coq theorems for the two codec layers: (i) the model of flatbencode's stack-machine decoder inverts the encoder on every canonical value (strictly sorted dict keys; any nesting, unknown fields, arbitrary byte strings, integers of any magnitude within CPython's digit limit), hence re-encoding a canonical input reproduces its bytes; (ii) torf's decode_value inverts encode_value on every metainfo value in normal form; (iii) decimal integer printing/parsing are inverse. Tie: read_stream(x).dump()==x, read_stream(t.dump())==t and infohash stability on generated canonical torrents (extra keys everywhere, non-UTF-8 strings, non-BMP keys, 10^60 integers, creation dates incl. 0 and range ends), decoded metainfo and dumped bytes compared with the model.",
         "The composition through read_stream's glue (pieces taken out before decoding, creation date <-> datetime, private -> bool) is covered by the correspondence run, not by a theorem; text is modelled by its UTF-8 bytes, so 'str sort order == byte sort order' (a property of UTF-8) is trusted and exercised; TZ=UTC."),
 'C06': ("Unbounded Coq theorems: the byte string hashed by infohash is a contiguous span of the dumped bytes - the value following the key 'info' (fuel-generic compositionality of the converter + encoder); every dictionary is emitted with strictly increasing raw-byte keys (no duplicates). The shapes of dump/convert/infohash/encode_dict/encode_value are fail-closed facts of the translator. Tie: model dump and hashed bytes compared with real torf on exportable metainfo of all converter-accepted value types and several object origins; an independent strict bencode parser locates the info span and checks sha1 == infohash == base32 == magnet hash == written file.",
         "SHA-1 and base32 are not modelled (identity of hashed bytes is what is proved); text is modelled by its UTF-8 bytes (order preservation of UTF-8 trusted); minimal-integer encoding and 'no trailing data' are checked by the strict parser on the implementation side, not proved."),
 'C07': ("Unbounded Coq theorems over the validate model driven by the rule table regenerated from the source: validate = Ok implies structural soundness (info dict, str/bytes name, positive 16KiB-multiple piece length, non-empty pieces of 20*ceil(size/L) bytes, exactly one of length/files, non-negative single-file length, well-formed announce URL); dump/infohash return only after successful validation; is_ready iff validate succeeds. 'MetainfoError and nothing else' is refuted on the faithful model (witness theorem: >4300-digit int) and the remaining exception leaks are known findings. Tie: ~1.5k structure-aware mutants per quick run compared between model and real torf on validate/is_ready/dump/infohash + independent soundness oracle on dumped bytes.",
         "Per-file entry soundness (Mapping, non-negative length, str/bytes path components) is enforced by the extracted rules and tested by the oracle but the theorem states it only through the summed size; non-sequence iterables for files/announce-list/path are outside the model (oracle only); is_url is a parameter of the theorems (concrete approximation validated on a URL pool)."),
 'C08': ("Unbounded Coq theorems over ALL byte strings: the model of flatbencode's stack-machine decoder fails only with DecodingError/ValueError/OverflowError; read_stream without validation returns or fails with the decode or metainfo error only (the except clauses are regenerated from the source); a torrent returned with validation validates. Tie: model vs real read_stream (+ validate/dump of the result) on valid, structure-mutated, random and token-soup inputs; oracle: documented errors only, linear time budget; Magnet.from_string: oracle only.",
         "Typed errors for read_stream WITH validation and for validate/dump of a returned torrent are covered by correspondence + oracle, not by a theorem; time/memory bounds are measured (wall time), not proved; recursion depth between 300 and 1000 is interpreter-state dependent and compared by class only."),
 'C17': ("Unbounded Coq theorems over the effect model whose ORDER of effects (existence check, dump, open / dump, seek+truncate, write) is regenerated from the source: any failing write leaves the target exactly as it was, refusal without overwrite raises WriteError, success leaves exactly the dumped bytes, write_stream touches the stream only after the complete content exists. Tie: real Torrent.write/write_stream on absent/existing/directory/unopenable targets and seekable/non-seekable/failing streams with prior content, for valid, mutated and unconvertible metainfo.",
         "File-system effects are those of open(...,'wb')/truncate as modelled (create-or-truncate on open); the sandbox runs as root, so 'unwritable' is exercised as ENOTDIR."),
 'C10': ("Coq theorems: (unbounded) with no bad file every piece is exact and nothing is reported; (bounded, decided in Coq by vm_compute + forallb_forall, bound in the statement) for all damage plans over the listed size sets / L in {2,3,4} / up to 4 files the modelled iter_pieces meets the full C10 specification; zero-length bad entries refuted (witness theorems, known findings). The model (incl. the remove-while-iterating loop of _MissingPieces) is tied to torf by a correspondence run on ~2.5k (quick) layouts x damage plans and an independent spec oracle on the real items.",
         "The unbounded refinement for arbitrary damage plans is not proved (bounded theorem + correspondence instead); files on disk do not change during iteration."),
 'C11': ("Unbounded Coq theorems: every geometry method of the stream equals its arithmetic definition on the concatenated stream (prefix-sum offsets) for all layouts/piece lengths; the arithmetic sub-expressions of the methods are regenerated from /repo's source on each run, the list/loop structure is hand-modelled and tied by a correspondence run (model extracted to OCaml vs real torf on ~60k queries) plus a brute-force byte-ownership oracle that yields replays. Zero-length-file clauses are refuted on the faithful model (witness theorems) and recorded as known findings.",
         "Float floor-division = integer floor-division below 2^53 is assumed (exercised near 2^53, not proved); get_piece is covered by model correspondence + oracle only (no theorem yet)."),
 'C19': ("Unbounded Coq theorems over all operation histories (complete/abandoned iterations, get_piece, verify_piece, close): the result of any operation is independent of the history before it, at most cap+1 files are open after any history, close empties the table. Model tied to torf by replaying random and cache-pressure histories on a real TorrentFileStream (results and /proc/self/fd counts compared with the model) plus a fresh-object oracle.",
         "Content on disk fixed during a history; a suspended iteration is never resumed after another operation; cap value regenerated from source."),
}
claimed = sorted(C)
m = {
 "version": 1,
 "setup_cmd": "./build.sh",
 "hooks": {"guard": "TORF_VERIF", "enable": "no source hooks are needed: checks import /repo/torf directly (PYTHONPATH=/repo) and substitute module attributes of torf._generate at run time; TORF_VERIF is reserved",
           "baseline_off_cmd": "cd /repo && /venv/bin/python -m pytest -ra -q -p no:cacheprovider --timeout=900 --continue-on-collection-errors",
           "source_commits": [], "add_only": True},
 "engines": [
  {"name": "coq-proofs", "path": "coq/", "serves_properties": claimed, "kind_free_text": "Coq 8.16.1 development: executable Gallina models (coq/model), proofs (coq/proofs), one theorem file per property (coq/Props) with Print Assumptions"},
  {"name": "extract", "path": "harness/extract.py", "serves_properties": claimed, "kind_free_text": "fail-closed Python-ast translator regenerating coq/Extracted.v from /repo on every run"},
  {"name": "correspondence", "path": "harness/", "serves_properties": claimed, "kind_free_text": "model extracted to OCaml (ocaml/driver.ml) run against the real torf on the same inputs; independent oracle searches for the failing input"}],
 "checks": [], "not_applicable": [],
 "notes": "see DESIGN.md; KNOWN_FINDINGS lists defects of torf found and not repaired, and the fix: commits in /repo",
}
for pid in claimed:
    m["checks"].append({"property_id": pid, "quick_cmd": f"./check {pid} --tier quick", "thorough_cmd": f"./check {pid} --tier thorough",
      "evidence_file": f"/verif/evidence/{pid}.json", "replay_cmd_template": f"./check {pid} --replay {{path}}", "engine": "coq-proofs",
      "level_claimed": {"category": "proof", "text": C[pid][0], "design_ref": f"DESIGN.md §3 {pid}"},
      "level_note": C[pid][1] + " Trusted: Coq kernel, harness/extract.py, extraction + ocaml/driver.ml, the harness (generators, canonicalisation, oracle).", "technique": TECH})
for p in props:
    if p['id'] not in C:
        m["not_applicable"].append({"property_id": p['id'], "reason": "not built yet in this round (work in progress; see DESIGN.md §7 build order)"})
json.dump(m, open('/verif/MANIFEST.json', 'w'), indent=1)
print('claimed', claimed)
