#!/usr/bin/env python3
"""Regenerates MANIFEST.json from the table below (claimed properties) and properties.jsonl."""
import json
props = [json.loads(l) for l in open('/verif/properties.jsonl')]
TECH = "machine-checked proof in Coq over a model tied to the source by a translator and a model-vs-implementation correspondence run"
C = {
 'C01': ("Unbounded Coq theorems (any hash H): on intact content the modelled piece reader yields exactly the L-sized chunks of the files' concatenation for every layout / piece length / handle table; chunk count = ceil(size/L), only the last chunk short, digest string length. Model tied to torf by a correspondence run (real iter_pieces vs extracted model) and by real Torrent.generate(threads=1..8) against sha1-of-chunks.",
         "The thread pipeline between reader and stored string is covered here only by real-thread runs (its model/theorems are C03's); SHA-1 abstract in theorems; Coq kernel, extract.py, extraction, harness trusted."),
 'C10': ("Coq theorems: (unbounded) with no bad file every piece is exact and nothing is reported; (bounded, decided in Coq by vm_compute + forallb_forall, bound in the statement) for all damage plans over the listed size sets / L in {2,3,4} / up to 4 files the modelled iter_pieces meets the full C10 specification; zero-length bad entries refuted (witness theorems, known findings). The model (incl. the remove-while-iterating loop of _MissingPieces) is tied to torf by a correspondence run on ~2.5k (quick) layouts x damage plans and an independent spec oracle on the real items.",
         "The unbounded refinement for arbitrary damage plans is not proved (bounded theorem + correspondence instead); files on disk do not change during iteration."),
 'C11': ("Unbounded Coq theorems: every geometry method of the stream equals its arithmetic definition on the concatenated stream (prefix-sum offsets) for all layouts/piece lengths; the arithmetic sub-expressions of the methods are regenerated from /repo's source on each run, the list/loop structure is hand-modelled and tied by a correspondence run (model extracted to OCaml vs real torf on ~60k queries) plus a brute-force byte-ownership oracle that yields replays. Zero-length-file clauses are refuted on the faithful model (witness theorems) and recorded as known findings.",
         "Float floor-division = integer floor-division below 2^53 is assumed (exercised near 2^53, not proved); get_piece is covered by model correspondence + oracle only (no theorem yet)."),
 'C19': ("Unbounded Coq theorems over all operation histories (complete/abandoned iterations, get_piece, verify_piece, close): the result of any operation is independent of the history before it, at most cap+1 files are open after any history, close empties the table. Model tied to torf by replaying random and cache-pressure histories on a real TorrentFileStream (results and /proc/self/fd counts compared with the model) plus a fresh-object oracle.",
         "Content on disk fixed during a history; a suspended iteration is never resumed after another operation; cap value regenerated from source."),
}
claimed = sorted(C)
m = {
 "version": 1,
 "setup_cmd": "./build.sh",
 "hooks": {"guard": "TORF_VERIF", "enable": "no source hooks are needed: checks import /repo/torf directly (PYTHONPATH=/repo) and substitute module attributes of torf._generate at run time; TORF_VERIF is reserved",
           "baseline_off_cmd": "cd /repo && /venv/bin/python -m pytest -ra -q -p no:cacheprovider --timeout=900 --continue-on-collection-errors",
           "source_commits": [], "add_only": True},
 "engines": [
  {"name": "coq-proofs", "path": "coq/", "serves_properties": claimed, "kind_free_text": "Coq 8.16.1 development: executable Gallina models (coq/model), proofs (coq/proofs), one theorem file per property (coq/Props) with Print Assumptions"},
  {"name": "extract", "path": "harness/extract.py", "serves_properties": claimed, "kind_free_text": "fail-closed Python-ast translator regenerating coq/Extracted.v from /repo on every run"},
  {"name": "correspondence", "path": "harness/", "serves_properties": claimed, "kind_free_text": "model extracted to OCaml (ocaml/driver.ml) run against the real torf on the same inputs; independent oracle searches for the failing input"}],
 "checks": [], "not_applicable": [],
 "notes": "see DESIGN.md; KNOWN_FINDINGS lists defects of torf found and not repaired, and the fix: commits in /repo",
}
for pid in claimed:
    m["checks"].append({"property_id": pid, "quick_cmd": f"./check {pid} --tier quick", "thorough_cmd": f"./check {pid} --tier thorough",
      "evidence_file": f"/verif/evidence/{pid}.json", "replay_cmd_template": f"./check {pid} --replay {{path}}", "engine": "coq-proofs",
      "level_claimed": {"category": "proof", "text": C[pid][0], "design_ref": f"DESIGN.md §3 {pid}"},
      "level_note": C[pid][1] + " Trusted: Coq kernel, harness/extract.py, extraction + ocaml/driver.ml, the harness (generators, canonicalisation, oracle).", "technique": TECH})
for p in props:
    if p['id'] not in C:
        m["not_applicable"].append({"property_id": p['id'], "reason": "not built yet in this round (work in progress; see DESIGN.md §7 build order)"})
json.dump(m, open('/verif/MANIFEST.json', 'w'), indent=1)
print('claimed', claimed)
