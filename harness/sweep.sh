#!/bin/bash
# usage: sweep.sh <tier> <seed> [seed ...]  -- run every claimed check for the given seeds; print the non-passing ones
cd "$(dirname "$0")/.."
./build.sh >/dev/null 2>&1
tier=$1; shift
for sd in "$@"; do
  for p in $(python3 -c "import json; print(' '.join(c['property_id'] for c in json.load(open('MANIFEST.json'))['checks']))"); do
    out=$(VERIF_SEED=$sd ./check $p --tier $tier 2>&1); rc=$?
    echo "$p seed=$sd rc=$rc $(echo "$out" | tail -1 | grep -o 'wall=[0-9.]*s')"
    if [ $rc -ne 0 ]; then echo "$out" | grep -E "^(VIOLATION|NOTE)" | cut -c1-400; fi
  done
done
