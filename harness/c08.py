"""C08 -- untrusted input only ever produces documented errors."""
import datetime
import io
import time

import torf

import metalib as ml
import streamlib as sl
from common import Model, atom_bytes

DOC_READ = ('BdecodeError', 'MetainfoError', 'ReadError')


def benc(v):
    if isinstance(v, bool):
        return b'i%de' % int(v)
    if isinstance(v, int):
        return b'i' + str(v).encode() + b'e'
    if isinstance(v, str):
        v = v.encode('utf-8')
    if isinstance(v, (bytes, bytearray)):
        return str(len(v)).encode() + b':' + bytes(v)
    if isinstance(v, (list, tuple)):
        return b'l' + b''.join(benc(x) for x in v) + b'e'
    if isinstance(v, dict):
        items = sorted(((k.encode('utf-8') if isinstance(k, str) else k), x) for k, x in v.items())
        return b'd' + b''.join(benc(k) + benc(x) for k, x in items) + b'e'
    if isinstance(v, datetime.datetime):
        return benc(int(v.replace(tzinfo=datetime.timezone.utc).timestamp()))
    raise TypeError(type(v))


def gen_inputs(ck):
    quick = ck.tier == 'quick'
    rng = ck.rng
    out = []
    corpus = [b'', b'd', b'de', b'i1e', b'le', b'd4:infoi1ee', b'd4:infod4:name1:aee', b'ie', b'i-e', b'i-0e', b'i03e', b'::a', b'1:', b'0:',
              b'd1:ae', b'd1:a1:b1:ce', b'd1:b1:x1:a1:ye', b'd1:a1:x1:a1:ye', b'di1e1:xe', b'd4:infodee', b'l' * 50 + b'e' * 50,
              b'l' * 3000 + b'e' * 3000, b'd13:creation date3:abc4:infod4:name1:aee', b'd13:creation datei99999999999999e4:infod4:name1:aee',
              b'd13:creation datei-99999999999999e4:infod4:name1:aee', b'd13:creation datei' + b'9' * 30 + b'e4:infod4:name1:aee',
              b'd13:creation datei72057594037927936e4:infod4:name1:aee', b'd13:creation datei-1152921504606846976e4:infod4:name1:aee', b'd13:creation datei4611686018427400249e4:infod4:name1:aee',
              b'd13:creation datele4:infod4:name1:aee', b'd13:creation dateli1ee4:infod4:name1:aee',
              b'9223372036854775808:abc', b'99999999999999999999:abc', b'4294967296:abc', b'2147483648:x', b'd4:infod7:privatei2eee',
              b'd4:infod6:piecesi5eee', b'd4:info3:abce', b'i' + b'1' * 5000 + b'e', b'1' * 5000 + b':a', b'd2:\xff\xfe1:ae',
              b'd4:infod4:name1:a12:piece lengthi16384e6:lengthi' + b'9' * 400 + b'e6:pieces20:aaaaaaaaaaaaaaaaaaaaee']
    out += [(c, 'corpus') for c in corpus]
    n = 600 if quick else 40000
    for _ in range(n):
        md = ml.valid_meta(rng)
        try:
            x = benc(md)
        except TypeError:
            continue
        r = rng.random()
        if r < 0.25:
            out.append((x, 'valid'))
            continue
        if r < 0.33:
            # deep nesting in place of a value that read_stream treats specially (pieces is not decoded; name, files, ... are validated)
            import copy
            md2 = copy.deepcopy(md)
            where = rng.choice(['pieces', 'pieces', 'name', 'files', 'piece length', 'info-extra', 'announce', 'private', 'creation date', 'path'])
            if where == 'info-extra':
                md2['info']['zzz'] = '@@NEST@@'
            elif where in ('announce', 'creation date'):
                md2[where] = '@@NEST@@'
            elif where == 'path' and 'files' in md2['info']:
                md2['info']['files'][0]['path'] = '@@NEST@@'
            elif where == 'files':
                md2['info'].pop('length', None)
                md2['info']['files'] = '@@NEST@@'
            else:
                md2['info'][where if where != 'path' else 'pieces'] = '@@NEST@@'
            k = rng.choice([1, 3, 30, 100, 200, 700, 900, 1200, 2000, 5000])
            inner = rng.choice([b'', b'', b'i1e', b'20:' + b'a' * 20])
            out.append((benc(md2).replace(b'8:@@NEST@@', b'l' * k + inner + b'e' * k), 'nest-at:' + where))
            continue
        b = bytearray(x)
        kind = rng.choice(['truncate', 'flip', 'splice', 'prefix', 'dup', 'cd', 'private', 'nest', 'delete', 'insert'])
        if kind == 'truncate':
            b = b[:rng.randrange(len(b))]
        elif kind == 'flip':
            for _ in range(rng.randint(1, 3)):
                b[rng.randrange(len(b))] ^= 1 << rng.randrange(8)
        elif kind == 'splice':
            i, j = sorted((rng.randrange(len(b)), rng.randrange(len(b))))
            b = b[:i] + b[j:]
        elif kind == 'prefix':
            # replace some length prefix by a huge / zero / negative-looking one
            idx = [i for i in range(len(b)) if b[i:i + 1] == b':' and i > 0 and chr(b[i - 1]).isdigit()]
            if idx:
                i = rng.choice(idx)
                s = i
                while s > 0 and chr(b[s - 1]).isdigit():
                    s -= 1
                b = b[:s] + rng.choice([b'0', b'99', b'4294967296', b'9223372036854775807', b'9223372036854775808', b'1' * 40, b'-1', b'']) + b[i:]
        elif kind == 'dup':
            i = rng.randrange(len(b))
            b = b[:i] + b[i:i + rng.randint(1, 30)] + b[i:]
        elif kind == 'cd':
            v = rng.choice([b'i%de' % rng.choice([0, -1, 10 ** 11, -10 ** 11, 253402300800, 10 ** 20, -62135596801, 2 ** 63, 2 ** 56, 2 ** 60, -2 ** 58, 2 ** 62 + 12345, 2 ** 63 - 1, -2 ** 63, 10 ** 17]), b'3:now', b'le', b'de', b'0:', b'li5ee'])
            b = bytearray(b'd13:creation date' + v + bytes(b[1:]).replace(b'13:creation datei', b'2:cdi'))
        elif kind == 'private':
            b = bytearray(bytes(b).replace(b'4:infod', b'4:infod7:private' + rng.choice([b'i2e', b'i-1e', b'0:', b'1:x', b'le', b'li0ee', b'de']) if b'7:private' not in bytes(b) else b'4:infod', 1))
        elif kind == 'nest':
            k = rng.choice([3, 30, 100, 600, 800, 2000, 5000])
            b = bytearray(b'd1:!' + b'l' * k + b'e' * k + bytes(b[1:]))
        elif kind == 'delete':
            i = rng.randrange(len(b))
            del b[i]
        else:
            b.insert(rng.randrange(len(b)), rng.randrange(256))
        out.append((bytes(b), kind))
    for _ in range(n // 6):
        out.append((bytes(rng.randrange(256) for _ in range(rng.randint(0, 40))), 'random'))
        toks = [b'd', b'l', b'e', b'i', b'1:', b'0:', b'4:info', b'3', b':', b'-', b'0', b'x', b'i1e', b'5:abcde']
        out.append((b''.join(rng.choice(toks) for _ in range(rng.randint(1, 14))), 'tokens'))
    return out


def classify_exc(e):
    return sl.canon_exc_site(e)


def run_impl(x):
    res = {}
    for v in (True, False):
        t0 = time.process_time()
        try:
            t = torf.Torrent.read_stream(io.BytesIO(x), validate=v)
            out = ['ok']
            for op in ('validate', 'dump'):
                try:
                    r = getattr(t, op)()
                    out.append(('ok', r if op == 'dump' else None))
                except Exception as e:  # noqa
                    out.append(('err', classify_exc(e)))
            try:
                out.append(('ok', t.dump(validate=False)))
            except Exception as e:  # noqa
                out.append(('err', classify_exc(e)))
            res[v] = tuple(out)
        except Exception as e:  # noqa
            res[v] = ('err', classify_exc(e))
        res[('t', v)] = time.process_time() - t0
    return res


def oracle(x, res):
    for v in (True, False):
        r = res[v]
        if r[0] == 'err':
            if r[1][0] not in DOC_READ:
                yield 'read_stream-raises:' + ''.join(r[1]), f'read_stream(validate={v}) raised {r[1]}'
        else:
            _, val, dmp, dmp_nv = r
            if v and val[0] != 'ok':
                yield 'returned-with-validation-but-invalid', f'read_stream(validate=True) returned a torrent whose validate() raises {val}'
            for name, o in (('validate', val), ('dump', dmp), ('dump(validate=False)', dmp_nv)):
                if o[0] == 'err' and o[1] != ('MetainfoError',):
                    yield f'then-{name.split("(")[0]}-raises:' + ''.join(o[1]), f'{name}() on the returned torrent raised {o[1]}'
        if res[('t', v)] > 0.5 + len(x) / 2e5:
            yield 'slow', f'read_stream took {res[("t", v)]:.2f}s for {len(x)} bytes'


def gen_magnets(ck):
    rng = ck.rng
    H = '3bb9561e35b06175bb6d2c2330578dc83846cc5d'
    base = [f'magnet:?xt=urn:btih:{H}', f'magnet:?xt=urn:btih:{H}&dn=a+b&xl=5&tr=http%3A%2F%2Fa.b', 'magnet:?xt=urn:btih:' + 'A' * 32,
            'magnet://[::1?xt=urn:btih:' + H, 'magnet://[?xt=' + H, 'http://x?xt=' + H, '', 'magnet:', 'magnet:?', f'magnet:?xt={H}&xt={H}',
            f'magnet:?xt=urn:btih:{H}&xl=abc', f'magnet:?xt=urn:btih:{H}&xl=-1', f'magnet:?xt=urn:btih:{H}&xl=٣', f'magnet:?xt=urn:btih:{H}&tr=nourl',
            f'magnet:?xt=urn:btih:{H}&foo=1', f'magnet:?xt=urn:btih:{H}&x_y=1', f'magnet:?xt=urn:btih:{H}&xs=http://h:99999', f'magnet:?xt=urn:btih:{H}&kt=a+b',
            f'magnet:?xt=urn:btih:{H}&dn=a&dn=b', f'magnet:?xt=urn:btih:{H}&ws=http://[::1', f'magnet:?xt=urn:btih:{H}&as=http://a.b&xl=' + '9' * 5000,
            f'  magnet:?xt=urn:btih:{H}  ', f'magnet:?xt=urn:btih:{H}&xl=1_0', f'magnet:?xt=urn:btih:{H}&xl=1e3', f'magnet:?xt=urn:btih:{H}&xl= 7 ']
    out = list(base)
    alphabet = list('magnet:?xt=urnbih&dxlrsw%+#/[]@ 0123456789abcdefABCDEF_.') + ['٣', 'ſ', '\n', '\x00']
    for _ in range(400 if ck.tier == 'quick' else 20000):
        s = list(rng.choice(base))
        for _ in range(rng.randint(1, 4)):
            r = rng.random()
            if r < 0.4 and s:
                s[rng.randrange(len(s))] = rng.choice(alphabet)
            elif r < 0.7:
                s.insert(rng.randrange(len(s) + 1), rng.choice(alphabet))
            elif s:
                del s[rng.randrange(len(s))]
        out.append(''.join(s))
    return out


def run(ck, model_ok):
    ck.rule = ('torrent bytes: valid canonical torrents (25%), structure-aware mutations (truncate, bit flips, splice, huge/zero/odd length prefixes, '
               'duplicated spans, wrong creation date / private values, deep nesting 3..5000, byte insert/delete), random bytes and random token soups; '
               'read_stream with and without validation, then validate()/dump() on a returned torrent; oracle: only Bdecode/Metainfo/ReadError, a torrent '
               'returned with validation validates, time linear budget; magnet strings: grammar corpus + character mutations, only MagnetError/URLError; '
               'model compared on every byte input; non-trivial = distinct inputs that are not valid torrents')
    m = Model()
    pend = []
    for ci, (x, kind) in enumerate(gen_inputs(ck)):
        res = run_impl(x)
        ck.case(x, nontrivial=(kind != 'valid'))
        ck.count('input:' + kind)
        ck.count('outcome(validate):' + (res[True][0] if res[True][0] == 'ok' else res[True][1][0]))
        case = {'bytes_hex': x.hex() if len(x) <= 4000 else None, 'kind': kind, 'len': len(x),
                'gen': None if len(x) <= 4000 else 'see corpus entry with the same kind/len'}
        if len(x) > 4000:
            case['bytes_head_hex'] = x[:200].hex()
            case['bytes_hex'] = x.hex()
        viols = list(oracle(x, res))
        if viols and not model_ok:
            for key, what in viols:
                ck.fail('oracle', key, case, 'documented errors only', repr(res[True])[:200], what)
        if model_ok:
            pend.append((x, case, res, viols, m.add(['meta.read_then', True, x]), m.add(['meta.read_then', False, x])))
        if ci < 2:
            ck.sample({'kind': kind, 'len': len(x), 'validate=True': repr(res[True])[:100]})
    if model_ok:
        out = m.run()
        for x, case, res, viols, i1, i2 in pend:
            ck.ties += 1
            agree = True
            for v, idx in ((True, i1), (False, i2)):
                mr = out[idx]
                if mr[0] == 'err':
                    mm = ('err', sl.model_exn(mr[1]))
                else:
                    mm = ('ok', sl.model_res(mr[1], lambda _: None), sl.model_res(mr[2], atom_bytes), sl.model_res(mr[3], atom_bytes))
                r = res[v]
                if r[0] == 'err':
                    rr = ('err', r[1][:1] if len(r[1]) > 1 and not r[1][0] == 'ReadError' else r[1])
                else:
                    rr = ('ok',) + tuple((o[0], o[1][:1]) if o[0] == 'err' else o for o in r[1:])
                if mm == ('err', ('IOther',)):
                    ck.count('model:outside-the-model')      # e.g. a mapping where the model expects a sequence (info.files as a dict)
                    continue
                if mm[0] == 'ok' and rr[0] == 'ok' and len(mm) == len(rr) and ('err', ('IOther',)) in mm:
                    # the same inside a component (validation of a file whose path is a mapping): compare the other components
                    ck.count('model:component-outside-the-model')
                    keep = [i for i in range(len(mm)) if mm[i] != ('err', ('IOther',))]
                    mm, rr = tuple(mm[i] for i in keep), tuple(rr[i] for i in keep)
                # recursion depth is interpreter-state dependent: compare only the class
                if mm != rr and not (mm[0] == 'err' and rr[0] == 'err' and {mm[1][0], rr[1][0]} <= {'RecursionError', 'MetainfoError', 'BdecodeError'} and b'l' * 300 in x):
                    try:
                        import flatbencode
                        gap = ml.url_model_gap(flatbencode.decode(x))
                    except Exception:  # noqa
                        gap = False
                    if gap:
                        ck.count('model:url-outside-the-url-model')      # is_url is a parameter of the theorems
                        break
                    agree = False
                    ck.fail('tie', f'read_stream(validate={v})', case, repr(mm)[:300], repr(rr)[:300], 'model and implementation disagree')
                    break
            for key, what in viols:
                ck.fail('oracle', key if agree else 'new:' + key, case, 'documented errors only', repr(res[True])[:200], what)
    # magnets (oracle only here; the Magnet model is C13/C14's)
    from torf import Magnet
    for s in gen_magnets(ck):
        ck.case('m:' + s)
        try:
            Magnet.from_string(s)
            ck.count('magnet:ok')
        except Exception as e:  # noqa
            c = sl.canon_exc_site(e)
            ck.count('magnet:' + c[0])
            if c[0] not in ('MagnetError', 'URLError'):
                ck.fail('oracle', 'from_string-raises:' + ''.join(c), {'magnet': s}, 'MagnetError/URLError', repr(c), f'Magnet.from_string raised {c}')
    ck.notes += ['recursion-depth dependent outcomes (nesting between 300 and 1000) are compared by class only',
                 'allocation behaviour of huge length prefixes is measured through CPU time only (process_time: independent of machine load)']


def replay(rp):
    c = rp['case']
    if 'magnet' in c:
        from torf import Magnet
        try:
            Magnet.from_string(c['magnet'])
            return True, 'ok'
        except Exception as e:  # noqa
            k = sl.canon_exc_site(e)
            return k[0] in ('MagnetError', 'URLError'), repr(k)
    x = bytes.fromhex(c['bytes_hex'])
    res = run_impl(x)
    v = list(oracle(x, res))
    return not v, v or 'documented errors only'
