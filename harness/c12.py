"""C12 -- progress reports count every piece once and always finish."""
import pipecheck as pc


def run(ck, model_ok):
    ck.rule = ('as C03, always with a callback, reporting intervals 0 / 0.5 s / 5 s against a fake clock advanced by 0..1.2 s per reading, some cancelling callbacks, verify with '
               'bad files and corrupt pieces; oracle on the arguments of every callback invocation: the torrent itself, the true total, done within 1..total and never decreasing, '
               'repeated only to deliver errors for one piece, every value in turn for interval 0, last call done = total unless cancelled, no read/size error or hash mismatch '
               'suppressed by the interval; calls compared with the Coq model; non-trivial = distinct (scenario, seed)')
    pc.run_family(ck, model_ok, 'C12', [('progress', 800, 32000), ('faults', 200, 8000)])
    many_pieces(ck)


def many_pieces(ck):
    """Runs with many pieces and few hasher threads on real threads (oracle only): piece counts far above any queue size."""
    import os
    import pathlib
    import torf
    import streamlib as sl
    from common import Scratch
    rng = ck.rng
    with Scratch() as root:
        for ri in range(3 if ck.tier == 'quick' else 30):
            threads = (1, 2, 1)[ri % 3]
            npieces = rng.choice([900, 1100]) if threads == 1 else rng.choice([1700, 2100])
            L = rng.choice([2, 4])
            size = npieces * L - rng.choice([0, 1])
            mode = 'generate'       # verify() needs a valid (16 KiB) piece length: thousands of such pieces are too much data for a quick run
            case = {'many-pieces': True, 'pieces': npieces, 'threads': threads, 'L': L, 'size': size, 'mode': mode}
            ck.case(('many-pieces', npieces, threads, L, size, mode))
            d = os.path.join(root, 'm%d' % ri)
            os.makedirs(d)
            contents = sl.gen_content((size,))
            cp = sl.write_tree(d, contents, single=True)
            import hashlib
            hashes = [hashlib.sha1(contents[0][i:i + L]).digest() for i in range(0, size, L)]
            t = sl.make_torrent((size,), L, single=True, hashes=hashes if mode == 'verify' else None)
            t._path = pathlib.Path(cp)
            calls = []
            try:
                if mode == 'generate':
                    res = t.generate(threads=threads, callback=lambda tor, fp, done, total: calls.append((done, total)) and None, interval=0)
                else:
                    res = t.verify(cp, threads=threads, callback=lambda tor, fp, done, total, pi, ph, exc: calls.append((done, total)) and None, interval=0)
            except Exception as e:  # noqa
                res = ('raised', type(e).__name__)
            want = [(k, npieces) for k in range(1, npieces + 1)]
            if res is not True or calls != want:
                first = next((i for i, (a, b) in enumerate(zip(calls, want)) if a != b), min(len(calls), len(want)))
                ck.fail('oracle', 'many-pieces:done-counter', case, f'True and done = 1..{npieces} in turn', f'result {res!r}, {len(calls)} calls, first difference at call {first}: {calls[first:first + 3]}',
                        'with a zero interval the callback must see every value 1..total once and finish with done = total')


def replay(rp):
    if rp['case'].get('many-pieces'):
        return False, 're-run ./check C12 with the same seed (the run is regenerated from the seed)'
    rec, verdicts = pc.replay_case(rp['case'])
    bad = [v for v in verdicts if v[0] == 'C12']
    return not bad, repr(bad)[:600]
