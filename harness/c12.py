"""C12 -- progress reports count every piece once and always finish."""
import pipecheck as pc


def run(ck, model_ok):
    ck.rule = ('as C03, always with a callback, reporting intervals 0 / 0.5 s / 5 s against a fake clock advanced by 0..1.2 s per reading, some cancelling callbacks, verify with '
               'bad files and corrupt pieces; oracle on the arguments of every callback invocation: the torrent itself, the true total, done within 1..total and never decreasing, '
               'repeated only to deliver errors for one piece, every value in turn for interval 0, last call done = total unless cancelled, no read/size error or hash mismatch '
               'suppressed by the interval; calls compared with the Coq model; non-trivial = distinct (scenario, seed)')
    pc.run_family(ck, model_ok, 'C12', [('progress', 800, 32000), ('faults', 200, 8000)])


def replay(rp):
    rec, verdicts = pc.replay_case(rp['case'])
    bad = [v for v in verdicts if v[0] == 'C12']
    return not bad, repr(bad)[:600]
