"""Shared helpers for the metainfo properties (C05 C06 C07 C08 C17): Python value <-> model wire format,
metainfo generators/mutators, an independent strict bencode parser, structural soundness oracle."""
import copy
import datetime
import math

import torf
from torf import _utils as tutils

from common import atom_bytes

L16 = 16384

URL_POOL_GOOD = ['http://a.b/announce', 'udp://tracker.example.org:6969', 'https://x.y:8080/p?q=1', 'http://user@host:80/x',
                 'ftp://h/file', 'http://localhost:123', 'wss://t.io:443/a#frag']
URL_POOL_BAD = ['nourl', '://x', 'http://', 'http://h:notaport', 'http://h:99999', 'http:/a', 'x:', '', 'http//a.b', '1http://a.b',
                '//host:6969/announce', 'udp:tracker.example.org:6969', 'http:/tracker.example.org/announce']


# ------------------------------------------------------------------ wire ----
def to_wire(v):
    if v is None:
        return 'none'
    if isinstance(v, bool):
        return ['b', v]
    if isinstance(v, int):
        if abs(v) >= 10 ** 4000:
            a = abs(v)
            return ['ihex', v < 0, a.to_bytes((a.bit_length() + 7) // 8, 'big')]
        return ['i', v]
    if isinstance(v, float):
        if math.isnan(v):
            return ['fl', 'nan']
        if math.isinf(v):
            return ['fl', 'inf', v < 0]
        if v == int(v):
            return ['fl', 'int', int(v)]
        if v * 2 == int(v * 2):
            return ['fl', 'half', math.floor(v)]
        raise ValueError('float not representable in the model: %r' % v)
    if isinstance(v, str):
        return ['s', v.encode('utf-8')]
    if isinstance(v, bytes):
        return ['y', bytes(v)]
    if isinstance(v, bytearray):
        return ['l'] + [['i', x] for x in v]     # a mutable sequence of ints: behaves like a list for torf
    if isinstance(v, list):
        return ['l'] + [to_wire(x) for x in v]
    if isinstance(v, tuple):
        return ['t'] + [to_wire(x) for x in v]
    if isinstance(v, (set, frozenset)):
        return ['set'] + [to_wire(x) for x in v]
    if isinstance(v, dict):
        return ['d'] + [[to_wire(k), to_wire(x)] for k, x in v.items()]
    if isinstance(v, datetime.datetime):
        return ['dt', int(v.replace(tzinfo=datetime.timezone.utc).timestamp())]
    return 'other'


def canon(v):
    """Order-insensitive canonical form of a Python metainfo value (for comparing with the model)."""
    if v is None:
        return ('none',)
    if isinstance(v, bool):
        return ('b', v)
    if isinstance(v, int):
        if abs(v) >= 10 ** 4000:
            return ('i', 'huge', v < 0, hex(abs(v))[-40:], v.bit_length())
        return ('i', v)
    if isinstance(v, float):
        return ('fl', repr(v))
    if isinstance(v, str):
        return ('s', v.encode('utf-8', 'surrogatepass'))
    if isinstance(v, (bytes, bytearray)):
        return ('y', bytes(v))
    if isinstance(v, list):
        return ('l', tuple(canon(x) for x in v))
    if isinstance(v, tuple):
        return ('t', tuple(canon(x) for x in v))
    if isinstance(v, dict):
        return ('d', tuple(sorted((canon(k), canon(x)) for k, x in v.items())))
    if isinstance(v, datetime.datetime):
        return ('dt', int(v.replace(tzinfo=datetime.timezone.utc).timestamp()))
    return ('other', type(v).__name__)


def canon_wire(x):
    """parsed model sexp of a pyval -> same canonical form as canon()"""
    if x == 'none':
        return ('none',)
    if x == 'other':
        return ('other', '?')
    tag = x[0]
    if tag == 'b':
        return ('b', x[1] == 't')
    if tag == 'i':
        return ('i', int(x[1]))
    if tag == 'dt':
        return ('dt', int(x[1]))
    if tag == 's':
        return ('s', atom_bytes(x[1]))
    if tag == 'y':
        return ('y', atom_bytes(x[1]))
    if tag == 'l':
        return ('l', tuple(canon_wire(y) for y in x[1:]))
    if tag == 't':
        return ('t', tuple(canon_wire(y) for y in x[1:]))
    if tag == 'd':
        return ('d', tuple(sorted((canon_wire(k), canon_wire(v)) for k, v in x[1:])))
    if tag == 'fl':
        return ('fl', ' '.join(x[1:]))
    raise ValueError(x)


# ------------------------------------------------------- strict bencode ----
class NotCanonical(Exception):
    pass


def strict_bdecode(b):
    """Independent strict (canonical) bencode parser: returns (value, spans) where spans maps
    top-level dict keys to (start, end) of their value.  Raises NotCanonical."""
    pos = 0
    n = len(b)

    def parse_int():
        nonlocal pos
        e = b.index(b'e', pos)
        tok = b[pos:e]
        if not tok or tok == b'-' or (tok[0:1] == b'0' and len(tok) > 1) or tok[0:2] == b'-0' or not (tok.lstrip(b'-').isdigit() and tok.count(b'-') <= 1 and (b'-' not in tok[1:])):
            raise NotCanonical('int %r' % tok)
        pos = e + 1
        return int(tok)

    def parse_str():
        nonlocal pos
        c = b.index(b':', pos)
        tok = b[pos:c]
        if not tok.isdigit() or (tok[0:1] == b'0' and len(tok) > 1):
            raise NotCanonical('len %r' % tok)
        ln = int(tok)
        if c + 1 + ln > n:
            raise NotCanonical('short string')
        pos = c + 1 + ln
        return b[c + 1:c + 1 + ln]

    def parse(top=False):
        nonlocal pos
        if pos >= n:
            raise NotCanonical('eof')
        ch = b[pos:pos + 1]
        if ch == b'i':
            pos += 1
            return parse_int()
        if ch == b'l':
            pos += 1
            out = []
            while b[pos:pos + 1] != b'e':
                out.append(parse())
            pos += 1
            return out
        if ch == b'd':
            pos += 1
            out = {}
            prev = None
            spans = {}
            while b[pos:pos + 1] != b'e':
                if pos >= n:
                    raise NotCanonical('eof in dict')
                k = parse_str()
                if prev is not None and not prev < k:
                    raise NotCanonical('keys not strictly sorted: %r %r' % (prev, k))
                prev = k
                s0 = pos
                out[k] = parse()
                spans[k] = (s0, pos)
            pos += 1
            if top:
                return out, spans
            return out
        if ch.isdigit():
            return parse_str()
        raise NotCanonical('token %r' % ch)
    try:
        val = parse(top=True)
    except (ValueError, IndexError) as e:
        raise NotCanonical(str(e))
    if pos != n:
        raise NotCanonical('trailing data')
    if isinstance(val, tuple):
        return val
    return val, {}


def oracle_is_url(s):
    """Independent of torf: scheme and network location both present, port (if any) numeric and <= 65535."""
    import urllib.parse
    try:
        u = urllib.parse.urlparse(s)
        u.port
    except ValueError:
        return False
    return bool(u.scheme) and bool(u.netloc)


def sound_export(dumped):
    """Structural soundness (property C07) of dumped bytes; returns None or a reason string."""
    try:
        top, spans = strict_bdecode(dumped)
    except NotCanonical as e:
        return 'not-canonical:' + str(e)[:40]
    if not isinstance(top, dict):
        return 'top-not-dict'
    info = top.get(b'info')
    if not isinstance(info, dict):
        return 'info-not-dict'
    if not isinstance(info.get(b'name'), bytes):
        return 'name'
    pl = info.get(b'piece length')
    if not isinstance(pl, int) or pl <= 0 or pl % L16:
        return 'piece-length'
    pieces = info.get(b'pieces')
    if not isinstance(pieces, bytes) or not pieces:
        return 'pieces'
    has_len, has_files = b'length' in info, b'files' in info
    if has_len == has_files:
        return 'length-xor-files'
    if has_len:
        if not isinstance(info[b'length'], int) or info[b'length'] < 0:
            return 'length'
        size = info[b'length']
    else:
        files = info[b'files']
        if not isinstance(files, list):
            return 'files'
        size = 0
        for f in files:
            if not isinstance(f, dict) or not isinstance(f.get(b'length'), int) or f[b'length'] < 0:
                return 'file-length'
            pth = f.get(b'path')
            if pth is None:
                return 'file-path'
            if isinstance(pth, list):
                if not all(isinstance(c, bytes) for c in pth):
                    return 'file-path'
            elif pth:
                # a non-list path is only tolerated when it is empty (no component that could be a non-string)
                return 'file-path'
            size += f[b'length']
    if len(pieces) != 20 * (-(-size // pl)):
        return 'piece-count'
    urls = []
    if b'announce' in top:
        urls.append(top[b'announce'])
    al = top.get(b'announce-list', [])
    if isinstance(al, list):
        for tier in al:
            if isinstance(tier, list):
                urls += [u for u in tier if isinstance(u, bytes)]
    for u in urls:
        if not isinstance(u, bytes):
            return 'announce-url-type'
        try:
            if not oracle_is_url(u.decode('utf-8')):
                return 'announce-url'
        except UnicodeDecodeError:
            return 'announce-url'
    return None


# ----------------------------------------------------------- generators ----
def rand_text(rng):
    return rng.choice(['a', 'name', 'päth', 'x y', '日本', '\U0001F600z', 'ÿ', 'z' * 3, 'file.txt', 'A', '￿', 'Zed', '',
                       '\ufeffbom', '\ufeff\ufeffbb', 'a\u0301', '\u00e5', 'A\u030a', ' lead', 'trail ', 'tab\t', 'nl\n', '\x00nul', '%41', 'ǅ'])


def rand_val(rng, depth=0):
    r = rng.random()
    if depth > 3:
        r = r * 0.6
    if r < 0.12:
        return rng.choice([0, 1, -1, 7, 16384, 2 ** 40, -2 ** 70, 10 ** 30])
    if r < 0.24:
        return rand_text(rng)
    if r < 0.34:
        return rng.choice([b'', b'abc', b'\xff\xfe', b'\xc3\xa4', b'\xed\xa0\x80', bytes(range(20)), b'\xef\xbb\xbfbom', b'\xff\xfeu\x00'])
    if r < 0.40:
        return rng.choice([True, False])
    if r < 0.45:
        return rng.choice([1.0, 2.5, -3.5, 0.0, float(2 ** 30)])
    if r < 0.48:
        return None
    if r < 0.51:
        return datetime.datetime(2020, 1, 2, 3, 4, 5)
    if r < 0.53:
        return rng.choice([float('inf'), float('nan'), float('-inf')])
    if r < 0.56:
        return object()
    if r < 0.72:
        return [rand_val(rng, depth + 1) for _ in range(rng.randint(0, 3))]
    if r < 0.78:
        return tuple(rand_val(rng, depth + 1) for _ in range(rng.randint(0, 3)))
    if r < 0.81:
        return rng.choice([set(), {5}, frozenset({'x'})])
    return {rand_text(rng): rand_val(rng, depth + 1) for _ in range(rng.randint(0, 3))}


def rand_safe_val(rng, depth=0):
    """values that the converter accepts (for extra fields of valid torrents)"""
    r = rng.random()
    if depth > 3:
        r *= 0.55
    if r < 0.2:
        return rng.choice([0, 1, -1, 7, 2 ** 40, -2 ** 70, 10 ** 30])
    if r < 0.4:
        return rand_text(rng)
    if r < 0.55:
        return rng.choice([b'', b'abc', b'\xff\xfe', b'\xed\xa0\x80', bytes(range(20)), b'\xef\xbb\xbfbom', b'\xef\xbb\xbf'])
    if r < 0.75:
        return [rand_safe_val(rng, depth + 1) for _ in range(rng.randint(0, 3))]
    return {rand_text(rng): rand_safe_val(rng, depth + 1) for _ in range(rng.randint(0, 3))}


def valid_meta(rng, extras=True, exotic_types=False):
    L = L16 * rng.choice([1, 1, 2, 3, 4])
    info = {'name': rng.choice(['T', 'näme', 'x.iso', b'\xffraw'])}
    info['piece length'] = L
    if rng.random() < 0.4:
        length = rng.choice([1, L - 1, L, L + 1, 3 * L, 5 * L + 7])
        info['length'] = length
        size = length
        if rng.random() < 0.2:
            info['md5sum'] = rng.choice(['0123456789abcdefABCDEF0123456789', 'd41d8cd98f00b204e9800998ecf8427e'])
    else:
        files = []
        for i in range(rng.randint(1, 4)):
            ln = rng.choice([0, 1, L - 1, L, L + 1, 2 * L + 3])
            f = {'length': ln, 'path': [rng.choice(['a', 'dir', 'ä']), 'f%d' % i][rng.randint(0, 1):]}
            if rng.random() < 0.15:
                f['md5sum'] = '0123456789abcdefABCDEF0123456789'
            if extras and rng.random() < 0.15:
                f['attr'] = rand_safe_val(rng)
            files.append(f)
        if sum(f['length'] for f in files) == 0:
            files[0]['length'] = 5
        info['files'] = files
        size = sum(f['length'] for f in files)
    info['pieces'] = bytes((i * 31 + 7) % 256 for i in range(20 * (-(-size // L))))
    if rng.random() < 0.3:
        info['private'] = rng.choice([True, False]) if not exotic_types else rng.choice([True, False, 1, 0, 2, -1, 255])
    if rng.random() < 0.2:
        info['source'] = 'src'
    md = {'info': info}
    if rng.random() < 0.5:
        md['announce'] = rng.choice(URL_POOL_GOOD)
    if rng.random() < 0.4:
        md['announce-list'] = [[rng.choice(URL_POOL_GOOD) for _ in range(rng.randint(1, 2))] for _ in range(rng.randint(1, 3))]
    if rng.random() < 0.3:
        md['creation date'] = datetime.datetime.fromtimestamp(rng.choice([0, 1, 1600000000, 253402300799, -1000, 86400 * 365]))
    if rng.random() < 0.3:
        md['comment'] = rand_text(rng)
    if rng.random() < 0.2:
        md['url-list'] = [rng.choice(URL_POOL_GOOD)]
    if rng.random() < 0.3:
        md['created by'] = 'torf test'
    if extras:
        for _ in range(rng.choice([0, 0, 1, 2])):
            md[rng.choice(['x', 'ä-key', 'zz', 'azureus_properties', '\U0001F600k', '～'])] = rand_safe_val(rng)
        for _ in range(rng.choice([0, 0, 1])):
            info[rng.choice(['x-info', 'ünfo', 'zz', 'attr'])] = rand_safe_val(rng)
    return md


def all_paths(v, prefix=()):
    out = [prefix]
    if isinstance(v, dict):
        for k, x in v.items():
            out += all_paths(x, prefix + (k,))
    elif isinstance(v, (list, tuple)):
        for i, x in enumerate(v):
            out += all_paths(x, prefix + (i,))
    return out


def get_at(v, path):
    for k in path:
        v = v[k]
    return v


def set_at(root, path, val):
    if not path:
        return val
    parent = get_at(root, path[:-1])
    if isinstance(parent, tuple):
        lst = list(parent)
        lst[path[-1]] = val
        return set_at(root, path[:-1], tuple(lst))
    parent[path[-1]] = val
    return root


def del_at(root, path):
    parent = get_at(root, path[:-1])
    if isinstance(parent, tuple):
        return root
    del parent[path[-1]]
    return root


def mutate(rng, md):
    """One structure-aware mutation; returns (new md, description)."""
    md = copy.deepcopy(md)
    paths = [p for p in all_paths(md) if p]
    r = rng.random()
    info = md.get('info') if isinstance(md.get('info'), dict) else None
    if r < 0.2 and paths:
        p = rng.choice(paths)
        return del_at(md, p), 'delete %r' % (p,)
    if r < 0.5 and paths:
        p = rng.choice(paths)
        return set_at(md, p, rand_val(rng)), 'retype %r' % (p,)
    if r < 0.6 and paths:
        ints = [p for p in paths if type(get_at(md, p)) is int]
        if ints:
            p = rng.choice(ints)
            v = get_at(md, p)
            fv = float(v) if abs(v) < 2 ** 1000 else v        # float() of a huge int raises OverflowError
            nv = rng.choice([-v, v + 1, v - 1, v * 2 ** 60, 0, fv, (v + 0.5) if abs(v) < 2 ** 1000 else v, -v - 1, v + 16384, 10 ** 400 if rng.random() < 0.3 else v * 3, 10 ** 5000 if rng.random() < 0.1 else 2 ** 53 + 1])
            return set_at(md, p, nv), 'int %r -> %s' % (p, ('%r' % nv)[:20] if not isinstance(nv, int) or abs(nv) < 10 ** 30 else 'huge int')
    if r < 0.68 and info is not None:
        if 'files' in info and isinstance(info['files'], list) and len(info['files']) >= 2 and all(isinstance(f, dict) and isinstance(f.get('length'), int) for f in info['files']):
            d = rng.choice([5, 16384, info['files'][0]['length'] + 3])
            info['files'][0]['length'] -= d
            info['files'][1]['length'] += d
            return md, 'compensating lengths'
    if r < 0.74 and info is not None:
        if 'files' in info:
            info['length'] = rng.choice([5, 16384])
        else:
            info['files'] = [{'length': 3, 'path': ['x']}]
        return md, 'both length and files'
    if r < 0.8 and info is not None and isinstance(info.get('pieces'), bytes):
        info['pieces'] = rng.choice([b'', info['pieces'] + b'x', info['pieces'] + bytes(20), info['pieces'][:-20], bytearray(info['pieces'])])
        return md, 'pieces length/type'
    if r < 0.9:
        dicts = [p for p in all_paths(md) if isinstance(get_at(md, p), dict)]
        p = rng.choice(dicts)
        d = get_at(md, p)
        k = rng.choice([5, b'bytes-key', None, (1, 2), 1.5, True])
        d[k] = rand_val(rng)
        return md, 'non-str key %r at %r' % (k, p)
    if md.get('announce-list') and isinstance(md['announce-list'], list):
        md['announce-list'][0] = rng.choice([[rng.choice(URL_POOL_BAD)], 'http://a.b', [5], (URL_POOL_GOOD[0],), []])
        return md, 'announce-list tier'
    md['announce'] = rng.choice(URL_POOL_BAD + [5, b'http://a.b'])
    return md, 'announce'


def modelable(v):
    """Whether the model's pyval can represent v faithfully (see Validate.v scope note)."""
    if isinstance(v, float):
        return math.isnan(v) or math.isinf(v) or (v * 2 == int(v * 2) and abs(v) < 2 ** 52)
    if isinstance(v, (set, frozenset)):
        return len(v) <= 1 and all(modelable(x) for x in v)
    if isinstance(v, (list, tuple)):
        return all(modelable(x) for x in v)
    if isinstance(v, dict):
        if len([k for k in v if isinstance(k, tuple) or k is None]) >= 1 and len(v) >= 2:
            return False
        return all(modelable(k) and modelable(x) for k, x in v.items())
    if isinstance(v, str):
        try:
            v.encode('utf-8')
        except UnicodeEncodeError:
            return False
    if isinstance(v, int) and not isinstance(v, bool) and abs(v) >= 2 ** 53:
        return True
    return True


def make_torrent(md):
    t = torf.Torrent()
    t._metainfo = copy.deepcopy(md)
    return t


def exc_name(e):
    return type(e).__name__


def safe_repr(v):
    """eval()-able representation (huge ints and special objects included)."""
    if isinstance(v, bool) or v is None:
        return repr(v)
    if isinstance(v, int):
        if abs(v) >= 10 ** 4000:
            return "%sint('%s', 16)" % ('-' if v < 0 else '', hex(abs(v))[2:])
        return repr(v)
    if isinstance(v, float):
        if math.isnan(v):
            return "float('nan')"
        if math.isinf(v):
            return "float('-inf')" if v < 0 else "float('inf')"
        return repr(v)
    if isinstance(v, (str, bytes)):
        return repr(v)
    if isinstance(v, bytearray):
        return 'bytearray(%r)' % bytes(v)
    if isinstance(v, list):
        return '[' + ', '.join(safe_repr(x) for x in v) + ']'
    if isinstance(v, tuple):
        return '(' + ', '.join(safe_repr(x) for x in v) + (',)' if len(v) == 1 else ')')
    if isinstance(v, frozenset):
        return 'frozenset([' + ', '.join(safe_repr(x) for x in v) + '])'
    if isinstance(v, set):
        return 'set([' + ', '.join(safe_repr(x) for x in v) + '])'
    if isinstance(v, dict):
        return '{' + ', '.join(safe_repr(k) + ': ' + safe_repr(x) for k, x in v.items()) + '}'
    if isinstance(v, datetime.datetime):
        return 'datetime.datetime(%d, %d, %d, %d, %d, %d)' % (v.year, v.month, v.day, v.hour, v.minute, v.second)
    return 'object()'


def eval_repr(s):
    return eval(s, {'datetime': datetime, 'float': float, 'int': int, 'object': object, 'set': set, 'frozenset': frozenset, 'bytearray': bytearray})  # noqa


def url_model_gap(md):
    """True if the metainfo holds an announce URL on which the model's URL test (a parameter of the theorems,
    modelled-not-verified) and torf's is_url disagree: such a case is outside the model."""
    import torf._utils as tu
    from common import Model
    cands = []

    def key(d, k):
        if not isinstance(d, dict):
            return None
        return d.get(k, d.get(k.encode() if isinstance(k, str) else k))
    a = key(md, 'announce')
    if isinstance(a, (str, bytes, bytearray)):
        cands.append(a)
    al = key(md, 'announce-list')
    if isinstance(al, (list, tuple)):
        for tier in al:
            if isinstance(tier, (list, tuple)):
                cands += [u for u in tier if isinstance(u, (str, bytes, bytearray))]
    m = Model()
    pend = []
    for u in cands[:50]:
        try:
            s_ = u if isinstance(u, str) else bytes(u).decode('utf-8')
        except UnicodeDecodeError:
            continue
        try:
            real = tu.is_url(s_)
        except Exception:  # noqa
            real = None
        pend.append((real, m.add(['meta.is_url', s_.encode('utf-8')])))
    if not pend:
        return False
    out = m.run()
    return any(real is not None and (out[i] == 't') != real for real, i in pend)
