"""C05 -- metainfo survives a dump/read round trip byte for byte."""
import datetime
import hashlib
import io

import torf

import metalib as ml
import streamlib as sl
from c08 import benc
from common import Model, atom_bytes

TS = [0, 1, -86400, 1513440897, 253402300799, -62135510400, 86400 * 365]


def gen_docs(ck):
    """canonical bencoded, valid torrents (UTF-8 keys, private in {0,1}, representable creation date)"""
    quick = ck.tier == 'quick'
    rng = ck.rng
    out = []
    for i in range(700 if quick else 30000):
        md = ml.valid_meta(rng)
        if 'creation date' in md or rng.random() < 0.4:
            md['creation date'] = datetime.datetime.fromtimestamp(rng.choice(TS), datetime.timezone.utc).replace(tzinfo=None)
        if i % 7 == 0:
            md['creation date'] = datetime.datetime.fromtimestamp(0, datetime.timezone.utc).replace(tzinfo=None)
        if rng.random() < 0.3:
            md['z-nested'] = {'a': [1, [2, [b'\xff', {'k': 10 ** 60, 'é': 'ü'}]], {}], 'b': '', 'c': [], '￿': 1, '\U0001F600': 2, 'Z': -5}
        if rng.random() < 0.25:
            # the names of the two converted fields used elsewhere: only metainfo['creation date'] and info['private'] are special
            key = rng.choice(['private', 'creation date'])
            val = rng.choice([2, 3, 0, 1, -1, 1600000000, 10 ** 17, b'x', [1]])
            where = rng.choice(['top', 'top-dict', 'info', 'file', 'list'])
            if where == 'top':
                md['private'] = val
            elif where == 'top-dict':
                md['x-uploader'] = {'id': 4711, key: val}
            elif where == 'info':
                md['info']['creation date'] = val
            elif where == 'file' and 'files' in md['info']:
                md['info']['files'][0]['x-attr'] = {key: val}
            else:
                md['z-list'] = [{key: val}, [{key: val}]]
        if rng.random() < 0.15:
            # a declared legacy encoding: byte strings that are not UTF-8 stay byte strings whatever it says
            md['encoding'] = rng.choice(['latin-1', 'GBK', 'Shift_JIS', 'cp1252', 'UTF-8'])
            where = rng.choice(['comment', 'name', 'extra'])
            raw = rng.choice([b'\xd6\xd0\xce\xc4', b'\x93\xfa\x96\x7b', b'caf\xe9', b'\xffraw'])
            if where == 'comment':
                md['comment'] = raw
            elif where == 'name':
                md['info']['name'] = raw
            else:
                md['x-legacy'] = {'title': raw, 'list': [raw, 'utf8 ok']}
        out.append(md)
    return out


def info_span(x):
    top, spans = ml.strict_bdecode(x)
    s, e = spans[b'info']
    return x[s:e]


def run(ck, model_ok):
    ck.rule = ('canonical bencoded valid torrents (single/multi-file; extra keys at top level, in info and in file entries; nested lists/dicts up to depth 5; '
               'byte strings valid and invalid as UTF-8; multi-byte keys; integers up to 10^60; creation dates incl. 0, negative and the datetime range ends; '
               'private 0/1; the key names "private" and "creation date" also at places where they are not special): (a) read_stream(x).dump() == x and the infohash equals sha1 of the info span of x; (b) read_stream(t.dump()) == t for the '
               'torrent t read in (a) (normal form), same infohash; model compared on (a); non-trivial = distinct documents')
    m = Model()
    pend = []
    for ci, md in enumerate(gen_docs(ck)):
        x = benc(md)
        ck.case(x)
        ck.count('shape:' + ('single' if 'length' in md['info'] else 'multi'))
        if 'creation date' in md:
            ck.count('has-creation-date')
        case = {'bytes_hex': x.hex()}
        try:
            t = torf.Torrent.read_stream(io.BytesIO(x))
            y = t.dump()
            ih = t.infohash
        except Exception as e:  # noqa
            ck.fail('oracle', 'read-or-dump-raises:' + ''.join(sl.canon_exc_site(e)), case, 'round trip', repr(e)[:200], 'reading/dumping a canonical valid torrent raised')
            continue
        if y != x:
            ck.fail('oracle', 'read-dump-not-identity', case, 'dump(read(x)) == x', y.hex()[:400], 'read_stream(x).dump() differs from x')
        if ih != hashlib.sha1(info_span(x)).hexdigest():
            ck.fail('oracle', 'infohash-changed-by-read', case, hashlib.sha1(info_span(x)).hexdigest(), ih, 'infohash after reading differs from sha1 of the info bytes')
        try:
            t2 = torf.Torrent.read_stream(io.BytesIO(y))
            if not (t2 == t):
                ck.fail('oracle', 'dump-read-not-equal', case, 'equal torrents', ml.safe_repr(t2._metainfo)[:300], 'read_stream(t.dump()) != t')
            if t2.infohash != ih:
                ck.fail('oracle', 'infohash-unstable', case, ih, t2.infohash, 'infohash changes across dump/read')
        except Exception as e:  # noqa
            ck.fail('oracle', 'second-read-raises:' + ''.join(sl.canon_exc_site(e)), case, 'round trip', repr(e)[:200], 'reading dumped bytes raised')
        if model_ok:
            pend.append((case, x, y, m.add(['meta.read_then', True, x]), m.add(['meta.read_stream', True, x]), t))
        if ci < 2:
            ck.sample({'doc': x[:120].decode('latin-1'), 'len': len(x)})
    if model_ok:
        out = m.run()
        for case, x, y, i1, i2, t in pend:
            ck.ties += 1
            mr = out[i1]
            ok = mr[0] == 'ok' and sl.model_res(mr[2], atom_bytes) == ('ok', y)
            if not ok:
                ck.fail('tie', 'read_then_dump', case, repr(mr)[:300], y.hex()[:200], 'model and implementation disagree')
                continue
            ms = out[i2]
            if ms[0] != 'ok' or ml.canon_wire(ms[1]) != ml.canon(t._metainfo):
                ck.fail('tie', 'read_stream-metainfo', case, repr(ms)[:300], ml.safe_repr(t._metainfo)[:300], 'model and implementation disagree on the decoded metainfo')
    ck.notes += ['text is modelled by its UTF-8 bytes: code-point order of str keys == byte order of their UTF-8 encodings (property of UTF-8, trusted, exercised with non-BMP keys)',
                 'TZ=UTC']


def replay(rp):
    x = bytes.fromhex(rp['case']['bytes_hex'])
    t = torf.Torrent.read_stream(io.BytesIO(x))
    y = t.dump()
    t2 = torf.Torrent.read_stream(io.BytesIO(y))
    ok = y == x and t2 == t and t.infohash == hashlib.sha1(info_span(x)).hexdigest() == t2.infohash
    return ok, {'dump==x': y == x, 'reread==t': t2 == t}
