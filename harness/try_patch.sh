#!/bin/bash
# usage: try_patch.sh <patch> <Cxx> [tier]  -- apply a patch to /repo, run a check, undo.
set -u
git -C /repo apply "$1" || { echo "patch does not apply"; exit 9; }
/verif/check "$2" --tier "${3:-quick}" 2>&1 | grep -E "^(VIOLATION|KNOWN|NOTE|C[0-9]+ tier)" | cut -c1-400
git -C /repo checkout -- . 
