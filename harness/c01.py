"""C01 -- piece hashes are the SHA-1 of the concatenated content stream."""
import os
import shutil
import threading

import torf

import streamlib as sl
from common import Model, Scratch


def gen_layouts(ck):
    quick = ck.tier == 'quick'
    out = [((3, 6, 1), 4, False), ((1,) * 9, 4, False), ((4, 4, 4), 4, False), ((5,), 4, False), ((1, 1, 1, 12), 4, True),
           (tuple([3] * 14), 4, False), ((0, 5, 0, 3), 4, False), ((7, 0), 7, False)]
    for _ in range(700 if quick else 20000):
        L = ck.rng.choice([1, 2, 3, 4, 4, 5, 8, 16])
        nf = ck.rng.choice([1, 2, 3, 3, 4, 5, 6, 9, 12, 13, 25, 40])
        pool = [1, 1, 1, 2, L - 1 or 1, L, L, L + 1, 2 * L - 1, 2 * L, 2 * L + 1, 5 * L + 3, 0]
        sizes = tuple(ck.rng.choice(pool) for _ in range(nf))
        if sum(sizes) > 0:
            out.append((sizes, L, ck.rng.random() < 0.4))
    return out


def gen_generate_cases(ck):
    quick = ck.tier == 'quick'
    out = []
    for _ in range(60 if quick else 1500):
        L = ck.rng.choice([1, 2, 3, 4, 4, 8])
        nf = ck.rng.choice([1, 2, 3, 4, 6, 13, 25])
        pool = [1, 1, 2, L - 1 or 1, L, L + 1, 2 * L + 1, 7 * L + 2, 0]
        sizes = tuple(ck.rng.choice(pool) for _ in range(nf))
        if sum(sizes) > 0:
            out.append((sizes, L, ck.rng.random() < 0.4, ck.rng.choice([1, 1, 2, 3, 4, 8])))
    for _ in range(4 if quick else 40):   # real piece lengths
        L = ck.rng.choice([16384, 32768, 49152])
        nf = ck.rng.choice([1, 2, 3, 5])
        sizes = tuple(ck.rng.choice([L - 1, L, L + 1, 1, 2 * L + 5, 100]) for _ in range(nf))
        out.append((sizes, L, False, ck.rng.choice([1, 2, 4])))
    for _ in range(4 if quick else 40):   # files larger than any plausible read buffer, piece lengths that are not powers of two
        L = ck.rng.choice([49152, 81920, 98304, 16384 * 7, 16384, 2 ** 20 + 16384])
        big = ck.rng.choice([2 ** 20, 2 ** 21, 3 * 2 ** 19]) + ck.rng.choice([0, 1, 20000, L - 1, L + 1, 3 * L + 7])
        sizes = [ck.rng.choice([1, 100, L - 1, L + 1, 70000]) for _ in range(ck.rng.choice([0, 1, 2]))]
        sizes.insert(ck.rng.randint(0, len(sizes)), big)
        out.append((tuple(sizes), L, False, ck.rng.choice([1, 2, 4])))
    return out


def run_generate(root, sizes, L, nested, threads, reorder=False):
    contents = sl.gen_content(sizes)
    single = len(sizes) == 1 and not nested and sizes[0] > 0 and (sizes[0] % 2 == 1)
    cp = sl.write_tree(root, contents, nested=nested, single=single)
    t = torf.Torrent()
    info = {'name': sl.NAME, 'piece length': L}
    if single:
        info['length'] = sizes[0]
    else:
        info['files'] = [{'length': s, 'path': sl.relpath_of(i, nested)} for i, s in enumerate(sizes)]
    t._metainfo = {'info': info}
    import pathlib
    t._path = pathlib.Path(cp)
    before = threading.active_count()
    order = list(range(len(sizes)))
    if reorder and not single and len(sizes) >= 2:
        # object history: the torrent is hashed once, then the metainfo lists the same files in another order (as reuse() of a
        # torrent with another file order does), then it is hashed again: the stream is the files in the order NOW listed
        try:
            _ = [str(f) for f in t.files], t.size
            t.generate(threads=threads)
        except Exception:  # noqa
            pass
        order.reverse()
        info['files'].reverse()
        contents = [contents[i] for i in order]
    try:
        ret = t.generate(threads=threads)
        out = ('ok', ret, t.metainfo['info'].get('pieces'))
    except Exception as e:  # noqa
        out = ('err', sl.canon_exc(e), t.metainfo['info'].get('pieces'))
    stream = b''.join(contents)
    exp = b''.join(sl.sha1(c) for c in sl.chunks(stream, L))
    return out, exp, threading.active_count() - before


def run(ck, model_ok):
    ck.rule = ('(a) reader: random layouts (1..40 files incl. more than the handle cap, runs of 1-byte files, zero-length files, nested dirs, '
               'L in 1..16) read by the real iter_pieces() on intact content, compared with the chunks of the concatenation and with the model; '
               '(b) Torrent.generate(threads=1..8) on real trees (small L, real 16/32/48 KiB piece lengths, and files of 1..2.5 MiB with piece lengths that are not powers of two; every fifth case: hashed, file order in the metainfo reversed in place, hashed again) compared with '
               'sha1 of consecutive chunks, count = ceil(size/L); non-trivial = distinct (layout, L[, threads]) with >= 2 pieces')
    m = Model()
    pend = []
    lay = gen_layouts(ck)
    with Scratch() as root:
        for ci, (sizes, L, nested) in enumerate(lay):
            d = os.path.join(root, 'c')
            os.makedirs(d)
            contents = sl.gen_content(sizes)
            cp = sl.write_tree(d, contents, nested=nested)
            t = sl.make_torrent(sizes, L, nested=nested)
            canon = sl.Canon(t, content_path=cp)
            got = sl.run_history_impl(t, canon, cp, [('iter', -1)], cp)[0][0]
            shutil.rmtree(d)
            stream = b''.join(contents)
            exp = sl.chunks(stream, L)
            ck.case(('iter', sizes, L), nontrivial=len(exp) >= 2)
            ck.count('reader:files>11' if len(sizes) > 11 else 'reader:files<=11')
            case = {'kind': 'iter_pieces', 'sizes': list(sizes), 'L': L, 'nested': nested}
            if got[0] != 'ok' or [p for p, _, _ in got[1]] != exp or any(xs for _, _, xs in got[1]):
                ck.fail('oracle', 'reader-not-chunks', case, f'{len(exp)} chunks of the concatenation', repr(got)[:500],
                        'iter_pieces on intact content differs from the chunks of the concatenated files')
            if model_ok:
                pend.append((case, got, m.add(['stream.iter_pieces', sl.disk_sexp(dict(enumerate(contents))), sl.files_sexp(sizes), L])))
            if ci < 2:
                ck.sample(case)
        if model_ok:
            res = m.run()
            for case, got, idx in pend:
                mr = sl.model_res(res[idx], lambda v: [sl.model_item(x) for x in v])
                ck.ties += 1
                if mr != got:
                    ck.fail('tie', 'iter_pieces', case, repr(mr)[:500], repr(got)[:500], 'model and implementation disagree')
        for gi, (sizes, L, nested, threads) in enumerate(gen_generate_cases(ck)):
            d = os.path.join(root, 'g')
            os.makedirs(d)
            reorder = gi % 5 == 3
            out, exp, leaked = run_generate(d, sizes, L, nested, threads, reorder=reorder)
            shutil.rmtree(d)
            npieces = -(-sum(sizes) // L)
            ck.case(('gen', sizes, L, threads), nontrivial=npieces >= 2)
            ck.count('generate:threads=%d' % threads)
            case = {'kind': 'generate', 'sizes': list(sizes), 'L': L, 'nested': nested, 'threads': threads, 'reorder': reorder}
            if reorder:
                ck.count('generate:rehashed-after-file-order-change')
            if out[0] != 'ok' or out[1] is not True or out[2] != exp or len(out[2]) != 20 * npieces:
                ck.fail('oracle', 'generate-wrong-pieces', case, f'True + {npieces} digests', repr(out)[:300], 'generate() did not store the SHA-1 of consecutive chunks')
            if leaked > 0:
                ck.fail('oracle', 'generate-leaks-thread', case, 0, leaked, 'worker thread alive after generate() returned')
            if gi < 2:
                ck.sample(case)
    ck.notes += ['SHA-1 is real on the implementation side and abstract (any H) in the theorems',
                 'thread schedules here are whatever the host produces; controlled schedules are C03']


def replay(rp):
    c = rp['case']
    sizes, L, nested = tuple(c['sizes']), c['L'], c['nested']
    with Scratch() as root:
        if c['kind'] == 'generate':
            out, exp, leaked = run_generate(root, sizes, L, nested, c['threads'], reorder=c.get('reorder', False))
            ok = out[0] == 'ok' and out[1] is True and out[2] == exp and leaked <= 0
            return ok, repr(out)[:300]
        contents = sl.gen_content(sizes)
        cp = sl.write_tree(root, contents, nested=nested)
        t = sl.make_torrent(sizes, L, nested=nested)
        canon = sl.Canon(t, content_path=cp)
        got = sl.run_history_impl(t, canon, cp, [('iter', -1)], cp)[0][0]
        exp = sl.chunks(b''.join(contents), L)
        ok = got[0] == 'ok' and [p for p, _, _ in got[1]] == exp and not any(xs for _, _, xs in got[1])
        return ok, repr(got)[:300]
