"""C13 -- magnet links round-trip."""
import base64
import hashlib

import torf

import metalib as ml
import streamlib as sl
from common import Model, atom_bytes

HEX = '3bb9561e35b06175bb6d2c2330578dc83846cc5d'
URLS = ml.URL_POOL_GOOD + ['http://mirror/pub/My%20Files/', 'http://t.example/announce?passkey=ab%2Fcd%3D%3D&x=1', 'https://h/p#frag=1&2',
                           'http://h/a+b', 'http://h/ä/ö?q=ü', 'http://h/%', 'http://h/100%25', 'http://h/a;b=c', 'http://h/?a=1&b=2=3']
NAMES = ['plain', 'a b', 'a&b=c', '100%', 'x+y', '#hash?', 'ünïcödé', '日本語 テスト', '\U0001F600 smile', 'tab\there', 'nul\x00byte', 'a;b', '%41', '%zz',
         'semi;colon&amp;', ' lead', 'trail ', 'new\nline', '=', '&', '+', '~_.-', "quote'\"", 'a/b\\c', 'Cafe\u0301 del Mar', '\u1100\u1161\u11a8', '\u2126\u212a\u212b', '\u0958', 'a\u0323\u0307', '\ufb01le', '\u1e9b\u0323', 'I\u0307stanbul', '\u00df STRASSE', '\u200bzero width', '\ufeffbom', 'tr\u0131m', ' lead', 'trail ', '  ']
KEYWORDS = ['foo', 'bar', 'a&b', 'c=d', 'ü', 'x+y', '%25', 'k#', '日本']


def gen_magnets(ck):
    rng = ck.rng
    out = []
    n = 500 if ck.tier == 'quick' else 30000
    for i in range(n):
        digest = hashlib.sha1(str(rng.random()).encode()).digest()
        h = rng.choice([digest.hex(), digest.hex().upper(), base64.b32encode(digest).decode(), base64.b32encode(digest).decode().lower()])
        kw = {}
        if rng.random() < 0.7:
            kw['dn'] = rng.choice(NAMES) if rng.random() < 0.8 else ''.join(rng.choice(NAMES) for _ in range(3))
            if i % 41 == 0:
                kw['dn'] = ''
        if rng.random() < 0.5:
            kw['xl'] = rng.choice([1, 2, 142631, 10 ** 15, 2 ** 53 + 1, 10 ** 18 + 7, 2 ** 64 + 3])
        if rng.random() < 0.6:
            kw['tr'] = [rng.choice(URLS) for _ in range(rng.choice([1, 1, 2, 3, 20]))]
        if rng.random() < 0.3:
            kw['xs'] = rng.choice(URLS)
        if rng.random() < 0.3:
            kw['as_'] = rng.choice(URLS)
        if rng.random() < 0.4:
            kw['ws'] = [rng.choice(URLS) for _ in range(rng.choice([1, 2, 3]))]
        if rng.random() < 0.3:
            kw['kt'] = [rng.choice(KEYWORDS) for _ in range(rng.randint(1, 3))]
        if rng.random() < 0.3:
            for _ in range(rng.randint(1, 2)):
                kw['x_' + rng.choice(['pe', 'foo', 'k1'])] = rng.choice(NAMES[:12])
        out.append((('xt' if rng.random() < 0.5 else 'xt-urn'), h, kw))
    return out


def fields(m):
    return {'hash': m.infohash, 'dn': m.dn, 'xl': m.xl, 'tr': [str(u) for u in m.tr], 'xs': None if m.xs is None else str(m.xs),
            'as': None if m.as_ is None else str(m.as_), 'ws': [str(u) for u in m.ws], 'kt': list(m.kt or []), 'x': dict(m.x)}


def wire(f):
    def ob(v):
        return 'none' if v is None else v.encode('utf-8')
    return [[ord(c) for c in f['hash']], ob(f['dn']), 'none' if f['xl'] is None else f['xl'], [u.encode() for u in f['tr']], ob(f['xs']), ob(f['as']),
            [u.encode() for u in f['ws']], [k.encode() for k in f['kt']], [[k.encode(), v.encode()] for k, v in f['x'].items()]]


def from_wire(x):
    def ob(v):
        return None if v == 'none' else atom_bytes(v).decode('utf-8', 'replace')
    return {'hash': ''.join(chr(int(c)) for c in x[0]), 'dn': ob(x[1]), 'xl': None if x[2] == 'none' else int(x[2]),
            'tr': [atom_bytes(u).decode('utf-8', 'replace') for u in x[3]], 'xs': ob(x[4]), 'as': ob(x[5]),
            'ws': [atom_bytes(u).decode('utf-8', 'replace') for u in x[6]], 'kt': [atom_bytes(u).decode('utf-8', 'replace') for u in x[7]],
            'x': {atom_bytes(k).decode('utf-8', 'replace'): atom_bytes(v).decode('utf-8', 'replace') for k, v in x[8]}}


def classify(f, g):
    if f.get('dn') == '' and (g is None or g.get('dn') is None):
        return 'empty-display-name-lost'
    if g is None:
        return 'parse-of-rendered-raises'
    diff = [k for k in f if f[k] != g[k]]
    return 'field-changed:' + ','.join(diff)


def run(ck, model_ok):
    ck.rule = ('constructible magnets: hex/base32 hashes in both cases, names over reserved characters (& = + % # ? ; space tab NUL newline), non-BMP text, '
               '0..20 tracker URLs with queries, fragments and %-escapes, webseeds, exact/acceptable source, keywords without whitespace, x_ extension '
               'parameters; oracle: from_string(str(m)) has identical fields; torrent -> magnet -> string -> magnet -> torrent preserves infohash, name, size, '
               'trackers in order and webseeds; model compared on render and parse; non-trivial = distinct magnets')
    m = Model()
    pend = []
    for mi, (how, h, kw) in enumerate(gen_magnets(ck)):
        try:
            mg = torf.Magnet(xt=h if how == 'xt' else 'urn:btih:' + h, **kw)
        except Exception as e:  # noqa
            ck.fail('oracle', 'constructor-raises:' + type(e).__name__, {'hash': h, 'kw': repr(kw)}, 'object', repr(e)[:100], 'constructor rejected a constructible value')
            continue
        f = fields(mg)
        s = str(mg)
        ck.case(s)
        for k in kw:
            ck.count('field:' + (k if not k.startswith('x_') else 'x_'))
        case = {'hash': h, 'kw': repr(kw), 'rendered': s}
        try:
            g = fields(torf.Magnet.from_string(s))
        except Exception as e:  # noqa
            g = None
            err = sl.canon_exc(e)
        if g != f:
            ck.fail('oracle', classify(f, g), case, repr(f)[:300], repr(g)[:300] if g is not None else repr(err), 'rendering and parsing does not give back the same magnet')
        if mi % 4 == 1 and kw.get('dn') != '':      # (an empty display name is the known finding, reported above)
            # object history: the magnet has been rendered, then keywords / extension parameters are changed in place
            try:
                # one kind of in-place change per case (an assignment or a change of tr / ws would be a different history)
                if mi % 8 == 1 or mg.kt is None:
                    mg.x['pe'] = 'late:%d' % mi
                else:
                    mg.kt.append('late')
                f2 = fields(mg)
                s2 = str(mg)
                g2 = fields(torf.Magnet.from_string(s2))
                ck.count('history:edited-in-place-after-rendering')
                if g2 != f2:
                    ck.fail('oracle', 'stale-rendering:' + classify(f2, g2), dict(case, history='rendered, then x or kt changed in place', rendered2=s2),
                            repr(f2)[:300], repr(g2)[:300], 'after in-place changes the rendered URI does not carry the current fields')
            except torf.TorfError:
                pass
        if model_ok:
            pend.append((case, f, s, g, m.add(['magnet.render', wire(f)]), m.add(['magnet.parse', s.encode('utf-8')])))
        if mi < 3:
            ck.sample(case)
    # torrent -> magnet -> torrent
    for i in range(60 if ck.tier == 'quick' else 3000):
        md = ml.valid_meta(ck.rng, extras=False)
        md.pop('url-list', None)
        if ck.rng.random() < 0.5:
            md['url-list'] = [ck.rng.choice(URLS[:7]) for _ in range(ck.rng.randint(1, 2))]
        t = ml.make_torrent(md)
        ck.case(('torrent', ml.canon(md)))
        try:
            mg = torf.Magnet.from_string(str(t.magnet()))
            t2 = mg.torrent()
            a = (t.infohash, t.name, t.size, [str(u) for tier in t.trackers for u in tier], [str(u) for u in t.webseeds])
            b = (t2.infohash, t2.name, t2.size, [str(u) for tier in t2.trackers for u in tier], [str(u) for u in t2.webseeds])
            if a != b:
                ck.fail('oracle', 'torrent-magnet-torrent', {'md': ml.safe_repr(md)}, repr(a)[:300], repr(b)[:300], 'torrent -> magnet -> torrent changed a field')
        except Exception as e:  # noqa
            ck.fail('oracle', 'torrent-magnet-raises:' + type(e).__name__, {'md': ml.safe_repr(md)}, 'round trip', repr(e)[:200], 'torrent -> magnet -> torrent raised')
    if model_ok:
        out = m.run()
        for case, f, s, g, i1, i2 in pend:
            ck.ties += 1
            mr = atom_bytes(out[i1]).decode('utf-8', 'replace')
            if mr != s:
                ck.fail('tie', 'render', case, mr[:300], s[:300], 'model and implementation render differently')
                continue
            mp = out[i2]
            if mp[0] == 'ok':
                mg = from_wire(mp[1])
                if g is None or mg != g:
                    ck.fail('tie', 'parse', case, repr(mg)[:300], repr(g)[:300], 'model and implementation parse differently')
            elif g is not None:
                ck.fail('tie', 'parse', case, repr(mp)[:200], repr(g)[:300], 'model rejects what the implementation parses')
    ck.notes += ['strings with lone surrogates are outside the model (text = UTF-8 bytes)', 'URL validity in the model is the simple check validated on the URL pool']


def replay(rp):
    c = rp['case']
    if 'md' in c:
        t = ml.make_torrent(ml.eval_repr(c['md']))
        t2 = torf.Magnet.from_string(str(t.magnet())).torrent()
        ok = (t.infohash, t.name, t.size) == (t2.infohash, t2.name, t2.size)
        return ok, repr((t2.infohash, t2.name, t2.size))
    kw = eval(c['kw'])  # noqa
    mg = torf.Magnet(xt=c['hash'], **kw)
    try:
        g = fields(torf.Magnet.from_string(str(mg)))
    except Exception as e:  # noqa
        return False, repr(e)
    return g == fields(mg), repr(g)[:300]
