"""Run Torrent.generate() / Torrent.verify() under the cooperative scheduler (sched.py) with
fault injection; shared by C02 C03 C04 C12."""
import errno
import hashlib
import os
import threading as real_threading

import torf
import torf._generate as tgen
import torf._stream as tstream

import sched as S
import streamlib as sl


class Faults:
    """read faults: {global read-call ordinal: 'eio' | 'oom' | ('oom', n)}; open faults: {file ordinal: errno}"""

    def __init__(self, reads=None):
        self.reads = dict(reads or {})
        self.nread = 0
        self.oom_left = {}

    def on_read(self):
        k = self.nread
        f = self.reads.get(k)
        if f is None:
            self.nread += 1
            return
        if f == 'eio':
            self.nread += 1
            raise OSError(errno.EIO, 'Input/output error')
        # out of memory: ('oom', n) fails n times at this read call, 'oom' fails forever
        n = None if f == 'oom' else f[1]
        left = self.oom_left.get(k, n)
        if left is None:
            raise MemoryError()
        if left > 0:
            self.oom_left[k] = left - 1
            raise MemoryError()
        self.nread += 1


class FileProxy:
    def __init__(self, fh, faults):
        self._fh, self._faults = fh, faults

    def read(self, n=-1):
        self._faults.on_read()
        return self._fh.read(n)

    def __getattr__(self, a):
        return getattr(self._fh, a)


def run(mode, torrent, path, threads, chooser, callback=None, interval=0, faults=None, start_refusals=(), clock_step=None, max_steps=200000, record=True):
    """-> dict(result, leftover, verdict, trace, steps, blocked, real_threads_before/after)"""
    sch = S.Sched(chooser, max_steps=max_steps, start_refusals=start_refusals, clock_step=clock_step)
    sch.record = record
    undo = S.install(sch, tgen)
    saved_open = tstream.__dict__.get('open')
    if faults is not None:
        import builtins

        def fake_open(p, *a, **kw):
            return FileProxy(builtins.open(p, *a, **kw), faults)
        tstream.open = fake_open
    before = real_threading.active_count()
    events = []          # what the reader met, in order: ('piece', digest) / ('exc', exception) / ('none',) / ('oom',) / ('fail', exception)
    real_stream = tgen.TorrentFileStream
    real_oom = tgen.Reader._handle_oom

    class RecordingStream(real_stream):
        def iter_pieces(self, *a, **kw):
            it = real_stream.iter_pieces(self, *a, **kw)
            while True:
                try:
                    piece, filepath, exceptions = next(it)
                except StopIteration:
                    return
                except S.SchedAbort:
                    raise
                except BaseException as e:  # noqa
                    events.append(('fail', e))
                    raise
                if exceptions:
                    events.append(('exc', tuple(exceptions)))
                elif piece:
                    events.append(('piece', hashlib.sha1(piece).digest()))
                else:
                    events.append(('none',))
                yield piece, filepath, exceptions

    def recording_oom(self, exception):
        events.append(('oom',))
        return real_oom(self, exception)
    tgen.TorrentFileStream = RecordingStream
    tgen.Reader._handle_oom = recording_oom
    try:
        if mode == 'generate':
            fn = lambda: torrent.generate(threads=threads, callback=callback, interval=interval)  # noqa
        else:
            fn = lambda: torrent.verify(path, threads=threads, callback=callback, interval=interval)  # noqa
        res, leftover = sch.run(fn)
    finally:
        undo()
        tgen.TorrentFileStream = real_stream
        tgen.Reader._handle_oom = real_oom
        if faults is not None:
            if saved_open is None:
                del tstream.open
            else:
                tstream.open = saved_open
    return {'events': events, 'result': res, 'leftover': leftover, 'verdict': sch.verdict, 'trace': sch.trace, 'steps': sch.steps,
            'blocked': getattr(sch, 'blocked_state', None), 'threads': [(t.name, t.started, t.finished) for t in sch.threads],
            'real_after': real_threading.active_count() - before, 'now_ms': sch.now_ms, 'choices': getattr(chooser, 'choices', None)}


def build(root, sizes, L, single=False, for_verify=False, damage=None, disk_name=None):
    """content tree + torrent.  generate: Torrent(path) with the piece length overridden (small pieces allowed);
    verify: metainfo with hashes of the undamaged content, content written with `damage` applied."""
    contents = sl.gen_content(sizes)
    stream = b''.join(contents)
    ref = [hashlib.sha1(stream[i:i + L]).digest() for i in range(0, len(stream), L)]
    on_disk = list(contents)
    for i, d in (damage or {}).items():
        c = contents[i]
        on_disk[i] = None if d == 'missing' else c[:-1] if d == 'short' else c + b'x' if d == 'long' else \
            (c[:d[1]] + bytes([c[d[1]] ^ 0xFF]) + c[d[1] + 1:]) if isinstance(d, tuple) and d[0] == 'flip' else \
            (c[:d[1]] + c[d[2]:d[2] + L] + c[d[1] + L:]) if isinstance(d, tuple) and d[0] == 'twin' else c
    cp = sl.write_tree(root, on_disk, single=single, name=disk_name or sl.NAME)      # verify: the top-level name on disk may differ
    if for_verify:
        t = sl.make_torrent(sizes, L, single=single, hashes=ref)
    else:
        t = torf.Torrent(path=cp)
        t.metainfo['info']['piece length'] = L
    return t, cp, ref, on_disk


# ---- tie to the Coq model (coq/model/Pipeline.v) ----
EXC_ID = {'VerifyFileSizeError': 900, 'VerifyContentError': 1000, 'VerifyIsDirectoryError': 901, 'VerifyNotDirectoryError': 902, 'MemoryError': 903}


def exc_id(e):
    if e is None:
        return None
    if isinstance(e, torf.ReadError):
        return int(e.errno or 0) or 999
    if isinstance(e, torf.TorfError):
        return EXC_ID.get(type(e).__name__, 998)
    return -1          # the user callback's exception (or an internal error)


class Ids:
    def __init__(self):
        self.d = {}

    def __call__(self, digest):
        return self.d.setdefault(digest, len(self.d) + 1)


def model_request(r, total, threads, interval, plan, expected, refuse_names, names, ids):
    """r: result of run(); plan: 'absent' | 'quiet' | ['cancel', k] | ['raise', k]; expected: list of digests or None"""
    items = []
    for ev in r['events']:
        if ev[0] == 'piece':
            items.append(['piece', ids(ev[1])])
        elif ev[0] == 'exc':
            items.append(['exc', [exc_id(e) for e in ev[1]]])
        elif ev[0] == 'fail':
            items.append(['fail', exc_id(ev[1])])
        else:
            items.append([ev[0]])
    # the reader's own give-up (ReadError ENOMEM raised by _handle_oom) is part of the model, not an input
    if items and items[-1][0] == 'fail' and len(items) >= 2 and items[-2] == ['oom'] and items[-1][1] == 12:
        items.pop()
    tid = {n: i for i, n in enumerate(names)}
    sched = []
    for t, kind, alt, detail in r['trace']:
        if kind in ('exit',):
            continue
        sched.append([t, 'timeout' if alt == 'timeout' else 'go', detail if kind == 'clock' else 0])
    cfg = [items, total, threads, int(round(interval * 1000)), plan, 'none' if expected is None else [ids(h) for h in expected],
           [2 if n == 'janitor' else 1 if n == 'reader' else 2 + int(n[6:]) for n in refuse_names]]
    return ['pipe.run', cfg, sched]


def compare_with_model(r, out, calls, stored, ids):
    """-> None or (key, model view, implementation view)"""
    rest, result, left, hashes, mcalls, running, options, seen = out
    if int(rest) != 0:
        k = len([e for e in r['trace'] if e[1] != 'exit']) - int(rest)
        ops = [e for e in r['trace'] if e[1] != 'exit']
        return ('schedule-step-not-enabled-in-model', f'step {k}', repr(ops[k]))
    res = r['result']
    if res[0] == 'ok':
        ires = 'true' if res[1] is True else 'false'
    elif res[0] == 'err':
        e = res[1]
        ires = ['runtime', '1'] if isinstance(e, RuntimeError) and 'start new thread' in str(e) else ['raise', str(exc_id(e))]
    else:
        ires = 'aborted'
    if result != ires and r['verdict'] is None:
        return ('result', repr(result), repr(ires))
    if r['verdict'] is None:
        tid = {'reader': 1, 'janitor': 2}
        ileft = sorted(tid.get(n, 2 + int(n[6:]) if n.startswith('hasher') else -1) for n in r['leftover'])
        mleft = sorted(int(x) for x in left) if left != 'none' else None
        if mleft != ileft:
            return ('leftover-threads', repr(mleft), repr(ileft))
        if [(int(a), None if b == 'none' else int(b), None if c == 'none' else int(c)) for a, b, c in mcalls] != calls:
            return ('callback-calls', repr(mcalls)[:300], repr(calls)[:300])
        if stored is not None and [int(h) for h in hashes] != [ids(d) for d in stored]:
            return ('stored-hashes', repr(hashes)[:200], repr([ids(d) for d in stored])[:200])
        if running or options:
            return ('not-terminated-in-model', repr((running, options))[:200], 'terminated')
    return None
