"""C14 -- magnet fields accept exactly the valid values, whatever the object held before."""
import base64
import hashlib
import http.server
import urllib.parse
import threading

import torf

import metalib as ml
import streamlib as sl
from common import Model

HEX = '3bb9561e35b06175bb6d2c2330578dc83846cc5d'
B32 = base64.b32encode(bytes.fromhex(HEX)).decode()


def is_valid_hash(s):
    """the property's definition: exactly 40 hex or exactly 32 base32 characters, any letter case"""
    if len(s) == 40 and all(c in '0123456789abcdefABCDEF' for c in s):
        return True
    if len(s) == 32 and all(c in 'abcdefghijklmnopqrstuvwxyzABCDEFGHIJKLMNOPQRSTUVWXYZ234567' for c in s):
        return True
    return False


def hash_bytes(s):
    return bytes.fromhex(s) if len(s) == 40 else base64.b32decode(s.upper())


def gen_strings(ck):
    rng = ck.rng
    out = [HEX, HEX.upper(), B32, B32.lower(), HEX + 'zz', HEX + '\n', B32 + '\n', B32 + ' ', ' ' + HEX, HEX[:-1], HEX + '0', B32[:-1], B32 + 'A',
           'ſ' * 32, 'K' * 32, 'İ' * 32, 'ı' * 32, HEX[:-1] + 'g', B32[:-1] + '1', B32[:-1] + '8', '', 'urn:btih:', 'x' * 40, '0' * 40, 'A' * 32, '2' * 32,
           HEX[:20] + '\x00' + HEX[21:], HEX + '\x00', '٣' * 40, 'a' * 39 + 'ſ', HEX[:-1] + 'F', ('aB' * 16), '7' * 32, '1' * 32, '0' * 32, '8' * 40]
    alpha = list('0123456789abcdefABCDEFghzGHZ234567 \n') + ['ſ', 'K', 'é']
    for _ in range(250 if ck.tier == 'quick' else 20000):
        base = list(rng.choice([HEX, HEX.upper(), B32, B32.lower(), ''.join(rng.choice('0123456789abcdefABCDEF') for _ in range(40)),
                                ''.join(rng.choice('abcdefghijklmnopqrstuvwxyzABCDEFGHIJKLMNOPQRSTUVWXYZ234567') for _ in range(32))]))
        r = rng.random()
        if r < 0.4:
            pass
        elif r < 0.6:
            base[rng.randrange(len(base))] = rng.choice(alpha)
        elif r < 0.75:
            base.insert(rng.randrange(len(base) + 1), rng.choice(alpha))
        elif r < 0.9:
            del base[rng.randrange(len(base))]
        else:
            base += [rng.choice(alpha) for _ in range(rng.randint(1, 3))]
        out.append(''.join(base))
    res = []
    for s in out:
        res.append(s)
        if rng.random() < 0.5:
            res.append(rng.choice(['urn:btih:', 'URN:BTIH:', 'urn:btih', 'urn:btih::', 'xurn:btih:']) + s)
    return res


def run_setter(kind, prior, value, used=False):
    """kind: 'ctor' | 'xt' | 'infohash'; prior: None or a valid hash the object holds before;
    used: the object has already converted its previous hash (torrent()) before the assignment.
    -> ('ok', stored hash, infohash of torrent() on the same object) | ('err', exception, stored hash, infohash of torrent())"""
    def thash(m):
        try:
            return m.torrent().infohash
        except Exception as e:  # noqa
            return 'raises:' + type(e).__name__
    try:
        if kind == 'ctor':
            m = torf.Magnet(xt=value)
        else:
            m = torf.Magnet(xt=prior)
            if used:
                m.torrent()
            setattr(m, kind, value)
        return ('ok', m.infohash, thash(m))
    except Exception as e:  # noqa
        held, th = None, None
        if kind != 'ctor':
            held, th = m.infohash, thash(m)
        return ('err', sl.canon_exc(e), held, th)


class Handler(http.server.BaseHTTPRequestHandler):
    served = {}

    tracker_digest = None      # /file?info_hash=... is answered only for this 20-byte digest (None: for any)

    def do_GET(self):
        body = self.served.get(self.path.split('?')[0])
        if self.path.startswith('/file?') and self.tracker_digest is not None:
            q = urllib.parse.urlsplit(self.path).query
            asked = [urllib.parse.unquote_to_bytes(kv.split('=', 1)[1]) for kv in q.split('&') if kv.startswith('info_hash=')]
            if asked != [self.tracker_digest]:
                body = None        # a tracker knows torrents by their 20-byte digest
        if body is None:
            self.send_response(404)
            self.end_headers()
            return
        self.send_response(200)
        self.send_header('Content-Length', str(len(body)))
        self.end_headers()
        self.wfile.write(body)

    def log_message(self, *a):
        pass


def make_torrent_bytes(name):
    L = ml.L16
    t = torf.Torrent()
    t._metainfo = {'info': {'name': name, 'piece length': L, 'length': 5, 'pieces': hashlib.sha1(name.encode()).digest()}}
    return t.dump(), t.infohash


def fetch_scenarios(ck):
    """(notation, served kind, source kind)"""
    out = []
    for notation in ('hex-lower', 'hex-upper', 'b32-upper', 'b32-lower'):
        for served in ('matching', 'other', 'invalid'):
            for source in ('xs', 'as', 'ws', 'tr'):
                out.append((notation, served, source))
        # the magnet first held another hash, tried to fetch (mismatch), and was then corrected through xt / infohash
        out.append((notation, 'matching', 'xs', 'reassigned-xt'))
        out.append((notation, 'matching', 'xs', 'reassigned-infohash'))
        out.append((notation, 'other', 'xs', 'reassigned-xt'))
        # the magnet fetched matching metadata, then its hash is changed to another valid one: the old metadata must not be kept
        out.append((notation, 'other', 'xs', 'fetched-then-reassigned-xt'))
        out.append((notation, 'other', 'xs', 'fetched-then-reassigned-infohash'))
        out.append((notation, 'other', 'xs', 'fetched-then-reassigned-no-refetch'))
    return out


def run_fetch(port, notation, served, source, history='fresh'):
    # 'wanted-128': its info hash in hexadecimal has none of the digits 0, 1, 8, 9, so the string is well-formed base32 as well
    good, ih = make_torrent_bytes('wanted-128')
    assert not (set(ih) & set('0189')), ih
    Handler.tracker_digest = bytes.fromhex(ih)
    other, _ = make_torrent_bytes('other')
    h = {'hex-lower': ih, 'hex-upper': ih.upper(), 'b32-upper': base64.b32encode(bytes.fromhex(ih)).decode(),
         'b32-lower': base64.b32encode(bytes.fromhex(ih)).decode().lower()}[notation]
    body = {'matching': good, 'other': other, 'invalid': b'not a torrent'}[served]
    Handler.served = {'/t.torrent': body, '/file': body, '/ws/wanted.torrent': body, '/ws/wanted-128.torrent': body, '/ws.torrent': body}
    base = f'http://127.0.0.1:{port}'
    kw = {}
    if source == 'xs':
        kw['xs'] = base + '/t.torrent'
    elif source == 'as':
        kw['as_'] = base + '/t.torrent'
    elif source == 'ws':
        kw['ws'] = [base + '/ws']
    else:
        kw['tr'] = [base + '/announce']
    refetch = True
    if history == 'fresh':
        m = torf.Magnet(xt=h, **kw)
    elif history.startswith('fetched-then-reassigned'):
        # served = the torrent matching the first hash; afterwards the magnet holds another hash (in the same notation)
        Handler.served = {k: good for k in Handler.served}
        m = torf.Magnet(xt=h, **kw)
        m.get_info(timeout=5, callback=lambda e: None)
        ih = 'cd' * 20
        Handler.tracker_digest = bytes.fromhex(ih)
        h2 = {'hex-lower': ih, 'hex-upper': ih.upper(), 'b32-upper': base64.b32encode(bytes.fromhex(ih)).decode(),
              'b32-lower': base64.b32encode(bytes.fromhex(ih)).decode().lower()}[notation]
        if history.endswith('-xt'):
            m.xt = 'urn:btih:' + h2
        else:
            m.infohash = h2
        refetch = not history.endswith('no-refetch')
    else:
        m = torf.Magnet(xt='ab' * 20, **kw)
        try:
            m.get_info(timeout=5, callback=lambda e: None)
        except Exception:  # noqa
            pass
        m.torrent()
        if history == 'reassigned-xt':
            m.xt = 'urn:btih:' + h
        else:
            m.infohash = h
    errors = []
    try:
        ok = m.get_info(timeout=5, callback=errors.append) if refetch else False
        res = ('ok', ok)
    except Exception as e:  # noqa
        res = ('err', sl.canon_exc(e))
    try:
        t = m.torrent()
        adopted = bool(t.metainfo['info'].get('pieces'))
        tih = t.infohash
    except Exception as e:  # noqa
        adopted, tih = None, ('err', sl.canon_exc(e))
    return res, adopted, tih, ih


def run(ck, model_ok):
    ck.rule = ('hash/topic strings: valid hex/base32 in every case, valid + suffix/newline/NUL, wrong lengths, mixed alphabets, non-ASCII case-folding characters, '
               'random single-character edits, each with and without urn:btih: prefix variants, through the constructor and through both setters on an object '
               'that already holds a valid hash; oracle: accepted iff exactly 40 hex or 32 base32 characters, a rejected assignment raises MagnetError and '
               'keeps the previous value, torrent() reports the 40-digit lower-case hex of the same 20 bytes; metadata fetching from a loopback HTTP server: '
               '4 notations x matching/other/invalid torrent x xs/as/ws/tr; model compared on every setter call; non-trivial = distinct strings')
    m = Model()
    pend = []
    strs = gen_strings(ck)
    for si, s in enumerate(strs):
        bare = s[9:] if s[:9].lower() == 'urn:btih:' else None
        for kind in ('ctor', 'xt', 'infohash'):
            prior = None if kind == 'ctor' else (B32, HEX.upper(), B32.lower(), 'c' * 40)[si % 4]
            used = si % 2 == 1
            got = run_setter(kind, prior, s, used)
            ck.case((kind, s))
            want_ok = is_valid_hash(s) or (kind != 'infohash' and bare is not None and is_valid_hash(bare))
            ck.count(kind + (':accepted' if got[0] == 'ok' else ':rejected'))
            case = {'kind': kind, 'value': s, 'prior': prior, 'used': used}
            if got[0] == 'ok':
                if not want_ok:
                    ck.fail('oracle', 'invalid-hash-accepted', case, 'MagnetError', repr(got), 'an invalid hash/topic was accepted')
                else:
                    exp = s if is_valid_hash(s) else bare
                    if got[1] != exp:
                        ck.fail('oracle', 'stored-hash-differs', case, exp, repr(got), 'accepted but a different value is stored')
                    if got[2] != hash_bytes(exp).hex():
                        ck.fail('oracle', 'torrent-infohash-not-hex', case, hash_bytes(exp).hex(), repr(got[2]), 'torrent() infohash is not the lower-case hex of the hash the magnet holds now')
            else:
                if want_ok:
                    ck.fail('oracle', 'valid-hash-rejected', case, 'accepted', repr(got), 'a valid hash/topic was rejected')
                if got[1] != ('MagnetError',):
                    ck.fail('oracle', 'wrong-error:' + got[1][0], case, 'MagnetError', repr(got), 'rejection did not raise MagnetError')
                if kind != 'ctor' and got[2] != prior:
                    ck.fail('oracle', 'previous-value-lost', case, prior, repr(got[2]), 'a rejected assignment changed the stored hash')
                if kind != 'ctor' and got[3] != hash_bytes(prior).hex():
                    ck.fail('oracle', 'torrent-infohash-not-hex', case, hash_bytes(prior).hex(), repr(got[3]), 'after a rejected assignment torrent() does not carry the previous hash')
            if model_ok and kind != 'ctor':
                pend.append((case, got, m.add(['magnet.set', kind, [ord(c) for c in prior], [ord(c) for c in s]])))
            elif model_ok:
                pend.append((case, got, m.add(['magnet.set', 'xt', 'none', [ord(c) for c in s]])))
        if si < 3:
            ck.sample({'value': s})
    # xl and URL fields
    for v, ok in ((1, True), (0, False), (-5, False), ('7', True), ('abc', False), ('0', False), (10 ** 30, True)):
        ck.case(('xl', repr(v)))
        try:
            torf.Magnet(xt=HEX, xl=v)
            good = True
        except torf.MagnetError:
            good = False
        except Exception as e:  # noqa
            good = type(e).__name__
        if good != ok:
            ck.fail('oracle', 'xl-acceptance', {'xl': repr(v)}, ok, good, 'exact length acceptance')
    for field in ('xs', 'as_', 'tr', 'ws'):
        for u in ml.URL_POOL_BAD[:6]:
            ck.case((field, u))
            try:
                torf.Magnet(xt=HEX, **{field: u if field in ('xs', 'as_') else [u]})
                ck.fail('oracle', 'bad-url-accepted', {'field': field, 'url': u}, 'URLError', 'accepted', 'malformed URL accepted')
            except torf.URLError:
                pass
            except Exception as e:  # noqa
                ck.fail('oracle', 'bad-url-wrong-error:' + type(e).__name__, {'field': field, 'url': u}, 'URLError', repr(e)[:80], 'malformed URL raised another error')
    if model_ok:
        out = m.run()
        for case, got, idx in pend:
            ck.ties += 1
            r, st = out[idx]
            mres = sl.model_res(r, lambda v: None)
            mst = None if st == 'none' else ''.join(chr(int(c)) for c in st)
            if got[0] == 'ok':
                same = mres[0] == 'ok' and mst == got[1]
            else:
                same = mres == ('err', got[1][:1]) and (case['kind'] == 'ctor' or mst == got[2])
            if not same:
                ck.fail('tie', 'setter:' + case['kind'], case, repr((mres, mst)), repr(got), 'model and implementation disagree')
        # hex conversion
        m2 = Model()
        hs = [HEX, HEX.upper(), B32, B32.lower(), 'a' * 40, 'A' * 32, '7' * 32, 'f' * 40]
        ids = [m2.add(['magnet.hex', [ord(c) for c in h]]) for h in hs]
        o2 = m2.run()
        for h, i in zip(hs, ids):
            ck.ties += 1
            mh = ''.join(chr(int(c)) for c in o2[i])
            if mh != hash_bytes(h).hex():
                ck.fail('tie', 'infohash_hex', {'hash': h}, mh, hash_bytes(h).hex(), 'model hex conversion differs from base64 module')
    # metadata fetching against a loopback server
    srv = http.server.ThreadingHTTPServer(('127.0.0.1', 0), Handler)
    th = threading.Thread(target=srv.serve_forever, daemon=True)
    th.start()
    try:
        for notation, served, source, *hist in fetch_scenarios(ck):
            ck.case(('fetch', notation, served, source, *hist))
            ck.count('fetch:' + served)
            res, adopted, tih, ih = run_fetch(srv.server_address[1], notation, served, source, *hist)
            case = {'fetch': [notation, served, source, *hist]}
            if served == 'matching':
                if res != ('ok', True) or not adopted or tih != ih:
                    ck.fail('oracle', 'matching-metadata-not-adopted', case, 'adopted', repr((res, adopted, tih)), 'matching metadata was not adopted')
            else:
                if adopted or res == ('ok', True):
                    ck.fail('oracle', 'non-matching-metadata-adopted', case, 'not adopted', repr((res, adopted, tih)), 'non-matching or invalid metadata was adopted (or kept after the hash changed)')
                if res[0] == 'err' and res[1] != ('MetainfoError',):
                    ck.fail('oracle', 'fetch-raises:' + res[1][0], case, 'False/MetainfoError', repr(res), 'unexpected exception from get_info')
                if tih != ih:
                    ck.fail('oracle', 'torrent-hash-after-fetch', case, ih, repr(tih), 'torrent() does not carry the magnet hash after a rejected fetch')
    finally:
        srv.shutdown()
        srv.server_close()
    ck.notes += ['network fetching is exercised on 127.0.0.1 only; tracker scrape URLs (/file?info_hash=) are served like torrent files']


def replay(rp):
    c = rp['case']
    if 'fetch' in c:
        srv = http.server.ThreadingHTTPServer(('127.0.0.1', 0), Handler)
        th = threading.Thread(target=srv.serve_forever, daemon=True)
        th.start()
        try:
            res, adopted, tih, ih = run_fetch(srv.server_address[1], *c['fetch'])
        finally:
            srv.shutdown()
            srv.server_close()
        ok = (res == ('ok', True) and adopted and tih == ih) if c['fetch'][1] == 'matching' else (not adopted and tih == ih)
        return ok, repr((res, adopted, tih))
    if 'kind' in c:
        got = run_setter(c['kind'], c['prior'], c['value'], c.get('used', False))
        s = c['value']
        bare = s[9:] if s[:9].lower() == 'urn:btih:' else None
        want_ok = is_valid_hash(s) or (c['kind'] != 'infohash' and bare is not None and is_valid_hash(bare))
        ok = (got[0] == 'ok') == want_ok and (got[0] == 'ok' or (got[1] == ('MagnetError',) and (c['kind'] == 'ctor' or got[2] == c['prior'])))
        if ok and got[0] == 'ok':
            exp = s if is_valid_hash(s) else bare
            ok = got[2] == hash_bytes(exp).hex()
        elif ok and c['kind'] != 'ctor':
            ok = got[3] == hash_bytes(c['prior']).hex()
        return ok, repr(got)
    return False, 'unknown case'
