"""C03 -- hashing is schedule-independent and always terminates."""
import pipecheck as pc


def run(ck, model_ok):
    ck.rule = ('generate() and verify() of small layouts (1..5 files, 1..~20 pieces: below, at and above the piece queue capacity 3*threads; verify also with missing / short / long / '
               'corrupt files, with and without callback) with 1..4 hasher threads under a cooperative scheduler substituted for threading / queue / the clock: one seed = one '
               'interleaving at every queue/event/thread/stop-flag/clock operation incl. the placement of every timeout expiry (weights 0.05..3, sticky runs); oracle: returns, '
               'outcome = sequential reference, no worker thread alive at return, no internal error; every recorded schedule is replayed step by step on the Coq model; '
               'non-trivial = distinct (scenario, seed)')
    pc.run_family(ck, model_ok, 'C03', [('plain', 900, 40000)])
    ck.notes += ['code between two scheduling points is assumed atomic (it touches thread-local data only); timeouts may expire whenever the queue is empty / the event unset']


def replay(rp):
    rec, verdicts = pc.replay_case(rp['case'])
    bad = [v for v in verdicts if v[0] == 'C03']
    return not bad, repr(bad)[:600]
