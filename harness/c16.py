"""C16 -- tracker and seed lists stay in sync with the metainfo under any edit history."""
import torf

import metalib as ml
import streamlib as sl
from common import Model

POOL = ['http://a.b/announce', 'udp://t.example.org:6969', 'https://x.y:8080/p?q=1', 'http://localhost:123',
        'http://h/a b', 'http://h/a+b',            # ids 4 and 5 normalise to the same stored URL
        'nourl', 'http://h:99999', '://x']         # ids 6..8 invalid
VALID = 6


def norm(i):
    return 5 if i == 4 else i


def url_id(s):
    s = str(s)
    if s in POOL:
        return norm(POOL.index(s))
    return ('raw', s)


def gen_lop(rng, modelled_only):
    r = rng.random()
    u = rng.randrange(len(POOL))
    if r < 0.25:
        return ('append', u)
    if r < 0.37:
        return ('insert', rng.randint(-3, 4), u)
    if r < 0.47:
        return ('remove', rng.randrange(VALID))
    if r < 0.57:
        return ('del', rng.randint(-3, 3))
    if r < 0.63:
        return ('pop', rng.randint(-2, 2))
    if r < 0.68:
        return ('clear',)
    if r < 0.72:
        return ('extend', tuple(rng.randrange(len(POOL)) if rng.random() < 0.15 else rng.randrange(VALID) for _ in range(rng.randint(0, 3))))
    if r < 0.80:
        # valid URLs first, an invalid one last: the call is rejected half-way
        return ('extend', tuple(rng.randrange(VALID) for _ in range(rng.randint(1, 2))) + (rng.randrange(VALID, len(POOL)),))
    if r < 0.92 or modelled_only:
        return ('setitem', rng.randint(-2, 3), u)
    return ('setslice', rng.randint(0, 2), rng.randint(0, 3), tuple(rng.randrange(VALID) for _ in range(rng.randint(0, 3))))


def gen_history(rng, n, modelled_only=False):
    ops = []
    for _ in range(n):
        r = rng.random()

        def tier():
            return tuple(rng.randrange(len(POOL)) if rng.random() < 0.1 else rng.randrange(VALID) for _ in range(rng.randint(0, 3)))
        if r < 0.12:
            tiers = tuple(tier() for _ in range(rng.randint(0, 3)))
            ops.append(('tset', tiers))
            if rng.random() < 0.3:
                # assign the same tiers again with the URLs inside each tier in another order (or the tiers themselves reordered)
                tiers2 = [list(t) for t in tiers]
                for t in tiers2:
                    rng.shuffle(t)
                if rng.random() < 0.3:
                    rng.shuffle(tiers2)
                ops.append(('tset', tuple(tuple(t) for t in tiers2)))
        elif r < 0.24:
            ops.append(('tappend', tier()))
        elif r < 0.32:
            ops.append(('tinsert', rng.randint(-3, 3), tier()))
        elif r < 0.40:
            ops.append(('tsetitem', rng.randint(-2, 3), tier()))
        elif r < 0.46:
            ops.append(('tdel', rng.randint(-2, 3)))
        elif r < 0.49:
            ops.append(('tclear',))
        elif r < 0.56:
            ops.append(('textend', tuple(tier() for _ in range(rng.randint(0, 3)))))
        elif r < 0.78:
            ops.append(('ttier', rng.randint(-1, 2), gen_lop(rng, modelled_only)))
        elif r < 0.84:
            ops.append(('sset', rng.choice(['web', 'http']), tier()))
        elif r < 0.97 or modelled_only:
            ops.append(('sop', rng.choice(['web', 'http']), gen_lop(rng, modelled_only)))
        else:
            ops.append(('tsetslice', rng.randint(0, 2), rng.randint(0, 2), tuple(tier() for _ in range(rng.randint(0, 2)))))
    return ops


def apply_lop(lst, lo):
    k = lo[0]
    if k == 'append':
        lst.append(POOL[lo[1]])
    elif k == 'insert':
        lst.insert(lo[1], POOL[lo[2]])
    elif k == 'remove':
        lst.remove(POOL[lo[1]])
    elif k == 'del':
        del lst[lo[1]]
    elif k == 'pop':
        lst.pop(lo[1])
    elif k == 'clear':
        lst.clear()
    elif k == 'extend':
        lst.extend([POOL[u] for u in lo[1]])
    elif k == 'setitem':
        lst[lo[1]] = POOL[lo[2]]
    elif k == 'setslice':
        lst[lo[1]:lo[2]] = [POOL[u] for u in lo[3]]
    else:
        raise AssertionError(lo)


def snapshot(t):
    md = t.metainfo

    def conv(v):
        if v is None:
            return None
        if isinstance(v, str):
            return url_id(v)
        if isinstance(v, (list, tuple)):
            return [conv(x) for x in v]
        return ('other', repr(v)[:30])
    return (conv(md.get('announce')), conv(md.get('announce-list')), conv(md.get('url-list')), conv(md.get('httpseeds')))


def run_impl(ops, held):
    """held: keep ONE reference per list for the whole history instead of going through the property each time"""
    t = torf.Torrent()
    refs = {}

    def trackers():
        if held:
            if 'tr' not in refs:
                refs['tr'] = t.trackers
            return refs['tr']
        return t.trackers

    def seeds(kind):
        name = 'webseeds' if kind == 'web' else 'httpseeds'
        if held:
            if name not in refs:
                refs[name] = getattr(t, name)
            return refs[name]
        return getattr(t, name)
    out = []
    for op in ops:
        try:
            k = op[0]
            if k == 'tset':
                t.trackers = [[POOL[u] for u in tier] for tier in op[1]]
                refs.pop('tr', None)
            elif k == 'tappend':
                trackers().append([POOL[u] for u in op[1]])
            elif k == 'tinsert':
                trackers().insert(op[1], [POOL[u] for u in op[2]])
            elif k == 'tsetitem':
                trackers()[op[1]] = [POOL[u] for u in op[2]]
            elif k == 'tdel':
                del trackers()[op[1]]
            elif k == 'tclear':
                trackers().clear()
            elif k == 'textend':
                trackers().extend([[POOL[u] for u in tier] for tier in op[1]])
            elif k == 'tsetslice':
                trackers()[op[1]:op[2]] = [[POOL[u] for u in tier] for tier in op[3]]
            elif k == 'ttier':
                apply_lop(trackers()[op[1]], op[2])
            elif k == 'sset':
                setattr(t, 'webseeds' if op[1] == 'web' else 'httpseeds', [POOL[u] for u in op[2]])
                refs.pop('webseeds' if op[1] == 'web' else 'httpseeds', None)
            elif k == 'sop':
                apply_lop(seeds(op[1]), op[2])
            res = ('ok',)
        except Exception as e:  # noqa
            res = ('err', sl.canon_exc(e))
        out.append((res, snapshot(t)))
        viol = check_state(t)
        if viol is None and held:
            # a list object obtained earlier must still mirror the metainfo (also after an operation on it was rejected)
            md = t.metainfo
            try:
                if 'webseeds' in refs and [str(u) for u in refs['webseeds']] != (md.get('url-list') or []):
                    viol = ('held-list-differs-from-metainfo', f"held webseeds {[str(u) for u in refs['webseeds']]} but url-list={md.get('url-list')!r} after {op}")
                elif 'httpseeds' in refs and [str(u) for u in refs['httpseeds']] != (md.get('httpseeds') or []):
                    viol = ('held-list-differs-from-metainfo', f"held httpseeds {[str(u) for u in refs['httpseeds']]} but httpseeds={md.get('httpseeds')!r} after {op}")
                elif 'tr' in refs and [[str(u) for u in tier] for tier in refs['tr']] != [[str(u) for u in tier] for tier in t.trackers]:
                    viol = ('held-list-differs-from-metainfo', f"held tiers {[[str(u) for u in tier] for tier in refs['tr']]} but the metainfo gives {[[str(u) for u in tier] for tier in t.trackers]} after {op}")
            except Exception as e:  # noqa
                viol = ('read-back-fails:' + type(e).__name__, f'reading a held list raised {e!r}')
        out[-1] = out[-1] + (viol,)
    return out


def check_state(t):
    """The invariant of C16 on the implementation's metainfo; returns None or (key, what)."""
    md = t.metainfo
    ann, al, web, http = md.get('announce'), md.get('announce-list'), md.get('url-list'), md.get('httpseeds')
    # reading back must not fail and gives the tiers
    try:
        tiers = [[str(u) for u in tier] for tier in t.trackers]
        ws = [str(u) for u in t.webseeds]
        hs = [str(u) for u in t.httpseeds]
    except Exception as e:  # noqa
        return ('read-back-fails:' + type(e).__name__, f'reading the lists back raised {e!r}')
    stored = []
    if al is not None:
        if not isinstance(al, list) or not all(isinstance(x, list) for x in al):
            return ('announce-list-shape', f'announce-list is {al!r}')
        for tier in al:
            if not tier:
                return ('empty-tier', 'an empty tier is stored')
            stored += tier
    for u in stored + ([ann] if ann is not None else []) + (web or []) + (http or []):
        if not isinstance(u, str) or not ml.oracle_is_url(u):
            return ('malformed-url-stored', f'stored element {u!r} is not a well-formed URL')
    for name, lst in (('announce-list', stored), ('url-list', web or []), ('httpseeds', http or [])):
        if len(set(lst)) != len(lst):
            return ('url-stored-twice', f'{name} stores a URL twice: {lst}')
    flat = [u for tier in tiers for u in tier]
    if flat:
        if ann != flat[0]:
            return ('announce-not-first-url', f'announce={ann!r} but first URL of first tier is {flat[0]!r}')
    elif ann is not None:
        return ('announce-without-trackers', f'announce={ann!r} although there is no tracker')
    if len(flat) > 1:
        if al != tiers:
            return ('announce-list-differs-from-tiers', f'announce-list={al!r} tiers={tiers!r}')
    elif al is not None:
        return ('announce-list-present-for-single-url', f'announce-list={al!r}')
    if (web or []) != ws or (web is not None and not web):
        return ('url-list-mismatch', f'url-list={web!r} webseeds={ws!r}')
    if (http or []) != hs or (http is not None and not http):
        return ('httpseeds-mismatch', f'httpseeds={http!r} httpseeds={hs!r}')
    return None


def to_model_op(op):
    """-> wire op or None if outside the model"""
    def lop(lo):
        k = lo[0]
        if k == 'setitem':
            return ['setfresh', lo[1], lo[2]]
        if k == 'setslice':
            return None
        if k == 'extend':
            return ['extend', list(lo[1])]
        return [k] + list(lo[1:])
    k = op[0]
    if k in ('tset', 'textend'):
        return [k, [list(t) for t in op[1]]]
    if k == 'tappend':
        return [k, list(op[1])]
    if k in ('tinsert', 'tsetitem'):
        return [k, op[1], list(op[2])]
    if k == 'tdel':
        return [k, op[1]]
    if k == 'tclear':
        return [k]
    if k == 'ttier':
        l = lop(op[2])
        return None if l is None else [k, op[1], l]
    if k == 'sset':
        return [k, op[1], list(op[2])]
    if k == 'sop':
        l = lop(op[2])
        return None if l is None else [k, op[1], l]
    return None


def model_snapshot(s):
    def z(x):
        return None if x == 'none' else int(x)

    def zl(x):
        return None if x == 'none' else [int(y) for y in x]
    return (z(s[0]), None if s[1] == 'none' else [[int(y) for y in t] for t in s[1]], zl(s[2]), zl(s[3]))


def classify(op, viol):
    k = op[0]
    inner = op[2][0] if k in ('ttier', 'sop') else ''
    if inner == 'setslice' or k == 'tsetslice':
        return f'slice-assign:{viol[0]}'
    if inner == 'setitem':
        return f'index-assign-duplicate:{viol[0]}'
    return viol[0]


def run(ck, model_ok):
    ck.rule = ('random edit histories (3..30 ops) on one Torrent: set (incl. assigning the current tiers again in a different order) / append / insert / index-assign / slice-assign / delete / clear / extend on the tracker '
               'tiers, in-place edits of a tier, and the same on webseeds and httpseeds, with valid, duplicate, space-normalising and invalid URLs; each '
               'history is run twice (fresh property access per op, one held reference per list); after EVERY op the C16 invariant is checked on the real '
               'metainfo and the state is compared with the model (until the first op outside the model); non-trivial = distinct histories')
    quick = ck.tier == 'quick'
    m = Model()
    pend = []
    hists = [[('tset', ((0,), (1,))), ('ttier', 0, ('append', 1))],
             [('tset', ((0, 1), (2,))), ('ttier', 0, ('setitem', 0, 1))],
             [('sset', 'web', (0, 1)), ('sop', 'web', ('setslice', 0, 1, (1, 2, 2)))],
             [('tset', ((0,), (1,))), ('tsetslice', 0, 1, ((2,),))],
             [('tset', ((4,), (5,), (0,)))], [('tset', ((0, 1, 2), (3,))), ('tset', ((1, 0, 2), (3,)))], [('sset', 'web', (0, 6))], [('tappend', (0,)), ('ttier', 0, ('clear',))]]
    for i in range(500 if quick else 30000):
        hists.append(gen_history(ck.rng, ck.rng.randint(3, 14 if quick else 30), modelled_only=(i % 3 != 0)))
    for hi, ops in enumerate(hists):
        for held in (False, True):
            out = run_impl(ops, held)
            ck.case((tuple(map(repr, ops)), held))
            for op, (res, snap, viol) in zip(ops, out):
                ck.count('op:' + op[0])
                if res[0] == 'err':
                    ck.count('outcome:' + res[1][0])
                    if res[1][0] not in ('URLError', 'IndexError', 'ValueError'):
                        ck.fail('oracle', 'raises:' + res[1][0], {'ops': [repr(o) for o in ops], 'held': held, 'at': repr(op)}, 'URLError/IndexError/ValueError',
                                repr(res), 'unexpected exception from a list edit')
                if viol:
                    ck.fail('oracle', classify(op, viol), {'ops': ml.safe_repr([list(o) for o in ops]), 'held': held, 'at': repr(op)}, 'C16 invariant', viol[1][:300],
                            viol[1][:200])
                    break
            if model_ok:
                mops = []
                for op in ops:
                    w = to_model_op(op)
                    if w is None:
                        break
                    mops.append(w)
                if mops:
                    pend.append((ops, held, out, len(mops), m.add(['monlist.run', mops])))
        if hi < 3:
            ck.sample({'ops': [repr(o) for o in ops]})
    if model_ok:
        res = m.run()
        for ops, held, out, n, idx in pend:
            ck.ties += 1
            for j in range(n):
                mres = sl.model_res(res[idx][j][0], lambda v: None)
                if mres == ('err', ('IOther',)):
                    break           # outside the model from here on
                msnap = model_snapshot(res[idx][j][1])
                r, snap, viol = out[j]
                rr = ('ok', None) if r[0] == 'ok' else ('err', r[1][:1])
                if mres != rr or msnap != snap:
                    ck.fail('tie', ops[j][0], {'ops': [repr(o) for o in ops], 'held': held, 'at': j}, repr((mres, msnap)), repr((rr, snap)),
                            'model and implementation disagree')
                    break
    ck.notes += ['extended slices (step != 1) are not generated', 'a held reference is never mixed with a later assignment of the same property']


def replay(rp):
    c = rp['case']
    ops = [tuple(tuple(x) if isinstance(x, list) else x for x in o) for o in ml.eval_repr(c['ops'])] if isinstance(c['ops'], str) else None
    if ops is None:
        return False, 'history recorded as text: ' + repr(c['ops'])[:500]

    def fix(o):
        return tuple(fix(x) if isinstance(x, (list, tuple)) else x for x in o)
    ops = [fix(o) for o in ops]
    out = run_impl(ops, c['held'])
    for op, (res, snap, viol) in zip(ops, out):
        if viol:
            return False, {'at': repr(op), 'violation': viol}
    return True, 'invariant holds after every operation'
