(* C20 -- the file-size check is exact.
   [verify_filesize cb single_at_dir files disk]: [files] = recorded sizes of the listed
   files, [disk] = what is found at each file's path under the content path
   (missing / present with some size); [cb] = None (no callback) or Some k (a
   callback that asks to stop at its k-th call; 0 = never). Result and the list of
   callback calls (file index, files_done, error). *)
From Coq Require Import Lia.
From Torf Require Import Base Extracted Geometry Stream GeometryProofs IterSpec IterProofs IterDamage Filesize FilesizeProofs FilesizeAgree Pipeline PipelineProofs FlowProofs VerifyTrueProofs VerifyFilesizeAgree.
Open Scope Z_scope.

(* no callback: True iff every listed file exists with exactly the recorded size, otherwise the
   read / size error of the first offending file is raised *)
Theorem C20_iff : forall files disk,
  length files = length disk ->
  match verify_filesize None false files disk with
  | (FRet b, _) => b = true /\ all_match files disk
  | (FRaise e, _) =>
      exists k expected st, nth_error files k = Some expected /\ nth_error disk k = Some st /\
                            file_error expected st = Some e /\ all_match (firstn k files) (firstn k disk)
  end.
Proof.
  intros files disk H. unfold verify_filesize.
  pose proof (nocb_exact files disk 0 0 false [] H) as P.
  destruct (vf_loop None 0 0 false files disk []) as [[b|e] calls].
  - destruct P as (A & B & _). split; [exact A|exact B].
  - destruct P as (_ & k & ex & st & P). exists k, ex, st. exact P.
Qed.
Print Assumptions C20_iff.

(* a callback that never cancels is called exactly once per listed file, in order, with
   files_done = 1, 2, ..., with an error iff that file is offending; the result is False iff
   some file is offending *)
Theorem C20_callback : forall files disk,
  length files = length disk ->
  verify_filesize (Some 0) false files disk =
    (FRet (negb (any_err files disk)), spec_calls 0 files disk) /\
  length (spec_calls 0 files disk) = length files /\
  (any_err files disk = false <-> all_match files disk).
Proof.
  intros files disk H. unfold verify_filesize. rewrite passive_cb by lia. cbn [orb app].
  split; [reflexivity|]. split; [apply spec_calls_length; exact H|apply any_err_false; exact H].
Qed.
Print Assumptions C20_callback.

(* a callback that cancels at its k-th call receives exactly the first k calls; the result is False *)
Theorem C20_cancel : forall files disk k,
  length files = length disk -> 1 <= k <= Z.of_nat (length files) ->
  verify_filesize (Some k) false files disk = (FRet false, firstn (Z.to_nat k) (spec_calls 0 files disk)).
Proof.
  intros files disk k H Hk. unfold verify_filesize.
  rewrite (cancelling_cb files disk 0 0 false [] k) by lia. rewrite Z.sub_0_r. reflexivity.
Qed.
Print Assumptions C20_cancel.

(* a single-file torrent pointed at a directory *)
Theorem C20_single_at_directory : forall files disk k,
  verify_filesize None true files disk = (FRaise FEIsDir, []) /\
  verify_filesize (Some k) true files disk = (FRet false, [(0, 1, Some FEIsDir)]).
Proof. intros. split; reflexivity. Qed.
Print Assumptions C20_single_at_directory.

(* UNBOUNDED agreement with full verification (two independently written models: the piece reader of
   model/Stream.v and the size check of model/Filesize.v): for every disk, file list, piece length and
   open-handle table, if reading the whole content reports no error for any piece -- which a successful
   verify() needs -- then the size check returns True, without a callback and with a passive one.
   [fstate_of d f] is what the size check finds at f's path: missing, or present with some size. *)
Theorem C20_never_disagrees_with_full_read : forall d L fs h items,
  0 < L -> allpos fs -> NoDup fs ->
  iter_pieces d h fs L = Ok items -> flat_map excs_of items = [] ->
  fst (verify_filesize None false (map fsize fs) (map (fstate_of d) fs)) = FRet true /\
  fst (verify_filesize (Some 0) false (map fsize fs) (map (fstate_of d) fs)) = FRet true.
Proof. exact filesize_agrees_with_full_read. Qed.
Print Assumptions C20_never_disagrees_with_full_read.

(* UNBOUNDED, end to end: "whenever full content verification succeeds on a path, the size check succeeds on it too".
   The reader's items ([iter_pieces], model/Stream.v) are the events of the threaded pipeline (model/Pipeline.v:
   [rev_of_item] turns an item with data into a piece with its hash, an item with errors into an error item); if a
   verification run over them returns True -- under ANY schedule, with any number of hashers -- then no item
   carried an error, hence every listed file has its recorded size, hence the size check (model/Filesize.v)
   returns True, without a callback and with a passive one.  [H] is the abstract piece hash, [code] the exception a
   read / size error stands for. *)
Theorem C20_verify_true_implies_filesize_true : forall (H : bytes -> Z) (code : xitem -> Z) d L fs h items c s expd,
  0 < L -> allpos fs -> NoDup fs ->
  iter_pieces d h fs L = Ok items ->
  cf_items c = map (rev_of_item H code) items -> cf_verify c = Some expd -> Pipeline.zlen expd = Pipeline.zlen items ->
  reach c s -> s_result s = Some ResTrue ->
  fst (verify_filesize None false (map fsize fs) (map (fstate_of d) fs)) = FRet true /\
  fst (verify_filesize (Some 0) false (map fsize fs) (map (fstate_of d) fs)) = FRet true.
Proof. exact verify_true_implies_filesize_true. Qed.
Print Assumptions C20_verify_true_implies_filesize_true.

(* non-vacuity: three files (3, 1 and 6 bytes), piece length 4: the full read yields 3 pieces without errors *)
Example C20_agreement_example :
  let d := disk_of [3; 1; 6] [DOk; DOk; DOk] in
  let fs := files_of [3; 1; 6] in
  (forallb (fun f => 0 <? fsize f) fs = true) /\
  (exists items, iter_pieces d [] fs 4 = Ok items /\ flat_map excs_of items = [] /\ length items = 3%nat) /\
  map (fstate_of d) fs = [FSize 3; FSize 1; FSize 6].
Proof. vm_compute. split; [reflexivity|]. split; [eexists; repeat split; reflexivity|reflexivity]. Qed.

Example C20_example :
  verify_filesize (Some 0) false [5; 7; 9] [FSize 5; FMissing; FSize 8] =
    (FRet false, [(0, 1, None); (1, 2, Some FENoEnt); (2, 3, Some FEWrongSize)]) /\
  verify_filesize None false [5; 7] [FSize 5; FSize 7] = (FRet true, []) /\
  verify_filesize (Some 2) false [5; 7; 9] [FSize 5; FSize 7; FSize 9] = (FRet false, [(0, 1, None); (1, 2, None)]).
Proof. vm_compute. repeat split; reflexivity. Qed.
