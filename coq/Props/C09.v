(* C09 -- piece hashes never outlive the content layout they were computed for.
   [astep s op] models one attribute operation: every change of path / files /
   filepaths / filters funnels into _set_files (ASetLayout: new total size, new
   layout identity), the three piece-size setters, generate, unrelated setters.
   The stored piece string is abstracted to the (layout, piece length) it was
   hashed for, so "stale hashes" = a tag different from the current layout and
   piece length.  Constants and calculate_piece_size's table are regenerated from
   the source; the setters' source is pinned (see harness/pins.json). *)
From Coq Require Import Lia.
From Torf Require Import Base Extracted Attr AttrProofs.
Open Scope Z_scope.

(* after every history of operations: stored hashes belong to the current layout and piece
   length; the piece length is a positive multiple of 16 KiB within [min, max]; min <= max,
   both multiples of 16 KiB.  Resetting a bound to its class default is covered when the
   default is compatible (guard), see C09_reset_refuted. *)
Theorem C09_inv : forall ops, guarded ainit ops -> AInv (afinal ainit ops).
Proof. intros ops H. apply history_inv; [apply AInv_init|exact H]. Qed.
Print Assumptions C09_inv.

Theorem C09_step : forall s o, AInv s -> guard s o -> AInv (snd (astep s o)).
Proof. exact astep_inv. Qed.
Print Assumptions C09_step.

(* the calculated piece size is a multiple of 16 KiB within the bounds *)
Theorem C09_calc : forall size lo hi,
  mult16k lo -> mult16k hi -> lo <= hi ->
  mult16k (calculate_piece_size size lo hi) /\ lo <= calculate_piece_size size lo hi <= hi.
Proof. exact calculate_piece_size_ok. Qed.
Print Assumptions C09_calc.

(* readiness: pieces present implies they were hashed for the current layout and piece length *)
Theorem C09_ready_is_current : forall ops l p,
  guarded ainit ops -> a_pieces (afinal ainit ops) = Some (l, p) ->
  l = a_layout (afinal ainit ops) /\ a_plen (afinal ainit ops) = Some p.
Proof.
  intros ops l p Hg Hp. destruct (C09_inv ops Hg) as (H & _). destruct (H l p Hp) as (A & B & _). auto.
Qed.
Print Assumptions C09_ready_is_current.

(* refuted on the faithful model: resetting piece_size_max to the default (None) after a larger
   minimum was configured leaves min > max (the None branch does not check) *)
Theorem C09_reset_refuted :
  exists ops, ~ (a_pmin (afinal ainit ops) <= a_pmax (afinal ainit ops)).
Proof.
  exists [ASetMax (Some 67108864); ASetMin (Some 33554432); ASetMax None].
  vm_compute. intros H. apply H. reflexivity.
Qed.
Print Assumptions C09_reset_refuted.

(* non-vacuity: hash a 70 KiB layout at 48 KiB (calculated: 16 KiB), change the piece size *)
Example C09_example :
  map (fun rs => (a_plen (snd rs), a_pieces (snd rs)))
      (arun ainit [ASetLayout 71680 1 true; ASetPieceSize (Some 49152); AGenerate; ASetPieceSize (Some 65536);
                   AGenerate; ASetMin (Some 131072); ASetLayout 100 2 true])
  = [(Some 16384, None); (Some 49152, None); (Some 49152, Some (1, 49152)); (Some 65536, None);
     (Some 65536, Some (1, 65536)); (Some 131072, None); (Some 131072, None)].
Proof. vm_compute. reflexivity. Qed.
