(* C01 -- piece hashes are the SHA-1 of the concatenated content stream.
   Reader part: on intact content (every listed file present with its recorded
   size) the piece reader yields exactly the L-sized chunks of the files'
   concatenation, in order, without exceptions -- for every layout (any number
   of files, zero-length files, files smaller than the carry, more files than the
   handle cap), every piece length and every initial handle table.
   Chunk arithmetic: count = ceil(size / L), only the last chunk may be shorter.
   The hash function is a parameter (any H); see DESIGN.md for the pipeline part. *)
From Torf Require Import Base Extracted Geometry Stream ChunkProofs IterProofs Pipeline PipelineProofs FlowProofs DrainProofs CompleteProofs C01Pipeline.
Open Scope Z_scope.

Theorem C01_items : forall d L fs h,
  0 < L -> intact d fs ->
  exists items,
    iter_pieces d h fs L = Ok items /\
    map piece_of items = map Some (chunks L (stream_of d fs)) /\
    Forall (fun it => excs_of it = []) items.
Proof. intros d L fs h HL. exact (iter_pieces_intact d L HL fs h). Qed.
Print Assumptions C01_items.

Theorem C01_chunks_concat : forall L, 0 < L -> forall s, concat (chunks L s) = s.
Proof. exact chunks_concat. Qed.
Print Assumptions C01_chunks_concat.

Theorem C01_count : forall L, 0 < L -> forall s, zlen (chunks L s) = cdiv (zlen s) L.
Proof. exact chunks_count. Qed.
Print Assumptions C01_count.

Theorem C01_only_last_chunk_may_be_short : forall L s, 0 < L ->
  chunks L s = fulls L s ++ (match rem L s with [] => [] | r => [r] end) /\
  (forall c, In c (fulls L s) -> zlen c = L) /\ zlen (rem L s) < L /\
  (forall c, In c (chunks L s) -> 0 < zlen c <= L).
Proof.
  intros L s HL. split; [exact (chunks_split L HL s)|]. split.
  - intros c Hc. unfold fulls in Hc. apply filter_In in Hc as [_ Hc]. apply Z.eqb_eq. exact Hc.
  - split; [exact (rem_lt L HL s)|]. intros c. exact (chunks_shape L HL s c).
Qed.
Print Assumptions C01_only_last_chunk_may_be_short.

Theorem C01_digest_string_length : forall (H : bytes -> bytes) w l,
  (forall x, zlen (H x) = w) -> zlen (concat (map H l)) = w * zlen l.
Proof.
  intros H w l Hw. induction l as [|x r IH]; [unfold zlen; cbn; apply Zmult_0_r_reverse|].
  cbn [map concat]. unfold zlen in *. rewrite app_length. cbn [length].
  rewrite Nat2Z.inj_add, IH, Hw. rewrite Nat2Z.inj_succ. ring.
Qed.
Print Assumptions C01_digest_string_length.

(* the threaded part: if the reader feeds the pipeline with the chunks of the stream (what C01_items says
   iter_pieces yields; [hid] names a chunk's digest), then under EVERY schedule, with any number of hasher
   threads, a hashing run that returns True has collected exactly the digests of the chunks, in order *)
Theorem C01_pipeline : forall (hid : bytes -> Z) d L fs c s,
  yielded (cf_items c) = map (fun p => RPiece (hid p)) (chunks L (stream_of d fs)) ->
  cf_verify c = None -> cf_total c = Pipeline.zlen (chunks L (stream_of d fs)) ->
  reach c s -> s_result s = Some ResTrue ->
  sorted_hashes (s_hashes s) = map hid (chunks L (stream_of d fs)).
Proof. exact pipeline_reference. Qed.
Print Assumptions C01_pipeline.

(* UNBOUNDED, the other direction: a hashing run over readable content that returns a verdict without having been told
   to stop returns True AND has stored exactly the SHA-1 of the consecutive chunks of the concatenated stream, in
   order -- under every schedule, with any number of hashers, any out-of-memory handling and any clock.  (So
   "piece hashes are the SHA-1 of the concatenated stream" holds for every uncancelled run, not only for those
   that happen to return True.) *)
Theorem C01_unstopped_run_stores_reference : forall (hid : bytes -> Z) d L fs c s r,
  (1 <= cf_hashers c)%nat ->
  yielded (cf_items c) = map (fun p => RPiece (hid p)) (chunks L (stream_of d fs)) ->
  cf_verify c = None -> cf_total c = Pipeline.zlen (chunks L (stream_of d fs)) ->
  reach c s -> s_result s = Some r -> verdict r -> s_stop s = false ->
  r = ResTrue /\ sorted_hashes (s_hashes s) = map hid (chunks L (stream_of d fs)).
Proof. exact unstopped_run_reference. Qed.
Print Assumptions C01_unstopped_run_stores_reference.

(* non-vacuity: 3 files, boundary inside the second file, L = 4 *)
Example C01_example :
  let d := [(0, [1;2;3]%N); (1, [4;5;6;7;8;9]%N); (2, [10]%N)] in
  let fs := [(0, 3); (1, 6); (2, 1)] in
  intact d fs /\
  iter_pieces d [] fs 4 =
    Ok [(Some [1;2;3;4]%N, 1, []); (Some [5;6;7;8]%N, 1, []); (Some [9;10]%N, 2, [])].
Proof.
  cbv zeta. split; [|vm_compute; reflexivity].
  repeat constructor; eexists; (split; [vm_compute; reflexivity|reflexivity]).
Qed.
