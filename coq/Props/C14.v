(* C14 -- magnet fields accept exactly the valid values, whatever the object held before.
   The two regexes (as parsed by CPython's re._parser, flags included) and the method
   used to apply them (match / fullmatch) are regenerated from the source on every
   run; strings are lists of code points, so non-ASCII look-alikes are covered. *)
From Torf Require Import Base Sexp Regex Extracted UrlQuote Magnet RegexProofs MagnetProofs.
Open Scope Z_scope.

(* the info hash regex, applied the way the setters apply it, accepts exactly the strings of
   exactly 40 hexadecimal or exactly 32 base32 characters, in any letter case *)
Theorem C14_language_infohash : forall s,
  accepts ex_infohash_method ex_infohash_re s = hex40 s || b32_32 s.
Proof. exact infohash_language. Qed.
Print Assumptions C14_language_infohash.

(* the exact-topic regex accepts exactly "urn:btih:" (any case) followed by such a hash *)
Theorem C14_language_xt : forall s,
  accepts ex_xt_method ex_xt_re s = has_urn_prefix s && (hex40 (skipn 9 s) || b32_32 (skipn 9 s)).
Proof. exact xt_language. Qed.
Print Assumptions C14_language_xt.

(* both setters: a valid value is stored, an invalid one raises the magnet error and leaves the
   previously held value (any [old], also None = fresh object) intact *)
Theorem C14_infohash_setter : forall old v,
  set_infohash old v = if hex40 v || b32_32 v then (Ok tt, Some v) else (Err DMagnet, old).
Proof. exact set_infohash_spec. Qed.
Print Assumptions C14_infohash_setter.

Theorem C14_xt_setter : forall old v,
  set_xt old v =
    if hex40 v || b32_32 v then (Ok tt, Some v)
    else if has_urn_prefix v && (hex40 (skipn 9 v) || b32_32 (skipn 9 v)) then (Ok tt, Some (skipn 9 v))
    else (Err DMagnet, old).
Proof. exact set_xt_spec. Qed.
Print Assumptions C14_xt_setter.

(* conversion to a torrent / comparison with fetched metadata uses the 40-digit lower-case hex of the
   hash number, which does not depend on the letter case of the magnet's notation *)
Theorem C14_hex_form : forall h,
  length (infohash_hex h) = 40%nat /\ infohash_hex (map to_lower h) = infohash_hex h.
Proof. intros h. split; [apply infohash_hex_length|apply infohash_hex_case_insensitive]. Qed.
Print Assumptions C14_hex_form.

Theorem C14_adopt : forall h f, adopts h f = true <-> infohash_hex h = f.
Proof. exact adopts_iff. Qed.
Print Assumptions C14_adopt.

(* non-vacuity and the formerly accepted garbage *)
Example C14_examples :
  let hex := repeat 97 40 in                     (* 'a' * 40 *)
  set_infohash None hex = (Ok tt, Some hex) /\
  set_infohash (Some hex) (hex ++ [122; 122]) = (Err DMagnet, Some hex) /\          (* 40 hex + "zz" *)
  set_infohash (Some hex) (repeat 65 32 ++ [10]) = (Err DMagnet, Some hex) /\       (* 32 base32 + newline *)
  set_infohash (Some hex) (repeat 383 32) = (Err DMagnet, Some hex) /\              (* U+017F x 32 *)
  set_xt (Some hex) (map Z.of_N urn_btih ++ repeat 55 32) = (Ok tt, Some (repeat 55 32)) /\
  infohash_hex (repeat 65 32) = repeat 48 40 /\                                      (* 'A'*32 = twenty zero bytes *)
  infohash_hex (repeat 55 32) = repeat 102 40.                                       (* '7'*32 = twenty 0xff bytes *)
Proof. vm_compute. repeat split; reflexivity. Qed.
