(* C04 -- cancellation and failures shut the pipeline down cleanly.
   See Props/C03.v for the model and for what [all_schedules_ok] says.  Here the
   configurations carry one fault each: a cancelling or raising callback, a read
   failure, a refused thread start. *)
From Coq Require Import Lia.
From Coq Require Import Permutation.
From Torf Require Import Base Pipeline PipelineProofs FlowProofs ThreadProofs DeadlockProofs ConservationProofs ReaderDoneProofs DrainProofs TerminationProofs VerifyTrueProofs VerifyFalseProofs CompleteProofs ExceptionProofs CallbackRaiseProofs ReaderErrorProofs StopProofs NoCallbackProofs NoCallbackGenProofs PipeExplore PipeExploreProofs PipeConfigs.
Open Scope Z_scope.

(* the callback cancels from the second piece on (3 pieces): under every schedule the call returns
   False -- or True together with the complete correct string -- never anything partial, no thread left *)
Theorem C04_cancel : all_schedules_ok G_cancel [1; 2; 3] true [].
Proof. exact G_cancel_ok. Qed.
Print Assumptions C04_cancel.

(* the callback raises: its exception (-1) reaches the caller (or the run had already completed) *)
Theorem C04_callback_raises : all_schedules_ok G_raise [1; 2; 3] false [-1].
Proof. exact G_raise_ok. Qed.
Print Assumptions C04_callback_raises.

(* the third read fails: the read error (5) is raised under every schedule, no thread left *)
Theorem C04_read_failure : all_schedules_ok G_readfail [1; 2; 3] false [5].
Proof. exact G_readfail_ok. Qed.
Print Assumptions C04_read_failure.

(* the OS refuses to start the second hasher: harmless *)
Theorem C04_optional_hasher_refused : all_schedules_ok G_refuse_hasher2 [1; 2] false [].
Proof. exact G_refuse_hasher2_ok. Qed.
Print Assumptions C04_optional_hasher_refused.

(* unbounded (any schedule, thread count, size, fault): True is returned only together with the complete
   correct digest string -- a cancelled or failed run cannot produce True with anything else *)
Theorem C04_true_only_with_complete_string : forall c s hs,
  reach c s -> cf_verify c = None -> yielded (cf_items c) = map RPiece hs -> cf_total c = zlen hs ->
  s_result s = Some ResTrue -> sorted_hashes (s_hashes s) = hs.
Proof. exact true_means_reference. Qed.
Print Assumptions C04_true_only_with_complete_string.

(* a stored result is only ever True-with-the-reference: result_ok is part of goodb *)
Theorem C04_true_only_with_reference : forall c ref mf rs s,
  goodb c ref mf rs s = true -> s_result s = Some ResTrue -> sorted_hashes (s_hashes s) = ref.
Proof.
  intros c ref mf rs s H E. apply goodb_result in H. unfold result_ok in H. rewrite E in H.
  unfold zlist_eqb in H. destruct (list_eq_dec Z.eq_dec (sorted_hashes (s_hashes s)) ref); [assumption|discriminate].
Qed.
Print Assumptions C04_true_only_with_reference.

(* UNBOUNDED (all schedules, thread counts, sizes, faults, clocks): a call that returned False, raised the
   callback's exception or a read error, or returned True leaves no worker thread running; the only exception
   is the RuntimeError of a refused reader / janitor / first hasher (refuted below, known finding) *)
Theorem C04_no_worker_left_unbounded : forall c s,
  (1 <= cf_hashers c)%nat -> reach c s -> s_mdone s = true -> s_result s <> Some (ResRuntimeError 1) ->
  running_threads c s = [].
Proof. exact no_worker_left. Qed.
Print Assumptions C04_no_worker_left_unbounded.

(* UNBOUNDED: no schedule deadlocks.  In every state reachable under any schedule -- any number of hashers and
   pieces, any callback plan, read fault, refused additional hasher, any clock -- some thread can take a step as
   long as the call has not returned.  Invariants (proofs/DeadlockProofs.v): the end-of-stream token of the piece
   queue is unique and last (a hasher that wants to put it back finds the queue empty), the vital hasher works
   as long as the reader does, the hash queue holds its end marker from the moment the janitor has ended until
   the collector takes it, main only waits for hashers it has seen alive. *)
Theorem C04_no_deadlock_unbounded : forall c s,
  (1 <= cf_hashers c)%nat -> reach c s -> s_mdone s = false -> options c s <> [].
Proof. exact no_deadlock. Qed.
Print Assumptions C04_no_deadlock_unbounded.

(* UNBOUNDED: no piece is ever lost between the reader and the collector.  In every state reachable under any
   schedule -- any number of hashers and pieces, any callback plan (incl. cancelling and raising ones), read
   fault, refused additional hasher, out-of-memory handling, any clock -- the pieces the reader has handed over so
   far (0 .. s_ridx s - 1) are, each exactly once, in the piece queue, in the hands of a hasher, in the hash queue
   or with the collector ([indices s] lists these places).  Invariant (proofs/ConservationProofs.v): the number
   of piece indexes in those places equals the reader's counter, and a hasher that is not running holds
   nothing; with "no index twice" and "every index below the counter" (FlowProofs.v) this is a permutation. *)
Theorem C04_no_piece_lost_unbounded : forall c s,
  (1 <= cf_hashers c)%nat -> reach c s ->
  Permutation (indices s) (map Z.of_nat (seq 0 (Z.to_nat (s_ridx s)))).
Proof. exact no_piece_lost. Qed.
Print Assumptions C04_no_piece_lost_unbounded.

(* UNBOUNDED, "always terminates": from every state reachable under any schedule -- any number of hashers and
   pieces, any callback plan (cancelling, raising), read fault, out-of-memory handling, refused additional hasher,
   any clock -- some schedule leads to a state in which the call has returned; so under a fair scheduler every
   call returns.  Proof (proofs/TerminationProofs.v): a measure of the remaining work (items still to read, pieces
   in the queues and with the hashers, the program counters of reader, hashers, janitor and main) that some
   enabled step strictly decreases as long as the call has not returned: the unproductive steps -- the idle
   timeout of the vital hasher, the janitor's timeout and its re-scan while a hasher still runs -- are never the
   only ones available (a strengthening of deadlock-freedom, using that the vital hasher, once started, is never
   "new" again and sets the finalize event before it ends).  The second theorem bounds the number of steps of
   that schedule by the measure of the current state. *)
Theorem C04_can_always_finish : forall c s,
  (1 <= cf_hashers c)%nat -> reach c s -> exists s', steps c s s' /\ s_mdone s' = true.
Proof. exact can_always_finish. Qed.
Print Assumptions C04_can_always_finish.

Theorem C04_can_finish_within_measure : forall c s,
  (1 <= cf_hashers c)%nat -> reach c s -> exists s', nsteps c (mu s) s s' /\ s_mdone s' = true.
Proof. exact can_finish_within_measure. Qed.
Print Assumptions C04_can_finish_within_measure.

(* UNBOUNDED, "False only for the right reason": a hashing run over readable content returns False only if it was
   told to stop (the stop flag of the reader was set: a callback cancelled) -- never because a schedule, a slow
   reader, the out-of-memory handling or an idle hasher lost a piece. *)
Theorem C04_generate_false_means_stopped : forall c s hs,
  (1 <= cf_hashers c)%nat -> reach c s -> cf_verify c = None ->
  yielded (cf_items c) = map RPiece hs -> cf_total c = zlen hs ->
  s_result s = Some ResFalse -> s_stop s = true.
Proof. exact generate_false_means_stopped. Qed.
Print Assumptions C04_generate_false_means_stopped.

(* UNBOUNDED, "after a bounded amount of further work that does not depend on the torrent's size": once the reader has
   been told to stop (the stop flag is set: a callback cancelled or raised, an item carried an error without a
   callback) it hands over at most ONE more piece, in every continuation of the run -- whatever the number of items
   still unread, the schedule, the number of hashers and the clock.  ([steps c s s']: s' is reachable from s.) *)
Theorem C04_at_most_one_piece_after_stop : forall c s s',
  reach c s -> s_stop s = true -> steps c s s' -> s_ridx s' <= s_ridx s + 1 /\ s_stop s' = true.
Proof. exact at_most_one_piece_after_stop. Qed.
Print Assumptions C04_at_most_one_piece_after_stop.

(* UNBOUNDED, "an exception only for the right reason": whatever a call raises is the exception the user's callback
   raised (-1, only with a callback that raises), the content error of a verification (1000, verification only), an exception carried by an item of
   the content, the read error the content iterator raised, or the read error of the out-of-memory handler
   (ENOMEM = 12) -- under every schedule, hasher count, callback plan and clock.  The collector's internal
   assertion (-2) is not among them: it is unreachable.  [just] is defined in proofs/ExceptionProofs.v. *)
Theorem C04_exception_only_for_a_reason : forall c s e,
  reach c s -> s_result s = Some (ResRaise e) -> just c e.
Proof. exact exception_only_for_a_reason. Qed.
Print Assumptions C04_exception_only_for_a_reason.

(* UNBOUNDED, "a callback's exception reaches the caller unchanged": if the user's callback raised during a call
   (a call with done >= k was made to a callback that raises from k on) and the call has returned, it returned by
   raising the callback's exception (-1) -- or, when the reader thread failed as well, that thread's read error,
   which the join of the reader re-raises first.  Never True, False or anything else; under every schedule. *)
Theorem C04_callback_exception_reaches_caller : forall c k,
  cf_plan c = CbRaiseFrom k -> forall s r,
  (1 <= cf_hashers c)%nat -> reach c s -> s_result s = Some r -> raised k s -> exists e, r = ResRaise e /\ ok_final c e.
Proof. exact callback_exception_reaches_caller. Qed.
Print Assumptions C04_callback_exception_reaches_caller.

(* non-vacuity: a callback that raises at its second call: the run ends with ResRaise (-1) and such a call was made *)
Example C04_callback_raise_example :
  let s := auto_run 400 G_raise (init G_raise) in
  reach G_raise s /\ s_result s = Some (ResRaise (-1)) /\ cf_plan G_raise = CbRaiseFrom 2 /\ raised 2 s.
Proof.
  split; [apply auto_run_reach; constructor|]. split; [vm_compute; reflexivity|]. split; [reflexivity|].
  exists 2, 1, None. split; [vm_compute; right; left; reflexivity|lia].
Qed.

(* UNBOUNDED, "a read failure surfaces as the library's read error": if the reader thread ended with an error (the
   content iterator raised, or the out-of-memory handler gave up: [s_rexc]) and the call has returned -- other than by
   the RuntimeError of a refused reader / janitor / first hasher (known finding) -- it raised exactly that error,
   whatever the callback did meanwhile; under every schedule. *)
Theorem C04_reader_error_reaches_caller : forall c s r e,
  (1 <= cf_hashers c)%nat -> reach c s -> s_result s = Some r -> r <> ResRuntimeError 1 -> s_rexc s = Some e -> r = ResRaise e.
Proof. exact reader_error_reaches_caller. Qed.
Print Assumptions C04_reader_error_reaches_caller.

(* UNBOUNDED: without a callback a hashing run over readable content never returns False -- a run that returns a verdict
   returns True with exactly the reference hashes; otherwise the call raises (and then, by the theorem below, only an
   error of the reader).  Every schedule, hasher count, out-of-memory handling and clock. *)
Theorem C04_generate_without_callback_never_false : forall c,
  cf_plan c = CbAbsent -> cf_verify c = None -> forall s r hs,
  (1 <= cf_hashers c)%nat -> reach c s -> yielded (cf_items c) = map RPiece hs -> cf_total c = zlen hs ->
  s_result s = Some r -> verdict r -> r = ResTrue /\ sorted_hashes (s_hashes s) = hs.
Proof. exact generate_without_callback_never_false. Qed.
Print Assumptions C04_generate_without_callback_never_false.

(* hashing readable content without a callback raises nothing but an error of the reader (an iterator failure that is in the
   content's event list, or ENOMEM when that list has an out-of-memory event) *)
Theorem C04_generate_raises_only_reader_errors : forall c s e hs,
  reach c s -> cf_verify c = None -> cf_plan c = CbAbsent -> yielded (cf_items c) = map RPiece hs ->
  s_result s = Some (ResRaise e) -> okr c e.
Proof. exact generate_raises_only_reader_errors. Qed.
Print Assumptions C04_generate_raises_only_reader_errors.

(* "if the progress callback asks to stop ... the run still returns": a cancelling callback never makes a hashing run over
   readable content (no out-of-memory event, no iterator failure) raise -- the call returns a verdict *)
Theorem C04_cancelled_generate_never_raises : forall c s e hs k,
  reach c s -> cf_verify c = None -> cf_plan c = CbCancelFrom k -> cf_items c = map RPiece hs ->
  s_result s = Some (ResRaise e) -> False.
Proof. exact cancelled_generate_never_raises. Qed.
Print Assumptions C04_cancelled_generate_never_raises.

(* non-vacuity: the iterator fails with error 5 after two pieces: the call raises 5, and 5 is an iterator failure of the content *)
Example C04_exception_example :
  let s := auto_run 300 G_readfail (init G_readfail) in
  reach G_readfail s /\ s_result s = Some (ResRaise 5) /\ In (RFail 5) (cf_items G_readfail) /\ s_rexc s = Some 5.
Proof. split; [apply auto_run_reach; constructor|vm_compute; split; [reflexivity|split; [auto|reflexivity]]]. Qed.

(* non-vacuity: 40 pieces, one hasher, a callback that cancels at its first call: False, and the stop flag is set *)
Example C04_false_when_stopped_example :
  let hs := map Z.of_nat (seq 1 40) in
  let cfg := mk (map RPiece hs) 40 1 (CbCancelFrom 1) [] None in
  let s := auto_run 3000 cfg (init cfg) in
  reach cfg s /\ s_result s = Some ResFalse /\ s_stop s = true /\ s_ridx s = 4.
Proof. split; [apply auto_run_reach; constructor|vm_compute; repeat split; reflexivity]. Qed.

(* refuted on the faithful model (known findings): if the start of the janitor or of the first hasher
   is refused, the call raises RuntimeError while the reader (and hashers) keep running *)
Theorem C04_janitor_refused_refuted :
  exists sched, let s := fst (run G_refuse_janitor (init G_refuse_janitor) sched) in
                s_result s = Some (ResRuntimeError 1) /\ running_threads G_refuse_janitor s = [1; 3].
Proof. exact G_refuse_janitor_refuted. Qed.
Print Assumptions C04_janitor_refused_refuted.

Theorem C04_first_hasher_refused_refuted :
  exists sched, let s := fst (run G_refuse_hasher1 (init G_refuse_hasher1) sched) in
                s_result s = Some (ResRuntimeError 1) /\ running_threads G_refuse_hasher1 s = [1].
Proof. exact G_refuse_hasher1_refuted. Qed.
Print Assumptions C04_first_hasher_refused_refuted.

(* the out-of-memory handler: the queue bound shrinks by a tenth at most every 100 ms and the reader gives
   up with ENOMEM (12) once it cannot shrink further: a persistent MemoryError ends the run *)
Definition G_oom := {| cf_items := [RPiece 1; ROom; ROom; ROom; ROom; ROom; ROom; ROom; ROom]; cf_total := 2; cf_hashers := 1;
                       cf_interval := 0; cf_plan := CbAbsent; cf_verify := None; cf_refuse := [] |}.
Example C04_oom_example :
  s_result (auto_run 400 G_oom (init G_oom)) = Some (ResRaise 12) /\ running_threads G_oom (auto_run 400 G_oom (init G_oom)) = [].
Proof. vm_compute. split; reflexivity. Qed.
