(* C15 -- created torrents depend only on the content tree and the settings.
   [set_path cwd sp fl listing] models Torrent.path = <spelled path> evaluated in
   working directory cwd: pathlib parsing of the spelling, os.path.normpath,
   joining with the working directory, relative_to / relpath, the choice of the
   name, utils.filter_files (hidden / pattern filter relative to the top-level
   directory), the size filter and the final sort.  [listing] is what
   utils.list_files returned (paths relative to the content path, sizes), in any
   order.  The hand-modelled functions are pinned by source hash and compared with
   the implementation on every run (harness/c15.py). *)
From Coq Require Import Lia Permutation.
From Torf Require Import Base Regex Tree OrderProofs TreeProofs.
Open Scope Z_scope.

(* the result for a directory is the specification: a function of the directory's
   name, the relative paths and sizes, and the filters -- whatever the working
   directory, the location and the spelling (absolute, relative, ".", "..",
   "sub/..", trailing or doubled slashes) under which the path resolves to it *)
Theorem C15_directory : forall cwd sp fl listing loc name,
  Forall plain cwd ->
  abspath cwd (sp_abs sp) (pl_parts (sp_raw sp)) = loc ++ [name] ->
  Forall dir_entry listing ->
  set_path cwd sp fl listing = Ok (spec_dir fl name listing).
Proof. exact set_path_dir. Qed.
Print Assumptions C15_directory.

(* ... and the specification does not depend on the order of the listing *)
Theorem C15_listing_order : forall fl name l1 l2,
  Permutation l1 l2 -> NoDup (map fst l1) -> spec_dir fl name l1 = spec_dir fl name l2.
Proof. exact spec_dir_perm. Qed.
Print Assumptions C15_listing_order.

(* two configurations of the same tree (two working directories, locations, spellings,
   listing orders) give the same name and file list *)
Theorem C15_function_of_tree : forall cwd1 sp1 loc1 listing1 cwd2 sp2 loc2 listing2 fl name,
  Forall plain cwd1 -> Forall plain cwd2 ->
  abspath cwd1 (sp_abs sp1) (pl_parts (sp_raw sp1)) = loc1 ++ [name] ->
  abspath cwd2 (sp_abs sp2) (pl_parts (sp_raw sp2)) = loc2 ++ [name] ->
  Forall dir_entry listing1 -> NoDup (map fst listing1) -> Permutation listing1 listing2 ->
  set_path cwd1 sp1 fl listing1 = set_path cwd2 sp2 fl listing2.
Proof. exact function_of_tree. Qed.
Print Assumptions C15_function_of_tree.

(* a single file *)
Theorem C15_file : forall cwd sp fl size loc name xs,
  abspath cwd (sp_abs sp) (pl_parts (sp_raw sp)) = loc ++ [name] ->
  pl_parts (sp_raw sp) = xs ++ [name] ->
  set_path cwd sp fl [([], size)] = Ok (spec_file fl name size).
Proof. exact set_path_file. Qed.
Print Assumptions C15_file.

(* what the specification keeps: not hidden below the top level, not empty, not excluded *)
Theorem C15_filter_rule : forall fl name e,
  spec_keep fl name e = true <->
  is_hidden (fst e) = false /\ 0 < snd e /\ is_excluded fl (join_slash (name :: fst e)) = false.
Proof. exact spec_keep_iff. Qed.
Print Assumptions C15_filter_rule.

(* a matching include pattern overrides every exclude pattern *)
Theorem C15_include_wins : forall fl s,
  (existsb (fun r => rx_hit r s) (in_regexs fl) = true \/ existsb (fun g => glob_hit g s) (in_globs fl) = true) ->
  is_excluded fl s = false.
Proof. exact include_wins. Qed.
Print Assumptions C15_include_wins.

Theorem C15_exclude_applies : forall fl s,
  existsb (fun r => rx_hit r s) (in_regexs fl) = false -> existsb (fun g => glob_hit g s) (in_globs fl) = false ->
  is_excluded fl s = existsb (fun r => rx_hit r s) (ex_regexs fl) || existsb (fun g => glob_hit g s) (ex_globs fl).
Proof. exact exclude_applies. Qed.
Print Assumptions C15_exclude_applies.

(* glob patterns ignore (ASCII) case, regular expressions do not *)
Theorem C15_glob_ignores_case : forall g s, glob_hit (map swapcase g) (map swapcase s) = glob_hit g s.
Proof. exact glob_case_insensitive. Qed.
Print Assumptions C15_glob_ignores_case.

Theorem C15_regex_case_sensitive : rx_hit rx_a [97] = true /\ rx_hit rx_a (map swapcase [97]) = false.
Proof. exact regex_case_sensitive. Qed.
Print Assumptions C15_regex_case_sensitive.

(* non-vacuity: /l/Top spelled "sub/.." from inside, ".." from a subdirectory, absolute with a
   doubled slash; a listing with a hidden directory, an empty file and case variants, in two orders *)
Definition T := [84; 111; 112]. Definition l_ := [108]. Definition sub := [115; 117; 98].
Definition ex_listing1 : list entry := [([[97]], 5); ([[65]], 4); ([sub; [98]], 7); ([sub; [101]], 0); ([[46; 103]; [99]], 3)].
Definition ex_listing2 : list entry := [([[46; 103]; [99]], 3); ([sub; [101]], 0); ([[65]], 4); ([sub; [98]], 7); ([[97]], 5)].
Definition no_filters : filters := {| ex_globs := []; ex_regexs := []; in_globs := []; in_regexs := [] |}.
Example C15_example :
  abspath [l_; T] false (pl_parts [sub; s_dotdot]) = [l_] ++ [T] /\
  abspath [l_; T; sub] false (pl_parts [s_dotdot; []]) = [l_] ++ [T] /\
  abspath [] true (pl_parts [l_; []; T; s_dot]) = [l_] ++ [T] /\
  set_path [l_; T] {| sp_abs := false; sp_raw := [sub; s_dotdot] |} no_filters ex_listing1
    = Ok (LMulti T [([[65]], 4); ([[97]], 5); ([sub; [98]], 7)]) /\
  set_path [l_; T; sub] {| sp_abs := false; sp_raw := [s_dotdot; []] |} no_filters ex_listing2
    = Ok (LMulti T [([[65]], 4); ([[97]], 5); ([sub; [98]], 7)]).
Proof. vm_compute. repeat split; reflexivity. Qed.
