(* C10 -- missing or mis-sized files never shift later pieces.
   [case_ok L sizes dm] (model/IterSpec.v) = the modelled iter_pieces, run on the
   layout [sizes] with damage plan [dm] (per file: intact / missing / one byte
   short / one byte long), returns items that satisfy the property: one item per
   piece, exact bytes in every piece no bad file overlaps, no data in every piece
   one overlaps, every bad file reported exactly once with the right kind and
   nothing else reported.

   Unbounded: the no-bad-file case (every layout, L, handle table).
   Bounded (finite domain enumerated and decided inside Coq, bound in the
   statement): all damage plans for the listed sizes / piece lengths / file
   counts.  The unbounded refinement for arbitrary damage plans is NOT proved
   (see DESIGN.md); zero-length bad entries are refuted. *)
From Torf Require Import Base Extracted Geometry Stream IterSpec ChunkProofs IterProofs IterBounded.
Open Scope Z_scope.

Theorem C10_no_bad_file : forall d L fs h,
  0 < L -> intact d fs ->
  exists items,
    iter_pieces d h fs L = Ok items /\
    map piece_of items = map Some (chunks L (stream_of d fs)) /\
    zlen items = cdiv (zlen (stream_of d fs)) L /\
    Forall (fun it => excs_of it = []) items.
Proof.
  intros d L fs h HL Hin.
  destruct (iter_pieces_intact d L HL fs h Hin) as (items & E & Hp & Hx).
  exists items. repeat split; try assumption.
  rewrite <- (chunks_count L HL). unfold zlen.
  rewrite <- (map_length piece_of items), Hp, map_length. reflexivity.
Qed.
Print Assumptions C10_no_bad_file.

Theorem C10_refines_bounded : forall L szs n,
  In (L, szs, n) [(4, [1;2;3;4;5;6;7;8;9], 1%nat); (4, [1;2;3;4;5;6;7;8;9], 2%nat);
                  (4, [1;2;3;4;5;6], 3%nat); (3, [1;2;3;4;5], 3%nat);
                  (2, [1;2;3], 4%nat); (4, [1;3;4;5], 4%nat)] ->
  forall sizes dm, length sizes = n -> length dm = n ->
    Forall (fun s => In s szs) sizes ->
    case_ok L sizes dm = true.
Proof.
  intros L szs n Hin.
  destruct Hin as [E|Hin]; [inversion E; subst; apply domain_ok_spec; exact dom_L4_n1|].
  destruct Hin as [E|Hin]; [inversion E; subst; apply domain_ok_spec; exact dom_L4_n2|].
  destruct Hin as [E|Hin]; [inversion E; subst; apply domain_ok_spec; exact dom_L4_n3|].
  destruct Hin as [E|Hin]; [inversion E; subst; apply domain_ok_spec; exact dom_L3_n3|].
  destruct Hin as [E|Hin]; [inversion E; subst; apply domain_ok_spec; exact dom_L2_n4|].
  destruct Hin as [E|Hin]; [inversion E; subst; apply domain_ok_spec; exact dom_L4_n4|].
  destruct Hin.
Qed.
Print Assumptions C10_refines_bounded.

(* refuted on the faithful model: bad zero-length entries *)
Theorem C10_zero_length_refuted :
  (exists L sizes dm, 0 < L /\ length sizes = length dm /\
     iter_pieces (disk_of sizes dm) [] (files_of sizes) L = Err IIndex) /\
  (exists L sizes dm, 0 < L /\ length sizes = length dm /\ case_ok L sizes dm = false).
Proof.
  split.
  - exists 2, [0; 2], [DMissing; DOk]. split; [reflexivity|]. split; [reflexivity|].
    exact zero_length_boundary_IndexError.
  - exists 1, [1; 0; 1], [DLong; DMissing; DMissing]. split; [reflexivity|]. split; [reflexivity|].
    exact (proj1 zero_length_reported_twice).
Qed.
Print Assumptions C10_zero_length_refuted.

(* non-vacuity: a bad file ending exactly on a piece boundary, its neighbour untouched *)
Example C10_example :
  iter_pieces (disk_of [4; 4] [DMissing; DOk]) [] (files_of [4; 4]) 4
    = Ok [(None, 0, [(XMissing, 0)]); (Some [5; 6; 7; 8]%N, 1, [])] /\
  case_ok 4 [4; 4] [DMissing; DOk] = true /\
  case_ok 4 [3; 1; 1; 6] [DShort; DOk; DMissing; DOk] = true.
Proof. vm_compute. repeat split; reflexivity. Qed.
