(* C10 -- missing or mis-sized files never shift later pieces.
   [case_ok L sizes dm] (model/IterSpec.v) = the modelled iter_pieces, run on the
   layout [sizes] with damage plan [dm] (per file: intact / missing / one byte
   short / one byte long), returns items that satisfy the property: one item per
   piece, exact bytes in every piece no bad file overlaps, no data in every piece
   one overlaps, every bad file reported exactly once with the right kind and
   nothing else reported.

   Unbounded: [C10_refines] -- EVERY layout of positive-length files, every piece
   length, every disk (any subset of files missing or of any wrong size, any
   content) and every initial handle table; and the no-bad-file case
   [C10_no_bad_file] (which also admits zero-length entries).
   Bounded (finite domain enumerated and decided inside Coq, bound in the
   statement): [C10_refines_bounded], kept as the executable form of the same
   statement ([case_ok] is what the harness' oracle mirrors).
   Zero-length bad entries are refuted ([C10_zero_length_refuted]). *)
From Torf Require Import Base Extracted Geometry Stream IterSpec GeometryProofs ChunkProofs IterProofs IterBounded IterDamage.
Open Scope Z_scope.

(* [expected d L fs p] (proofs/IterDamage.v): None if a bad file (absent from the disk [d] or
   present with a length other than the recorded one) has a byte in piece p, otherwise the bytes
   [p*L, min((p+1)*L, total)) of the stream in which every good file contributes its content.
   [report_of d f]: nothing for a good file, one read error (missing) or one size error naming f
   otherwise.  So: exactly one item per piece, in piece order; exact bytes in every piece no bad
   file overlaps; no data in every piece one overlaps; every bad file reported exactly once with
   the right kind (even: in file order), nothing else reported. *)
Theorem C10_refines : forall d L fs h,
  0 < L -> allpos fs -> NoDup fs ->
  exists items,
    iter_pieces d h fs L = Ok items /\
    map piece_of items = map (expected d L fs) (zrange 0 (cdiv (total_size fs) L)) /\
    zlen items = cdiv (total_size fs) L /\
    flat_map excs_of items = flat_map (report_of d) fs.
Proof. intros d L fs h. exact (iter_pieces_refines d L fs h). Qed.
Print Assumptions C10_refines.

Theorem C10_no_bad_file : forall d L fs h,
  0 < L -> intact d fs ->
  exists items,
    iter_pieces d h fs L = Ok items /\
    map piece_of items = map Some (chunks L (stream_of d fs)) /\
    zlen items = cdiv (zlen (stream_of d fs)) L /\
    Forall (fun it => excs_of it = []) items.
Proof.
  intros d L fs h HL Hin.
  destruct (iter_pieces_intact d L HL fs h Hin) as (items & E & Hp & Hx).
  exists items. repeat split; try assumption.
  rewrite <- (chunks_count L HL). unfold zlen.
  rewrite <- (map_length piece_of items), Hp, map_length. reflexivity.
Qed.
Print Assumptions C10_no_bad_file.

Theorem C10_refines_bounded : forall L szs n,
  In (L, szs, n) [(4, [1;2;3;4;5;6;7;8;9], 1%nat); (4, [1;2;3;4;5;6;7;8;9], 2%nat);
                  (4, [1;2;3;4;5;6], 3%nat); (3, [1;2;3;4;5], 3%nat);
                  (2, [1;2;3], 4%nat); (4, [1;3;4;5], 4%nat)] ->
  forall sizes dm, length sizes = n -> length dm = n ->
    Forall (fun s => In s szs) sizes ->
    case_ok L sizes dm = true.
Proof.
  intros L szs n Hin.
  destruct Hin as [E|Hin]; [inversion E; subst; apply domain_ok_spec; exact dom_L4_n1|].
  destruct Hin as [E|Hin]; [inversion E; subst; apply domain_ok_spec; exact dom_L4_n2|].
  destruct Hin as [E|Hin]; [inversion E; subst; apply domain_ok_spec; exact dom_L4_n3|].
  destruct Hin as [E|Hin]; [inversion E; subst; apply domain_ok_spec; exact dom_L3_n3|].
  destruct Hin as [E|Hin]; [inversion E; subst; apply domain_ok_spec; exact dom_L2_n4|].
  destruct Hin as [E|Hin]; [inversion E; subst; apply domain_ok_spec; exact dom_L4_n4|].
  destruct Hin.
Qed.
Print Assumptions C10_refines_bounded.

(* refuted on the faithful model: bad zero-length entries *)
Theorem C10_zero_length_refuted :
  (exists L sizes dm, 0 < L /\ length sizes = length dm /\
     iter_pieces (disk_of sizes dm) [] (files_of sizes) L = Err IIndex) /\
  (exists L sizes dm, 0 < L /\ length sizes = length dm /\ case_ok L sizes dm = false).
Proof.
  split.
  - exists 2, [0; 2], [DMissing; DOk]. split; [reflexivity|]. split; [reflexivity|].
    exact zero_length_boundary_IndexError.
  - exists 1, [1; 0; 1], [DLong; DMissing; DMissing]. split; [reflexivity|]. split; [reflexivity|].
    exact (proj1 zero_length_reported_twice).
Qed.
Print Assumptions C10_zero_length_refuted.

(* non-vacuity of C10_refines: a layout with a short and a missing file meets the hypotheses,
   and the expected items are not trivial *)
Example C10_refines_example :
  let d := disk_of [3; 1; 1; 6] [DShort; DOk; DMissing; DOk] in
  let fs := files_of [3; 1; 1; 6] in
  (forallb (fun f => 0 <? fsize f) fs = true) /\
  map (expected d 4 fs) (zrange 0 (cdiv (total_size fs) 4)) = [None; None; Some [9; 10; 11]%N] /\
  flat_map (report_of d) fs = [(XSize, 0); (XMissing, 2)].
Proof. vm_compute. repeat split; reflexivity. Qed.

(* non-vacuity: a bad file ending exactly on a piece boundary, its neighbour untouched *)
Example C10_example :
  iter_pieces (disk_of [4; 4] [DMissing; DOk]) [] (files_of [4; 4]) 4
    = Ok [(None, 0, [(XMissing, 0)]); (Some [5; 6; 7; 8]%N, 1, [])] /\
  case_ok 4 [4; 4] [DMissing; DOk] = true /\
  case_ok 4 [3; 1; 1; 6] [DShort; DOk; DMissing; DOk] = true.
Proof. vm_compute. repeat split; reflexivity. Qed.
