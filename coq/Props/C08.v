(* C08 -- untrusted input only ever produces documented errors (model level).
   [bdec] is the model of flatbencode's stack-machine decoder; [read_stream] the
   model of Torrent.read_stream; which exceptions read_stream catches and maps
   is regenerated from /repo's source (Extracted.ex_read_*_catches), so dropping
   an exception from an except clause changes these theorems' subject. *)
From Torf Require Import Base Sexp Bencode PyVal Extracted Convert Validate Export BencodeProofs ConvertProofs ReadDumpProofs.
Open Scope Z_scope.

(* the decoder only ever fails with DecodingError, ValueError or OverflowError *)
Theorem C08_decoder_typed : forall s, dec_err_ok (bdec s).
Proof. exact bdec_typed. Qed.
Print Assumptions C08_decoder_typed.

(* reading ANY byte string (up to the read limit) without validation returns a torrent
   or fails with the decode error or the metainfo error *)
Theorem C08_read_typed : forall is_url x,
  Z.of_nat (length x) <= ex_max_torrent_file_size ->
  doc_err (read_stream is_url false x).
Proof. exact read_stream_novalidate_typed. Qed.
Print Assumptions C08_read_typed.

(* a torrent returned with validation enabled passes validation *)
Theorem C08_read_valid : forall is_url x md,
  read_stream is_url true x = Ok md -> validate is_url FSNone md = Ok tt.
Proof. exact read_stream_validated. Qed.
Print Assumptions C08_read_valid.

(* dumping (without validation) ANY torrent that was read without validation succeeds or raises the
   metainfo error: in particular what the decoder accepted is never nested too deeply for the encoder
   (the depth accounting of both is part of the model: a list level costs one unit, a dictionary level
   two, in both directions), and read_stream leaves nothing unconvertible behind (pieces are kept raw
   only when they are a byte string -- Extracted.ex_read_strips_any_pieces, regenerated from the source) *)
Theorem C08_read_then_dump_typed : forall is_url x md,
  read_stream is_url false x = Ok md -> ok_or_meta (dump is_url FSNone false md).
Proof. exact read_then_dump_typed. Qed.
Print Assumptions C08_read_then_dump_typed.

(* non-vacuity and the formerly failing inputs *)
Example C08_examples :
  read_stream simple_is_url false [100;101]%N = Ok [] /\                                   (* b'de' *)
  read_stream simple_is_url false [105;101]%N = Err DBdecode /\                           (* b'ie': int('') *)
  read_stream simple_is_url true [100;101]%N = Err DMetainfo /\
  read_stream simple_is_url false
    ([57;50;50;51;51;55;50;48;51;54;56;53;52;55;55;53;56;48;56;58;97]%N) = Err DBdecode.  (* 9223372036854775808:a *)
Proof. vm_compute. repeat split; reflexivity. Qed.
