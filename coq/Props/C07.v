(* C07 -- nothing structurally invalid is exported.
   [validate] is driven by the rule table regenerated from Torrent.validate's
   source (every utils.assert_type call: path, types, must_exist, check), so a
   dropped or loosened rule changes the subject of these theorems.
   Scope of the model: see model/Validate.v (announce-list / files / path values
   that are dict, set or generator objects are "not modelled"). *)
From Torf Require Import Base Sexp Bencode PyVal Extracted Convert Validate Export ValidateProofs.
Open Scope Z_scope.

(* a successful validation implies structural soundness: info is a dict with a str/bytes
   name, a positive piece length that is a multiple of 16 KiB, a non-empty piece string of
   20 x ceil(size / piece length) bytes, exactly one of length / files, a non-negative
   single-file length, a well-formed announce URL *)
Theorem C07_sound : forall is_url fs md,
  validate is_url fs md = Ok tt -> sound is_url md.
Proof. exact validate_sound. Qed.
Print Assumptions C07_sound.

(* exports with validation return only when validation succeeds *)
Theorem C07_dump_requires_valid : forall is_url fs md x,
  dump is_url fs true md = Ok x -> validate is_url fs md = Ok tt.
Proof. exact dump_requires_valid. Qed.
Print Assumptions C07_dump_requires_valid.

Theorem C07_infohash_requires_valid : forall is_url fs md h,
  infohash_input is_url fs md = Ok h -> validate is_url fs md = Ok tt.
Proof. exact infohash_requires_valid. Qed.
Print Assumptions C07_infohash_requires_valid.

Theorem C07_ready : forall is_url fs md b,
  is_ready is_url fs md = Ok b -> (b = true <-> validate is_url fs md = Ok tt).
Proof. exact is_ready_iff. Qed.
Print Assumptions C07_ready.

(* refuted on the faithful model: "otherwise MetainfoError and nothing else".  An integer
   with more than 4300 digits makes the error-message formatting raise ValueError. *)
Theorem C07_only_metainfo_error_refuted :
  exists md, validate simple_is_url FSNone md = Err IValue.
Proof.
  exists [(PStr k_info, PDict [(PStr k_name, PStr [84%N]); (PStr k_piece_length, PInt (10 ^ 4400 + 1))])].
  vm_compute. reflexivity.
Qed.
Print Assumptions C07_only_metainfo_error_refuted.

(* non-vacuity: a valid single-file metainfo, and compensating negative lengths are rejected *)
Example C07_example :
  let pieces := repeat 7%N 20 in
  let info := [(PStr k_name, PStr [84%N]); (PStr k_piece_length, PInt 16384);
               (PStr k_length, PInt 5); (PStr k_pieces, PBytes pieces)] in
  validate simple_is_url FSNone [(PStr k_info, PDict info)] = Ok tt /\
  let files := PList [PDict [(PStr k_length, PInt (-5)); (PStr k_path, PList [PStr [97%N]])];
                      PDict [(PStr k_length, PInt 16389); (PStr k_path, PList [PStr [98%N]])]] in
  let info2 := [(PStr k_name, PStr [84%N]); (PStr k_piece_length, PInt 16384);
                (PStr k_files, files); (PStr k_pieces, PBytes pieces)] in
  validate simple_is_url FSNone [(PStr k_info, PDict info2)] = Err DMetainfo.
Proof. vm_compute. split; reflexivity. Qed.
