(* C18 -- reusing hashes from another torrent is sound, complete and atomic.
   [reuse H d cb t items] models Torrent.reuse: [items] is what find_torrent_files
   and Torrent.read produced for the searched paths (errors or candidates, in
   order), [d] the local content, [cb] the callback behaviour; the result is
   (return value or raised error, the torrent afterwards, the callback calls).
   is_file_match, is_content_match (through the stream model of C11/C19), copy and
   the loop are hand-modelled, pinned by source hash and compared with the
   implementation on every run (harness/c18.py).  H is the piece hash function. *)
From Coq Require Import Lia Permutation.
From Torf Require Import Base Extracted Geometry Stream GeometryProofs HistoryProofs Reuse ReuseProofs.
Open Scope Z_scope.

Section C18.
Variable H : bytes -> bytes.

(* soundness and the copied state: True is returned only for a candidate among the items
   whose name, file set and piece length match and whose sampled pieces verify; the torrent
   then carries exactly that candidate's file order, piece length and hashes *)
Theorem C18_sound : forall d cb t items r t' log,
  reuse H d cb t items = (r, t', log) -> r = Ok true ->
  exists c, In (ICand c) items /\ is_file_match t c = true /\ is_content_match H d t c = Ok true /\ t' = copy c t.
Proof.
  intros d cb t items r t' log Hr E. destruct (search_sound H d cb t items 0%nat [] r t' log Hr) as [A _].
  destruct (A E) as (c & Hin & [H1 H2] & Ht). exists c. auto.
Qed.

Theorem C18_file_match : forall t c,
  is_file_match t c = true ->
  t_name t = c_name c /\ Permutation (t_files t) (c_files c) /\ t_pmin t <= c_plen c <= t_pmax t.
Proof.
  intros t c Hm. destruct (is_file_match_true t c Hm) as (A & B & C). split; [exact A|]. split; [apply file_sets_equal; exact B|exact C].
Qed.

(* the content check is exactly: every sampled piece, read from the local content through
   the candidate's layout, has the candidate's hash ... *)
Theorem C18_content_match : forall d t c,
  is_content_match H d t c = Ok true <->
  exists idxs, collect_indexes (c_files c) (c_plen c) (t_files t) = Ok idxs /\ forall i, In i idxs -> piece_ok H d c i.
Proof. exact (content_match_iff H). Qed.

(* ... and the sampled pieces include the first, middle and last piece of every file *)
Theorem C18_samples : forall d t c f k,
  is_content_match H d t c = Ok true ->
  In f (t_files t) -> NoDup (c_files c) -> nth_error (c_files c) k = Some f ->
  0 < c_plen c -> 0 < fsize f -> 0 <= offset_of (c_files c) k ->
  piece_ok H d c (first_piece (c_files c) (c_plen c) k) /\
  piece_ok H d c (middle_piece (c_files c) (c_plen c) k f) /\
  piece_ok H d c (last_piece (c_files c) (c_plen c) k f).
Proof. exact (content_match_samples H). Qed.

(* atomicity: whenever the call returns False or raises, the torrent is unchanged *)
Theorem C18_atomic : forall d cb t items r t' log,
  reuse H d cb t items = (r, t', log) -> r <> Ok true -> t' = t.
Proof.
  intros d cb t items r t' log Hr E. destruct (search_sound H d cb t items 0%nat [] r t' log Hr) as [_ B]. exact (B E).
Qed.

(* completeness: a passing candidate anywhere among the items is found, provided the
   callback never cancels and -- without a callback -- no entry is an error *)
Theorem C18_complete : forall d cb t items,
  quiet cb items ->
  (forall c, In (ICand c) items -> is_file_match t c = true -> exists b, is_content_match H d t c = Ok b) ->
  (exists c, In (ICand c) items /\ passes H d t c) ->
  fst (fst (reuse H d cb t items)) = Ok true.
Proof. intros d cb t items. exact (search_complete H d cb t items 0%nat []). Qed.
End C18.
Print Assumptions C18_sound.
Print Assumptions C18_file_match.
Print Assumptions C18_content_match.
Print Assumptions C18_samples.
Print Assumptions C18_atomic.
Print Assumptions C18_complete.

(* non-vacuity (hash = identity): piece length 4; local files 1 (10 bytes) and 2 (7 bytes);
   candidate A lists them in the other order and differs in the middle piece of file 1,
   candidate B is faithful; an unreadable entry comes first *)
Definition nb (l : list Z) : bytes := map Z.to_N l.
Definition ex_disk : disk := [(1, nb [1;2;3;4;5;6;7;8;9;10]); (2, nb [11;12;13;14;15;16;17])].
Definition ex_t : rtorrent := {| t_name := 0; t_files := [(1, 10); (2, 7)]; t_plen := None; t_pieces := None; t_pmin := 1; t_pmax := 8 |}.
Definition ex_B : candidate := {| c_name := 0; c_files := [(2, 7); (1, 10)]; c_plen := 4;
  c_hashes := [nb [11;12;13;14]; nb [15;16;17;1]; nb [2;3;4;5]; nb [6;7;8;9]; nb [10]] |}.
Definition ex_A : candidate := {| c_name := 0; c_files := [(2, 7); (1, 10)]; c_plen := 4;
  c_hashes := [nb [11;12;13;14]; nb [15;16;17;1]; nb [2;3;4;5]; nb [6;7;99;9]; nb [10]] |}.
Example C18_example :
  reuse (fun b => b) ex_disk CbPassive ex_t [IErr (DRead 2); ICand ex_A; ICand ex_B]
  = (Ok true, copy ex_B ex_t,
     [(0%nat, SFalse, true); (1%nat, SNone, false); (1%nat, SFalse, false); (2%nat, SNone, false); (2%nat, STrue, false)]) /\
  reuse (fun b => b) ex_disk CbNone ex_t [IErr (DRead 2); ICand ex_A; ICand ex_B] = (Err (DRead 2), ex_t, []) /\
  reuse (fun b => b) ex_disk (CbCancelAt 1) ex_t [IErr (DRead 2); ICand ex_A; ICand ex_B]
  = (Ok false, ex_t, [(0%nat, SFalse, true); (1%nat, SNone, false)]) /\
  middle_piece (c_files ex_A) 4 1 (1, 10) = 3.
Proof. vm_compute. repeat split; reflexivity. Qed.
