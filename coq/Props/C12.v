(* C12 -- progress reports count every piece once and always finish.
   [reach c s]: s is reachable in the small-step model of the hashing pipeline
   (model/Pipeline.v) under some schedule -- any interleaving of main/collector,
   reader, janitor and hasher threads at their scheduling points, any placement of
   timeout expiry, any non-negative advance of the clock at each reading.
   [s_calls s] are the invocations of the user's callback so far as
   (done, piece index, error); [s_seen s] the pieces collected so far.
   [collect_item] is the collector's handling of one piece after the clock was read
   (Collector._collect -> _TranslatingCallback -> _IntervaledCallback -> Generate/VerifyCallback). *)
From Coq Require Import Lia Sorted.
From Torf Require Import Base Pipeline PipelineProofs FlowProofs LastCallProofs VerifyTrueProofs LastCallVerify DrainProofs LastCallVerdict LastCallQuietGen PipeExplore PipeExploreProofs PipeConfigs.
Open Scope Z_scope.

(* under every schedule, thread count, interval and input: the done counter of every report lies
   within 1 .. number of pieces collected so far; reports are ordered by it; a value repeats only
   inside the batch of one piece, to deliver its errors *)
Theorem C12_done_counter : forall c s, reach c s -> calls_ok (zlen (s_seen s)) (s_calls s).
Proof. exact done_counter_ok. Qed.
Print Assumptions C12_done_counter.

(* "unless the run is cancelled, the last call reports done = total": for every schedule, number of hashers,
   reporting interval and clock, a hashing run over readable pieces with a progress callback that returns True
   made its last report with done = total *)
Theorem C12_last_report_is_total : forall c s hs,
  reach c s -> cf_verify c = None -> has_user_cb c = true ->
  yielded (cf_items c) = map RPiece hs -> cf_total c = zlen hs -> 0 < cf_total c ->
  s_result s = Some ResTrue ->
  exists pre idx e, s_calls s = pre ++ [(cf_total c, idx, e)].
Proof. exact last_call_reports_total. Qed.
Print Assumptions C12_last_report_is_total.

(* the same for VERIFICATION: for every schedule, number of hashers, reporting interval and clock, a verification
   run with a progress callback that returns True made its last report with done = total *)
Theorem C12_last_report_is_total_verify : forall c s expd,
  reach c s -> cf_verify c = Some expd -> has_user_cb c = true ->
  cf_total c = zlen expd -> zlen (yielded (cf_items c)) = cf_total c -> 0 < cf_total c ->
  s_result s = Some ResTrue ->
  exists pre idx e, s_calls s = pre ++ [(cf_total c, idx, e)].
Proof. exact last_call_reports_total_verify. Qed.
Print Assumptions C12_last_report_is_total_verify.

(* UNBOUNDED, whatever the verdict: a verification run with a progress callback that was not told to stop makes its
   last report with done = total -- also when it returns False because pieces are missing, missized or corrupt
   (items carrying errors or no data are counted like any other) -- for every schedule, number of hashers,
   reporting interval and clock.  With a passive callback (one that returns None) the run is never told to stop,
   so the second theorem has no side condition.  (Uses the drain and reader theorems of C03.) *)
Theorem C12_last_report_is_total_unstopped_verify : forall c s r,
  (1 <= cf_hashers c)%nat -> reach c s -> cf_verify c <> None -> has_user_cb c = true ->
  zlen (yielded (cf_items c)) = cf_total c -> 0 < cf_total c ->
  s_result s = Some r -> verdict r -> s_stop s = false ->
  exists pre idx e, s_calls s = pre ++ [(cf_total c, idx, e)].
Proof. exact last_call_reports_total_unstopped_verify. Qed.
Print Assumptions C12_last_report_is_total_unstopped_verify.

Theorem C12_last_report_is_total_quiet_verify : forall c s r,
  (1 <= cf_hashers c)%nat -> reach c s -> cf_verify c <> None -> cf_plan c = CbQuiet ->
  zlen (yielded (cf_items c)) = cf_total c -> 0 < cf_total c ->
  s_result s = Some r -> verdict r ->
  exists pre idx e, s_calls s = pre ++ [(cf_total c, idx, e)].
Proof. exact last_call_reports_total_quiet_verify. Qed.
Print Assumptions C12_last_report_is_total_quiet_verify.

(* the same for hashing runs: a run with a progress callback over readable content that returns a verdict without
   having been told to stop made its last report with done = total *)
Theorem C12_last_report_is_total_unstopped : forall c s r hs,
  (1 <= cf_hashers c)%nat -> reach c s -> cf_verify c = None -> has_user_cb c = true ->
  yielded (cf_items c) = map RPiece hs -> cf_total c = zlen hs -> 0 < cf_total c ->
  s_result s = Some r -> verdict r -> s_stop s = false ->
  exists pre idx e, s_calls s = pre ++ [(cf_total c, idx, e)].
Proof. exact last_call_reports_total_unstopped_generate. Qed.
Print Assumptions C12_last_report_is_total_unstopped.

(* ... and with a passive callback a hashing run over readable content is never told to stop: every such run that
   returns a verdict returns True and made its last report with done = total -- no side condition left. *)
Theorem C12_last_report_is_total_quiet : forall c s r hs,
  (1 <= cf_hashers c)%nat -> reach c s -> cf_verify c = None -> cf_plan c = CbQuiet ->
  yielded (cf_items c) = map RPiece hs -> cf_total c = zlen hs -> 0 < cf_total c ->
  s_result s = Some r -> verdict r ->
  r = ResTrue /\ exists pre idx e, s_calls s = pre ++ [(cf_total c, idx, e)].
Proof. exact last_call_reports_total_quiet_generate. Qed.
Print Assumptions C12_last_report_is_total_quiet.

(* non-vacuity: a verification with a passive callback over three items of which the second carries a read error:
   the run returns False and its last report is (3, _, _) *)
Example C12_quiet_verify_example :
  let s := auto_run 400 V_exc_cb (init V_exc_cb) in
  reach V_exc_cb s /\ s_result s = Some ResFalse /\ cf_plan V_exc_cb = CbQuiet /\
  s_calls s = [(1, 0, None); (2, 1, Some 2)] ++ [(3, 2, None)].
Proof. split; [apply auto_run_reach; constructor|vm_compute; repeat split; reflexivity]. Qed.

(* what one collected piece adds: nothing, or one batch carrying the current counter value;
   several entries only if all of them are errors *)
Theorem C12_one_piece_one_batch : forall c s idx h exc,
  exists es, s_calls (collect_item c s idx h exc) = s_calls s ++ batch (zlen (s_seen s)) idx es /\
             (forall e, In e es -> length es = 1%nat \/ e <> None).
Proof. exact collect_item_calls. Qed.
Print Assumptions C12_one_piece_one_batch.

(* the interval never suppresses an error, a hash mismatch or the final report: whatever the clock
   and the interval, such a piece is reported *)
Theorem C12_forced_reports : forall c s idx h exc,
  has_user_cb c = true -> (cf_verify c <> None \/ exc = []) ->
  (exc <> [] \/ zlen (s_seen s) >= cf_total c \/ mismatch c idx h = true) ->
  exists e es, s_calls (collect_item c s idx h exc) = s_calls s ++ batch (zlen (s_seen s)) idx (e :: es).
Proof. exact collect_item_forced. Qed.
Print Assumptions C12_forced_reports.

(* verification with a callback that never cancels: every error of the piece is delivered, and a
   hash mismatch is delivered as a content error (1000) *)
Theorem C12_errors_delivered : forall c s idx h exc ex,
  cf_plan c = CbQuiet -> cf_verify c = Some ex -> exc <> [] ->
  s_calls (collect_item c s idx h exc) = s_calls s ++ batch (zlen (s_seen s)) idx (map Some exc).
Proof. exact collect_item_reports_errors. Qed.
Print Assumptions C12_errors_delivered.

Theorem C12_mismatch_delivered : forall c s idx h ex,
  cf_plan c = CbQuiet -> cf_verify c = Some ex -> mismatch c idx h = true ->
  s_calls (collect_item c s idx h []) = s_calls s ++ [(zlen (s_seen s), idx, Some 1000)].
Proof. exact collect_item_reports_mismatch. Qed.
Print Assumptions C12_mismatch_delivered.

(* with a zero interval every collected piece is reported: the counter takes every value in turn *)
Theorem C12_zero_interval : forall c s idx h exc,
  cf_interval c = 0 -> s_prev s <= s_now s -> has_user_cb c = true -> (cf_verify c <> None \/ exc = []) ->
  exists e es, s_calls (collect_item c s idx h exc) = s_calls s ++ batch (zlen (s_seen s)) idx (e :: es).
Proof. exact collect_item_interval0. Qed.
Print Assumptions C12_zero_interval.

(* the clock premise of C12_zero_interval holds in every reachable state *)
Theorem C12_clock_monotone : forall c s, reach c s -> s_prev s <= s_now s.
Proof. intros c s H. exact (proj1 (progress_invariant c s H)). Qed.
Print Assumptions C12_clock_monotone.

(* non-vacuity: verification of three pieces (the second carries two errors) with a quiet callback,
   interval 5 s, two hashers: a concrete schedule in which the pieces are collected out of order *)
Definition ex_c12 : config :=
  {| cf_items := [RPiece 1; RExc [2; 900]; RPiece 3]; cf_total := 3; cf_hashers := 1; cf_interval := 5000;
     cf_plan := CbQuiet; cf_verify := Some [1; 2; 3]; cf_refuse := [] |}.
Example C12_example :
  reach ex_c12 (auto_run 200 ex_c12 (init ex_c12)) /\
  s_calls (auto_run 200 ex_c12 (init ex_c12)) = [(2, 1, Some 2); (2, 1, Some 900); (3, 2, None)] /\   (* the first report falls into the interval *)
  s_result (auto_run 200 ex_c12 (init ex_c12)) = Some ResFalse.
Proof. split; [apply auto_run_reach; apply r_init|]. vm_compute. split; reflexivity. Qed.
