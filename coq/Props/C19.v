(* C19 -- content-stream objects give history-independent answers.
   [hstate H d fs L hashes [] hist] is the open-handle table of one stream object
   after the operation history [hist] (complete iterations, iterations abandoned
   after k items, get_piece, verify_piece, close) on disk [d]; [hstep] performs
   one more operation and returns (result, new table). *)
From Torf Require Import Base Extracted Geometry Stream History HistoryProofs.
Open Scope Z_scope.

Theorem C19_independent : forall (H : bytes -> bytes) d fs L hashes hist1 hist2 o,
  fst (hstep H d fs L hashes (hstate H d fs L hashes [] hist1) o) =
  fst (hstep H d fs L hashes (hstate H d fs L hashes [] hist2) o).
Proof. exact history_independent. Qed.
Print Assumptions C19_independent.

Theorem C19_cap : forall (H : bytes -> bytes) d fs L hashes hist,
  zlen (hstate H d fs L hashes [] hist) <= ex_max_open_files + 1.
Proof. exact open_files_bounded. Qed.
Print Assumptions C19_cap.

Theorem C19_close : forall (H : bytes -> bytes) d fs L hashes h,
  snd (hstep H d fs L hashes h HClose) = [].
Proof. exact close_closes_all. Qed.
Print Assumptions C19_close.

(* non-vacuity: 13 one-byte files (more than the cap), L = 2: after a full
   iteration 11 files are open; a second iteration returns the same 7 pieces. *)
Example C19_example :
  let d := map (fun i => (i, [Z.to_N i])) [0;1;2;3;4;5;6;7;8;9;10;11;12] in
  let fs := map (fun i => (i, 1)) [0;1;2;3;4;5;6;7;8;9;10;11;12] in
  let run := hrun (fun b => b) d fs 2 [] [] [HIter (-1); HIter (-1); HGet 3; HClose] in
  map snd run = [11; 11; 11; 0] /\
  nth 0 (map fst run) OClosed = nth 1 (map fst run) OClosed /\
  nth 2 (map fst run) OClosed = OPiece (Ok [6%N; 7%N]).
Proof. vm_compute. repeat split; reflexivity. Qed.
