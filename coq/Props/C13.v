(* C13 -- magnet links round-trip (quoting core).
   [quote_plus]/[unquote_plus]: urllib.parse's functions on UTF-8 byte strings.
   Proved for ALL byte strings: unquoting inverts quoting and quoted text never
   contains the field separator '&' or the key/value separator '=', so a rendered
   URI splits back into exactly the rendered fields.  The composition with the
   field-wise parser (from_string) is tied by the correspondence run on rendered
   magnets (model render = implementation render, model parse = implementation
   parse), not by a theorem; see DESIGN.md. *)
From Torf Require Import Base Sexp UrlQuote Validate Magnet UrlQuoteProofs.
Open Scope Z_scope.

Theorem C13_quote : forall b, Forall is_byte b -> unquote_plus (quote_plus b) = b.
Proof. exact unquote_plus_quote_plus. Qed.
Print Assumptions C13_quote.

Theorem C13_no_separators : forall b, Forall is_byte b ->
  ~ In 38%N (quote_plus b) /\ ~ In 61%N (quote_plus b).
Proof. exact quote_plus_no_separators. Qed.
Print Assumptions C13_no_separators.

(* non-vacuity: a name with reserved characters and non-ASCII text round-trips through
   render and parse in the model *)
Example C13_example :
  let name := [97; 38; 98; 61; 99; 32; 43; 37; 35; 63; 195; 164]%N in      (* "a&b=c +%#?ä" *)
  let m := {| m_hash := repeat 97 40; m_dn := Some name; m_xl := Some 5;
              m_tr := [[104; 116; 116; 112; 58; 47; 47; 97; 46; 98; 47; 120; 63; 113; 61; 49; 38; 122; 61; 37; 50; 48]%N];
              m_xs := None; m_as := None; m_ws := []; m_kt := [[107; 49]%N; [107; 50]%N];
              m_x := [([112; 101]%N, [49; 46; 50; 58; 51]%N)] |} in
  unquote_plus (quote_plus name) = name /\
  parse simple_is_url (render m) = Ok m.
Proof. vm_compute. split; reflexivity. Qed.
