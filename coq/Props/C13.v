(* C13 -- magnet links round-trip.
   [render] is Magnet.__str__, [parse] is Magnet.from_string (model/Magnet.v;
   text and URLs are UTF-8 byte strings; is_url is a parameter).
   Main theorem: for EVERY well-formed magnet object m, parse (render m) = m.
   Well-formed ([wf]) says what the constructor guarantees plus what the known
   finding excludes: a valid hash (40 hex / 32 base32), a non-empty display name
   without newline, size >= 1, valid URLs without spaces and without repetition,
   keywords without white space, distinct extension parameter names without
   reserved characters, non-empty values.
   Building blocks, proved for ALL byte strings: unquoting inverts quoting, quoted
   text never contains '&' or '=', and a rendered query splits back into exactly
   the rendered fields. *)
From Coq Require Import Lia.
From Torf Require Import Base Sexp UrlQuote Validate Magnet UrlQuoteProofs QueryProofs MagnetRoundtrip RegexProofs.
Open Scope Z_scope.

Theorem C13_roundtrip : forall is_url m, wf is_url m -> parse is_url (render m) = Ok m.
Proof. exact parse_render. Qed.
Print Assumptions C13_roundtrip.

Theorem C13_quote : forall b, Forall is_byte b -> unquote_plus (quote_plus b) = b.
Proof. exact unquote_plus_quote_plus. Qed.
Print Assumptions C13_quote.

Theorem C13_no_separators : forall b, Forall is_byte b ->
  ~ In 38%N (quote_plus b) /\ ~ In 61%N (quote_plus b).
Proof. exact quote_plus_no_separators. Qed.
Print Assumptions C13_no_separators.

(* a rendered query string splits back into exactly the rendered fields *)
Theorem C13_query_fields : forall fields,
  Forall (fun p => key_ok (fst p) /\ enc_ok (snd p)) fields ->
  parse_qsl (join_with 38%N (map (fun p => fst p ++ 61%N :: snd p) fields)) = map (fun p => (fst p, unquote_plus (snd p))) fields.
Proof. exact parse_qsl_join. Qed.
Print Assumptions C13_query_fields.

(* refuted on the faithful model (known finding): an empty display name is lost *)
Theorem C13_empty_name_refuted :
  exists m, m_dn m = Some [] /\ m_dn match parse simple_is_url (render m) with Ok m' => m' | Err _ => m end = None.
Proof.
  exists {| m_hash := repeat 97 40; m_dn := Some []; m_xl := None; m_tr := []; m_xs := None; m_as := None; m_ws := []; m_kt := []; m_x := [] |}.
  vm_compute. split; reflexivity.
Qed.
Print Assumptions C13_empty_name_refuted.

(* non-vacuity: a magnet with reserved characters and non-ASCII text in the name, a tracker with query
   and escapes, keywords and an extension parameter is well-formed and round-trips *)
Definition ex_m : magnet :=
  {| m_hash := repeat 97 40;
     m_dn := Some [97; 38; 98; 61; 99; 32; 43; 37; 35; 63; 195; 164]%N;      (* "a&b=c +%#?ä" *)
     m_xl := Some 5;
     m_tr := [[104; 116; 116; 112; 58; 47; 47; 97; 46; 98; 47; 120; 63; 113; 61; 49; 38; 122; 61; 37; 50; 48]%N];
     m_xs := None; m_as := None; m_ws := []; m_kt := [[107; 49]%N; [107; 50]%N];
     m_x := [([112; 101]%N, [49; 46; 50; 58; 51]%N)] |}.

Ltac bytes_ok := repeat constructor; unfold is_byte; cbn; lia.

Example C13_example : wf simple_is_url ex_m /\ parse simple_is_url (render ex_m) = Ok ex_m.
Proof.
  split; [|vm_compute; reflexivity].
  constructor; cbn [ex_m m_hash m_dn m_xl m_tr m_xs m_as m_ws m_kt m_x].
  - vm_compute. reflexivity.
  - split; [split; [discriminate|bytes_ok]|]. cbn. intros H. repeat (destruct H as [H|H]; [discriminate H|]). exact H.
  - lia.
  - split; [|repeat constructor; intros []]. constructor; [|constructor]. split; [split; [vm_compute; reflexivity|]|split; [discriminate|bytes_ok]].
    cbn. intros H. repeat (destruct H as [H|H]; [discriminate H|]). exact H.
  - split; constructor.
  - exact I.
  - exact I.
  - repeat constructor; try discriminate; try (unfold is_byte; cbn; lia).
  - split; [|repeat constructor; intros []]. constructor; [|constructor]. cbn [fst snd]. split.
    + unfold key_ok. cbn. repeat split; intros H; repeat (destruct H as [H|H]; [discriminate H|]); exact H.
    + split; [discriminate|bytes_ok].
Qed.
