(* C16 -- tracker and seed lists stay in sync with the metainfo under any edit history.
   [step valid norm m op] models ONE operation through Torrent.trackers /
   .webseeds / .httpseeds (read the list from the metainfo, edit, write back);
   [final m ops] is the metainfo after a history.  [valid] = utils.is_url on the
   given string, [norm] = the stored form (URL(s)): any functions with the two
   stated closure properties.  [Inv]: there are tiers t, duplicate-free, without
   empty tier, of well-formed stored URLs only, such that announce / announce-list
   are exactly what Torrent._trackers_changed writes for t (first URL of the first
   tier; the tiers iff more than one URL), and url-list / httpseeds are absent or
   non-empty duplicate-free lists of well-formed URLs.
   Outside the model: slice assignment and index-assignment of a duplicate
   (known findings, see KNOWN_FINDINGS). *)
From Coq Require Import Lia.
From Torf Require Import Base Extracted Geometry MonList MonListProofs MonListInv Dispatch.
Open Scope Z_scope.

Theorem C16_inv : forall valid norm,
  (forall u, valid u = true -> valid (norm u) = true) ->
  (forall u, valid u = true -> norm (norm u) = norm u) ->
  forall ops, Inv valid norm (final valid norm init ops).
Proof. intros valid norm H1 H2 ops. apply history_inv; [assumption|assumption|apply Inv_init]. Qed.
Print Assumptions C16_inv.

Theorem C16_step_inv : forall valid norm,
  (forall u, valid u = true -> valid (norm u) = true) ->
  (forall u, valid u = true -> norm (norm u) = norm u) ->
  forall m o, Inv valid norm m -> Inv valid norm (snd (step valid norm m o)).
Proof. exact step_inv. Qed.
Print Assumptions C16_step_inv.

(* reading the tiers back from the written metainfo never fails and returns them *)
Theorem C16_read_back : forall valid norm,
  (forall u, valid u = true -> valid (norm u) = true) ->
  (forall u, valid u = true -> norm (norm u) = norm u) ->
  forall t m, tiers_ok valid norm t -> read_trackers valid norm (write_trackers t m) = Ok t.
Proof. exact read_back. Qed.
Print Assumptions C16_read_back.

(* announce is the first URL of the first tier; announce-list the tiers iff more than one URL *)
Theorem C16_written_fields : forall valid norm t,
  tiers_ok valid norm t ->
  md_announce (write_trackers t init) = match flat t with u :: _ => Some u | [] => None end /\
  md_alist (write_trackers t init) = if Z.of_nat (length (flat t)) <=? 1 then None else Some t.
Proof. intros valid norm t H. split; [apply (first_url_is_head valid norm t H)|reflexivity]. Qed.
Print Assumptions C16_written_fields.

(* the URL pool used by the correspondence run satisfies the two hypotheses *)
Theorem C16_pool_hypotheses :
  (forall u, pool_valid u = true -> pool_valid (pool_norm u) = true) /\
  (forall u, pool_valid u = true -> pool_norm (pool_norm u) = pool_norm u).
Proof.
  unfold pool_valid, pool_norm. split; intros u H.
  - destruct (u =? 4) eqn:E4; [reflexivity|exact H].
  - destruct (u =? 4) eqn:E4; [reflexivity|]. rewrite E4. reflexivity.
Qed.
Print Assumptions C16_pool_hypotheses.

(* non-vacuity: a history with a duplicate across tiers, an in-place tier edit, an emptied tier *)
Example C16_example :
  map snd (run pool_valid pool_norm init
             [TSet [[0; 1]; [1; 2]]; TTier 0 (LAppend 2); TTier 1 LClear; TAppend [7]; SSet Web [3; 3; 4]])
  = [ {| md_announce := Some 0; md_alist := Some [[0; 1]; [2]]; md_web := None; md_http := None |};
      {| md_announce := Some 0; md_alist := Some [[0; 1]; [2]]; md_web := None; md_http := None |};
      {| md_announce := Some 0; md_alist := Some [[0; 1]]; md_web := None; md_http := None |};
      {| md_announce := Some 0; md_alist := Some [[0; 1]]; md_web := None; md_http := None |};
      {| md_announce := Some 0; md_alist := Some [[0; 1]]; md_web := Some [3; 5]; md_http := None |} ].
Proof. vm_compute. reflexivity. Qed.
