(* C03 -- hashing is schedule-independent and always terminates.
   The pipeline model (model/Pipeline.v) has one step per scheduling point of a
   thread (queue put/get, event set/wait, thread start/join/is_alive, clock read,
   stop-flag access); a blocking operation with a timeout may take its timeout
   branch whenever the queue is empty / the event is unset, which models arbitrary
   delays.  Every schedule the harness records on the real code is replayed on
   this model (harness/pipecheck.py).

   [all_schedules_ok c ref may_false raises]: for EVERY state reachable under ANY
   sequence of enabled choices (xreach): nothing can move only if the call has
   returned and all workers have ended (no deadlock); no worker is alive once the
   call has returned; a returned True comes with exactly the hashes [ref] in order;
   False / exceptions only as allowed; and from the state a final state is still
   reachable (no trap; with a fair scheduler the run ends).  These statements are
   decided by exhaustive exploration inside Coq (vm_compute) for the concrete
   configurations named below and lifted to all schedules by checkb_sound; they
   are bounded in the configuration, complete in the schedules.  The clock is
   normalised there (interval 0, no out-of-memory events: it does not influence
   the behaviour). *)
From Coq Require Import Lia.
From Coq Require Import Permutation.
From Torf Require Import Base Pipeline PipelineProofs FlowProofs ThreadProofs DeadlockProofs ConservationProofs ReaderDoneProofs DrainProofs TerminationProofs VerifyTrueProofs VerifyFalseProofs CompleteProofs ExceptionProofs LastCallProofs LastCallVerify LastCallVerdict LastCallQuietGen ReportProofs NoCallbackProofs NoCallbackGenProofs ScheduleIndependent PipeExplore PipeExploreProofs NormProofs PipeConfigs.
Open Scope Z_scope.

(* soundness of the exploration: what the checker accepts holds for every reachable state *)
Theorem C03_exploration_sound : forall fuel depth c ref may_false raises,
  checkb fuel depth c ref may_false raises = true ->
  forall s, xreach c s -> goodb c ref may_false raises s = true /\ finishes c s.
Proof. exact checkb_sound. Qed.
Print Assumptions C03_exploration_sound.

(* the explored (clock-normalised) system covers the model's own runs: for interval 0 and inputs without
   out-of-memory events, every state reachable in the model under any schedule and any advance of the clock
   normalises to an explored state -- so the exploration theorems below speak about [reach] *)
Theorem C03_exploration_covers_model : forall c ref may_false raises,
  cf_interval c = 0 -> no_oom (cf_items c) -> all_schedules_ok c ref may_false raises ->
  forall s, reach c s -> goodb c ref may_false raises (norm s) = true /\ finishes c (norm s).
Proof. intros c ref mf rs Hi Ho Hall s Hr. exact (Hall (norm s) (reach_covered c s Hi Ho Hr)). Qed.
Print Assumptions C03_exploration_covers_model.

(* UNBOUNDED: whenever the call has returned -- under every schedule, with any number of hashers and
   pieces, any callback plan, any read fault, any refused additional hasher and any clock -- no
   worker thread is running any more (reader, janitor and every hasher have ended).  The only
   exception is the RuntimeError raised when the reader, the janitor or the first hasher cannot be
   started (C04's known finding).  Proved by an invariant over the thread life cycles, the
   janitor's bookkeeping of tracked hashers and the join sequence (proofs/ThreadProofs.v). *)
Theorem C03_no_worker_left_unbounded : forall c s,
  (1 <= cf_hashers c)%nat -> reach c s -> s_mdone s = true -> s_result s <> Some (ResRuntimeError 1) ->
  running_threads c s = [].
Proof. exact no_worker_left. Qed.
Print Assumptions C03_no_worker_left_unbounded.

(* UNBOUNDED: no schedule deadlocks.  In every state reachable under any schedule -- any number of hashers and
   pieces, any callback plan, read fault, refused additional hasher, any clock -- some thread can take a step as
   long as the call has not returned.  Invariants (proofs/DeadlockProofs.v): the end-of-stream token of the piece
   queue is unique and last (a hasher that wants to put it back finds the queue empty), the vital hasher works
   as long as the reader does, the hash queue holds its end marker from the moment the janitor has ended until
   the collector takes it, main only waits for hashers it has seen alive. *)
Theorem C03_no_deadlock_unbounded : forall c s,
  (1 <= cf_hashers c)%nat -> reach c s -> s_mdone s = false -> options c s <> [].
Proof. exact no_deadlock. Qed.
Print Assumptions C03_no_deadlock_unbounded.

(* UNBOUNDED: no piece is ever lost between the reader and the collector.  In every state reachable under any
   schedule -- any number of hashers and pieces, any callback plan (incl. cancelling and raising ones), read
   fault, refused additional hasher, out-of-memory handling, any clock -- the pieces the reader has handed over so
   far (0 .. s_ridx s - 1) are, each exactly once, in the piece queue, in the hands of a hasher, in the hash queue
   or with the collector ([indices s] lists these places).  Invariant (proofs/ConservationProofs.v): the number
   of piece indexes in those places equals the reader's counter, and a hasher that is not running holds
   nothing; with "no index twice" and "every index below the counter" (FlowProofs.v) this is a permutation. *)
Theorem C03_no_piece_lost_unbounded : forall c s,
  (1 <= cf_hashers c)%nat -> reach c s ->
  Permutation (indices s) (map Z.of_nat (seq 0 (Z.to_nat (s_ridx s)))).
Proof. exact no_piece_lost. Qed.
Print Assumptions C03_no_piece_lost_unbounded.

(* UNBOUNDED, "always terminates": from every state reachable under any schedule -- any number of hashers and
   pieces, any callback plan (cancelling, raising), read fault, out-of-memory handling, refused additional hasher,
   any clock -- some schedule leads to a state in which the call has returned; so under a fair scheduler every
   call returns.  Proof (proofs/TerminationProofs.v): a measure of the remaining work (items still to read, pieces
   in the queues and with the hashers, the program counters of reader, hashers, janitor and main) that some
   enabled step strictly decreases as long as the call has not returned: the unproductive steps -- the idle
   timeout of the vital hasher, the janitor's timeout and its re-scan while a hasher still runs -- are never the
   only ones available (a strengthening of deadlock-freedom, using that the vital hasher, once started, is never
   "new" again and sets the finalize event before it ends).  The second theorem bounds the number of steps of
   that schedule by the measure of the current state. *)
Theorem C03_can_always_finish : forall c s,
  (1 <= cf_hashers c)%nat -> reach c s -> exists s', steps c s s' /\ s_mdone s' = true.
Proof. exact can_always_finish. Qed.
Print Assumptions C03_can_always_finish.

Theorem C03_can_finish_within_measure : forall c s,
  (1 <= cf_hashers c)%nat -> reach c s -> exists s', nsteps c (mu s) s s' /\ s_mdone s' = true.
Proof. exact can_finish_within_measure. Qed.
Print Assumptions C03_can_finish_within_measure.

(* non-vacuity: the measure of the initial state of a run with six pieces and two hashers, and after 40 steps *)
Example C03_measure_example :
  let cfg := mk (map RPiece [11; 12; 13; 14; 15; 16]) 6 2 CbQuiet [] None in
  (mu (init cfg), mu (auto_run 40 cfg (init cfg)), mu (auto_run 200 cfg (init cfg))) = (98, 35, 0)%nat.
Proof. vm_compute. reflexivity. Qed.

(* UNBOUNDED: a call that returns a verdict (True or False, no exception) has drained the pipeline: the reader has
   ended, and every piece it handed over has been collected -- nothing is left in the piece queue, with a hasher
   or in the hash queue.  Invariants (proofs/DrainProofs.v): once a hasher has met the end-of-stream token the
   piece queue holds no piece; the janitor passes its wait only after the finalize event; the hash queue is
   pieces, then -- once the janitor has ended -- the end marker and nothing after it; what a hasher holds is a
   piece; main's normal shutdown starts only when it has taken that end marker. *)
Theorem C03_verdict_means_drained : forall c s r,
  (1 <= cf_hashers c)%nat -> reach c s -> s_result s = Some r -> verdict r ->
  s_rst s = TDone /\ indices s = s_seen s /\ Permutation (s_seen s) (map Z.of_nat (seq 0 (Z.to_nat (s_ridx s)))).
Proof. exact verdict_means_drained. Qed.
Print Assumptions C03_verdict_means_drained.

(* UNBOUNDED: a reader that ended without an error in a run that was never told to stop has handed over every item *)
Theorem C03_reader_done_means_everything_read : forall c s,
  reach c s -> s_rst s = TDone -> s_rexc s = None -> s_stop s = false -> s_ridx s = nitems c.
Proof. exact reader_done_means_everything_read. Qed.
Print Assumptions C03_reader_done_means_everything_read.

(* UNBOUNDED, "the same outcome as the sequential reference": a hashing run over readable content (every item a
   piece, as many as the torrent has) that returns a verdict without having been told to stop returns True --
   under every schedule, with any number of hashers, any out-of-memory handling, any clock.  (With
   C01_generate_unbounded: the stored hashes are then exactly the reference hashes, in order.) *)
Theorem C03_generate_unstopped_returns_true : forall c s r hs,
  (1 <= cf_hashers c)%nat -> reach c s -> cf_verify c = None ->
  yielded (cf_items c) = map RPiece hs -> cf_total c = zlen hs ->
  s_result s = Some r -> verdict r -> s_stop s = false -> r = ResTrue.
Proof. exact generate_unstopped_returns_true. Qed.
Print Assumptions C03_generate_unstopped_returns_true.

(* UNBOUNDED, the capstone -- "hashing is schedule-independent": two runs of the same hashing job over readable content,
   under ANY two schedules and clocks, with any number of hashers, that return a verdict return the same one (True)
   and have stored the same hashes, the reference hashes in piece order.  For runs without a callback or with a
   passive one (a cancelling callback makes the outcome depend on when it cancels, by design). *)
Theorem C03_generate_schedule_independent : forall c s1 s2 r1 r2 hs,
  (1 <= cf_hashers c)%nat -> cf_verify c = None -> (cf_plan c = CbAbsent \/ cf_plan c = CbQuiet) ->
  yielded (cf_items c) = map RPiece hs -> cf_total c = zlen hs ->
  reach c s1 -> reach c s2 -> s_result s1 = Some r1 -> s_result s2 = Some r2 -> verdict r1 -> verdict r2 ->
  r1 = r2 /\ sorted_hashes (s_hashes s1) = sorted_hashes (s_hashes s2).
Proof. exact generate_schedule_independent. Qed.
Print Assumptions C03_generate_schedule_independent.

(* non-vacuity: six pieces, two hashers: states in the middle of a run, pieces spread over the queues *)
Example C03_no_piece_lost_example :
  let cfg := mk (map RPiece [11; 12; 13; 14; 15; 16]) 6 2 CbQuiet [] None in
  map (fun f => let s := auto_run f cfg (init cfg) in (s_ridx s, indices s, s_mdone s)) [20; 40; 200]%nat =
  [(3, [2; 0; 1], false); (6, [5; 4; 3; 0; 1; 2], false); (6, [0; 1; 2; 3; 4; 5], true)].
Proof. vm_compute. reflexivity. Qed.

(* non-vacuity of the completeness theorems: the same run ends with True, the stop flag never set, the reader at 6 *)
Example C03_unstopped_example :
  let cfg := mk (map RPiece [11; 12; 13; 14; 15; 16]) 6 2 CbQuiet [] None in
  let s := auto_run 200 cfg (init cfg) in
  reach cfg s /\ s_result s = Some ResTrue /\ s_stop s = false /\ s_rst s = TDone /\ s_ridx s = 6 /\ yielded (cf_items cfg) = map RPiece [11; 12; 13; 14; 15; 16].
Proof. split; [apply auto_run_reach; constructor|vm_compute; repeat split; reflexivity]. Qed.

(* reading goodb *)
Theorem C03_no_deadlock : forall c ref mf rs s,
  goodb c ref mf rs s = true -> options c s = [] -> s_mdone s = true /\ running_threads c s = [].
Proof. exact goodb_no_deadlock. Qed.
Print Assumptions C03_no_deadlock.

Theorem C03_no_thread_left : forall c ref mf rs s,
  goodb c ref mf rs s = true -> s_mdone s = true -> running_threads c s = [].
Proof. exact goodb_no_leftover. Qed.
Print Assumptions C03_no_thread_left.

(* generate(), 4 pieces, 1 hasher (more pieces than the piece queue holds): every schedule returns
   True with the four digests in order, leaves no thread, cannot deadlock *)
Theorem C03_generate_4_pieces_1_hasher : all_schedules_ok G_4x1 [1; 2; 3; 4] false [].
Proof. exact G_4x1_ok. Qed.
Print Assumptions C03_generate_4_pieces_1_hasher.

(* generate(), 2 pieces, 2 hashers (one may quit when idle, timeouts anywhere) *)
Theorem C03_generate_2_pieces_2_hashers : all_schedules_ok G_2x2 [1; 2] false [].
Proof. exact G_2x2_ok. Qed.
Print Assumptions C03_generate_2_pieces_2_hashers.

(* verify(), intact content, 2 hashers: True under every schedule *)
Theorem C03_verify_clean_2_hashers : all_schedules_ok V_clean [1; 2] false [].
Proof. exact V_clean_ok. Qed.
Print Assumptions C03_verify_clean_2_hashers.

(* verify(), one corrupt piece, 2 hashers, with callback: False under every schedule *)
Theorem C03_verify_corrupt_2_hashers : all_schedules_ok V_corrupt_cb [1; 2; 3] true [].
Proof. exact V_corrupt_cb_ok. Qed.
Print Assumptions C03_verify_corrupt_2_hashers.

(* unbounded in everything (any schedule, any number of hashers and pieces, any clock): a hashing run over
   readable pieces that returns True has collected exactly the digests of the pieces, in piece order --
   nothing lost, nothing duplicated, nothing out of order *)
Theorem C03_true_is_reference : forall c s hs,
  reach c s -> cf_verify c = None -> yielded (cf_items c) = map RPiece hs -> cf_total c = zlen hs ->
  s_result s = Some ResTrue -> sorted_hashes (s_hashes s) = hs.
Proof. exact true_means_reference. Qed.
Print Assumptions C03_true_is_reference.

(* ... and the collector's duplicate check (an internal AssertionError) can never fire *)
Theorem C03_no_piece_twice : forall c s idx h exc r,
  reach c s -> s_hq s = QPiece idx h exc :: r -> ~ In idx (s_seen s).
Proof. exact no_piece_twice. Qed.
Print Assumptions C03_no_piece_twice.

(* the invariant behind both: no piece index is in two places at once, every item in flight carries the
   payload of its input item, the stored digests belong to their indices *)
Theorem C03_flow_invariant : forall c s, reach c s -> FInv c s.
Proof. exact flow_invariant. Qed.
Print Assumptions C03_flow_invariant.

(* unbounded in everything: the collector's bookkeeping under any schedule *)
Theorem C03_reports_ordered : forall c s, reach c s -> calls_ok (zlen (s_seen s)) (s_calls s).
Proof. exact done_counter_ok. Qed.
Print Assumptions C03_reports_ordered.

(* non-vacuity: the explored state spaces are not trivial, and a schedule exists that ends in True *)
Example C03_example :
  option_map (@length state) (explore FUEL G_4x1) = Some 559%nat /\
  s_result (auto_run 300 G_4x1 (init G_4x1)) = Some ResTrue /\
  sorted_hashes (s_hashes (auto_run 300 G_4x1 (init G_4x1))) = [1; 2; 3; 4].
Proof. vm_compute. repeat split; reflexivity. Qed.
