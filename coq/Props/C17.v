(* C17 -- a failed or refused export leaves no trace.
   [write is_url fs overwrite validate md t] models Torrent.write on target [t]
   (absent / existing file / directory / unopenable) and returns (result, target
   afterwards); [write_stream ... s] models Torrent.write_stream on a stream with
   prior content.  The ORDER of effects (existence check, dump, open; dump,
   seek+truncate, write) is regenerated from /repo's source on every run
   (Extracted.ex_write_steps, ex_write_stream_steps). *)
From Torf Require Import Base Bencode PyVal Extracted Convert Validate Export ExportProofs.
Open Scope Z_scope.

Theorem C17_failed_export : forall is_url fs ow v md t e,
  dump is_url fs v md = Err e -> exists e', write is_url fs ow v md t = (Err e', t).
Proof. exact write_failed_export. Qed.
Print Assumptions C17_failed_export.

Theorem C17_no_overwrite : forall is_url fs v md t,
  target_exists t = true -> write is_url fs false v md t = (Err DWrite, t).
Proof. exact write_refused. Qed.
Print Assumptions C17_no_overwrite.

Theorem C17_any_failure_no_trace : forall is_url fs ow v md t r t',
  write is_url fs ow v md t = (r, t') -> r <> Ok tt -> t' = t.
Proof. exact write_any_failure_no_trace. Qed.
Print Assumptions C17_any_failure_no_trace.

Theorem C17_success : forall is_url fs ow v md t t',
  write is_url fs ow v md t = (Ok tt, t') ->
  exists c, dump is_url fs v md = Ok c /\ t' = TFile c /\ (ow = true \/ target_exists t = false).
Proof. exact write_success. Qed.
Print Assumptions C17_success.

Theorem C17_stream : forall is_url fs v md s r s',
  write_stream is_url fs v md s = (r, s') ->
  (exists e, dump is_url fs v md = Err e /\ r = Err e /\ s' = s) \/
  (exists c, dump is_url fs v md = Ok c /\
     ((r = Ok tt /\
       ss_content s' = (if ss_seekable s then c else write_at (ss_content s) (ss_pos s) c) /\
       ss_pos s' = (if ss_seekable s then 0 else ss_pos s) + Z.of_nat (length c)) \/
      (r = Err DWrite /\ ss_fail s = true /\
       ss_content s' = (if ss_seekable s then [] else ss_content s)))).
Proof. exact write_stream_cases. Qed.
Print Assumptions C17_stream.

(* a seekable stream holds exactly the dumped bytes after a successful export, whatever it held before and
   wherever its position was (before, at or beyond the end, or still at 0 with longer content behind it) *)
Theorem C17_seekable_stream_exact : forall is_url fs v md s s',
  ss_seekable s = true -> write_stream is_url fs v md s = (Ok tt, s') ->
  exists c, dump is_url fs v md = Ok c /\ ss_content s' = c.
Proof. exact write_stream_seekable_exact. Qed.
Print Assumptions C17_seekable_stream_exact.

(* an appending stream (position = end of its content) keeps what it held and gets the dump after it *)
Theorem C17_append : forall old c, write_at old (Z.of_nat (length old)) c = old ++ c.
Proof. exact write_at_end. Qed.
Print Assumptions C17_append.

(* non-vacuity: an unconvertible (None value) but otherwise empty metainfo, validate=false:
   the existing file is untouched; and a refused overwrite *)
Example C17_example :
  let md := [(PStr [120%N], PNone)] in
  write simple_is_url FSNone true false md (TFile [1%N; 2%N]) = (Err DMetainfo, TFile [1%N; 2%N]) /\
  write simple_is_url FSNone false false [] (TFile [1%N]) = (Err DWrite, TFile [1%N]) /\
  exists c, write simple_is_url FSNone true false [] (TFile [1%N]) = (Ok tt, TFile c).
Proof. cbv zeta. split; [vm_compute; reflexivity|]. split; [vm_compute; reflexivity|]. eexists. vm_compute. reflexivity. Qed.

(* non-vacuity: a seekable stream with 5 bytes of prior content and its position at 0, 2 or 9 ends up with the same content *)
Example C17_stream_example :
  let run pos := write_stream simple_is_url FSNone false [] {| ss_seekable := true; ss_content := [1; 2; 3; 4; 5]%N; ss_pos := pos; ss_fail := false |} in
  fst (run 0) = Ok tt /\ ss_content (snd (run 0)) = ss_content (snd (run 2)) /\ ss_content (snd (run 2)) = ss_content (snd (run 9)) /\
  write_at [1; 2; 3; 4; 5]%N 1 [9; 9]%N = [1; 9; 9; 4; 5]%N /\ write_at [1]%N 3 [9]%N = [1; 0; 0; 9]%N.
Proof. vm_compute. repeat split; reflexivity. Qed.
