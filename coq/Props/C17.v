(* C17 -- a failed or refused export leaves no trace.
   [write is_url fs overwrite validate md t] models Torrent.write on target [t]
   (absent / existing file / directory / unopenable) and returns (result, target
   afterwards); [write_stream ... s] models Torrent.write_stream on a stream with
   prior content.  The ORDER of effects (existence check, dump, open; dump,
   seek+truncate, write) is regenerated from /repo's source on every run
   (Extracted.ex_write_steps, ex_write_stream_steps). *)
From Torf Require Import Base Bencode PyVal Extracted Convert Validate Export ExportProofs.
Open Scope Z_scope.

Theorem C17_failed_export : forall is_url fs ow v md t e,
  dump is_url fs v md = Err e -> exists e', write is_url fs ow v md t = (Err e', t).
Proof. exact write_failed_export. Qed.
Print Assumptions C17_failed_export.

Theorem C17_no_overwrite : forall is_url fs v md t,
  target_exists t = true -> write is_url fs false v md t = (Err DWrite, t).
Proof. exact write_refused. Qed.
Print Assumptions C17_no_overwrite.

Theorem C17_any_failure_no_trace : forall is_url fs ow v md t r t',
  write is_url fs ow v md t = (r, t') -> r <> Ok tt -> t' = t.
Proof. exact write_any_failure_no_trace. Qed.
Print Assumptions C17_any_failure_no_trace.

Theorem C17_success : forall is_url fs ow v md t t',
  write is_url fs ow v md t = (Ok tt, t') ->
  exists c, dump is_url fs v md = Ok c /\ t' = TFile c /\ (ow = true \/ target_exists t = false).
Proof. exact write_success. Qed.
Print Assumptions C17_success.

Theorem C17_stream : forall is_url fs v md s r s',
  write_stream is_url fs v md s = (r, s') ->
  (exists e, dump is_url fs v md = Err e /\ r = Err e /\ s' = s) \/
  (exists c, dump is_url fs v md = Ok c /\
     ((r = Ok tt /\ ss_content s' = (if ss_seekable s then [] else ss_content s) ++ c) \/
      (r = Err DWrite /\ ss_fail s = true /\
       ss_content s' = (if ss_seekable s then [] else ss_content s)))).
Proof. exact write_stream_cases. Qed.
Print Assumptions C17_stream.

(* non-vacuity: an unconvertible (None value) but otherwise empty metainfo, validate=false:
   the existing file is untouched; and a refused overwrite *)
Example C17_example :
  let md := [(PStr [120%N], PNone)] in
  write simple_is_url FSNone true false md (TFile [1%N; 2%N]) = (Err DMetainfo, TFile [1%N; 2%N]) /\
  write simple_is_url FSNone false false [] (TFile [1%N]) = (Err DWrite, TFile [1%N]) /\
  exists c, write simple_is_url FSNone true false [] (TFile [1%N]) = (Ok tt, TFile c).
Proof. cbv zeta. split; [vm_compute; reflexivity|]. split; [vm_compute; reflexivity|]. eexists. vm_compute. reflexivity. Qed.
