(* C02 -- content verification is exact.
   Three layers: (1) which files a content error names (model/Corrupt.v, the
   interval test regenerated from torf/_errors.py); (2) the decision of verify():
   the collected digests, in piece order, must equal the recorded ones, an item
   carrying an error or a mismatching digest is an error (model/Pipeline.v,
   collect_item / conclude); (3) the threaded run that feeds the collector
   (exhaustive exploration of concrete configurations, see Props/C03.v).
   What the reader yields for damaged files (missing / wrong size) is the subject
   of C10/C20 and enters here as the item list. *)
From Coq Require Import Lia.
From Torf Require Import Base Extracted Corrupt CorruptProofs Pipeline PipelineProofs FlowProofs PipeExplore PipeExploreProofs PipeConfigs VerifyTrueProofs VerifyFalseProofs ThreadProofs DeadlockProofs ConservationProofs ReaderDoneProofs DrainProofs CompleteProofs ReportProofs VerdictIffIntact NoCallbackProofs ExceptionProofs LastCallProofs LastCallVerify LastCallVerdict LastCallQuietGen NoCallbackGenProofs ScheduleIndependent.
Open Scope Z_scope.

(* a changed byte at stream position p inside file k: the content error for piece p / L names file k *)
Theorem C02_error_names_the_file : forall fs k id sz p L,
  nth_error fs k = Some (id, sz) -> 0 < L ->
  offset fs k <= p < offset fs k + sz ->
  exists l, corrupt_files fs (p / L) L = Ok l /\ In id l.
Proof. exact corrupt_files_contain. Qed.
Print Assumptions C02_error_names_the_file.

(* a digest that differs from the recorded one is reported as a content error for that piece, whatever
   the interval; an item carrying read/size errors delivers all of them *)
Theorem C02_mismatch_reported : forall c s idx h ex,
  cf_plan c = CbQuiet -> cf_verify c = Some ex -> mismatch c idx h = true ->
  s_calls (collect_item c s idx h []) = s_calls s ++ [(zlen (s_seen s), idx, Some 1000)].
Proof. exact collect_item_reports_mismatch. Qed.
Print Assumptions C02_mismatch_reported.

Theorem C02_errors_reported : forall c s idx h exc ex,
  cf_plan c = CbQuiet -> cf_verify c = Some ex -> exc <> [] ->
  s_calls (collect_item c s idx h exc) = s_calls s ++ batch (zlen (s_seen s)) idx (map Some exc).
Proof. exact collect_item_reports_errors. Qed.
Print Assumptions C02_errors_reported.

(* UNBOUNDED (every schedule, every number of hashers and pieces, with or without callback, any clock):
   if all pieces of the content are readable -- the reader yields pieces with hashes [hs], as many as the
   torrent records -- and verification returns True, then the content's piece hashes ARE the recorded ones.
   Contrapositive: content in which any piece hashes differently (a changed, truncated-and-padded or
   replaced byte range) is never verified successfully, whatever the threads do. *)
Theorem C02_true_means_intact : forall c s expd hs,
  reach c s -> cf_verify c = Some expd -> yielded (cf_items c) = map RPiece hs -> zlen hs = zlen expd ->
  s_result s = Some ResTrue -> hs = expd.
Proof. exact verify_true_means_intact. Qed.
Print Assumptions C02_true_means_intact.

(* UNBOUNDED, the other direction: a run that ends with a verdict (True or False, no exception raised) carries
   exactly the verdict of the comparison -- True iff the collected hashes, in piece order, are the recorded ones. *)
Theorem C02_verdict_is_comparison : forall c s expd r,
  reach c s -> cf_verify c = Some expd -> s_result s = Some r -> decided r ->
  (r = ResTrue <-> sorted_hashes (s_hashes s) = expd).
Proof. exact verify_verdict_is_comparison. Qed.
Print Assumptions C02_verdict_is_comparison.

(* UNBOUNDED: intact, fully readable content is never declared corrupt: a run over it that returns False has
   collected fewer hashes than there are pieces, i.e. it was cut short (cancelled) -- whatever the schedule. *)
Theorem C02_false_on_intact_is_incomplete : forall c s expd,
  reach c s -> cf_verify c = Some expd -> yielded (cf_items c) = map RPiece expd ->
  s_result s = Some ResFalse -> (length (s_hashes s) < length expd)%nat.
Proof. exact verify_false_on_intact_is_incomplete. Qed.
Print Assumptions C02_false_on_intact_is_incomplete.

(* UNBOUNDED: ... and such a run was told to stop: verification of intact, fully readable content returns False only
   when a callback cancelled it (the stop flag of the reader is set) -- under every schedule, with any number of
   hashers, any out-of-memory handling and any clock.  (Conservation of pieces + drained pipeline at a verdict +
   the reader read everything: proofs/ConservationProofs.v, DrainProofs.v, ReaderDoneProofs.v, CompleteProofs.v.) *)
Theorem C02_false_on_intact_means_stopped : forall c s expd,
  (1 <= cf_hashers c)%nat -> reach c s -> cf_verify c = Some expd ->
  yielded (cf_items c) = map RPiece expd -> s_result s = Some ResFalse -> s_stop s = true.
Proof. exact verify_false_on_intact_means_stopped. Qed.
Print Assumptions C02_false_on_intact_means_stopped.

(* UNBOUNDED, the capstone: "content verification is exact".  With a passive callback, a verification run that returns a
   verdict returns True IF AND ONLY IF the content is intact -- every item the reader yields is a readable piece whose
   hash is the recorded one -- under every schedule, with any number of hashers, reporting interval and clock.  (So
   the outcome of verify() is a function of the content, not of the schedule.) *)
Theorem C02_verdict_iff_intact : forall c s expd r,
  (1 <= cf_hashers c)%nat -> reach c s -> cf_verify c = Some expd -> cf_plan c = CbQuiet ->
  Pipeline.zlen (yielded (cf_items c)) = Pipeline.zlen expd ->
  s_result s = Some r -> verdict r ->
  (r = ResTrue <-> yielded (cf_items c) = map RPiece expd).
Proof. exact verify_quiet_verdict_iff_intact. Qed.
Print Assumptions C02_verdict_iff_intact.

(* UNBOUNDED, "without callback a content / size / read error": without a callback verification NEVER returns False.  For
   content whose items are readable pieces or carry at least one error, a run that returns a verdict returns True and
   the content is intact; so on damaged content the call raises (and by C04_exception_only_for_a_reason what it raises
   is the content error of a mismatching piece, an error carried by an item, or a reader error).  Every schedule,
   hasher count and clock. *)
Theorem C02_without_callback_never_false : forall c expd,
  cf_plan c = CbAbsent -> cf_verify c = Some expd -> forall s r,
  (1 <= cf_hashers c)%nat -> reach c s ->
  Forall no_gap (yielded (cf_items c)) -> Pipeline.zlen (yielded (cf_items c)) = Pipeline.zlen expd ->
  s_result s = Some r -> verdict r ->
  r = ResTrue /\ yielded (cf_items c) = map RPiece expd.
Proof. exact verify_without_callback_never_false. Qed.
Print Assumptions C02_without_callback_never_false.

(* non-vacuity: without a callback, intact content gives True; a corrupt piece makes the call raise the content error *)
Example C02_without_callback_example :
  let ok := mk [RPiece 1; RPiece 2] 2 2 CbAbsent [] (Some [1; 2]) in
  s_result (auto_run 400 ok (init ok)) = Some ResTrue /\ Forall no_gap (yielded (cf_items ok)) /\
  s_result (auto_run 400 V_corrupt_nocb (init V_corrupt_nocb)) = Some (ResRaise 1000).
Proof. split; [vm_compute; reflexivity|]. split; [repeat constructor|vm_compute; reflexivity]. Qed.

(* UNBOUNDED: hence the verdict of a verification with a passive callback does not depend on the schedule -- two runs
   over the same content, under any two schedules and clocks, that return a verdict return the same one. *)
Theorem C02_verify_schedule_independent : forall c s1 s2 r1 r2 expd,
  (1 <= cf_hashers c)%nat -> cf_verify c = Some expd -> cf_plan c = CbQuiet ->
  Pipeline.zlen (yielded (cf_items c)) = Pipeline.zlen expd ->
  reach c s1 -> reach c s2 -> s_result s1 = Some r1 -> s_result s2 = Some r2 -> verdict r1 -> verdict r2 -> r1 = r2.
Proof. exact verify_schedule_independent. Qed.
Print Assumptions C02_verify_schedule_independent.

(* UNBOUNDED, exactness of the reports: in a verification with a passive callback (one that returns None), under every
   schedule, hasher count, reporting interval and clock,
   - nothing is ever delivered as an error of a piece that is not one of its errors: [errs c expd i] is the list
     of errors piece i of the content must be reported with -- the read / size errors its item carries, or the
     content error 1000 when its hash differs from the recorded one, or nothing;
   - when the run returns, every error of every piece of the content has been delivered for that piece index. *)
Theorem C02_no_spurious_report : forall c expd,
  cf_plan c = CbQuiet -> cf_verify c = Some expd -> forall s d idx e,
  reach c s -> In (d, idx, Some e) (s_calls s) -> In e (errs c expd idx).
Proof. exact no_spurious_report. Qed.
Print Assumptions C02_no_spurious_report.

Theorem C02_every_damaged_piece_reported : forall c expd,
  cf_plan c = CbQuiet -> cf_verify c = Some expd -> forall s r i e,
  (1 <= cf_hashers c)%nat -> reach c s -> s_result s = Some r -> verdict r ->
  0 <= i < nitems c -> In e (errs c expd i) -> exists d, In (d, i, Some e) (s_calls s).
Proof. exact every_damaged_piece_reported. Qed.
Print Assumptions C02_every_damaged_piece_reported.

(* non-vacuity: three pieces, the second corrupt (hash 9 instead of 2), two hashers, passive callback: the run
   returns False, piece 1 must be reported with the content error and is, and nothing else is *)
Example C02_reports_example :
  let s := auto_run 400 V_corrupt_cb (init V_corrupt_cb) in
  reach V_corrupt_cb s /\ s_result s = Some ResFalse /\ errs V_corrupt_cb [1; 2; 3] 1 = [1000] /\
  errs V_corrupt_cb [1; 2; 3] 0 = [] /\ filter (fun x => match snd x with Some _ => true | None => false end) (s_calls s) = [(2, 1, Some 1000)].
Proof. split; [apply auto_run_reach; constructor|vm_compute; repeat split; reflexivity]. Qed.

(* non-vacuity: 40 intact pieces, one hasher, a callback that cancels at the first report: the run is reachable,
   returns False and has collected 4 hashes *)
Definition C02_hs := map Z.of_nat (seq 1 40).
Definition C02_cancel := mk (map RPiece C02_hs) 40 1 (CbCancelFrom 1) [] (Some C02_hs).
Example C02_false_on_intact_example :
  let s := auto_run 3000 C02_cancel (init C02_cancel) in
  reach C02_cancel s /\ yielded (cf_items C02_cancel) = map RPiece C02_hs /\ s_result s = Some ResFalse /\ length (s_hashes s) = 4%nat /\ s_stop s = true.
Proof. split; [apply auto_run_reach; constructor|vm_compute; repeat split; reflexivity]. Qed.

(* under every schedule: intact content verifies; a corrupt piece gives a content error without callback
   and False with one; an item with a read error gives that error / False *)
Theorem C02_intact : all_schedules_ok V_clean [1; 2] false [].
Proof. exact V_clean_ok. Qed.
Print Assumptions C02_intact.
Theorem C02_corrupt_raises : all_schedules_ok V_corrupt_nocb [1; 2; 3] false [1000].
Proof. exact V_corrupt_nocb_ok. Qed.
Print Assumptions C02_corrupt_raises.
Theorem C02_corrupt_false : all_schedules_ok V_corrupt_cb [1; 2; 3] true [].
Proof. exact V_corrupt_cb_ok. Qed.
Print Assumptions C02_corrupt_false.
Theorem C02_missing_raises : all_schedules_ok V_exc_nocb [1; 2; 3] false [2].
Proof. exact V_exc_nocb_ok. Qed.
Print Assumptions C02_missing_raises.
Theorem C02_missing_false : all_schedules_ok V_exc_cb [1; 2; 3] true [].
Proof. exact V_exc_cb_ok. Qed.
Print Assumptions C02_missing_false.

(* non-vacuity: files of 5, 0 and 7 bytes, piece length 4: byte 6 (file 2, piece 1) *)
Example C02_example :
  corrupt_files [(10, 5); (11, 0); (12, 7)] (6 / 4) 4 = Ok [10; 11; 12] /\
  corrupt_files [(10, 5); (11, 0); (12, 7)] 2 4 = Ok [12] /\
  s_result (auto_run 300 V_corrupt_nocb (init V_corrupt_nocb)) = Some (ResRaise 1000).
Proof. vm_compute. repeat split; reflexivity. Qed.
