(* C06 -- the infohash is the SHA-1 of exactly the info bytes that are written.
   [infohash_input] is the byte string Torrent.infohash feeds to SHA-1 (the hash
   itself is abstract: any function of these bytes); [dump] the exported bytes.
   The statement order / exception mapping of dump, convert, infohash and
   encode_dict are fail-closed shape facts of the translator. *)
From Torf Require Import Base Sexp Bencode PyVal Extracted Convert Validate Export BencodeProofs ConvertProofs.
Open Scope Z_scope.

(* the hashed bytes are a contiguous span of the dumped bytes: the value that follows
   the key "info" *)
Theorem C06_infohash_is_info_span : forall is_url fs v md x h,
  dump is_url fs v md = Ok x -> infohash_input is_url fs md = Ok h ->
  exists pre post, x = pre ++ benc_str k_info ++ h ++ post.
Proof. exact infohash_is_info_span. Qed.
Print Assumptions C06_infohash_is_info_span.

(* every dictionary is written with its keys in strictly increasing raw-byte order
   (hence without duplicates), whatever order they were inserted in *)
Theorem C06_keys_strictly_sorted : forall kvs,
  NoDup (map fst kvs) ->
  kstrict (sort_kvs (map (fun kv => (fst kv, benc (snd kv))) kvs)) /\
  benc (BDict kvs) =
    (100%N :: concat (map (fun kv : bytes * bytes => benc_str (fst kv) ++ snd kv)
                          (sort_kvs (map (fun kv => (fst kv, benc (snd kv))) kvs)))) ++ [101%N].
Proof. intros kvs H. split; [exact (benc_dict_keys_strict kvs H)|exact (benc_dict_eq kvs)]. Qed.
Print Assumptions C06_keys_strictly_sorted.

(* the value of any key sits in the output as one contiguous span *)
Theorem C06_value_span : forall kvs k v,
  In (k, v) kvs -> exists pre post, benc (BDict kvs) = pre ++ benc_str k ++ benc v ++ post.
Proof. exact benc_dict_span. Qed.
Print Assumptions C06_value_span.

(* non-vacuity: a two-key metainfo whose keys are given in the "wrong" order *)
Example C06_example :
  let info := [(PStr [110;97;109;101]%N, PStr [84]%N)] in      (* {'name': 'T'} *)
  let md := [(PStr [122]%N, PBool true); (PStr k_info, PDict info)] in
  dump simple_is_url FSNone false md =
    Ok [100;52;58;105;110;102;111;100;52;58;110;97;109;101;49;58;84;101;49;58;122;105;49;101;101]%N /\
  match encode_dict info with Ok v => encode v | Err e => Err e end
    = Ok [100;52;58;110;97;109;101;49;58;84;101]%N.
Proof. vm_compute. split; reflexivity. Qed.
