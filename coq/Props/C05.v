(* C05 -- metainfo survives a dump/read round trip byte for byte (codec layers).
   [benc]/[bdec]: flatbencode's encoder and stack-machine decoder;
   [encode_value]/[decode_value]: torf's converters.  Proved: each decoder
   inverts its encoder on canonical / normal-form values of unbounded size and
   nesting, hence re-encoding a canonical input reproduces its bytes.  The glue of
   read_stream (taking 'pieces' out before decoding, creation date, private) is
   tied by the correspondence run, not by a theorem (see DESIGN.md). *)
From Torf Require Import Base Sexp Bencode PyVal Convert BencodeProofs DecimalProofs RoundtripProofs ConvRoundtrip.
Open Scope Z_scope.

(* decoding the encoding of a canonical value (strictly sorted dict keys, numbers within
   CPython's int<->str digit limit) returns that value -- unknown fields, arbitrary
   byte strings, any nesting and any integer magnitude included *)
Theorem C05_bdec_benc : forall v, wf v -> bdec (benc v) = Ok v.
Proof. exact bdec_benc. Qed.
Print Assumptions C05_bdec_benc.

(* hence reading a canonical input and encoding it again reproduces the input bytes *)
Theorem C05_reencode_canonical : forall v x,
  wf v -> x = benc v -> exists v', bdec x = Ok v' /\ benc v' = x.
Proof. exact benc_bdec_canonical. Qed.
Print Assumptions C05_reencode_canonical.

(* the converters: decoding what encode_value produced returns the metainfo value, for
   every value in normal form (text, non-UTF-8 bytes, ints, lists, dicts with sorted text keys) *)
Theorem C05_decode_encode : forall v, nf v ->
  forall f b, encode_value f v = Ok b -> forall f', (f <= f')%nat -> decode_value f' b = Ok v.
Proof. exact decode_encode_nf. Qed.
Print Assumptions C05_decode_encode.

(* integers of any size print and parse back *)
Theorem C05_integers : forall z rest, int_ok z ->
  read_integer (dec_of_Z z ++ 101%N :: rest) = Ok (z, rest).
Proof. exact read_integer_dec. Qed.
Print Assumptions C05_integers.

(* non-vacuity: nested value with a non-UTF-8 string, a negative and a 30-digit integer *)
Example C05_example :
  let v := BDict [([97%N], BList [BInt (-7); BStr [255%N; 254%N]]);
                  ([98%N], BDict [([120%N], BInt 100000000000000000000000000000)])] in
  bdec (benc v) = Ok v /\
  decode_value 10 v = Ok (PDict [(PStr [97%N], PList [PInt (-7); PBytes [255%N; 254%N]]);
                                 (PStr [98%N], PDict [(PStr [120%N], PInt 100000000000000000000000000000)])]).
Proof. vm_compute. split; reflexivity. Qed.
