(* C11 -- Stream geometry and random access agree with the byte stream.
   Only theorem statements, closed by [exact <lemma>], non-vacuity Examples and
   Print Assumptions.  [fs] is the torrent's file list (path id, size), [L] the
   piece length; offsets are prefix sums of the sizes ([offset_of]). *)
From Torf Require Import Base Extracted Geometry Stream GeometryProofs IterProofs GetPieceProofs IterProofs IterDamage VerifyPieceProofs.
Open Scope Z_scope.

Theorem C11_file_position : forall fs k f,
  NoDup fs -> nth_error fs k = Some f -> file_position fs f = Ok (offset_of fs k).
Proof. exact file_position_found. Qed.
Print Assumptions C11_file_position.

Theorem C11_file_position_unknown : forall fs f,
  ~ In f fs -> file_position fs f = Err DValue.
Proof. exact file_position_missing. Qed.
Print Assumptions C11_file_position_unknown.

Theorem C11_file_at_position : forall fs p,
  nonneg fs -> 0 <= p < total_size fs ->
  exists k f, nth_error fs k = Some f /\ file_at_position fs p = Ok f /\
              offset_of fs k <= p < offset_of fs k + fsize f.
Proof. exact file_at_position_in_range. Qed.
Print Assumptions C11_file_at_position.

Theorem C11_file_at_position_out_of_range : forall fs p,
  nonneg fs -> p < 0 \/ total_size fs <= p -> file_at_position fs p = Err DValue.
Proof. exact file_at_position_out_of_range. Qed.
Print Assumptions C11_file_at_position_out_of_range.

Theorem C11_files_at_byte_range : forall fs a b,
  allpos fs -> a <= b ->
  files_at_byte_range fs a b = Ok (spec_files_in_range fs 0 a b).
Proof. exact files_at_byte_range_spec. Qed.
Print Assumptions C11_files_at_byte_range.

Theorem C11_files_in_range_are_the_overlapping_ones : forall fs pos a b f,
  In f (spec_files_in_range fs pos a b) <->
  exists k, nth_error fs k = Some f /\ overlaps (pos + offset_of fs k) (fsize f) a b = true.
Proof. exact spec_files_in_range_In. Qed.
Print Assumptions C11_files_in_range_are_the_overlapping_ones.

Theorem C11_byte_range_of_file : forall fs k f,
  NoDup fs -> nth_error fs k = Some f ->
  byte_range_of_file fs f = Ok (offset_of fs k, offset_of fs k + fsize f - 1).
Proof. exact byte_range_of_file_spec. Qed.
Print Assumptions C11_byte_range_of_file.

Theorem C11_files_at_piece_index : forall fs L i,
  allpos fs -> 0 < L -> 0 <= i -> i * L < total_size fs ->
  files_at_piece_index fs L i = Ok (spec_files_in_range fs 0 (i * L) ((i + 1) * L - 1)) /\
  spec_files_in_range fs 0 (i * L) ((i + 1) * L - 1) <> [].
Proof. exact files_at_piece_index_in_range. Qed.
Print Assumptions C11_files_at_piece_index.

Theorem C11_files_at_piece_index_out_of_range : forall fs L i,
  allpos fs -> 0 < L -> i < 0 \/ total_size fs <= i * L ->
  files_at_piece_index fs L i = Err DValue.
Proof. exact files_at_piece_index_out_of_range. Qed.
Print Assumptions C11_files_at_piece_index_out_of_range.

Theorem C11_piece_indexes_inclusive : forall fs L k f,
  NoDup fs -> nth_error fs k = Some f -> 0 < L ->
  piece_indexes_of_file fs L f false =
    Ok (zrange (offset_of fs k / L) ((offset_of fs k + fsize f - 1) / L + 1)).
Proof. exact piece_indexes_inclusive_spec. Qed.
Print Assumptions C11_piece_indexes_inclusive.

Theorem C11_inclusive_is_overlap : forall off sz L i,
  0 < L -> 0 < sz -> 0 <= off ->
  (off / L <= i < (off + sz - 1) / L + 1) <-> overlaps off sz (i * L) ((i + 1) * L - 1) = true.
Proof. exact piece_range_overlap. Qed.
Print Assumptions C11_inclusive_is_overlap.

Theorem C11_piece_indexes_exclusive : forall fs L k f,
  NoDup fs -> allpos fs -> nth_error fs k = Some f -> 0 < L ->
  exists l, piece_indexes_of_file fs L f true = Ok l /\
    forall i, In i l <->
      (offset_of fs k / L <= i < (offset_of fs k + fsize f - 1) / L + 1) /\
      spec_files_in_range fs 0 (i * L) ((i + 1) * L - 1) = [f].
Proof. exact piece_indexes_exclusive_spec. Qed.
Print Assumptions C11_piece_indexes_exclusive.

Theorem C11_relative_piece_indexes : forall L f rels,
  0 < L ->
  exists l, relative_piece_indexes L f rels = Ok l /\ ssorted l /\
    forall x, In x l <-> exists r, In r rels /\ x = rel_index ((fsize f - 1) / L) r.
Proof. exact relative_piece_indexes_spec. Qed.
Print Assumptions C11_relative_piece_indexes.

Theorem C11_absolute_piece_indexes : forall fs L k f rels,
  NoDup fs -> nonneg fs -> nth_error fs k = Some f -> 0 < fsize f -> 0 < L ->
  let amin := offset_of fs k / L in
  let amax := (offset_of fs k + fsize f - 1) / L in
  exists l, absolute_piece_indexes fs L f rels = Ok l /\ ssorted l /\
    forall x, In x l <-> exists r, In r rels /\ x = amin + rel_index (amax - amin) r.
Proof. exact absolute_piece_indexes_spec. Qed.
Print Assumptions C11_absolute_piece_indexes.

Theorem C11_max_piece_index : forall fs L,
  0 < L -> max_piece_index fs L = Ok ((total_size fs - 1) / L).
Proof. exact max_piece_index_spec. Qed.
Print Assumptions C11_max_piece_index.

(* ---- refuted on the faithful model: zero-length files DO disturb answers.
   Each witness is replayed on the implementation by the check (KNOWN_FINDINGS). ---- *)
Theorem C11_zero_length_files_in_range_refuted :
  exists fs a b, nonneg fs /\ a <= b /\
    files_at_byte_range fs a b <> Ok (spec_files_in_range fs 0 a b).
Proof.
  exists [(1, 0); (2, 4)], 0, 3. split; [repeat constructor; cbn; discriminate|].
  split; [discriminate|]. rewrite zero_length_listed. vm_compute. discriminate.
Qed.
Print Assumptions C11_zero_length_files_in_range_refuted.

Theorem C11_zero_length_piece_indexes_refuted :
  (exists fs L f, nonneg fs /\ In f fs /\ fsize f = 0 /\ piece_indexes_of_file fs L f false = Ok [0]) /\
  (exists fs L f, nonneg fs /\ In f fs /\ 0 < fsize f /\ fsize f = L /\ total_size fs = L /\
                  piece_indexes_of_file fs L f true = Ok []) /\
  (exists fs L f, nonneg fs /\ In f fs /\ piece_indexes_of_file fs L f true = Err IValue) /\
  (exists fs L i, nonneg fs /\ total_size fs <= i * L /\ exists l, files_at_piece_index fs L i = Ok l).
Proof.
  split; [|split; [|split]].
  - exists [(1, 2); (2, 0); (3, 4)], 4, (2, 0).
    split; [repeat constructor; cbn; discriminate|].
    split; [cbn; tauto|]. split; [reflexivity|]. exact zero_length_has_piece.
  - exists [(1, 8); (2, 0)], 8, (1, 8).
    split; [repeat constructor; cbn; discriminate|].
    split; [cbn; tauto|]. split; [reflexivity|]. split; [reflexivity|]. split; [reflexivity|].
    exact zero_length_spoils_exclusive.
  - exists [(1, 0); (2, 5); (3, 0)], 4, (1, 0).
    split; [repeat constructor; cbn; discriminate|].
    split; [cbn; tauto|]. exact zero_length_exclusive_raises.
  - exists [(1, 8); (2, 0)], 8, 1.
    split; [repeat constructor; cbn; discriminate|].
    split; [vm_compute; discriminate|]. eexists. exact zero_length_out_of_range_accepted.
Qed.
Print Assumptions C11_zero_length_piece_indexes_refuted.

(* random access: on intact content (every listed file present with its recorded size) get_piece(i) returns
   exactly the bytes [i*L, min((i+1)*L, size)) of the concatenated files -- for every layout of positive-size
   files, every piece length, every valid index and every state of the open-handle table *)
Theorem C11_get_piece : forall d fs L i h,
  allpos fs -> NoDup fs -> intact d fs -> 0 < L -> 0 <= i -> i * L < total_size fs ->
  fst (get_piece d h fs L i) = Ok (firstn (Z.to_nat L) (skipn (Z.to_nat (i * L)) (stream_of d fs))).
Proof. exact get_piece_intact. Qed.
Print Assumptions C11_get_piece.

(* the hash of the piece read by index, and the hash check: positive exactly when the hash of the piece's bytes is
   the stored hash (any hash function H; any handle table) *)
Theorem C11_get_piece_hash : forall (H : bytes -> bytes) d fs L i h,
  allpos fs -> NoDup fs -> intact d fs -> 0 < L -> 0 <= i -> i * L < total_size fs ->
  fst (get_piece_hash H d h fs L i) = Ok (Some (H (piece_bytes d fs L i))).
Proof. exact get_piece_hash_intact. Qed.
Print Assumptions C11_get_piece_hash.

Theorem C11_verify_piece : forall (H : bytes -> bytes) d fs L hashes i h,
  allpos fs -> NoDup fs -> intact d fs -> 0 < L -> 0 <= i -> i * L < total_size fs -> i < zlen hashes ->
  exists b, fst (verify_piece H d h fs L hashes i) = Ok (Some b) /\
            (b = true <-> H (piece_bytes d fs L i) = nth (Z.to_nat i) hashes []).
Proof. exact verify_piece_intact. Qed.
Print Assumptions C11_verify_piece.

(* reading a piece by index returns what sequential iteration yields at that position *)
Theorem C11_random_access_is_sequential : forall d fs L i h h',
  allpos fs -> NoDup fs -> intact d fs -> 0 < L -> 0 <= i -> i * L < total_size fs ->
  exists items,
    iter_pieces d h' fs L = Ok items /\
    exists it, nth_error items (Z.to_nat i) = Some it /\ res_map Some (fst (get_piece d h fs L i)) = Ok (piece_of it).
Proof. exact get_piece_is_iter_piece. Qed.
Print Assumptions C11_random_access_is_sequential.

(* non-vacuity for C11_get_piece: three files, piece length 4, the last (short) piece *)
Example C11_get_piece_example :
  let d := [(1, [1;2;3]%N); (2, [4;5;6;7;8;9;10;11;12;13]%N); (3, [14]%N)] in
  let fs := [(1, 3); (2, 10); (3, 1)] in
  fst (get_piece d [] fs 4 3) = Ok [13; 14]%N /\ fst (get_piece d [] fs 4 0) = Ok [1; 2; 3; 4]%N.
Proof. vm_compute. split; reflexivity. Qed.

(* non-vacuity: a concrete layout meets the hypotheses and exercises a shared
   first piece, an exclusive middle piece and a shared last piece *)
Example C11_example_layout :
  let fs := [(1, 3); (2, 10); (3, 1)] in
  NoDup fs /\ allpos fs /\ nth_error fs 1 = Some (2, 10) /\
  piece_indexes_of_file fs 4 (2, 10) false = Ok [0; 1; 2; 3] /\
  piece_indexes_of_file fs 4 (2, 10) true = Ok [1; 2] /\
  files_at_piece_index fs 4 2 = Ok [(2, 10)] /\
  files_at_piece_index fs 4 3 = Ok [(2, 10); (3, 1)] /\
  files_at_piece_index fs 4 4 = Err DValue.
Proof.
  cbv zeta. split; [|split; [|repeat split; vm_compute; reflexivity]].
  - repeat constructor; cbn; intuition congruence.
  - repeat constructor.
Qed.
