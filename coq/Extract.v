(* Extract.v -- extraction of the executable model to OCaml.
   ExtrOcamlBasic only: bool/option/list/prod/unit/sumbool map to OCaml's; Z, N,
   positive, nat, ascii and string stay Coq datatypes.  No Extract Constant. *)
From Coq Require Import Extraction ExtrOcamlBasic.
From Torf Require Import Base Sexp Dispatch.
Extraction Language OCaml.
Extraction "model.ml" handle.
