(* Magnet.v -- model of torf.Magnet: the info hash setters (regexes regenerated from
   the source), conversion of the hash to lower-case hex, rendering (__str__) and
   parsing (from_string) of magnet URIs.  Text and URLs are UTF-8 byte strings.
   Executable definitions only. *)
From Torf Require Import Base Sexp Regex UrlQuote Extracted.
Open Scope Z_scope.

Definition cps (b : bytes) : list Z := map Z.of_N b.

(* ---- info hash ---- *)
Definition accepts_hash (s : list Z) : bool := accepts ex_infohash_method ex_infohash_re s.

(* Magnet.infohash setter: (result, new stored hash) *)
Definition set_infohash (old : option (list Z)) (v : list Z) : res unit * option (list Z) :=
  if accepts ex_infohash_method ex_infohash_re v then (Ok tt, Some v) else (Err DMagnet, old).

(* Magnet.xt setter *)
Definition set_xt (old : option (list Z)) (v : list Z) : res unit * option (list Z) :=
  if accepts ex_infohash_method_in_xt ex_infohash_re v then (Ok tt, Some v)
  else if accepts ex_xt_method ex_xt_re v then (Ok tt, Some (skipn 9 v))    (* match.group(1) *)
  else (Err DMagnet, old).

(* ---- base16 / base32 ---- *)
Definition hexval (c : Z) : Z :=
  if (48 <=? c) && (c <=? 57) then c - 48
  else if (97 <=? c) && (c <=? 102) then c - 87
  else if (65 <=? c) && (c <=? 70) then c - 55 else 0.

Definition b32val (c : Z) : Z :=
  if (97 <=? c) && (c <=? 122) then c - 97
  else if (65 <=? c) && (c <=? 90) then c - 65
  else if (50 <=? c) && (c <=? 55) then c - 24 else 0.

Definition lower_hexdig (n : Z) : Z := if n <? 10 then 48 + n else 87 + n.

(* value of a digit string in base 2^k *)
Definition digits_to_Z (bits : Z) (val : Z -> Z) (s : list Z) : Z :=
  fold_left (fun acc c => acc * 2 ^ bits + val c) s 0.

Fixpoint Z_to_hex (n : nat) (z : Z) (acc : list Z) : list Z :=
  match n with
  | O => acc
  | S k => Z_to_hex k (z / 16) (lower_hexdig (z mod 16) :: acc)
  end.

(* Magnet._infohash_hex: 40 lower-case hex digits of the 160-bit hash *)
Definition hash_number (h : list Z) : Z :=
  if Nat.eqb (length h) 40 then digits_to_Z 4 hexval h else digits_to_Z 5 b32val h.

Definition infohash_hex (h : list Z) : list Z := Z_to_hex 40 (hash_number h) [].

(* fetched metadata is adopted iff its (lower-case hex) infohash equals the magnet's *)
Definition adopts (h : list Z) (fetched_hex : list Z) : bool :=
  list_eqb Z.eqb (infohash_hex h) fetched_hex.

(* ---- the object ---- *)
Record magnet := {
  m_hash : list Z;
  m_dn : option bytes;
  m_xl : option Z;
  m_tr : list bytes;
  m_xs : option bytes;
  m_as : option bytes;
  m_ws : list bytes;
  m_kt : list bytes;
  m_x : list (bytes * bytes)
}.

Definition ascii (s : list Z) : bytes := map Z.to_N s.
Definition kv (k : bytes) (v : bytes) : bytes := k ++ 61%N :: v.

Definition k_xt := [120; 116]%N.  Definition k_dn := [100; 110]%N.  Definition k_xl := [120; 108]%N.
Definition k_tr := [116; 114]%N.  Definition k_xs := [120; 115]%N.  Definition k_as := [97; 115]%N.
Definition k_as_ := [97; 115; 95]%N.  Definition k_ws := [119; 115]%N.  Definition k_kt := [107; 116]%N.
Definition urn_btih := [117; 114; 110; 58; 98; 116; 105; 104; 58]%N.
Definition magnet_prefix := [109; 97; 103; 110; 101; 116; 58; 63]%N.    (* "magnet:?" *)

Definition opt_field (k : bytes) (o : option bytes) : list bytes :=
  match o with Some v => [kv k (quote_plus v)] | None => [] end.

(* Magnet.__str__ *)
Definition render (m : magnet) : bytes :=
  magnet_prefix ++
  join_with 38%N
    ([kv k_xt (urn_btih ++ ascii (m_hash m))]
     ++ opt_field k_dn (m_dn m)
     ++ (match m_xl m with Some z => [kv k_xl (dec_of_Z z)] | None => [] end)
     ++ opt_field k_xs (m_xs m)
     ++ opt_field k_as_ (m_as m)
     ++ (match m_kt m with [] => [] | kts => [kv k_kt (join_with 43%N (map quote_plus kts))] end)
     ++ map (fun u => kv k_tr (quote_plus u)) (m_tr m)
     ++ map (fun u => kv k_ws (quote_plus u)) (m_ws m)
     ++ map (fun p => kv (120%N :: 46%N :: fst p) (quote_plus (snd p))) (m_x m)).

Section Parse.
Variable is_url : bytes -> bool.

Fixpoint lookup_all (k : bytes) (q : list (bytes * bytes)) : list bytes :=
  match q with
  | [] => []
  | (k', v) :: r => if bytes_eqb k' k then v :: lookup_all k r else lookup_all k r
  end.

Fixpoint starts_with (p b : bytes) : bool :=
  match p, b with
  | [], _ => true
  | x :: p', y :: b' => (x =? y)%N && starts_with p' b'
  | _, [] => false
  end.

Definition known_key (k : bytes) : bool :=
  existsb (bytes_eqb k) [k_xt; k_dn; k_xl; k_tr; k_xs; k_as; k_ws; k_kt; k_as_]
  || starts_with [120; 46]%N k || starts_with [120; 95]%N k.

(* URL(s): spaces become '+'; must be a URL *)
Definition make_url (u : bytes) : res bytes :=
  if is_url u then Ok (map (fun c => if (c =? 32)%N then 43%N else c) u) else Err DURL.

Fixpoint dedup (l : list bytes) (acc : list bytes) : list bytes :=
  match l with
  | [] => acc
  | x :: r => if existsb (bytes_eqb x) acc then dedup r acc else dedup r (acc ++ [x])
  end.

Definition single (name : bytes) (q : list (bytes * bytes)) : res (option bytes) :=
  match lookup_all name q with
  | [] => Ok None
  | [v] => Ok (Some v)
  | _ => Err DMagnet
  end.

Definition is_space (c : N) : bool := ((c =? 32) || ((9 <=? c) && (c <=? 13)))%N.

Fixpoint split_ws (b : bytes) (cur : bytes) : list bytes :=
  match b with
  | [] => match cur with [] => [] | _ => [rev cur] end
  | c :: r => if is_space c then (match cur with [] => split_ws r [] | _ => rev cur :: split_ws r [] end)
              else split_ws r (c :: cur)
  end.

Definition parse_int (v : bytes) : option Z := Z_of_dec v.   (* plain ASCII decimal, optional '-' *)

(* the x.<name> / x_<name> parameters in order of first appearance; the value is the first one given for the key *)
Fixpoint collect_x (q0 q : list (bytes * bytes)) (acc : list (bytes * bytes)) : list (bytes * bytes) :=
  match q with
  | [] => acc
  | (k, v) :: r =>
      if starts_with [120; 46]%N k || starts_with [120; 95]%N k
      then collect_x q0 r (if existsb (fun p => bytes_eqb (fst p) (skipn 2 k)) acc then acc
                           else acc ++ [(skipn 2 k, hd v (lookup_all k q0))])
      else collect_x q0 r acc
  end.

Definition opt_url (o : option bytes) : res (option bytes) :=
  match o with None => Ok None | Some u => do u' <- make_url u; Ok (Some u') end.

(* Magnet.from_string on "magnet:?" ++ query; anything else is outside the model *)
Definition parse (uri : bytes) : res magnet :=
  if negb (starts_with magnet_prefix uri) then Err IOther
  else
    let q := parse_qsl (skipn 8 uri) in
    if negb (forallb (fun p => known_key (fst p)) q) then Err DMagnet
    else
      match lookup_all k_xt q with
      | [] => Err DMagnet
      | [xt] =>
          match set_xt None (cps xt) with
          | (Err e, _) => Err e
          | (Ok _, None) => Err DMagnet
          | (Ok _, Some h) =>
              do dn <- single k_dn q;
              do xlv <- single k_xl q;
              do xl <- (match xlv with
                        | None => Ok None
                        | Some v => match parse_int v with
                                    | Some z => if z <? 1 then Err DMagnet else Ok (Some z)
                                    | None => Err DMagnet end
                        end);
              do xs0 <- single k_xs q;
              do xs <- opt_url xs0;
              do as0 <- single k_as q;
              do as1 <- opt_url as0;
              do as0' <- single k_as_ q;
              do as2 <- opt_url as0';
              do kt <- single k_kt q;
              do tr <- mapM make_url (lookup_all k_tr q);
              do ws <- mapM make_url (lookup_all k_ws q);
              Ok {| m_hash := h;
                    m_dn := option_map (map (fun c => if (c =? 10)%N then 32%N else c)) dn;
                    m_xl := xl; m_tr := dedup tr []; m_xs := xs;
                    m_as := match as2 with Some _ => as2 | None => as1 end;
                    m_ws := dedup ws [];
                    m_kt := match kt with Some v => split_ws v [] | None => [] end;
                    m_x := collect_x q q [] |}
          end
      | _ => Err DMagnet
      end.
End Parse.
