(* Convert.v -- model of torf/_utils.py: encode_value/encode_list/encode_dict and
   decode_value/decode_list/decode_dict.  Executable definitions only. *)
From Torf Require Import Base Bencode PyVal.
Open Scope Z_scope.

(* ---- encoding (metainfo -> bencodable) ---- *)
Inductive kclass := KStr | KBytes | KNum | KOther.

Definition key_class (k : pyval) : kclass :=
  match k with
  | PStr _ => KStr
  | PBytes _ => KBytes
  | PInt _ | PBool _ | PFloat _ => KNum
  | _ => KOther
  end.

Definition kclass_eqb (a b : kclass) : bool :=
  match a, b with KStr, KStr | KBytes, KBytes | KNum, KNum => true | _, _ => false end.

(* sorted(dct.items()) raises TypeError iff two keys are not mutually orderable *)
Definition keys_sortable (kvs : list (pyval * pyval)) : bool :=
  match kvs with
  | [] => true
  | [_] => true
  | (k0, _) :: r => forallb (fun kv => kclass_eqb (key_class (fst kv)) (key_class k0)) r
  end.

Definition float_to_int (f : pfloat) : res Z :=
  match f with
  | FInt z => Ok z
  | FHalf z => Ok (if z >=? 0 then z else z + 1)
  | FInf _ => Err IOverflow
  | FNaN => Err IValue
  end.

Fixpoint str_keys (kvs : list (pyval * pyval)) : option (list (bytes * pyval)) :=
  match kvs with
  | [] => Some []
  | (PStr k, v) :: r => match str_keys r with Some l => Some ((k, v) :: l) | None => None end
  | _ => None
  end.

(* fuel: nesting depth; exhausted = RecursionError (depth beyond the interpreter limit) *)
Fixpoint encode_value (fuel : nat) (v : pyval) : res bval :=
  match fuel with
  | O => Err IRecursion
  | S f =>
      match v with
      | PBytes b => Ok (BStr b)                     (* type(value) in (bytes, int) *)
      | PInt z => Ok (BInt z)
      | PStr s => Ok (BStr s)                       (* str -> utf-8 *)
      | PFloat x => do z <- float_to_int x; Ok (BInt z)
      | PBool b => Ok (BInt (if b then 1 else 0))
      | PDict kvs => encode_dict_aux f kvs
      | PList l | PTuple l | PSet l => do l' <- mapM (encode_value f) l; Ok (BList l')
      | PDatetime ts => Ok (BInt ts)
      | PNone | POther => Err IValue
      end
  end
with encode_dict_aux (fuel : nat) (kvs : list (pyval * pyval)) : res bval :=
  match fuel with
  | O => Err IRecursion
  | S f =>
        (* keys are checked to be str before sorting *)
        match str_keys kvs with
        | None => Err IValue                        (* 'Invalid key' *)
        | Some skvs =>
            do enc <- mapM (fun kv => do v' <- encode_value f (snd kv); Ok (fst kv, v'))
                           (sort_kvs skvs);
            Ok (BDict enc)
        end
  end.

Definition depth_limit : nat := 400.

Definition encode_dict (kvs : list (pyval * pyval)) : res bval := encode_dict_aux depth_limit kvs.

(* ---- decoding (bdecoded -> metainfo) ---- *)
Fixpoint decode_value (fuel : nat) (v : bval) : res pyval :=
  match fuel with
  | O => Err IRecursion
  | S f =>
      match v with
      | BInt z => Ok (PInt z)
      | BStr b => Ok (if utf8_valid b then PStr b else PBytes b)
      | BList l => do l' <- mapM (decode_value f) l; Ok (PList l')
      | BDict kvs =>
          (* decode_value -> decode_dict -> decode_value: a dictionary level costs as much as it costs the
             encoder (encode_value -> encode_dict -> encode_value), so what was decoded can be encoded again *)
          match f with
          | O => Err IRecursion
          | S f2 =>
              do l' <- mapM (fun kv => do v' <- decode_value f2 (snd kv);
                                       Ok (if utf8_valid (fst kv) then PStr (fst kv) else PBytes (fst kv), v')) kvs;
              Ok (PDict l')
          end
      end
  end.
