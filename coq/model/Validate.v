(* Validate.v -- model of utils.assert_type / key_exists_in_list_or_dict and of
   Torrent.validate, driven by the rule table regenerated from the source
   (the ex_rules definitions of Extracted.v).  Executable definitions only.

   Scope: 'announce-list', its tiers, info['files'] and file 'path' values are
   modelled when they are list/tuple (and bytes for 'path'); other iterables
   (dict, set, generator) give [Err IOther] = "not modelled" and are covered by
   the implementation-side oracle only. *)
From Torf Require Import Base Bencode PyVal Extracted.
Open Scope Z_scope.

(* abstract URL / md5 predicates on text (UTF-8 bytes); concrete instances below *)
Section Val.
Variable is_url : bytes -> bool.

Definition conv_type (t : ex_type) : ptype :=
  match t with
  | XTdict => TDict | XTstr => TStr | XTbytes => TBytes | XTint => TInt | XTbool => TBool
  | XTfloat => TFloat | XTdatetime => TDatetime | XTiterable => TIterable | XTmapping => TMapping
  end.

Definition key_val (k : ex_key) (i j : Z) : pyval :=
  match k with XK s => PStr s | XI => PInt i | XJ => PInt j end.

Inductive walk := WVal (v : pyval) | WBreak | WType.

Definition seq_index (l : list pyval) (i : Z) : walk :=
  let n := Z.of_nat (length l) in
  let i' := if i <? 0 then i + n else i in
  if (i' <? 0) || (i' >=? n) then WBreak else WVal (nth (Z.to_nat i') l PNone).

Definition getitem (obj k : pyval) : walk :=
  match obj with
  | PDict kvs => match dict_get kvs k with Some v => WVal v | None => WBreak end
  | PList l | PTuple l =>
      match k with
      | PInt i => seq_index l i
      | PBool b => seq_index l (if b then 1 else 0)
      | _ => WType
      end
  | PBytes b =>
      match k with
      | PInt i => seq_index (map (fun c => PInt (Z.of_N c)) b) i
      | _ => WType
      end
  | _ => WType
  end.

Fixpoint walk_keys (obj : pyval) (keys : list pyval) : res (pyval * pyval) :=
  match keys with
  | [] => Err IIndex
  | [k] => Ok (obj, k)
  | k :: rest =>
      match getitem obj k with
      | WVal v => walk_keys v rest
      | WBreak => match rest with k2 :: _ => Ok (obj, k2) | [] => Err IIndex end
      | WType => Err IType
      end
  end.

(* key_exists_in_list_or_dict *)
Definition key_exists (k obj : pyval) : res bool :=
  match obj with
  | PDict kvs => Ok (match dict_get kvs k with Some _ => true | None => false end)
  | PList _ | PTuple _ | PStr _ | PBytes _ =>
      let n := match obj with
               | PList l | PTuple l => Z.of_nat (length l)
               | PStr s | PBytes s => Z.of_nat (length s)   (* len(str) differs for non-ASCII; only <= matters here *)
               | _ => 0 end in
      match k with
      | PInt i => Ok ((0 <=? i) && (i <? n))
      | PBool b => Ok (0 <? n - (if b then 1 else 0))
      | PFloat _ => Ok false
      | _ => Err IType                       (* 0 <= 'name' *)
      end
  | _ => Ok false
  end.

(* doubled numeric value of a length (so that x.5 floats stay integral): *)
Inductive num := NFin (twice : Z) | NInf (neg : bool) | NNaN | NBad.

Definition num_of (v : pyval) : num :=
  match v with
  | PInt z => NFin (2 * z)
  | PBool b => NFin (if b then 2 else 0)
  | PFloat (FInt z) => NFin (2 * z)
  | PFloat (FHalf z) => NFin (2 * z + 1)
  | PFloat (FInf n) => NInf n
  | PFloat FNaN => NNaN
  | _ => NBad
  end.

Definition num_add (a b : num) : num :=
  match a, b with
  | NBad, _ | _, NBad => NBad
  | NNaN, _ | _, NNaN => NNaN
  | NInf x, NInf y => if Bool.eqb x y then NInf x else NNaN
  | NInf x, _ | _, NInf x => NInf x
  | NFin x, NFin y => NFin (x + y)
  end.

Definition hexdigit (c : N) : bool :=
  (((48 <=? c) && (c <=? 57)) || ((97 <=? c) && (c <=? 102)) || ((65 <=? c) && (c <=? 70)))%N.

(* _md5sum_regex = ^[0-9a-fA-F]{32}$ used with .match(): '$' also matches before a final newline *)
Definition is_md5sum (s : bytes) : bool :=
  let body := match rev s with 10%N :: r => rev r | _ => s end in
  ((length s =? 32)%nat && forallb hexdigit s) ||
  ((length s =? 33)%nat && (length body =? 32)%nat && forallb hexdigit body).

Definition run_check (c : ex_check) (v : pyval) : bool :=
  match c with
  | XCnone => true
  | XC16kib => match v with
               | PInt z => ex_is_divisible_by_16_kib z
               | PBool b => ex_is_divisible_by_16_kib (if b then 1 else 0)
               | _ => false end
  | XCurl => match v with PStr s => is_url s | _ => false end
  | XCmd5 => match v with PStr s => is_md5sum s | _ => false end
  | XCnonneg => match num_of v with
                | NFin t => 0 <=? t
                | NInf neg => negb neg
                | _ => false end
  end.

Definition assert_type (md : pyval) (r : ex_rule) (i j : Z) : res unit :=
  do ok <- walk_keys md (map (fun k => key_val k i j) (xr_path r));
  let '(obj, key) := ok in
  do ex <- key_exists key obj;
  if negb ex then (if xr_must r then Err DMetainfo else Ok tt)
  else
    match getitem obj key with
    | WVal v =>
        (* the error message formats the value with !r: ValueError beyond the int digit limit *)
        if negb (isinstance_any v (map conv_type (xr_types r))) then (if repr_fails v then Err IValue else Err DMetainfo)
        else if negb (run_check (xr_check r) v) then (if repr_fails v then Err IValue else Err DMetainfo)
        else Ok tt
    | _ => Err IType
    end.

Fixpoint all_rules (md : pyval) (rs : list ex_rule) (i j : Z) : res unit :=
  match rs with
  | [] => Ok tt
  | r :: rest => do _ <- assert_type md r i j; all_rules md rest i j
  end.

(* items of an iterable the model follows; None = not modelled *)
Definition seq_items (v : pyval) : option (list pyval) :=
  match v with
  | PList l | PTuple l => Some l
  | PBytes b => Some (map (fun c => PInt (Z.of_N c)) b)
  | _ => None
  end.

Fixpoint for_enum {X} (f : Z -> X -> res unit) (i : Z) (l : list X) : res unit :=
  match l with
  | [] => Ok tt
  | x :: r => do _ <- f i x; for_enum f (i + 1) r
  end.

(* -(-total // L) for L a positive int: exact for ints, no exception for inf/nan; [None] = a
   float nan, which is unequal to every piece count *)
Definition ceil_div (total : num) (L : Z) : res (option Z) :=
  match total with
  | NFin t2 => Ok (Some (cdiv t2 (2 * L)))
  | NInf _ | NNaN => Ok None
  | NBad => Err IType
  end.

(* what the file system says about Torrent.path (None = no path set) *)
Inductive fsinfo :=
| FSNone
| FSSingle (isfile : bool) (size : Z)
| FSMulti (isdir : bool) (files : list (bool * bool * Z)).   (* exists, isfile, size per listed file *)

Definition pstr (s : list N) : pyval := PStr s.

Definition k_info := [105; 110; 102; 111]%N.
Definition k_pieces := [112; 105; 101; 99; 101; 115]%N.
Definition k_length := [108; 101; 110; 103; 116; 104]%N.
Definition k_files := [102; 105; 108; 101; 115]%N.
Definition k_path := [112; 97; 116; 104]%N.
Definition k_piece_length := [112; 105; 101; 99; 101; 32; 108; 101; 110; 103; 116; 104]%N.
Definition k_announce_list := [97; 110; 110; 111; 117; 110; 99; 101; 45; 108; 105; 115; 116]%N.
Definition k_name := [110; 97; 109; 101]%N.

(* self.metainfo: the 'info' key is added when missing *)
Definition ensure_info (kvs : list (pyval * pyval)) : list (pyval * pyval) :=
  match dict_get kvs (PStr k_info) with
  | Some _ => kvs
  | None => kvs ++ [(PStr k_info, PDict [])]
  end.

(* Python converts an int to float when it meets a float in + or //: OverflowError for ints of 2**1024 or more
   (precisely: from 2**1024 - 2**970 on, which round up to 2**1024); validate() turns it into MetainfoError *)
Definition float_limit : Z := 2 ^ 1024 - 2 ^ 970.
Definition is_pyfloat (v : pyval) : bool := match v with PFloat _ => true | _ => false end.
Definition huge_for_float (v : pyval) : bool := match v with PInt z => Z.abs z >=? float_limit | _ => false end.
Definition float_clash (lens : list pyval) (L : Z) : bool :=
  existsb is_pyfloat lens && (existsb huge_for_float lens || (Z.abs L >=? float_limit)).
Definition guarded_ceil_div (clash : bool) (total : num) (L : Z) : res (option Z) :=
  if clash then Err DMetainfo else ceil_div total L.
Definition lengths_of (files : list pyval) : list pyval :=
  flat_map (fun fi => match fi with PDict kvs => match dict_get kvs (PStr k_length) with Some v => [v] | None => [] end | _ => [] end) files.

Definition lengths_sum (files : list pyval) : num :=
  fold_left (fun acc fi =>
               match fi with
               | PDict kvs => match dict_get kvs (PStr k_length) with
                              | Some v => num_add acc (num_of v) | None => NBad end
               | _ => NBad end) files (NFin 0).

Definition num_eq_Z (a : num) (z : Z) : bool :=
  match a with NFin t => t =? 2 * z | _ => false end.

Definition validate (fs : fsinfo) (kvs0 : list (pyval * pyval)) : res unit :=
  let kvs := ensure_info kvs0 in
  let md := PDict kvs in
  do _ <- all_rules md ex_rules_common 0 0;
  (* announce-list loops *)
  do _ <-
    (match dict_get kvs (PStr k_announce_list) with
     | None => Ok tt
     | Some al =>
         match seq_items al with
         | None => Err IOther
         | Some tiers =>
             for_enum (fun i tier =>
               do _ <- assert_type md ex_rule_al_i i 0;
               match seq_items tier with
               | None => Err IOther
               | Some urls => for_enum (fun j _ => assert_type md ex_rule_al_ij i j) 0 urls
               end) 0 tiers
         end
     end);
  match dict_get kvs (PStr k_info) with
  | Some (PDict info) =>
      match dict_get info (PStr k_pieces), dict_get info (PStr k_piece_length) with
      | Some (PBytes pieces), Some plv =>
          let plen := Z.of_nat (length pieces) in
          let L := match plv with PInt z => z | _ => 1 end in
          let has_len := match dict_get info (PStr k_length) with Some _ => true | None => false end in
          let has_files := match dict_get info (PStr k_files) with Some _ => true | None => false end in
          if plen =? 0 then Err DMetainfo
          else if negb (plen mod 20 =? 0) then Err DMetainfo
          else if has_len && has_files then Err DMetainfo
          else if has_len then
            do _ <- all_rules md ex_rules_single 0 0;
            let lv := match dict_get info (PStr k_length) with Some v => v | None => PNone end in
            do exp <- guarded_ceil_div (float_clash [lv] L) (num_of lv) L;
            if negb (match exp with Some e => plen / 20 =? e | None => false end)
            then (match exp with Some e => if Z.abs e >=? huge_bound then Err IValue else Err DMetainfo | None => Err DMetainfo end)
            else
              match fs with
              | FSNone => Ok tt
              | FSSingle isfile size =>
                  if negb isfile then Err DMetainfo
                  else if num_eq_Z (num_of lv) size then Ok tt else Err DMetainfo
              | FSMulti _ _ => Err DMetainfo      (* path is a directory: not a file *)
              end
          else if has_files then
            do _ <- assert_type md ex_rule_files 0 0;
            let fv := match dict_get info (PStr k_files) with Some v => v | None => PNone end in
            match fv with
            | PList files | PTuple files =>
                do _ <- for_enum (fun i fi =>
                          do _ <- all_rules md ex_rules_file_i i 0;
                          match fi with
                          | PDict fkvs =>
                              match dict_get fkvs (PStr k_path) with
                              | Some pv =>
                                  match seq_items pv with
                                  | None => Err IOther
                                  | Some comps => for_enum (fun j _ => assert_type md ex_rule_path_j i j) 0 comps
                                  end
                              | None => Err IKey
                              end
                          | _ => Err IType
                          end) 0 files;
                do exp <- guarded_ceil_div (float_clash (lengths_of files) L) (lengths_sum files) L;
                if negb (match exp with Some e => plen / 20 =? e | None => false end)
            then (match exp with Some e => if Z.abs e >=? huge_bound then Err IValue else Err DMetainfo | None => Err DMetainfo end)
                else
                  match fs with
                  | FSNone => Ok tt
                  | FSSingle _ _ => Err DMetainfo   (* path is not a directory *)
                  | FSMulti isdir st =>
                      if negb isdir then Err DMetainfo
                      else
                        (fix chk (fl : list pyval) (st : list (bool * bool * Z)) : res unit :=
                           match fl, st with
                           | fi :: fr, (ex, isf, sz) :: sr =>
                               if negb ex then Err DMetainfo
                               else if negb isf then Err DMetainfo
                               else
                                 let lv := match fi with
                                           | PDict fkvs => match dict_get fkvs (PStr k_length) with Some v => v | None => PNone end
                                           | _ => PNone end in
                                 if num_eq_Z (num_of lv) sz then chk fr sr else Err DMetainfo
                           | _, _ => Ok tt
                           end) files st
                  end
            | _ => Err IOther
            end
          else Err DMetainfo
      | _, _ => Err IKey     (* unreachable after the common rules *)
      end
  | _ => Err IKey            (* unreachable after the common rules *)
  end.

End Val.

(* ---- a concrete is_url for the executable model (the harness draws URLs from a pool
        on which this agrees with urllib.parse; see DESIGN) ---- *)
Definition is_alpha (c : N) : bool := (((65 <=? c) && (c <=? 90)) || ((97 <=? c) && (c <=? 122)))%N.
Definition is_scheme_char (c : N) : bool :=
  is_alpha c || is_digit c || (c =? 43)%N || (c =? 45)%N || (c =? 46)%N.

Fixpoint split_at (c : N) (s : bytes) (acc : bytes) : option (bytes * bytes) :=
  match s with
  | [] => None
  | x :: r => if (x =? c)%N then Some (rev acc, r) else split_at c r (x :: acc)
  end.

Fixpoint take_until (stop : N -> bool) (s : bytes) : bytes :=
  match s with
  | [] => []
  | x :: r => if stop x then [] else x :: take_until stop r
  end.

Definition last_colon_split (s : bytes) : option (bytes * bytes) :=
  match split_at 58%N (rev s) [] with
  | Some (rport, rhost) => Some (rev rhost, rev rport)
  | None => None
  end.

Definition simple_is_url (s : bytes) : bool :=
  match split_at 58%N s [] with
  | None => false
  | Some (scheme, rest) =>
      match scheme with
      | [] => false
      | c0 :: _ =>
          if negb (is_alpha c0 && forallb is_scheme_char scheme) then false
          else
            match rest with
            | 47%N :: 47%N :: r2 =>
                let netloc := take_until (fun c => (c =? 47)%N || (c =? 63)%N || (c =? 35)%N) r2 in
                match netloc with
                | [] => false
                | _ =>
                    if existsb (fun c => (c =? 91)%N || (c =? 93)%N) netloc then false
                    else
                      let hostport := match split_at 64%N (rev netloc) [] with
                                      | Some (rhp, _) => rev rhp | None => netloc end in
                      (* urllib: hostname, _, port = hostinfo.partition(':') -- everything after the FIRST colon *)
                      match split_at 58%N hostport [] with
                      | None => true
                      | Some (_, port) =>
                          match port with
                          | [] => true
                          | _ => forallb is_digit port && (digits_value port <=? 65535)
                          end
                      end
                end
            | _ => false
            end
      end
  end.
