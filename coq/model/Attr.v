(* Attr.v -- model of the attribute state machine of Torrent around piece hashes:
   _set_files (every change of path / files / filepaths / filters funnels into it),
   the piece_size / piece_size_min / piece_size_max setters, calculate_piece_size
   and generate.  The file layout is abstracted to (layout id, total size); the
   stored piece string to the (layout id, piece length) it was computed for.
   Executable definitions only. *)
From Torf Require Import Base Extracted.
Open Scope Z_scope.

Record ast := {
  a_size : Z;                    (* total size of the listed files *)
  a_layout : Z;                  (* identity of the current file layout *)
  a_plen : option Z;             (* info['piece length'] *)
  a_pieces : option (Z * Z);     (* info['pieces'] present: (layout, piece length) it was hashed for *)
  a_pmin : Z;
  a_pmax : Z;
  a_path : bool                  (* Torrent.path is set *)
}.

(* smallest power of two p (>= 1) with p * max_pieces >= size *)
Fixpoint pow2_cover (fuel : nat) (p size mp : Z) : Z :=
  match fuel with
  | O => p
  | S f => if p * mp >=? size then p else pow2_cover f (2 * p) size mp
  end.

Fixpoint max_pieces_for (tbl : list (Z * Z)) (size : Z) : Z :=
  match tbl with
  | [] => ex_cps_default
  | (thr, mp) :: r => if size <=? thr then mp else max_pieces_for r size
  end.

(* Torrent.calculate_piece_size(size, min_size, max_size); size > 0 *)
Definition calculate_piece_size (size lo hi : Z) : Z :=
  let mp := max_pieces_for ex_cps_table size in
  (* 2 ** ceil(log2(size / mp)); for size <= mp the power is <= 1 and the minimum wins *)
  let p := if size <=? mp then 1 else pow2_cover 200 1 size mp in
  ex_cps_clamp p lo hi.

Inductive aop :=
| ASetLayout (size id : Z) (exists_ : bool)   (* path / files / filepaths / filters changed *)
| ASetPieceSize (v : option Z)
| ASetMin (v : option Z)
| ASetMax (v : option Z)
| AGenerate
| AOther.                                      (* name, comment, trackers, private, ... *)

(* piece_size setter with an explicit value *)
Definition set_piece_size_val (s : ast) (v : Z) : res unit * ast :=
  if negb (ex_is_divisible_by_16_kib v) then (Err DPieceSize, s)
  else if negb ((a_pmin s <=? v) && (v <=? a_pmax s)) then (Err DPieceSize, s)
  else
    let pieces' := match a_plen s with
                   | Some old => if old =? v then a_pieces s else None
                   | None => None end in
    (Ok tt, {| a_size := a_size s; a_layout := a_layout s; a_plen := Some v; a_pieces := pieces';
               a_pmin := a_pmin s; a_pmax := a_pmax s; a_path := a_path s |}).

Definition set_piece_size (s : ast) (v : option Z) : res unit * ast :=
  match v with
  | Some v => set_piece_size_val s v
  | None =>
      if a_size s <=? 0 then
        (Ok tt, {| a_size := a_size s; a_layout := a_layout s; a_plen := None; a_pieces := a_pieces s;
                   a_pmin := a_pmin s; a_pmax := a_pmax s; a_path := a_path s |})
      else set_piece_size_val s (calculate_piece_size (a_size s) (a_pmin s) (a_pmax s))
  end.

Definition astep (s : ast) (o : aop) : res unit * ast :=
  match o with
  | ASetLayout size id ex =>
      (* _set_files: pieces removed, files replaced, path updated, then piece_size = None *)
      let s1 := {| a_size := size; a_layout := id; a_plen := a_plen s; a_pieces := None;
                   a_pmin := a_pmin s; a_pmax := a_pmax s; a_path := ex |} in
      set_piece_size s1 None
  | ASetPieceSize v => set_piece_size s v
  | ASetMin None =>
      (Ok tt, {| a_size := a_size s; a_layout := a_layout s; a_plen := a_plen s; a_pieces := a_pieces s;
                 a_pmin := ex_piece_size_min_default; a_pmax := a_pmax s; a_path := a_path s |})
  | ASetMin (Some v) =>
      if negb (ex_is_divisible_by_16_kib v) then (Err DPieceSize, s)
      else if v >? a_pmax s then (Err DPieceSize, s)
      else
        let s1 := {| a_size := a_size s; a_layout := a_layout s; a_plen := a_plen s; a_pieces := a_pieces s;
                     a_pmin := v; a_pmax := a_pmax s; a_path := a_path s |} in
        (match a_plen s with
         | Some l => if l =? 0 then (Ok tt, s1) else set_piece_size_val s1 (Z.max v l)
         | None => (Ok tt, s1) end)
  | ASetMax None =>
      (Ok tt, {| a_size := a_size s; a_layout := a_layout s; a_plen := a_plen s; a_pieces := a_pieces s;
                 a_pmin := a_pmin s; a_pmax := ex_piece_size_max_default; a_path := a_path s |})
  | ASetMax (Some v) =>
      if negb (ex_is_divisible_by_16_kib v) then (Err DPieceSize, s)
      else if v <? a_pmin s then (Err DPieceSize, s)
      else
        let s1 := {| a_size := a_size s; a_layout := a_layout s; a_plen := a_plen s; a_pieces := a_pieces s;
                     a_pmin := a_pmin s; a_pmax := v; a_path := a_path s |} in
        (match a_plen s with
         | Some l => if l =? 0 then (Ok tt, s1) else set_piece_size_val s1 (Z.min v l)
         | None => (Ok tt, s1) end)
  | AGenerate =>
      if negb (a_path s) then (Err IRuntime, s)
      else if a_size s <? 1 then (Err DPath, s)
      else
        match a_plen s with
        | Some l => (Ok tt, {| a_size := a_size s; a_layout := a_layout s; a_plen := a_plen s;
                               a_pieces := Some (a_layout s, l);
                               a_pmin := a_pmin s; a_pmax := a_pmax s; a_path := a_path s |})
        | None => (Err IOther, s)
        end
  | AOther => (Ok tt, s)
  end.

Definition ainit : ast :=
  {| a_size := 0; a_layout := 0; a_plen := None; a_pieces := None;
     a_pmin := ex_piece_size_min_default; a_pmax := ex_piece_size_max_default; a_path := false |}.

Fixpoint arun (s : ast) (ops : list aop) : list (res unit * ast) :=
  match ops with
  | [] => []
  | o :: r => let '(res, s') := astep s o in (res, s') :: arun s' r
  end.
