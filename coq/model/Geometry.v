(* Geometry.v -- model of the arithmetic methods of TorrentFileStream
   (torf/_stream.py: max_piece_index, get_file_position, get_file_at_position,
   get_piece_indexes_of_file, get_files_at_byte_range, get_byte_range_of_file,
   get_files_at_piece_index, get_absolute_piece_indexes,
   get_relative_piece_indexes) written in the shape of the code.
   Executable definitions only. *)
From Torf Require Import Base Extracted.
Open Scope Z_scope.

(* A torrent file: (path identity, recorded size).  Python's File.__eq__
   compares path and size. *)
Definition file := (Z * Z)%type.
Definition fid (f : file) : Z := fst f.
Definition fsize (f : file) : Z := snd f.
Definition file_eqb (a b : file) : bool := (fst a =? fst b) && (snd a =? snd b).

Fixpoint files_eqb (a b : list file) : bool :=
  match a, b with
  | [], [] => true
  | x :: a', y :: b' => file_eqb x y && files_eqb a' b'
  | _, _ => false
  end.

Definition total_size (fs : list file) : Z := sumZ (map fsize fs).

(* math.floor(a / b) on ints.  Python raises ZeroDivisionError for b = 0;
   otherwise (|a|,|b| < 2^53) floor of the float quotient = floor division. *)
Definition pyfloordiv (a b : Z) : res Z :=
  if b =? 0 then Err IZeroDiv else Ok (a / b).

Definition max_piece_index (fs : list file) (L : Z) : res Z :=
  pyfloordiv (ex_mpi_num (total_size fs)) (ex_mpi_den L).

(* get_file_position: list.index + sum of preceding sizes *)
Fixpoint file_position (fs : list file) (f : file) : res Z :=
  match fs with
  | [] => Err DValue
  | g :: r =>
      if file_eqb g f then Ok 0
      else do p <- file_position r f; Ok (fsize g + p)
  end.

Fixpoint file_at_position_aux (fs : list file) (pos position : Z) : res file :=
  match fs with
  | [] => Err DValue
  | f :: r =>
      let pos' := ex_fap_adv pos (fsize f) in
      if ex_fap_hit pos' position then Ok f
      else file_at_position_aux r (ex_fap_next pos') position
  end.

Definition file_at_position (fs : list file) (position : Z) : res file :=
  if ex_fap_guard position then file_at_position_aux fs 0 position else Err DValue.

(* loop body of get_files_at_byte_range *)
Definition in_range_test (pos sz a b : Z) : bool :=
  ex_fabr_test a b (ex_fabr_first pos sz) (ex_fabr_last pos sz).

Fixpoint files_at_byte_range_aux (fs : list file) (pos a b : Z) : list file :=
  match fs with
  | [] => []
  | f :: r =>
      (if in_range_test pos (fsize f) a b then [f] else [])
        ++ files_at_byte_range_aux r (ex_fabr_step pos (fsize f)) a b
  end.

Definition files_at_byte_range (fs : list file) (a b : Z) : res (list file) :=
  if ex_fabr_assert a b then Ok (files_at_byte_range_aux fs 0 a b) else Err IAssert.

Definition byte_range_of_file (fs : list file) (f : file) : res (Z * Z) :=
  do s <- file_position fs f; Ok (ex_brof_lo s (fsize f), ex_brof_hi s (fsize f)).

Definition files_at_piece_index (fs : list file) (L i : Z) : res (list file) :=
  if ex_fapi_guard i then
    do l <- files_at_byte_range fs (ex_fapi_start i L) (ex_fapi_end i L);
    match l with
    | [] => Err DValue
    | _ => Ok l
    end
  else Err DValue.

(* list(range(a, b)) *)
Definition zrange (a b : Z) : list Z :=
  map (fun k => a + Z.of_nat k) (seq 0 (Z.to_nat (b - a))).

(* list.remove(x): removes the first occurrence, ValueError if absent *)
Fixpoint list_remove (l : list Z) (x : Z) : res (list Z) :=
  match l with
  | [] => Err IValue
  | y :: r => if y =? x then Ok r else do r' <- list_remove r x; Ok (y :: r')
  end.

Fixpoint zmem (x : Z) (l : list Z) : bool :=
  match l with [] => false | y :: r => (y =? x) || zmem x r end.

Definition piece_indexes_of_file (fs : list file) (L : Z) (f : file) (exclusive : bool)
  : res (list Z) :=
  do sp <- file_position fs f;
  do first <- pyfloordiv (ex_piof_first_num sp (fsize f)) (ex_piof_first_den L);
  do last <- pyfloordiv (ex_piof_last_num sp (fsize f)) (ex_piof_last_den L);
  let pis := zrange (ex_piof_range_lo first last) (ex_piof_range_hi first last) in
  if exclusive then
    do ff <- files_at_piece_index fs L first;
    do pis1 <- (if negb (files_eqb ff [f]) then list_remove pis first else Ok pis);
    do fl <- files_at_piece_index fs L last;
    if zmem last pis1 && negb (files_eqb fl [f]) then list_remove pis1 last else Ok pis1
  else Ok pis.

(* sorted(set(...)) : insertion into a strictly increasing list *)
Fixpoint zinsert (x : Z) (l : list Z) : list Z :=
  match l with
  | [] => [x]
  | y :: r => if x <? y then x :: l else if x =? y then l else y :: zinsert x r
  end.

Definition sorted_set (l : list Z) : list Z := fold_right zinsert [] l.

Definition clamp (lo hi v : Z) : Z := Z.max lo (Z.min hi v).

Definition absolute_piece_indexes (fs : list file) (L : Z) (f : file) (rels : list Z)
  : res (list Z) :=
  do pis <- piece_indexes_of_file fs L f false;
  match pis with
  | [] => Err IIndex
  | amin :: _ =>
      let amax := last pis amin in
      let rmax := amax - amin in
      Ok (sorted_set (map (fun r =>
             let r1 := if r <? 0 then rmax - Z.abs r + 1 else r in
             amin + clamp 0 rmax r1) rels))
  end.

Definition relative_piece_indexes (L : Z) (f : file) (rels : list Z) : res (list Z) :=
  do mx <- pyfloordiv (fsize f - 1) L;
  Ok (sorted_set (map (fun r =>
         let r1 := if r <? 0 then mx - Z.abs r + 1 else r in
         clamp 0 mx r1) rels)).

(* ---- arithmetic specification on the concatenated stream ---- *)

(* offset of the k-th file *)
Definition offset_of (fs : list file) (k : nat) : Z := total_size (firstn k fs).

(* file k owns byte p *)
Definition owns (fs : list file) (k : nat) (p : Z) : bool :=
  (offset_of fs k <=? p) && (p <? offset_of fs k + fsize (nth k fs (0, 0))).

(* file with [off, off+sz) intersects [a, b] *)
Definition overlaps (off sz a b : Z) : bool :=
  (0 <? sz) && (off <=? b) && (a <? off + sz).

Fixpoint spec_files_in_range (fs : list file) (pos a b : Z) : list file :=
  match fs with
  | [] => []
  | f :: r => (if overlaps pos (fsize f) a b then [f] else [])
                ++ spec_files_in_range r (pos + fsize f) a b
  end.
