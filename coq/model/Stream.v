(* Stream.v -- model of TorrentFileStream.get_piece / get_piece_hash /
   verify_piece / iter_pieces and of _MissingPieces (torf/_stream.py), written in
   the shape of the code.  Executable definitions only.

   Disk: association list file id -> content; a file id that is absent is a
   missing file.  Every read through a handle is preceded by an explicit seek
   (get_piece: fh.seek(seek_to); iter_pieces: fh.seek(skip_bytes)), so the open
   handle table only records WHICH files are open (insertion order). *)
From Torf Require Import Base Extracted Geometry.
Open Scope Z_scope.

Definition disk := list (Z * bytes).

Fixpoint disk_get (d : disk) (id : Z) : option bytes :=
  match d with
  | [] => None
  | (k, c) :: r => if k =? id then Some c else disk_get r id
  end.

Definition zlen {X} (l : list X) : Z := Z.of_nat (length l).

(* ---- open handle table (TorrentFileStream._get_open_file) ---- *)
Definition handles := list Z.

Fixpoint evict (fuel : nat) (cap : Z) (h : handles) : handles :=
  match fuel with
  | O => h
  | S n => if zlen h >? cap then evict n cap (tl h) else h
  end.

(* returns the new table together with success/failure: eviction happens before
   open() is attempted, so it also takes effect when open() fails *)
Definition get_open_file (d : disk) (h : handles) (id : Z) : res unit * handles :=
  if zmem id h then (Ok tt, h)
  else
    let h' := evict (length h) ex_max_open_files h in
    match disk_get d id with
    | Some _ => (Ok tt, h' ++ [id])
    | None => (Err (DRead 2), h')
    end.

(* bytes [off, off+n) of a content *)
Definition read_at (c : bytes) (off n : Z) : bytes :=
  firstn (Z.to_nat n) (skipn (Z.to_nat off) c).

(* ---- get_piece ---- *)
Fixpoint gp_read (d : disk) (h : handles) (rel : list file) (seek to_read : Z) (acc : bytes)
  : res bytes * handles :=
  match rel with
  | [] => (Ok acc, h)
  | f :: r =>
      match get_open_file d h (fid f) with
      | (Err e, h1) => (Err e, h1)
      | (Ok _, h1) =>
          match disk_get d (fid f) with
          | None => (Err (DRead 2), h1)
          | Some c =>
              if negb (zlen c =? fsize f) then (Err DFileSize, h1)
              else if seek <? 0 then (Err (DRead 22), h1)
              else
                let content := read_at c seek to_read in
                gp_read d h1 r 0 (to_read - zlen content) (acc ++ content)
          end
      end
  end.

Definition gp_plan (fs : list file) (L i : Z) : res (list file * Z * Z) :=
  let size := total_size fs in
  do mx <- pyfloordiv (ex_gp_max_num size) (ex_gp_max_den L);
  if ex_gp_out_of_range ex_gp_min mx i then Err DValue
  else
    let fb := ex_gp_first_byte i L in
    let lb := ex_gp_last_byte fb L size in
    do rel <- files_at_byte_range fs fb lb;
    do seek <-
      (match rel with
       | [f] => do fpos <- file_position fs f; Ok (ex_gp_seek_single fb fpos)
       | _ => do f <- file_at_position fs fb;
              do fpos <- file_position fs f;
              Ok (ex_gp_seek_multi fpos (fsize f) L)
       end);
    let exp := if ex_gp_is_last lb size
               then (let e := ex_gp_exp_last size L in if e =? 0 then L else e)
               else L in
    Ok (rel, seek, exp).

Definition get_piece (d : disk) (h : handles) (fs : list file) (L i : Z) : res bytes * handles :=
  match gp_plan fs L i with
  | Err e => (Err e, h)
  | Ok (rel, seek, exp) =>
      match gp_read d h rel seek L [] with
      | (Err e, h') => (Err e, h')
      | (Ok piece, h') => if zlen piece =? exp then (Ok piece, h') else (Err IAssert, h')
      end
  end.

(* get_piece_hash: ENOENT -> None.  The hash function is a parameter. *)
Section Hash.
Variable H : bytes -> bytes.

Definition get_piece_hash (d : disk) (h : handles) (fs : list file) (L i : Z)
  : res (option bytes) * handles :=
  match get_piece d h fs L i with
  | (Ok p, h') => (Ok (Some (H p)), h')
  | (Err (DRead 2), h') => (Ok None, h')
  | (Err e, h') => (Err e, h')
  end.

Definition verify_piece (d : disk) (h : handles) (fs : list file) (L : Z) (hashes : list bytes) (i : Z)
  : res (option bool) * handles :=
  (* self._torrent.hashes[piece_index]: negative indexes address from the end *)
  let n := zlen hashes in
  let idx := if i <? 0 then i + n else i in
  if (idx <? 0) || (idx >=? n) then (Err DValue, h)
  else
    let stored := nth (Z.to_nat idx) hashes [] in
    match get_piece_hash d h fs L i with
    | (Ok (Some gh), h') => (Ok (Some (bytes_eqb stored gh)), h')
    | (Ok None, h') => (Ok None, h')
    | (Err e, h') => (Err e, h')
    end.
End Hash.

(* ---- iter_pieces ---- *)

(* exceptions attached to items: (kind, file id) *)
Inductive xkind := XMissing | XSize.
Definition xitem := (xkind * Z)%type.

(* one yielded item: (piece or None, file id of filepath, exceptions) *)
Definition item := (option bytes * Z * list xitem)%type.

(* pieces produced from one file handle by _iter_from_file_handle: the content
   from [skip] on, with [prepend] in front, cut into L-sized chunks; a final
   shorter chunk is returned separately (it becomes trailing_bytes). *)
Fixpoint chunk_fuel (fuel : nat) (L : Z) (s : bytes) : list bytes :=
  match fuel with
  | O => []
  | S n =>
      match s with
      | [] => []
      | _ => firstn (Z.to_nat L) s :: chunk_fuel n L (skipn (Z.to_nat L) s)
      end
  end.

Definition chunks (L : Z) (s : bytes) : list bytes := chunk_fuel (length s) L s.

(* the generator of _iter_from_file_handle, as the list it yields.  [prepend]
   (trailing_bytes) is always shorter than a piece: it is completed with the
   first bytes of the file, then the rest is read in L-sized chunks. *)
Definition pieces_from_handle (L : Z) (prepend content_from_skip : bytes) : list bytes :=
  match prepend with
  | [] => chunks L content_from_skip
  | _ =>
      let need := Z.to_nat (L - zlen prepend) in
      (prepend ++ firstn need content_from_skip) :: chunks L (skipn need content_from_skip)
  end.

(* _MissingPieces state *)
Record mp_state := { mp_seen : list Z; mp_bycatch : list file }.

(* "for x in l: if x in seen: l.remove(x)" with CPython's index-based list iterator *)
Fixpoint rm_while_iter (fuel : nat) (seen l : list Z) (idx : nat) : list Z :=
  match fuel with
  | O => l
  | S n =>
      match nth_error l idx with
      | None => l
      | Some x =>
          if zmem x seen
          then match list_remove l x with
               | Ok l' => rm_while_iter n seen l' (S idx)
               | Err _ => l
               end
          else rm_while_iter n seen l (S idx)
      end
  end.

Fixpoint files_remove (l : list file) (f : file) : res (list file) :=
  match l with
  | [] => Err IValue
  | g :: r => if file_eqb g f then Ok r else do r' <- files_remove r f; Ok (g :: r')
  end.

Fixpoint file_mem (f : file) (l : list file) : bool :=
  match l with [] => false | g :: r => file_eqb g f || file_mem f r end.

Definition bycatch_exceptions (d : disk) (bc : list file) : list xitem :=
  flat_map (fun f =>
    match disk_get d (fid f) with
    | None => [(XMissing, fid f)]
    | Some c => if zlen c =? fsize f then [] else [(XSize, fid f)]
    end) bc.

(* _MissingPieces.__call__ : returns (items, skip_bytes, new state) *)
Definition missing_pieces (d : disk) (fs : list file) (L : Z) (st : mp_state) (f : file) (reason : xitem)
  : res (list item * Z * mp_state) :=
  do pis0 <- piece_indexes_of_file fs L f false;
  let pis := rm_while_iter (length pis0) (mp_seen st) pis0 0 in
  let seen' := mp_seen st ++ pis in
  match pis with
  | [] => Err IIndex
  | p0 :: _ =>
      let plast := last pis p0 in
      do aff0 <- files_at_piece_index fs L plast;
      do aff <- files_remove aff0 f;
      do r <-
        (match aff with
         | [] => Ok ([], 0)
         | a0 :: _ =>
             let next_file := last aff a0 in
             do rng <- byte_range_of_file fs next_file;
             let '(nstart, nend) := rng in
             let boundary := plast * L + L - 1 in
             if nend >? boundary
             then Ok (removelast aff, boundary - nstart + 1)
             else Ok (aff, 0)
         end);
      let '(bycatch, skip) := r in
      let st' := {| mp_seen := seen'; mp_bycatch := mp_bycatch st ++ bycatch |} in
      let count := zlen pis in
      let bx := bycatch_exceptions d bycatch in
      let first := (None, fid f, reason :: (if count =? 1 then bx else [])) in
      let middle := repeat (None, fid f, []) (Z.to_nat (count - 2)) in
      let lst := if count >? 1 then [(None, fid f, bx)] else [] in
      Ok (first :: middle ++ lst, skip, st')
  end.

Record it_state := {
  it_trailing : bytes;
  it_skip : Z;
  it_mp : mp_state;
  it_h : handles;
  it_lastfile : Z
}.

Fixpoint iter_files (d : disk) (fs_all : list file) (L : Z) (todo : list file) (st : it_state)
  (acc : list (item * handles)) : res (list (item * handles) * it_state) :=
  match todo with
  | [] => Ok (acc, st)
  | f :: r =>
      if file_mem f (mp_bycatch (it_mp st)) then iter_files d fs_all L r st acc
      else
        let actual := disk_get d (fid f) in
        let size_bad := match actual with Some c => negb (zlen c =? fsize f) | None => false end in
        let opened := if size_bad then (Err DFileSize, it_h st) else get_open_file d (it_h st) (fid f) in
        match opened, actual with
        | (Ok _, h'), Some c =>
            let ps := pieces_from_handle L (it_trailing st) (skipn (Z.to_nat (it_skip st)) c) in
            let full := filter (fun p => zlen p =? L) ps in
            let trailing := last (filter (fun p => negb (zlen p =? L)) ps) [] in
            let st' := {| it_trailing := trailing; it_skip := 0; it_mp := it_mp st;
                          it_h := h'; it_lastfile := fid f |} in
            iter_files d fs_all L r st' (acc ++ map (fun p => ((Some p, fid f, []), h')) full)
        | (_, h'), _ =>
            let reason := if size_bad then (XSize, fid f) else (XMissing, fid f) in
            do m <- missing_pieces d fs_all L (it_mp st) f reason;
            let '(items, skip, mp') := m in
            let st' := {| it_trailing := []; it_skip := skip; it_mp := mp';
                          it_h := h'; it_lastfile := fid f |} in
            iter_files d fs_all L r st' (acc ++ map (fun it => (it, h')) items)
        end
  end.

(* items paired with the open-handle table at the moment each is yielded *)
Definition iter_pieces_snap (d : disk) (h : handles) (fs : list file) (L : Z)
  : res (list (item * handles)) :=
  if L <=? 0 then Err IValue else
  let st0 := {| it_trailing := []; it_skip := 0;
                it_mp := {| mp_seen := []; mp_bycatch := [] |};
                it_h := h; it_lastfile := 0 |} in
  do r <- iter_files d fs L fs st0 [];
  let '(items, st) := r in
  Ok (match it_trailing st with
      | [] => items
      | t => items ++ [((Some t, it_lastfile st, []), it_h st)]
      end).

Definition iter_pieces (d : disk) (h : handles) (fs : list file) (L : Z) : res (list item) :=
  res_map (map fst) (iter_pieces_snap d h fs L).
