(* Filesize.v -- model of Torrent.verify_filesize (after its validate() call):
   per listed file the path under the content path is missing or has some size.
   Callback: none, or a callback that cancels (returns not-None) at its k-th call
   (k = 0: never).  Executable definitions only. *)
From Torf Require Import Base.
Open Scope Z_scope.

Inductive fstate := FMissing | FSize (n : Z).
Inductive ferr := FENoEnt | FEWrongSize | FEIsDir.

(* one callback call: (file index, files_done, error) *)
Definition fcall := (Z * Z * option ferr)%type.

Inductive fres := FRet (b : bool) | FRaise (e : ferr).

Definition file_error (expected : Z) (st : fstate) : option ferr :=
  match st with
  | FMissing => Some FENoEnt
  | FSize n => if n =? expected then None else Some FEWrongSize
  end.

(* cb = None: no callback.  cb = Some k: callback present, returns a value at its k-th call (1-based), k = 0 never *)
Fixpoint vf_loop (cb : option Z) (i : Z) (ncalls : Z) (sticky : bool) (files : list Z) (disk : list fstate)
                 (calls : list fcall) : fres * list fcall :=
  match files, disk with
  | expected :: fr, st :: dr =>
      let err := file_error expected st in
      match cb with
      | None =>
          match err with
          | Some e => (FRaise e, calls)              (* cancel() raises the exception *)
          | None => vf_loop cb (i + 1) ncalls sticky fr dr calls
          end
      | Some k =>
          let calls' := calls ++ [(i, i + 1, err)] in
          if (ncalls + 1 =? k) then (FRet false, calls')      (* callback asked to stop *)
          else vf_loop cb (i + 1) (ncalls + 1)
                       (sticky || match err with Some _ => true | None => false end) fr dr calls'
      end
  | _, _ => (FRet (negb sticky), calls)
  end.

Definition verify_filesize (cb : option Z) (single_at_dir : bool) (files : list Z) (disk : list fstate)
  : fres * list fcall :=
  if single_at_dir then
    match cb with
    | None => (FRaise FEIsDir, [])
    | Some _ => (FRet false, [(0, 1, Some FEIsDir)])
    end
  else vf_loop cb 0 0 false files disk [].
