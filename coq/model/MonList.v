(* MonList.v -- model of utils.MonitoredList / URLs / Trackers and of the tracker,
   webseed and httpseed properties of Torrent (read from / written back to the
   metainfo on every operation).  URLs are ids; [valid] and [norm] (space -> '+')
   are parameters.  Executable definitions only.

   Not modelled (implementation-side oracle only): slice assignment and
   index-assignment of a URL that is already in the list (known findings). *)
From Torf Require Import Base Extracted Geometry.
Open Scope Z_scope.

Section ML.
Variable valid : Z -> bool.     (* utils.is_url on the given string *)
Variable norm : Z -> Z.         (* URL(s): the stored string (spaces replaced by '+') *)

Definition tiers := list (list Z).

(* the four metainfo fields *)
Record mdstate := {
  md_announce : option Z;
  md_alist : option tiers;
  md_web : option (list Z);
  md_http : option (list Z)
}.

(* map(URL, items): all are validated before anything is stored *)
Fixpoint coerce_all (l : list Z) : res (list Z) :=
  match l with
  | [] => Ok []
  | u :: r => if valid u then do r' <- coerce_all r; Ok (norm u :: r') else Err DURL
  end.

(* extend with the de-duplicating insert: item kept iff not in items and not in known *)
Fixpoint dedup_into (known items new : list Z) : list Z :=
  match new with
  | [] => items
  | u :: r => if zmem u items || zmem u known then dedup_into known items r
              else dedup_into known (items ++ [u]) r
  end.

(* URLs(urls, known) *)
Definition make_urls (known urls : list Z) : res (list Z) :=
  do c <- coerce_all urls; Ok (dedup_into known [] c).

Definition flat (t : tiers) : list Z := concat t.

Fixpoint subset (a b : list Z) : bool :=
  match a with [] => true | x :: r => zmem x b && subset r b end.
Definition set_eqb (a b : list Z) : bool := subset a b && subset b a.

(* list.insert(index, x) with Python's index clamping *)
Definition py_insert {X} (l : list X) (i : Z) (x : X) : list X :=
  let n := Z.of_nat (length l) in
  let i' := if i <? 0 then Z.max 0 (i + n) else Z.min i n in
  firstn (Z.to_nat i') l ++ x :: skipn (Z.to_nat i') l.

(* normalised index for l[i] / del l[i]; None = IndexError *)
Definition py_index {X} (l : list X) (i : Z) : option nat :=
  let n := Z.of_nat (length l) in
  let i' := if i <? 0 then i + n else i in
  if (i' <? 0) || (i' >=? n) then None else Some (Z.to_nat i').

Definition del_at {X} (l : list X) (k : nat) : list X := firstn k l ++ skipn (S k) l.
Definition set_at {X} (l : list X) (k : nat) (x : X) : list X := firstn k l ++ x :: skipn (S k) l.

(* Trackers.insert(index, value) *)
Definition tr_insert (t : tiers) (i : Z) (urls : list Z) : res tiers :=
  do tier <- make_urls (flat t) urls;
  match tier with
  | [] => Ok t
  | _ => if existsb (set_eqb tier) t then Ok t else Ok (py_insert t i tier)
  end.

(* Trackers(tiers): append every tier *)
Fixpoint tr_build (acc : tiers) (ts : tiers) : res tiers :=
  match ts with
  | [] => Ok acc
  | x :: r => do acc' <- tr_insert acc (Z.of_nat (length acc)) x; tr_build acc' r
  end.

(* Torrent._trackers_changed *)
Definition write_trackers (t : tiers) (m : mdstate) : mdstate :=
  {| md_announce := match t with (u :: _) :: _ => Some u | _ => None end;
     md_alist := if Z.of_nat (length (flat t)) <=? 1 then None else Some t;
     md_web := md_web m; md_http := md_http m |}.

(* Torrent.trackers (getter) *)
Definition read_trackers (m : mdstate) : res tiers :=
  let ts := match md_alist m with Some l => l | None => [] end in
  let ts' := match md_announce m with
             | Some a => if zmem a (flat ts) then ts else [a] :: ts
             | None => ts end in
  tr_build [] ts'.

Inductive seedkind := Web | Http.

Definition get_seeds (k : seedkind) (m : mdstate) : list Z :=
  match (match k with Web => md_web m | Http => md_http m end) with Some l => l | None => [] end.

Definition write_seeds (k : seedkind) (l : list Z) (m : mdstate) : mdstate :=
  let v := match l with [] => None | _ => Some l end in
  match k with
  | Web => {| md_announce := md_announce m; md_alist := md_alist m; md_web := v; md_http := md_http m |}
  | Http => {| md_announce := md_announce m; md_alist := md_alist m; md_web := md_web m; md_http := v |}
  end.

(* operations on a URLs list with de-duplication against [known] *)
Inductive lop :=
| LAppend (u : Z) | LInsert (i u : Z) | LRemove (u : Z) | LDel (i : Z) | LPop (i : Z)
| LClear | LExtend (us : list Z) | LSetFresh (i u : Z).

Fixpoint index_of (l : list Z) (u : Z) (k : nat) : option nat :=
  match l with [] => None | x :: r => if x =? u then Some k else index_of r u (S k) end.

Fixpoint l_extend (known items : list Z) (us : list Z) : res (list Z) * list Z :=
  (* append one by one: an invalid URL aborts, the earlier ones stay *)
  match us with
  | [] => (Ok [], items)
  | u :: r => if valid u
              then l_extend known (dedup_into known items [norm u]) r
              else (Err DURL, items)
  end.

(* returns (result, new items); on error the items are unchanged unless stated *)
Definition l_apply (known items : list Z) (o : lop) : res unit * list Z :=
  match o with
  | LAppend u => if valid u then (Ok tt, dedup_into known items [norm u]) else (Err DURL, items)
  | LInsert i u =>
      if valid u then
        (Ok tt, if zmem (norm u) items || zmem (norm u) known then items else py_insert items i (norm u))
      else (Err DURL, items)
  | LRemove u => match index_of items u 0 with
                 | Some k => (Ok tt, del_at items k)
                 | None => (Err IValue, items) end
  | LDel i | LPop i => match py_index items i with
                       | Some k => (Ok tt, del_at items k)
                       | None => (Err IIndex, items) end
  | LClear => (Ok tt, [])
  | LExtend us => let '(r, items') := l_extend known items us in
                  (match r with Ok _ => Ok tt | Err e => Err e end, items')
  | LSetFresh i u =>
      if valid u then
        if zmem (norm u) items || zmem (norm u) known then (Err IOther, items)   (* not modelled *)
        else match py_index items i with
             | Some k => (Ok tt, set_at items k (norm u))
             | None => (Err IIndex, items) end
      else (Err DURL, items)
  end.

Inductive top :=
| TSet (ts : tiers)                 (* t.trackers = ts *)
| TAppend (urls : list Z) | TInsert (i : Z) (urls : list Z) | TSetItem (i : Z) (urls : list Z)
| TDel (i : Z) | TClear | TExtend (ts : tiers)
| TTier (ti : Z) (o : lop)          (* t.trackers[ti].<op> *)
| SSet (k : seedkind) (us : list Z) (* t.webseeds = us *)
| SOp (k : seedkind) (o : lop).

Fixpoint tr_extend (t : tiers) (ts : tiers) : res unit * tiers :=
  match ts with
  | [] => (Ok tt, t)
  | x :: r => match tr_insert t (Z.of_nat (length t)) x with
              | Ok t' => tr_extend t' r
              | Err e => (Err e, t)
              end
  end.

(* an operation through the property: read the list from the metainfo, apply, write back.
   When the getter itself fails the metainfo is unchanged. *)
Definition step (m : mdstate) (o : top) : res unit * mdstate :=
  match o with
  | TSet ts => match tr_build [] ts with
               | Ok t => (Ok tt, write_trackers t m)
               | Err e => (Err e, m) end
  | SSet k us => match make_urls [] us with
                 | Ok l => (Ok tt, write_seeds k l m)
                 | Err e => (Err e, m) end
  | SOp k o =>
      match make_urls [] (get_seeds k m) with          (* the getter re-validates *)
      | Err e => (Err e, m)
      | Ok items =>
          let '(r, items') := l_apply [] items o in
          (r, match r with
              | Err IIndex | Err IValue | Err IOther => m      (* nothing changed, no callback *)
              | Err DURL => (match o with LExtend _ => write_seeds k items' m | _ => m end)
              | _ => write_seeds k items' m end)
      end
  | _ =>
      match read_trackers m with
      | Err e => (Err e, m)
      | Ok t =>
          match o with
          | TAppend urls => match tr_insert t (Z.of_nat (length t)) urls with
                            | Ok t' => (Ok tt, write_trackers t' m) | Err e => (Err e, m) end
          | TInsert i urls => match tr_insert t i urls with
                              | Ok t' => (Ok tt, write_trackers t' m) | Err e => (Err e, m) end
          | TSetItem i urls =>
              match make_urls (flat t) urls with
              | Err e => (Err e, m)
              | Ok [] => (Ok tt, write_trackers t m)
              | Ok tier =>
                  if existsb (set_eqb tier) t then (Ok tt, write_trackers t m)
                  else match py_index t i with
                       | Some k => (Ok tt, write_trackers (set_at t k tier) m)
                       | None => (Err IIndex, m) end
              end
          | TDel i => match py_index t i with
                      | Some k => (Ok tt, write_trackers (del_at t k) m)
                      | None => (Err IIndex, m) end
          | TClear => (Ok tt, write_trackers [] m)
          | TExtend ts => let '(r, t') := tr_extend t ts in (r, write_trackers t' m)
          | TTier ti lo =>
              match py_index t ti with
              | None => (Err IIndex, m)
              | Some k =>
                  let tier := nth k t [] in
                  (* known URLs = all tiers (live), the tier's own items are checked separately *)
                  let '(r, tier') := l_apply (flat t) tier lo in
                  let t' := match tier' with [] => del_at t k | _ => set_at t k tier' end in
                  (r, match r with
                      | Err IIndex | Err IValue | Err IOther => m
                      | Err DURL => (match lo with LExtend _ => write_trackers t' m | _ => m end)
                      | _ => write_trackers t' m end)
              end
          | _ => (Err IOther, m)
          end
      end
  end.

Fixpoint run (m : mdstate) (ops : list top) : list (res unit * mdstate) :=
  match ops with
  | [] => []
  | o :: r => let '(res, m') := step m o in (res, m') :: run m' r
  end.

Definition init : mdstate := {| md_announce := None; md_alist := None; md_web := None; md_http := None |}.

End ML.
