(* Dispatch.v -- request decoder / response encoder for the extracted model.
   One request = one S-expression (op arg ...); one response = one S-expression. *)
From Coq Require Import String.
From Torf Require Import Base Sexp Bencode PyVal Geometry Stream History Convert Validate Export MonList Filesize Regex UrlQuote Magnet Attr Tree Reuse.
From Torf Require Pipeline Corrupt.
Open Scope Z_scope.

Definition getFile (s : sexp) : option file := getPair getZ getZ s.
Definition getFiles := getList getFile.
Definition FA (f : file) : sexp := L [ZA (fst f); ZA (snd f)].
Definition FL (l : list file) : sexp := L (List.map FA l).

Definition handle_geom (op : list N) (args : list sexp) : option sexp :=
  if atom_is "geom.max_piece_index" op then
    match args with
    | [fs; l] => match getFiles fs, getZ l with
                 | Some fs, Some l => Some (res_sexp ZA (max_piece_index fs l))
                 | _, _ => None end
    | _ => None end
  else if atom_is "geom.file_position" op then
    match args with
    | [fs; f] => match getFiles fs, getFile f with
                 | Some fs, Some f => Some (res_sexp ZA (file_position fs f))
                 | _, _ => None end
    | _ => None end
  else if atom_is "geom.file_at_position" op then
    match args with
    | [fs; p] => match getFiles fs, getZ p with
                 | Some fs, Some p => Some (res_sexp FA (file_at_position fs p))
                 | _, _ => None end
    | _ => None end
  else if atom_is "geom.files_at_byte_range" op then
    match args with
    | [fs; a; b] => match getFiles fs, getZ a, getZ b with
                 | Some fs, Some a, Some b => Some (res_sexp FL (files_at_byte_range fs a b))
                 | _, _, _ => None end
    | _ => None end
  else if atom_is "geom.byte_range_of_file" op then
    match args with
    | [fs; f] => match getFiles fs, getFile f with
                 | Some fs, Some f =>
                     Some (res_sexp (fun p => L [ZA (fst p); ZA (snd p)]) (byte_range_of_file fs f))
                 | _, _ => None end
    | _ => None end
  else if atom_is "geom.files_at_piece_index" op then
    match args with
    | [fs; l; i] => match getFiles fs, getZ l, getZ i with
                 | Some fs, Some l, Some i => Some (res_sexp FL (files_at_piece_index fs l i))
                 | _, _, _ => None end
    | _ => None end
  else if atom_is "geom.piece_indexes_of_file" op then
    match args with
    | [fs; l; f; e] => match getFiles fs, getZ l, getFile f, getBool e with
                 | Some fs, Some l, Some f, Some e =>
                     Some (res_sexp ZL (piece_indexes_of_file fs l f e))
                 | _, _, _, _ => None end
    | _ => None end
  else if atom_is "geom.absolute_piece_indexes" op then
    match args with
    | [fs; l; f; r] => match getFiles fs, getZ l, getFile f, getZs r with
                 | Some fs, Some l, Some f, Some r =>
                     Some (res_sexp ZL (absolute_piece_indexes fs l f r))
                 | _, _, _, _ => None end
    | _ => None end
  else if atom_is "geom.relative_piece_indexes" op then
    match args with
    | [l; f; r] => match getZ l, getFile f, getZs r with
                 | Some l, Some f, Some r =>
                     Some (res_sexp ZL (relative_piece_indexes l f r))
                 | _, _, _ => None end
    | _ => None end
  else None.

(* ---- stream ---- *)
Definition getDisk (s : sexp) : option disk := getList (getPair getZ getB) s.

Definition xitem_sexp (x : xitem) : sexp :=
  L [match fst x with XMissing => Sy "missing" | XSize => Sy "size" end; ZA (snd x)].

Definition item_sexp (it : item) : sexp :=
  let '(p, f, xs) := it in
  L [match p with Some b => HA b | None => Sy "none" end; ZA f; L (List.map xitem_sexp xs)].

Definition getHop (s : sexp) : option hop :=
  match s with
  | L [A o; a] =>
      match getZ a with
      | Some z => if atom_is "iter" o then Some (HIter z)
                  else if atom_is "get" o then Some (HGet z)
                  else if atom_is "verify" o then Some (HVerify z) else None
      | None => None end
  | L [A o] => if atom_is "close" o then Some HClose else None
  | _ => None
  end.

Definition hout_sexp (o : hout * Z) : sexp :=
  L [match fst o with
     | OItems r => res_sexp (fun l => L (List.map item_sexp l)) r
     | OPiece r => res_sexp HA r
     | OVerify r => res_sexp (fun b => match b with Some b => BA b | None => Sy "none" end) r
     | OClosed => Sy "closed"
     end; ZA (snd o)].

Definition handle_stream (op : list N) (args : list sexp) : option sexp :=
  if atom_is "stream.history" op then
    match args with
    | [d; fs; l; hs; ops] =>
        match getDisk d, getFiles fs, getZ l, getList getB hs, getList getHop ops with
        | Some d, Some fs, Some l, Some hs, Some ops =>
            Some (L (List.map hout_sexp (hrun (fun b => b) d fs l hs [] ops)))
        | _, _, _, _, _ => None end
    | _ => None end
  else if atom_is "stream.iter_pieces" op then
    match args with
    | [d; fs; l] =>
        match getDisk d, getFiles fs, getZ l with
        | Some d, Some fs, Some l =>
            Some (res_sexp (fun l => L (List.map item_sexp l)) (iter_pieces d [] fs l))
        | _, _, _ => None end
    | _ => None end
  else None.

(* ---- pyval wire format ---- *)
Fixpoint pyval_of_sexp (s : sexp) : option pyval :=
  match s with
  | A a => if atom_is "none" a then Some PNone else if atom_is "other" a then Some POther else None
  | L (A tag :: args) =>
      let many := (fix many (l : list sexp) : option (list pyval) :=
                     match l with
                     | [] => Some []
                     | x :: r => match pyval_of_sexp x, many r with
                                 | Some v, Some vs => Some (v :: vs) | _, _ => None end
                     end) in
      let pairs := (fix pairs (l : list sexp) : option (list (pyval * pyval)) :=
                     match l with
                     | [] => Some []
                     | L [k; v] :: r => match pyval_of_sexp k, pyval_of_sexp v, pairs r with
                                        | Some k', Some v', Some ps => Some ((k', v') :: ps) | _, _, _ => None end
                     | _ => None
                     end) in
      if atom_is "b" tag then match args with [x] => option_map PBool (getBool x) | _ => None end
      else if atom_is "i" tag then match args with [x] => option_map PInt (getZ x) | _ => None end
      else if atom_is "ihex" tag then
        match args with
        | [n; x] => match getBool n, getB x with
                    | Some n, Some b =>
                        let z := List.fold_left (fun acc c => acc * 256 + Z.of_N c) b 0 in
                        Some (PInt (if n then - z else z))
                    | _, _ => None end
        | _ => None end
      else if atom_is "dt" tag then match args with [x] => option_map PDatetime (getZ x) | _ => None end
      else if atom_is "s" tag then match args with [x] => option_map PStr (getB x) | _ => None end
      else if atom_is "y" tag then match args with [x] => option_map PBytes (getB x) | _ => None end
      else if atom_is "fl" tag then
        match args with
        | [A k; x] =>
            if atom_is "int" k then option_map (fun z => PFloat (FInt z)) (getZ x)
            else if atom_is "half" k then option_map (fun z => PFloat (FHalf z)) (getZ x)
            else if atom_is "inf" k then option_map (fun b => PFloat (FInf b)) (getBool x)
            else None
        | [A k] => if atom_is "nan" k then Some (PFloat FNaN) else None
        | _ => None end
      else if atom_is "l" tag then option_map PList (many args)
      else if atom_is "t" tag then option_map PTuple (many args)
      else if atom_is "set" tag then option_map PSet (many args)
      else if atom_is "d" tag then option_map PDict (pairs args)
      else None
  | _ => None
  end.

Fixpoint sexp_of_pyval (v : pyval) : sexp :=
  match v with
  | PNone => Sy "none"
  | POther => Sy "other"
  | PBool b => L [Sy "b"; BA b]
  | PInt z => L [Sy "i"; ZA z]
  | PDatetime z => L [Sy "dt"; ZA z]
  | PStr b => L [Sy "s"; HA b]
  | PBytes b => L [Sy "y"; HA b]
  | PFloat (FInt z) => L [Sy "fl"; Sy "int"; ZA z]
  | PFloat (FHalf z) => L [Sy "fl"; Sy "half"; ZA z]
  | PFloat (FInf b) => L [Sy "fl"; Sy "inf"; BA b]
  | PFloat FNaN => L [Sy "fl"; Sy "nan"]
  | PList l => L (Sy "l" :: List.map sexp_of_pyval l)
  | PTuple l => L (Sy "t" :: List.map sexp_of_pyval l)
  | PSet l => L (Sy "set" :: List.map sexp_of_pyval l)
  | PDict kvs => L (Sy "d" :: List.map (fun kv => L [sexp_of_pyval (fst kv); sexp_of_pyval (snd kv)]) kvs)
  end.

Fixpoint sexp_of_bval (v : bval) : sexp :=
  match v with
  | BInt z => L [Sy "i"; ZA z]
  | BStr b => L [Sy "y"; HA b]
  | BList l => L (Sy "l" :: List.map sexp_of_bval l)
  | BDict kvs => L (Sy "d" :: List.map (fun kv => L [HA (fst kv); sexp_of_bval (snd kv)]) kvs)
  end.

Definition getMeta (s : sexp) : option metainfo :=
  match pyval_of_sexp s with Some (PDict kvs) => Some kvs | _ => None end.

Definition getFs (s : sexp) : option fsinfo :=
  match s with
  | A a => if atom_is "none" a then Some FSNone else None
  | L [A t; b; z] =>
      if atom_is "single" t then
        match getBool b, getZ z with Some b, Some z => Some (FSSingle b z) | _, _ => None end
      else if atom_is "multi" t then
        match getBool b, getList (fun x => match x with
                                            | L [e; f; n] => match getBool e, getBool f, getZ n with
                                                             | Some e, Some f, Some n => Some (e, f, n) | _, _, _ => None end
                                            | _ => None end) z with
        | Some b, Some l => Some (FSMulti b l) | _, _ => None end
      else None
  | _ => None
  end.

Definition getTarget (s : sexp) : option target :=
  match s with
  | A a => if atom_is "absent" a then Some TAbsent else if atom_is "dir" a then Some TDir
           else if atom_is "noperm-absent" a then Some (TNoPerm None) else None
  | L [A t; c] =>
      if atom_is "file" t then option_map TFile (getB c)
      else if atom_is "noperm" t then option_map (fun b => TNoPerm (Some b)) (getB c) else None
  | _ => None
  end.

Definition target_sexp (t : target) : sexp :=
  match t with
  | TAbsent => Sy "absent" | TDir => Sy "dir" | TNoPerm None => Sy "noperm-absent"
  | TFile c => L [Sy "file"; HA c] | TNoPerm (Some c) => L [Sy "noperm"; HA c]
  end.

Definition unit_sexp (_ : unit) : sexp := Sy "unit".

Definition handle_meta (op : list N) (args : list sexp) : option sexp :=
  if atom_is "meta.validate" op then
    match args with
    | [fs; md] => match getFs fs, getMeta md with
                  | Some fs, Some md => Some (res_sexp unit_sexp (validate simple_is_url fs md))
                  | _, _ => None end
    | _ => None end
  else if atom_is "meta.is_url" op then
    match args with
    | [u] => match getB u with Some u => Some (BA (simple_is_url u)) | None => None end
    | _ => None end
  else if atom_is "meta.is_ready" op then
    match args with
    | [fs; md] => match getFs fs, getMeta md with
                  | Some fs, Some md => Some (res_sexp BA (is_ready simple_is_url fs md))
                  | _, _ => None end
    | _ => None end
  else if atom_is "meta.dump" op then
    match args with
    | [fs; v; md] => match getFs fs, getBool v, getMeta md with
                  | Some fs, Some v, Some md => Some (res_sexp HA (dump simple_is_url fs v md))
                  | _, _, _ => None end
    | _ => None end
  else if atom_is "meta.infohash_input" op then
    match args with
    | [fs; md] => match getFs fs, getMeta md with
                  | Some fs, Some md => Some (res_sexp HA (infohash_input simple_is_url fs md))
                  | _, _ => None end
    | _ => None end
  else if atom_is "meta.read_stream" op then
    match args with
    | [v; c] => match getBool v, getB c with
                  | Some v, Some c =>
                      Some (res_sexp (fun md => sexp_of_pyval (PDict md)) (read_stream simple_is_url v c))
                  | _, _ => None end
    | _ => None end
  else if atom_is "meta.read_then" op then
    (* read_stream, then validate and dump the result (C08) *)
    match args with
    | [v; c] => match getBool v, getB c with
                  | Some v, Some c =>
                      Some (match read_stream simple_is_url v c with
                            | Err e => L [Sy "err"; exn_sexp e]
                            | Ok md => L [Sy "ok"; res_sexp unit_sexp (validate simple_is_url FSNone md);
                                          res_sexp HA (dump simple_is_url FSNone true md);
                                          res_sexp HA (dump simple_is_url FSNone false md)]
                            end)
                  | _, _ => None end
    | _ => None end
  else if atom_is "meta.write" op then
    match args with
    | [fs; ow; v; md; t] =>
        match getFs fs, getBool ow, getBool v, getMeta md, getTarget t with
        | Some fs, Some ow, Some v, Some md, Some t =>
            let '(r, t') := write simple_is_url fs ow v md t in
            Some (L [res_sexp unit_sexp r; target_sexp t'])
        | _, _, _, _, _ => None end
    | _ => None end
  else if atom_is "meta.write_stream" op then
    match args with
    | [fs; v; md; sk; c; pos; fl] =>
        match getFs fs, getBool v, getMeta md, getBool sk, getB c, getZ pos, getBool fl with
        | Some fs, Some v, Some md, Some sk, Some c, Some pos, Some fl =>
            let '(r, s') := write_stream simple_is_url fs v md {| ss_seekable := sk; ss_content := c; ss_pos := pos; ss_fail := fl |} in
            Some (L [res_sexp unit_sexp r; HA (ss_content s')])
        | _, _, _, _, _, _, _ => None end
    | _ => None end
  else if atom_is "benc.decode" op then
    match args with
    | [c] => match getB c with Some c => Some (res_sexp sexp_of_bval (bdec c)) | None => None end
    | _ => None end
  else if atom_is "url.is_url" op then
    match args with
    | [c] => match getB c with Some c => Some (BA (simple_is_url c)) | None => None end
    | _ => None end
  else None.

(* ---- tracker / seed lists (C16) ---- *)
Definition pool_valid (u : Z) : bool := (0 <=? u) && (u <? 6).
Definition pool_norm (u : Z) : Z := if u =? 4 then 5 else u.

Definition getLop (s : sexp) : option lop :=
  match s with
  | L [A o] => if atom_is "clear" o then Some LClear else None
  | L [A o; a] =>
      if atom_is "append" o then option_map LAppend (getZ a)
      else if atom_is "remove" o then option_map LRemove (getZ a)
      else if atom_is "del" o then option_map LDel (getZ a)
      else if atom_is "pop" o then option_map LPop (getZ a)
      else if atom_is "extend" o then option_map LExtend (getZs a)
      else None
  | L [A o; a; b] =>
      match getZ a, getZ b with
      | Some x, Some y => if atom_is "insert" o then Some (LInsert x y)
                          else if atom_is "setfresh" o then Some (LSetFresh x y) else None
      | _, _ => None end
  | _ => None
  end.

Definition getKind (s : sexp) : option seedkind :=
  match s with A a => if atom_is "web" a then Some Web else if atom_is "http" a then Some Http else None | _ => None end.

Definition getTop (s : sexp) : option top :=
  match s with
  | L [A o] => if atom_is "tclear" o then Some TClear else None
  | L [A o; a] =>
      if atom_is "tset" o then option_map TSet (getList getZs a)
      else if atom_is "tappend" o then option_map TAppend (getZs a)
      else if atom_is "tdel" o then option_map TDel (getZ a)
      else if atom_is "textend" o then option_map TExtend (getList getZs a)
      else None
  | L [A o; a; b] =>
      if atom_is "tinsert" o then match getZ a, getZs b with Some i, Some u => Some (TInsert i u) | _, _ => None end
      else if atom_is "tsetitem" o then match getZ a, getZs b with Some i, Some u => Some (TSetItem i u) | _, _ => None end
      else if atom_is "ttier" o then match getZ a, getLop b with Some i, Some l => Some (TTier i l) | _, _ => None end
      else if atom_is "sset" o then match getKind a, getZs b with Some k, Some u => Some (SSet k u) | _, _ => None end
      else if atom_is "sop" o then match getKind a, getLop b with Some k, Some l => Some (SOp k l) | _, _ => None end
      else None
  | _ => None
  end.

Definition optZ_sexp (o : option Z) : sexp := match o with Some z => ZA z | None => Sy "none" end.
Definition optZL_sexp (o : option (list Z)) : sexp := match o with Some l => ZL l | None => Sy "none" end.

Definition mdstate_sexp (m : mdstate) : sexp :=
  L [optZ_sexp (md_announce m);
     match md_alist m with Some t => L (List.map ZL t) | None => Sy "none" end;
     optZL_sexp (md_web m); optZL_sexp (md_http m)].

Definition handle_monlist (op : list N) (args : list sexp) : option sexp :=
  if atom_is "monlist.run" op then
    match args with
    | [ops] => match getList getTop ops with
               | Some ops => Some (L (List.map (fun rm => L [res_sexp unit_sexp (fst rm); mdstate_sexp (snd rm)])
                                              (run pool_valid pool_norm init ops)))
               | None => None end
    | _ => None end
  else None.

(* ---- verify_filesize (C20) ---- *)
Definition getFstate (s : sexp) : option fstate :=
  match s with
  | A a => if atom_is "missing" a then Some FMissing else option_map FSize (Z_of_dec a)
  | _ => None end.

Definition ferr_sexp (e : ferr) : sexp :=
  match e with FENoEnt => Sy "enoent" | FEWrongSize => Sy "size" | FEIsDir => Sy "isdir" end.

Definition handle_filesize (op : list N) (args : list sexp) : option sexp :=
  if atom_is "filesize.verify" op then
    match args with
    | [cb; sad; files; disk] =>
        match (match cb with A a => if atom_is "none" a then Some None else option_map Some (Z_of_dec a) | _ => None end),
              getBool sad, getZs files, getList getFstate disk with
        | Some cb, Some sad, Some files, Some disk =>
            let '(r, calls) := verify_filesize cb sad files disk in
            Some (L [match r with FRet b => L [Sy "ret"; BA b] | FRaise e => L [Sy "raise"; ferr_sexp e] end;
                     L (List.map (fun c => let '(i, d, e) := c in
                                   L [ZA i; ZA d; match e with Some e => ferr_sexp e | None => Sy "none" end]) calls)])
        | _, _, _, _ => None end
    | _ => None end
  else None.

(* ---- magnets (C13, C14) ---- *)
Definition getOptB (s : sexp) : option (option bytes) :=
  match s with A a => if atom_is "none" a then Some None else option_map Some (bytes_of_atom a) | _ => None end.
Definition getOptZ (s : sexp) : option (option Z) :=
  match s with A a => if atom_is "none" a then Some None else option_map Some (Z_of_dec a) | _ => None end.
Definition optB_sexp (o : option bytes) : sexp := match o with Some b => HA b | None => Sy "none" end.

Definition getMagnet (s : sexp) : option magnet :=
  match s with
  | L [h; dn; xl; tr; xs; a; ws; kt; x] =>
      match getZs h, getOptB dn, getOptZ xl, getList getB tr, getOptB xs, getOptB a, getList getB ws, getList getB kt,
            getList (getPair getB getB) x with
      | Some h, Some dn, Some xl, Some tr, Some xs, Some a, Some ws, Some kt, Some x =>
          Some {| m_hash := h; m_dn := dn; m_xl := xl; m_tr := tr; m_xs := xs; m_as := a; m_ws := ws; m_kt := kt; m_x := x |}
      | _, _, _, _, _, _, _, _, _ => None end
  | _ => None
  end.

Definition magnet_sexp (m : magnet) : sexp :=
  L [ZL (m_hash m); optB_sexp (m_dn m); optZ_sexp (m_xl m); L (List.map HA (m_tr m)); optB_sexp (m_xs m); optB_sexp (m_as m);
     L (List.map HA (m_ws m)); L (List.map HA (m_kt m)); L (List.map (fun p => L [HA (fst p); HA (snd p)]) (m_x m))].

Definition optZL_sexp' (o : option (list Z)) : sexp := match o with Some l => ZL l | None => Sy "none" end.

Definition handle_magnet (op : list N) (args : list sexp) : option sexp :=
  if atom_is "magnet.set" op then
    match args with
    | [A kind; old; v] =>
        match (match old with A a => if atom_is "none" a then Some None else None | l => option_map Some (getZs l) end), getZs v with
        | Some old, Some v =>
            let '(r, st) := if atom_is "xt" kind then set_xt old v else set_infohash old v in
            Some (L [res_sexp unit_sexp r; optZL_sexp' st])
        | _, _ => None end
    | _ => None end
  else if atom_is "magnet.hex" op then
    match args with
    | [h] => option_map (fun h => ZL (infohash_hex h)) (getZs h)
    | _ => None end
  else if atom_is "magnet.render" op then
    match args with
    | [m] => option_map (fun m => HA (render m)) (getMagnet m)
    | _ => None end
  else if atom_is "magnet.parse" op then
    match args with
    | [u] => option_map (fun u => res_sexp magnet_sexp (parse simple_is_url u)) (getB u)
    | _ => None end
  else if atom_is "url.quote_plus" op then
    match args with [b] => option_map (fun b => HA (quote_plus b)) (getB b) | _ => None end
  else if atom_is "url.unquote_plus" op then
    match args with [b] => option_map (fun b => HA (unquote_plus b)) (getB b) | _ => None end
  else None.

(* ---- attribute state machine (C09) ---- *)
Definition getAop (s : sexp) : option aop :=
  match s with
  | L [A o] => if atom_is "generate" o then Some AGenerate else if atom_is "other" o then Some AOther else None
  | L [A o; a] =>
      if atom_is "piece_size" o then option_map ASetPieceSize (getOptZ a)
      else if atom_is "min" o then option_map ASetMin (getOptZ a)
      else if atom_is "max" o then option_map ASetMax (getOptZ a)
      else None
  | L [A o; a; b; c] =>
      if atom_is "layout" o then
        match getZ a, getZ b, getBool c with Some x, Some y, Some z => Some (ASetLayout x y z) | _, _, _ => None end
      else None
  | _ => None
  end.

Definition ast_sexp (s : ast) : sexp :=
  L [ZA (a_size s); optZ_sexp (a_plen s);
     match a_pieces s with Some (l, p) => L [ZA l; ZA p] | None => Sy "none" end;
     ZA (a_pmin s); ZA (a_pmax s)].

Definition handle_attr (op : list N) (args : list sexp) : option sexp :=
  if atom_is "attr.run" op then
    match args with
    | [ops] => option_map (fun ops => L (List.map (fun rs => L [res_sexp unit_sexp (fst rs); ast_sexp (snd rs)]) (arun ainit ops)))
                          (getList getAop ops)
    | _ => None end
  else if atom_is "attr.calc" op then
    match args with
    | [a; b; c] => match getZ a, getZ b, getZ c with
                   | Some x, Some y, Some z => Some (ZA (calculate_piece_size x y z)) | _, _, _ => None end
    | _ => None end
  else None.

(* ---- tree (C15) ---- *)
Definition getStr : sexp -> option (list Z) := getList getZ.
Definition getPathL : sexp -> option (list (list Z)) := getList getStr.
Definition StrS (s : list Z) : sexp := L (List.map ZA s).

Fixpoint getRe (fuel : nat) (s : sexp) : option re :=
  match fuel with
  | O => None
  | S f =>
      match s with
      | L (A tag :: args) =>
          if atom_is "cls" tag then option_map RCls (optmap (getPair getZ getZ) args)
          else if atom_is "seq" tag then option_map RSeq (optmap (getRe f) args)
          else if atom_is "alt" tag then option_map RAlt (optmap (getRe f) args)
          else if atom_is "grp" tag then match args with [r] => option_map RGroup (getRe f r) | _ => None end
          else if atom_is "rep" tag then
            match args with [n; r] => match getZ n, getRe f r with Some n, Some r => Some (RRep (Z.to_nat n) r) | _, _ => None end | _ => None end
          else if atom_is "end" tag then Some REnd
          else if atom_is "endz" tag then Some REndZ
          else None
      | _ => None
      end
  end.

Definition getRx (s : sexp) : option rx :=
  match s with
  | L [b; r] => match getBool b, getRe 50 r with Some b, Some r => Some {| rx_bol := b; rx_body := r |} | _, _ => None end
  | _ => None end.

Definition getFilters (s : sexp) : option filters :=
  match s with
  | L [eg; er; ig; ir] =>
      match getList getStr eg, getList getRx er, getList getStr ig, getList getRx ir with
      | Some eg, Some er, Some ig, Some ir => Some {| ex_globs := eg; ex_regexs := er; in_globs := ig; in_regexs := ir |}
      | _, _, _, _ => None end
  | _ => None end.

Definition layout_sexp (l : layout) : sexp :=
  match l with
  | LEmpty => L [Sy "empty"]
  | LSingle n len => L [Sy "single"; StrS n; ZA len]
  | LMulti n fs => L [Sy "multi"; StrS n; L (List.map (fun e : list (list Z) * Z => L [L (List.map StrS (fst e)); ZA (snd e)]) fs)]
  end.

Definition handle_tree (op : list N) (args : list sexp) : option sexp :=
  if atom_is "tree.set_path" op then
    match args with
    | [cwd; ab; raw; fl; listing] =>
        match getPathL cwd, getBool ab, getPathL raw, getFilters fl, getList (getPair getPathL getZ) listing with
        | Some cwd, Some ab, Some raw, Some fl, Some listing =>
            Some (res_sexp layout_sexp (set_path cwd {| sp_abs := ab; sp_raw := raw |} fl listing))
        | _, _, _, _, _ => None end
    | _ => None end
  else if atom_is "tree.glob" op then
    match args with
    | [g; s] => match getStr g, getStr s with Some g, Some s => Some (BA (glob_hit g s)) | _, _ => None end
    | _ => None end
  else if atom_is "tree.rx" op then
    match args with
    | [r; s] => match getRx r, getStr s with Some r, Some s => Some (BA (rx_hit r s)) | _, _ => None end
    | _ => None end
  else None.

(* ---- reuse (C18) ---- *)
Definition getErrKind (s : sexp) : option exn :=
  match s with
  | A a => if atom_is "read" a then Some (DRead 2) else if atom_is "bdecode" a then Some DBdecode
           else if atom_is "metainfo" a then Some DMetainfo else None
  | _ => None end.

Definition getCand (s : sexp) : option candidate :=
  match s with
  | L [n; fs; l; hs] =>
      match getZ n, getFiles fs, getZ l, getList getB hs with
      | Some n, Some fs, Some l, Some hs => Some {| c_name := n; c_files := fs; c_plen := l; c_hashes := hs |}
      | _, _, _, _ => None end
  | _ => None end.

Definition getItem (s : sexp) : option ritem :=
  match s with
  | L [A tag; x] => if atom_is "err" tag then option_map IErr (getErrKind x)
                    else if atom_is "cand" tag then option_map ICand (getCand x) else None
  | _ => None end.

Definition getCb (s : sexp) : option cbmode :=
  match s with
  | A a => if atom_is "none" a then Some CbNone else if atom_is "passive" a then Some CbPassive
           else option_map (fun k => CbCancelAt (Z.to_nat k)) (Z_of_dec a)
  | _ => None end.

Definition getRtorrent (s : sexp) : option rtorrent :=
  match s with
  | L [n; fs; lo; hi] =>
      match getZ n, getFiles fs, getZ lo, getZ hi with
      | Some n, Some fs, Some lo, Some hi =>
          Some {| t_name := n; t_files := fs; t_plen := None; t_pieces := None; t_pmin := lo; t_pmax := hi |}
      | _, _, _, _ => None end
  | _ => None end.

Definition status_sexp (s : status) : sexp := match s with SFalse => Sy "false" | SNone => Sy "none" | STrue => Sy "true" end.

Definition handle_reuse (op : list N) (args : list sexp) : option sexp :=
  if atom_is "reuse.run" op then
    match args with
    | [d; cb; t; items] =>
        match getDisk d, getCb cb, getRtorrent t, getList getItem items with
        | Some d, Some cb, Some t, Some items =>
            let '(r, t', log) := reuse (fun b => b) d cb t items in
            Some (L [res_sexp BA r; FL (t_files t');
                     match t_plen t' with Some l => ZA l | None => Sy "none" end;
                     match t_pieces t' with Some hs => L (List.map HA hs) | None => Sy "none" end;
                     L (List.map (fun c : call => L [ZA (Z.of_nat (fst (fst c))); status_sexp (snd (fst c)); BA (snd c)]) log)])
        | _, _, _, _ => None end
    | _ => None end
  else if atom_is "reuse.sample" op then
    match args with
    | [cfs; l; tfs] =>
        match getFiles cfs, getZ l, getFiles tfs with
        | Some cfs, Some l, Some tfs => Some (res_sexp ZL (do x <- collect_indexes cfs l tfs; Ok (sorted_set x)))
        | _, _, _ => None end
    | _ => None end
  else None.

(* ---- pipeline (C03 C04 C12 C02) ---- *)
Definition getRev (s : sexp) : option Pipeline.rev :=
  match s with
  | L [A tag; x] => if atom_is "exc" tag then option_map Pipeline.RExc (getZs x)
                    else match getZ x with
                         | Some z => if atom_is "piece" tag then Some (Pipeline.RPiece z)
                                     else if atom_is "fail" tag then Some (Pipeline.RFail z) else None
                         | None => None end
  | L [A tag] => if atom_is "none" tag then Some Pipeline.RNone else if atom_is "oom" tag then Some Pipeline.ROom else None
  | _ => None end.

Definition getPlan (s : sexp) : option Pipeline.cbplan :=
  match s with
  | A a => if atom_is "absent" a then Some Pipeline.CbAbsent else if atom_is "quiet" a then Some Pipeline.CbQuiet else None
  | L [A tag; k] => match getZ k with
                    | Some k => if atom_is "cancel" tag then Some (Pipeline.CbCancelFrom k) else if atom_is "raise" tag then Some (Pipeline.CbRaiseFrom k) else None
                    | None => None end
  | _ => None end.

Definition getOptZs (s : sexp) : option (option (list Z)) :=
  match s with
  | A a => if atom_is "none" a then Some None else None
  | _ => option_map Some (getZs s) end.

Definition getConfig (s : sexp) : option Pipeline.config :=
  match s with
  | L [items; total; hashers; interval; plan; verify; refuse] =>
      match getList getRev items, getZ total, getZ hashers, getZ interval, getPlan plan, getOptZs verify, getZs refuse with
      | Some items, Some total, Some hashers, Some interval, Some plan, Some verify, Some refuse =>
          Some {| Pipeline.cf_items := items; Pipeline.cf_total := total; Pipeline.cf_hashers := Z.to_nat hashers; Pipeline.cf_interval := interval;
                  Pipeline.cf_plan := plan; Pipeline.cf_verify := verify; Pipeline.cf_refuse := refuse |}
      | _, _, _, _, _, _, _ => None end
  | _ => None end.

Definition getChoice (s : sexp) : option (Z * Pipeline.alt * Z) :=
  match s with
  | L [t; A a; inc] => match getZ t, getZ inc with
                       | Some t, Some inc => if atom_is "go" a then Some (t, Pipeline.AGo, inc) else if atom_is "timeout" a then Some (t, Pipeline.ATimeout, inc) else None
                       | _, _ => None end
  | _ => None end.

Definition optZ_s (o : option Z) : sexp := match o with Some z => ZA z | None => Sy "none" end.

Definition result_sexp (r : option Pipeline.result) : sexp :=
  match r with
  | None => Sy "running"
  | Some Pipeline.ResTrue => Sy "true" | Some Pipeline.ResFalse => Sy "false"
  | Some (Pipeline.ResRaise e) => L [Sy "raise"; ZA e] | Some (Pipeline.ResRuntimeError e) => L [Sy "runtime"; ZA e]
  end.

Definition handle_pipe (op : list N) (args : list sexp) : option sexp :=
  if atom_is "pipe.run" op then
    match args with
    | [c; sched] =>
        match getConfig c, getList getChoice sched with
        | Some c, Some sched =>
            let '(s, rest, lft) := Pipeline.run_obs c (Pipeline.init c) sched None in
            Some (L [ZA (Z.of_nat (List.length rest)); result_sexp (Pipeline.s_result s);
                     match lft with Some l => ZL l | None => Sy "none" end;
                     ZL (Pipeline.sorted_hashes (Pipeline.s_hashes s));
                     L (List.map (fun x : Z * Z * option Z => L [ZA (fst (fst x)); ZA (snd (fst x)); optZ_s (snd x)]) (Pipeline.s_calls s));
                     ZL (Pipeline.running_threads c s);
                     L (List.map (fun o : Z * Pipeline.alt => L [ZA (fst o); match snd o with Pipeline.AGo => Sy "go" | Pipeline.ATimeout => Sy "timeout" end]) (Pipeline.options c s));
                     ZL (Pipeline.s_seen s)])
        | _, _ => None end
    | _ => None end
  else if atom_is "verr.files" op then
    match args with
    | [fs; i; l] => match getFiles fs, getZ i, getZ l with
                    | Some fs, Some i, Some l => Some (res_sexp ZL (Corrupt.corrupt_files fs i l))
                    | _, _, _ => None end
    | _ => None end
  else None.

Definition handle (req : sexp) : sexp :=
  match req with
  | L (A op :: args) =>
      match handle_geom op args with
      | Some r => r
      | None =>
          match handle_stream op args with
          | Some r => r
          | None =>
              match handle_meta op args with
              | Some r => r
              | None =>
                  match handle_monlist op args with
                  | Some r => r
                  | None =>
                      match handle_filesize op args with
                      | Some r => r
                      | None =>
                          match handle_magnet op args with
                          | Some r => r
                          | None =>
                              match handle_attr op args with
                              | Some r => r
                              | None =>
                                  match handle_tree op args with
                                  | Some r => r
                                  | None =>
                                      match handle_reuse op args with
                                      | Some r => r
                                      | None =>
                                          match handle_pipe op args with
                                          | Some r => r
                                          | None => bad_request
                                          end
                                      end
                                  end
                              end
                          end
                      end
                  end
              end
          end
      end
  | _ => bad_request
  end.
