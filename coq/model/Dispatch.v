(* Dispatch.v -- request decoder / response encoder for the extracted model.
   One request = one S-expression (op arg ...); one response = one S-expression. *)
From Coq Require Import String.
From Torf Require Import Base Sexp Geometry Stream History.
Open Scope Z_scope.

Definition getFile (s : sexp) : option file := getPair getZ getZ s.
Definition getFiles := getList getFile.
Definition FA (f : file) : sexp := L [ZA (fst f); ZA (snd f)].
Definition FL (l : list file) : sexp := L (List.map FA l).

Definition handle_geom (op : list N) (args : list sexp) : option sexp :=
  if atom_is "geom.max_piece_index" op then
    match args with
    | [fs; l] => match getFiles fs, getZ l with
                 | Some fs, Some l => Some (res_sexp ZA (max_piece_index fs l))
                 | _, _ => None end
    | _ => None end
  else if atom_is "geom.file_position" op then
    match args with
    | [fs; f] => match getFiles fs, getFile f with
                 | Some fs, Some f => Some (res_sexp ZA (file_position fs f))
                 | _, _ => None end
    | _ => None end
  else if atom_is "geom.file_at_position" op then
    match args with
    | [fs; p] => match getFiles fs, getZ p with
                 | Some fs, Some p => Some (res_sexp FA (file_at_position fs p))
                 | _, _ => None end
    | _ => None end
  else if atom_is "geom.files_at_byte_range" op then
    match args with
    | [fs; a; b] => match getFiles fs, getZ a, getZ b with
                 | Some fs, Some a, Some b => Some (res_sexp FL (files_at_byte_range fs a b))
                 | _, _, _ => None end
    | _ => None end
  else if atom_is "geom.byte_range_of_file" op then
    match args with
    | [fs; f] => match getFiles fs, getFile f with
                 | Some fs, Some f =>
                     Some (res_sexp (fun p => L [ZA (fst p); ZA (snd p)]) (byte_range_of_file fs f))
                 | _, _ => None end
    | _ => None end
  else if atom_is "geom.files_at_piece_index" op then
    match args with
    | [fs; l; i] => match getFiles fs, getZ l, getZ i with
                 | Some fs, Some l, Some i => Some (res_sexp FL (files_at_piece_index fs l i))
                 | _, _, _ => None end
    | _ => None end
  else if atom_is "geom.piece_indexes_of_file" op then
    match args with
    | [fs; l; f; e] => match getFiles fs, getZ l, getFile f, getBool e with
                 | Some fs, Some l, Some f, Some e =>
                     Some (res_sexp ZL (piece_indexes_of_file fs l f e))
                 | _, _, _, _ => None end
    | _ => None end
  else if atom_is "geom.absolute_piece_indexes" op then
    match args with
    | [fs; l; f; r] => match getFiles fs, getZ l, getFile f, getZs r with
                 | Some fs, Some l, Some f, Some r =>
                     Some (res_sexp ZL (absolute_piece_indexes fs l f r))
                 | _, _, _, _ => None end
    | _ => None end
  else if atom_is "geom.relative_piece_indexes" op then
    match args with
    | [l; f; r] => match getZ l, getFile f, getZs r with
                 | Some l, Some f, Some r =>
                     Some (res_sexp ZL (relative_piece_indexes l f r))
                 | _, _, _ => None end
    | _ => None end
  else None.

(* ---- stream ---- *)
Definition getDisk (s : sexp) : option disk := getList (getPair getZ getB) s.

Definition xitem_sexp (x : xitem) : sexp :=
  L [match fst x with XMissing => S "missing" | XSize => S "size" end; ZA (snd x)].

Definition item_sexp (it : item) : sexp :=
  let '(p, f, xs) := it in
  L [match p with Some b => HA b | None => S "none" end; ZA f; L (List.map xitem_sexp xs)].

Definition getHop (s : sexp) : option hop :=
  match s with
  | L [A o; a] =>
      match getZ a with
      | Some z => if atom_is "iter" o then Some (HIter z)
                  else if atom_is "get" o then Some (HGet z)
                  else if atom_is "verify" o then Some (HVerify z) else None
      | None => None end
  | L [A o] => if atom_is "close" o then Some HClose else None
  | _ => None
  end.

Definition hout_sexp (o : hout * Z) : sexp :=
  L [match fst o with
     | OItems r => res_sexp (fun l => L (List.map item_sexp l)) r
     | OPiece r => res_sexp HA r
     | OVerify r => res_sexp (fun b => match b with Some b => BA b | None => S "none" end) r
     | OClosed => S "closed"
     end; ZA (snd o)].

Definition handle_stream (op : list N) (args : list sexp) : option sexp :=
  if atom_is "stream.history" op then
    match args with
    | [d; fs; l; hs; ops] =>
        match getDisk d, getFiles fs, getZ l, getList getB hs, getList getHop ops with
        | Some d, Some fs, Some l, Some hs, Some ops =>
            Some (L (List.map hout_sexp (hrun (fun b => b) d fs l hs [] ops)))
        | _, _, _, _, _ => None end
    | _ => None end
  else if atom_is "stream.iter_pieces" op then
    match args with
    | [d; fs; l] =>
        match getDisk d, getFiles fs, getZ l with
        | Some d, Some fs, Some l =>
            Some (res_sexp (fun l => L (List.map item_sexp l)) (iter_pieces d [] fs l))
        | _, _, _ => None end
    | _ => None end
  else None.

Definition handle (req : sexp) : sexp :=
  match req with
  | L (A op :: args) =>
      match handle_geom op args with
      | Some r => r
      | None =>
          match handle_stream op args with
          | Some r => r
          | None => bad_request
          end
      end
  | _ => bad_request
  end.
