(* PipeExplore.v -- exhaustive exploration of the state space of the pipeline
   model (Pipeline.v) for one configuration: breadth-first closure under every
   enabled choice of every thread, with the clock fields normalised (they do not
   influence the behaviour when the reporting interval is 0 and no out-of-memory
   event occurs).  Executable definitions only; the soundness of the closure check
   is proved in proofs/PipeExploreProofs.v. *)
From Torf Require Import Base Pipeline.
Open Scope Z_scope.

Definition norm (s : state) : state :=
  {| s_now := 0; s_rst := s_rst s; s_rpc := s_rpc s; s_rtodo := s_rtodo s; s_ridx := s_ridx s; s_stop := s_stop s; s_rexc := s_rexc s;
     s_maxsize := s_maxsize s; s_memts := 0; s_pq := s_pq s; s_hs := s_hs s; s_hq := s_hq s; s_final := s_final s;
     s_jst := s_jst s; s_jpc := s_jpc s; s_tracked := s_tracked s; s_mpc := s_mpc s; s_mdone := s_mdone s;
     s_seen := s_seen s; s_hashes := s_hashes s; s_prev := 0; s_calls := s_calls s; s_result := s_result s |}.

Definition xstep (c : config) (s : state) (o : tid * alt) : state := norm (step c s (fst o) (snd o) 0).

(* decidable equality of states *)
Definition rev_eq_dec : forall a b : rev, {a = b} + {a <> b}.
Proof. decide equality; try apply Z.eq_dec; apply (list_eq_dec Z.eq_dec). Defined.
Definition optZ_eq_dec : forall a b : option Z, {a = b} + {a <> b}.
Proof. decide equality; apply Z.eq_dec. Defined.
Definition qitem_eq_dec : forall a b : qitem, {a = b} + {a <> b}.
Proof. decide equality; try apply Z.eq_dec; try apply optZ_eq_dec; apply (list_eq_dec Z.eq_dec). Defined.
Definition tstate_eq_dec : forall a b : tstate, {a = b} + {a <> b}.
Proof. decide equality. Defined.
Definition rpc_eq_dec : forall a b : rpc, {a = b} + {a <> b}.
Proof. decide equality; try apply qitem_eq_dec; apply optZ_eq_dec. Defined.
Definition hpc_eq_dec : forall a b : hpc, {a = b} + {a <> b}.
Proof. decide equality; apply qitem_eq_dec. Defined.
Definition jpc_eq_dec : forall a b : jpc, {a = b} + {a <> b}.
Proof. decide equality; apply (list_eq_dec Z.eq_dec). Defined.
Definition outcome_eq_dec : forall a b : outcome, {a = b} + {a <> b}.
Proof. decide equality; apply Z.eq_dec. Defined.
Definition after_eq_dec : forall a b : after, {a = b} + {a <> b}.
Proof. decide equality; apply outcome_eq_dec. Defined.
Definition mpc_eq_dec : forall a b : mpc, {a = b} + {a <> b}.
Proof.
  decide equality; try apply Z.eq_dec; try apply optZ_eq_dec; try apply (list_eq_dec Z.eq_dec);
    try apply after_eq_dec; try apply outcome_eq_dec; apply Nat.eq_dec.
Defined.
Definition result_eq_dec : forall a b : result, {a = b} + {a <> b}.
Proof. decide equality; apply Z.eq_dec. Defined.
Definition hs_eq_dec : forall a b : tstate * hpc, {a = b} + {a <> b}.
Proof. decide equality; [apply hpc_eq_dec | apply tstate_eq_dec]. Defined.
Definition zz_eq_dec : forall a b : Z * Z, {a = b} + {a <> b}.
Proof. decide equality; apply Z.eq_dec. Defined.
Definition call_eq_dec : forall a b : Z * Z * option Z, {a = b} + {a <> b}.
Proof. decide equality; [apply optZ_eq_dec | apply zz_eq_dec]. Defined.
Definition optres_eq_dec : forall a b : option result, {a = b} + {a <> b}.
Proof. decide equality; apply result_eq_dec. Defined.

Definition state_eq_dec : forall a b : state, {a = b} + {a <> b}.
Proof.
  decide equality; try apply Z.eq_dec; try apply bool_dec; try apply tstate_eq_dec; try apply optZ_eq_dec;
    try apply optres_eq_dec; try apply rpc_eq_dec; try apply jpc_eq_dec; try apply mpc_eq_dec;
    try apply (list_eq_dec rev_eq_dec); try apply (list_eq_dec qitem_eq_dec); try apply (list_eq_dec hs_eq_dec);
    try apply (list_eq_dec Z.eq_dec); try apply (list_eq_dec zz_eq_dec); apply (list_eq_dec call_eq_dec).
Defined.

(* ---- a hash table of states: any hash function will do, buckets are compared with state_eq_dec ---- *)
From Coq Require Import FMapPositive.

Definition mixz (h x : Z) : Z := Z.land (h * 31 + x) 2305843009213693951.

Definition tst_code (t : tstate) : Z := match t with TNew => 0 | TRunning => 1 | TDone => 2 end.
Definition qitem_code (q : qitem) : Z :=
  match q with QClosed => 1 | QPiece i h e => 2 + 7 * i + match h with Some x => 3 * x | None => 0 end + zlen e end.
Definition rpc_code (p : rpc) : Z :=
  match p with RStopRead => 1 | RPut q => 2 + 5 * qitem_code q | RClock => 3 | RPutClosed _ => 4 | RExit => 5 end.
Definition hpc_code (p : hpc) : Z :=
  match p with HGet => 1 | HPutHash q => 2 + 5 * qitem_code q | HRequeue => 3 | HSet => 4 | HExit => 5 end.
Definition jpc_code (p : jpc) : Z :=
  match p with JWait => 1 | JWaitAlive l => 2 + 5 * zlen l | JPruneAlive l => 3 + 5 * zlen l | JPutClosed => 4 | JExit => 5 end.
Definition mpc_code (p : mpc) : Z :=
  match p with
  | MAlive t => 1 + 16 * t | MStart t => 2 + 16 * t | MGet => 3 | MClock i _ _ => 4 + 16 * i | MStopRead _ => 5 | MStopWrite _ => 6
  | MRJoinAlive _ => 7 | MRJoin _ => 8 | MHJoinAlive _ n t => 9 + 16 * t | MHJoin _ n t => 10 + 16 * t
  | MJJoinAlive _ => 11 | MJJoin _ => 12 | MDone => 13
  end.

Definition hkey (s : state) : positive :=
  let h := fold_left mixz (map qitem_code (s_pq s)) 17 in
  let h := fold_left mixz (map qitem_code (s_hq s)) (mixz h 3) in
  let h := fold_left mixz (map (fun x : tstate * hpc => tst_code (fst x) + 3 * hpc_code (snd x)) (s_hs s)) (mixz h 5) in
  let h := fold_left mixz (s_seen s) (mixz h 7) in
  let h := fold_left mixz (s_tracked s) (mixz h 11) in
  let h := mixz (mixz (mixz (mixz h (rpc_code (s_rpc s))) (jpc_code (s_jpc s))) (mpc_code (s_mpc s))) (s_ridx s) in
  let h := mixz (mixz (mixz h (tst_code (s_rst s))) (tst_code (s_jst s))) (if s_stop s then 1 else 0) in
  let h := mixz (mixz h (if s_final s then 1 else 0)) (zlen (s_calls s)) in
  Z.to_pos (h + 1).

Definition tbl := PositiveMap.t (list (state * nat)).

Fixpoint assoc_state (s : state) (b : list (state * nat)) : option nat :=
  match b with
  | [] => None
  | (x, r) :: t => if state_eq_dec x s then Some r else assoc_state s t
  end.

Definition bucket (T : tbl) (k : positive) : list (state * nat) :=
  match PositiveMap.find k T with Some b => b | None => [] end.

Definition tget (T : tbl) (s : state) : option nat := assoc_state s (bucket T (hkey s)).
Definition tput (T : tbl) (s : state) (r : nat) : tbl := PositiveMap.add (hkey s) ((s, r) :: bucket T (hkey s)) T.
Definition tmem (T : tbl) (s : state) : bool := match tget T s with Some _ => true | None => false end.
Definition tbuild (l : list state) : tbl := fold_left (fun T s => tput T s O) l (PositiveMap.empty _).

(* breadth-first closure; None when the fuel runs out.  The list is the result, the table only speeds up membership *)
Fixpoint bfs (fuel : nat) (c : config) (frontier : list state) (T : tbl) (visited : list state) : option (list state) :=
  match fuel with
  | O => None
  | S f =>
      match frontier with
      | [] => Some visited
      | s :: rest =>
          let '(T', visited', fresh) :=
            fold_left (fun (acc : tbl * list state * list state) (o : tid * alt) =>
                         let '(T0, v0, f0) := acc in
                         let x := xstep c s o in
                         if tmem T0 x then acc else (tput T0 x O, x :: v0, x :: f0))
                      (options c s) (T, visited, []) in
          bfs f c (rest ++ List.rev fresh) T' visited'
      end
  end.

Definition explore (fuel : nat) (c : config) : option (list state) :=
  let s0 := norm (init c) in bfs fuel c [s0] (tput (PositiveMap.empty _) s0 O) [s0].

(* the set is closed under every enabled step *)
Definition closedb (c : config) (l : list state) : bool :=
  let T := tbuild l in
  forallb (fun s => forallb (fun o => tmem T (xstep c s o)) (options c s)) l.

Definition terminal (c : config) (s : state) : bool := match options c s with [] => true | _ => false end.

(* distance to a terminal state, by repeated relaxation over the states not ranked yet *)
Definition relax (c : config) (todo : list state) (R : tbl) (k : nat) : tbl * list state :=
  fold_left (fun (acc : tbl * list state) s =>
               if existsb (fun o => match tget R (xstep c s o) with Some r => Nat.eqb r k | None => false end) (options c s)
               then (tput (fst acc) s (S k), snd acc) else (fst acc, s :: snd acc))
            todo (R, []).

Fixpoint ranks (n : nat) (c : config) (todo : list state) (R : tbl) (k : nat) : tbl :=
  match n with
  | O => R
  | S m => match todo with
           | [] => R
           | _ => let '(R', todo') := relax c todo R k in ranks m c todo' R' (S k)
           end
  end.

Definition rank_table (c : config) (l : list state) (depth : nat) : tbl :=
  ranks depth c (filter (fun s => negb (terminal c s)) l)
        (fold_left (fun T s => tput T s O) (filter (terminal c) l) (PositiveMap.empty _)) O.

(* every state is terminal or has an enabled step to a state of smaller rank *)
Definition descendsb (c : config) (l : list state) (R : tbl) : bool :=
  forallb (fun s => terminal c s ||
                    match tget R s with
                    | Some r => existsb (fun o => match tget R (xstep c s o) with Some r' => Nat.ltb r' r | None => false end) (options c s)
                    | None => false
                    end) l.

(* ---- what is checked of every reachable state ---- *)
Definition is_nil {X} (l : list X) : bool := match l with [] => true | _ => false end.
Definition zlist_eqb (a b : list Z) : bool := if list_eq_dec Z.eq_dec a b then true else false.

(* ref: the hashes of the pieces in order; may_false: False may be returned (cancelled / damaged);
   raises: exceptions that may propagate *)
Definition result_ok (ref : list Z) (may_false : bool) (raises : list Z) (s : state) : bool :=
  match s_result s with
  | None => true
  | Some ResTrue => zlist_eqb (sorted_hashes (s_hashes s)) ref
  | Some ResFalse => may_false
  | Some (ResRaise e) => existsb (Z.eqb e) raises
  | Some (ResRuntimeError _) => false
  end.

Definition goodb (c : config) (ref : list Z) (may_false : bool) (raises : list Z) (s : state) : bool :=
  (* nothing can move only when the call has returned and every worker thread has ended (no deadlock) *)
  (negb (terminal c s) || (s_mdone s && is_nil (running_threads c s)))
  (* no worker thread is alive once the call has returned *)
  && (negb (s_mdone s) || is_nil (running_threads c s))
  && result_ok ref may_false raises s.

Definition checkb (fuel depth : nat) (c : config) (ref : list Z) (may_false : bool) (raises : list Z) : bool :=
  match explore fuel c with
  | None => false
  | Some l =>
      tmem (tbuild l) (norm (init c)) && closedb c l && forallb (goodb c ref may_false raises) l
      && descendsb c l (rank_table c l depth)
  end.
