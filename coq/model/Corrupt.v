(* Corrupt.v -- which files VerifyContentError blames for a corrupt piece
   (torf/_errors.py, VerifyContentError.__init__).  The interval arithmetic and the
   overlap test are regenerated from the source (the ex_vce definitions of Extracted.v); the loop with
   its running position is modelled by hand.  Files are (id, size).
   Executable definitions only. *)
From Torf Require Import Base Extracted.
Open Scope Z_scope.

Fixpoint corrupt_go (fs : list (Z * Z)) (pos eb ee : Z) : list Z :=
  match fs with
  | [] => []
  | (id, sz) :: r =>
      let fb := ex_vce_fbeg pos in
      let fe := ex_vce_fend fb sz in
      (if ex_vce_test eb ee fb fe then [id] else []) ++ corrupt_go r (pos + sz) eb ee
  end.

Definition corrupt_files (fs : list (Z * Z)) (i L : Z) : res (list Z) :=
  match fs with
  | [] => Err IRuntime
  | [(id, _)] => Ok [id]
  | _ => let eb := ex_vce_beg i L in Ok (corrupt_go fs 0 eb (ex_vce_end eb L))
  end.
