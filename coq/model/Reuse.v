(* Reuse.v -- model of Torrent.reuse and torf/_reuse.py: is_file_match,
   _get_filepaths_and_sizes, is_content_match (first / middle / last piece of every
   file, verified through the candidate's TorrentFileStream on the local
   content), copy, and the search loop with its callback protocol.
   A relative file path (including the torrent name) is an integer id, as in
   Geometry.v; the local content is a disk as in Stream.v; find_torrent_files and
   Torrent.read are represented by their result, a list of items.
   Executable definitions only. *)
From Torf Require Import Base Extracted Geometry Stream.
Open Scope Z_scope.

Record rtorrent := {
  t_name : Z;
  t_files : list file;               (* info['files'] order (a single file: one entry) *)
  t_plen : option Z;
  t_pieces : option (list bytes);
  t_pmin : Z;
  t_pmax : Z
}.

Record candidate := {
  c_name : Z;
  c_files : list file;
  c_plen : Z;
  c_hashes : list bytes
}.

(* sorted(files_and_sizes): insertion sort by (path id, size) *)
Definition file_ltb (a b : file) : bool :=
  (fst a <? fst b) || ((fst a =? fst b) && (snd a <? snd b)).

Fixpoint finsert (x : file) (l : list file) : list file :=
  match l with
  | [] => [x]
  | y :: r => if file_ltb y x then y :: finsert x r else x :: l
  end.

Definition fsort (l : list file) : list file := fold_right finsert [] l.

Definition is_file_match (t : rtorrent) (c : candidate) : bool :=
  if negb (t_name t =? c_name c) then false
  else if files_eqb (fsort (t_files t)) (fsort (c_files c))
       then (t_pmin t <=? c_plen c) && (c_plen c <=? t_pmax t)
       else false.

(* all[:1] + all[middle:middle+1] + all[-1:] with middle = int(len(all) / 2) *)
Definition some_indexes (all : list Z) : list Z :=
  let middle := Z.to_nat (zlen all / 2) in
  firstn 1 all ++ firstn 1 (skipn middle all) ++ skipn (length all - 1) all.

Fixpoint collect_indexes (cfs : list file) (L : Z) (tfs : list file) : res (list Z) :=
  match tfs with
  | [] => Ok []
  | f :: r =>
      do all <- piece_indexes_of_file cfs L f false;
      do rest <- collect_indexes cfs L r;
      Ok (some_indexes all ++ rest)
  end.

Section Hash.
Variable H : bytes -> bytes.

(* for piece_index in sorted(check_piece_indexes): if not tfs.verify_piece(piece_index): return False *)
Fixpoint verify_all (d : disk) (h : handles) (c : candidate) (idxs : list Z) : res bool :=
  match idxs with
  | [] => Ok true
  | i :: r =>
      match verify_piece H d h (c_files c) (c_plen c) (c_hashes c) i with
      | (Ok (Some true), h') => verify_all d h' c r
      | (Ok _, _) => Ok false
      | (Err e, _) => Err e
      end
  end.

Definition is_content_match (d : disk) (t : rtorrent) (c : candidate) : res bool :=
  do idxs <- collect_indexes (c_files c) (c_plen c) (t_files t);
  verify_all d [] c (sorted_set idxs).

Definition copy (c : candidate) (t : rtorrent) : rtorrent :=
  {| t_name := t_name t; t_files := c_files c; t_plen := Some (c_plen c); t_pieces := Some (c_hashes c);
     t_pmin := t_pmin t; t_pmax := t_pmax t |}.

(* one entry of find_torrent_files, after Torrent.read *)
Inductive ritem :=
| IErr (e : exn)                      (* unreadable path / ReadError / BdecodeError / MetainfoError *)
| ICand (c : candidate).

Inductive cbmode :=
| CbNone
| CbPassive                           (* always returns None *)
| CbCancelAt (k : nat).               (* returns something on its k-th call (k = 0: the first) *)

Inductive status := SFalse | SNone | STrue.
Definition call := (nat * status * bool)%type.     (* item index, is_match argument, exception given *)

(* maybe_call_callback with interval 0: (cancelled?, calls so far) ; without callback an exception is raised *)
Definition notify (cb : cbmode) (ncalls : nat) (err : option exn) : res bool :=
  match cb with
  | CbNone => match err with Some e => Err e | None => Ok false end
  | CbPassive => Ok false
  | CbCancelAt k => Ok (Nat.eqb ncalls k)
  end.

Definition has_cb (cb : cbmode) : bool := match cb with CbNone => false | _ => true end.

Fixpoint search (d : disk) (cb : cbmode) (t : rtorrent) (idx : nat) (items : list ritem) (log : list call)
  : res bool * rtorrent * list call :=
  match items with
  | [] => (Ok false, t, log)
  | IErr e :: r =>
      let log' := if has_cb cb then log ++ [(idx, SFalse, true)] else log in
      match notify cb (length log) (Some e) with
      | Err x => (Err x, t, log')
      | Ok true => (Ok false, t, log')
      | Ok false => search d cb t (S idx) r log'
      end
  | ICand c :: r =>
      if is_file_match t c then
        let log1 := if has_cb cb then log ++ [(idx, SNone, false)] else log in
        match notify cb (length log) None with
        | Err x => (Err x, t, log1)
        | Ok true => (Ok false, t, log1)
        | Ok false =>
            match is_content_match d t c with
            | Err x => (Err x, t, log1)
            | Ok true =>
                let log2 := if has_cb cb then log1 ++ [(idx, STrue, false)] else log1 in
                (Ok true, copy c t, log2)
            | Ok false =>
                let log2 := if has_cb cb then log1 ++ [(idx, SFalse, false)] else log1 in
                match notify cb (length log1) None with
                | Err x => (Err x, t, log2)
                | Ok true => (Ok false, t, log2)
                | Ok false => search d cb t (S idx) r log2
                end
            end
        end
      else
        let log' := if has_cb cb then log ++ [(idx, SFalse, false)] else log in
        match notify cb (length log) None with
        | Err x => (Err x, t, log')
        | Ok true => (Ok false, t, log')
        | Ok false => search d cb t (S idx) r log'
        end
  end.

Definition reuse (d : disk) (cb : cbmode) (t : rtorrent) (items : list ritem) : res bool * rtorrent * list call :=
  search d cb t 0 items [].
End Hash.
