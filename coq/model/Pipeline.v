(* Pipeline.v -- small-step model of the threaded hashing pipeline of
   torf/_generate.py (Worker, Reader, HasherPool with janitor, Collector,
   _IntervaledCallback, GenerateCallback / VerifyCallback) together with the
   caller's part of Torrent.generate / Torrent.verify.

   One step = one scheduling point of one thread: a queue put/get, an event
   set/wait, a thread start/join/is_alive, a clock read, a read or write of the
   reader's stop flag.  Code between two points runs atomically (it touches only
   thread-local data).  Blocking operations with a timeout may take their timeout
   alternative when (and only when) the queue is empty / the event is unset, which
   models arbitrary delays.  Time is in milliseconds.

   The content is abstracted to what TorrentFileStream.iter_pieces yields:
   pieces (identified by the hash they have), items carrying exceptions, piece-less
   items, out-of-memory events and a possible read failure.
   Executable definitions only. *)
From Torf Require Import Base.
Open Scope Z_scope.

Definition zlen {X} (l : list X) : Z := Z.of_nat (length l).

(* ---- inputs ---- *)
Inductive rev :=                      (* what the reader meets, in order *)
| RPiece (h : Z)                      (* a piece whose SHA-1 is (abstractly) h; h <> 0 *)
| RExc (es : list Z)                  (* an item carrying exceptions (non-empty) and no piece *)
| RNone                               (* a piece-less item without exception *)
| ROom                                (* MemoryError while reading: oom_callback is called once *)
| RFail (e : Z).                      (* the iterator raises (ReadError e) *)

Inductive cbplan :=                   (* behaviour of the user's callback *)
| CbAbsent
| CbQuiet
| CbCancelFrom (k : Z)                (* returns something when called with done >= k *)
| CbRaiseFrom (k : Z).                (* raises when called with done >= k *)

Record config := {
  cf_items : list rev;
  cf_total : Z;                       (* torrent.pieces *)
  cf_hashers : nat;                   (* hasher_threads >= 1 *)
  cf_interval : Z;                    (* callback interval, ms *)
  cf_plan : cbplan;
  cf_verify : option (list Z);        (* verify: the expected hashes; generate: None *)
  cf_refuse : list Z                  (* thread ids whose start is refused *)
}.

(* ---- queue items ---- *)
Inductive qitem :=
| QClosed
| QPiece (idx : Z) (h : option Z) (exc : list Z).      (* piece queue: h = piece; hash queue: h = hash; exc = exceptions *)

(* thread ids: 0 main, 1 reader, 2 janitor, 3.. hashers *)
Definition tid := Z.
Definition hasher_tid (i : nat) : tid := 3 + Z.of_nat i.

Inductive tstate := TNew | TRunning | TDone.

(* ---- program counters ---- *)
Inductive rpc :=
| RStopRead                           (* about to read the stop flag for the current item *)
| RPut (it : qitem)                   (* about to put an item *)
| RClock                              (* inside _handle_oom: about to read the clock *)
| RPutClosed (exc : option Z)         (* finally: about to put QUEUE_CLOSED; the pending exception *)
| RExit.

Inductive hpc :=
| HGet
| HPutHash (it : qitem)
| HRequeue                            (* about to put QUEUE_CLOSED back *)
| HSet
| HExit.

Inductive jpc :=
| JWait
| JWaitAlive (rest : list tid)        (* _wait_for_hashers: about to ask is_alive of the head *)
| JPruneAlive (rest : list tid)       (* prune loop: about to ask is_alive of the head *)
| JPutClosed
| JExit.

(* what main does after the worker threads are joined *)
Inductive outcome :=
| ONormal                             (* collect() returned *)
| ORaise (e : Z).                     (* an exception is propagating: the callback's (-1), an internal one (-2), read errors (> 0) *)

Inductive after := AContinue | AFinal (o : outcome).

Inductive mpc :=
| MAlive (t : tid)                    (* Worker.start: is_alive *)
| MStart (t : tid)
| MGet                                (* hash_queue.get() *)
| MClock (idx : Z) (h : option Z) (exc : list Z)   (* _IntervaledCallback: clock read for this item *)
| MStopRead (a : after)               (* Reader.stop(): read the flag *)
| MStopWrite (a : after)
| MRJoinAlive (o : outcome) | MRJoin (o : outcome)                    (* Worker.join of the reader *)
| MHJoinAlive (o : outcome) (pos : nat) (t : tid) | MHJoin (o : outcome) (pos : nat) (t : tid)   (* for hasher in self._hashers: position in the live list, element fetched *)
| MJJoinAlive (o : outcome) | MJJoin (o : outcome)
| MDone.

Inductive result :=
| ResTrue | ResFalse | ResRaise (e : Z) | ResRuntimeError (e : Z).

Record state := {
  s_now : Z;
  (* reader *)
  s_rst : tstate; s_rpc : rpc; s_rtodo : list rev; s_ridx : Z; s_stop : bool;
  s_rexc : option Z;                  (* Worker._exception of the reader *)
  s_maxsize : Z; s_memts : Z;
  s_pq : list qitem;                  (* piece queue *)
  (* hashers: state, pc *)
  s_hs : list (tstate * hpc);
  s_hq : list qitem;                  (* hash queue *)
  s_final : bool;                     (* finalize event *)
  (* janitor *)
  s_jst : tstate; s_jpc : jpc; s_tracked : list tid;
  (* main / collector *)
  s_mpc : mpc; s_mdone : bool;
  s_seen : list Z; s_hashes : list (Z * Z);
  s_prev : Z;                         (* _prev_call_time *)
  s_calls : list (Z * Z * option Z);  (* user callback calls: (done, piece index, error) *)
  s_result : option result
}.

Definition hasher_index (t : tid) : nat := Z.to_nat (t - 3).

Definition tstate_of (s : state) (t : tid) : tstate :=
  if t =? 1 then s_rst s
  else if t =? 2 then s_jst s
  else match nth_error (s_hs s) (hasher_index t) with Some (st, _) => st | None => TDone end.

Definition is_alive (s : state) (t : tid) : bool :=
  match tstate_of s t with TRunning => true | _ => false end.

Definition hasher_tids (n : nat) : list tid := map hasher_tid (seq 0 n).

Definition init (c : config) : state :=
  {| s_now := 0;
     s_rst := TNew; s_rpc := RStopRead; s_rtodo := cf_items c; s_ridx := 0; s_stop := false; s_rexc := None;
     s_maxsize := 3 * Z.of_nat (cf_hashers c); s_memts := -1000; s_pq := [];
     s_hs := map (fun _ => (TNew, HGet)) (seq 0 (cf_hashers c)); s_hq := []; s_final := false;
     s_jst := TNew; s_jpc := JWait; s_tracked := hasher_tids (cf_hashers c);
     s_mpc := MAlive 1; s_mdone := false; s_seen := []; s_hashes := [];
     s_prev := -1000; s_calls := []; s_result := None |}.

(* ---- record updates ---- *)
Definition upd_reader (s : state) st pc todo idx rexc : state :=
  {| s_now := s_now s; s_rst := st; s_rpc := pc; s_rtodo := todo; s_ridx := idx; s_stop := s_stop s; s_rexc := rexc;
     s_maxsize := s_maxsize s; s_memts := s_memts s; s_pq := s_pq s; s_hs := s_hs s; s_hq := s_hq s; s_final := s_final s;
     s_jst := s_jst s; s_jpc := s_jpc s; s_tracked := s_tracked s; s_mpc := s_mpc s; s_mdone := s_mdone s;
     s_seen := s_seen s; s_hashes := s_hashes s; s_prev := s_prev s; s_calls := s_calls s; s_result := s_result s |}.

Definition set_pq (s : state) (pq : list qitem) : state :=
  {| s_now := s_now s; s_rst := s_rst s; s_rpc := s_rpc s; s_rtodo := s_rtodo s; s_ridx := s_ridx s; s_stop := s_stop s; s_rexc := s_rexc s;
     s_maxsize := s_maxsize s; s_memts := s_memts s; s_pq := pq; s_hs := s_hs s; s_hq := s_hq s; s_final := s_final s;
     s_jst := s_jst s; s_jpc := s_jpc s; s_tracked := s_tracked s; s_mpc := s_mpc s; s_mdone := s_mdone s;
     s_seen := s_seen s; s_hashes := s_hashes s; s_prev := s_prev s; s_calls := s_calls s; s_result := s_result s |}.

Definition set_hq (s : state) (hq : list qitem) : state :=
  {| s_now := s_now s; s_rst := s_rst s; s_rpc := s_rpc s; s_rtodo := s_rtodo s; s_ridx := s_ridx s; s_stop := s_stop s; s_rexc := s_rexc s;
     s_maxsize := s_maxsize s; s_memts := s_memts s; s_pq := s_pq s; s_hs := s_hs s; s_hq := hq; s_final := s_final s;
     s_jst := s_jst s; s_jpc := s_jpc s; s_tracked := s_tracked s; s_mpc := s_mpc s; s_mdone := s_mdone s;
     s_seen := s_seen s; s_hashes := s_hashes s; s_prev := s_prev s; s_calls := s_calls s; s_result := s_result s |}.

Definition set_now (s : state) (now : Z) : state :=
  {| s_now := now; s_rst := s_rst s; s_rpc := s_rpc s; s_rtodo := s_rtodo s; s_ridx := s_ridx s; s_stop := s_stop s; s_rexc := s_rexc s;
     s_maxsize := s_maxsize s; s_memts := s_memts s; s_pq := s_pq s; s_hs := s_hs s; s_hq := s_hq s; s_final := s_final s;
     s_jst := s_jst s; s_jpc := s_jpc s; s_tracked := s_tracked s; s_mpc := s_mpc s; s_mdone := s_mdone s;
     s_seen := s_seen s; s_hashes := s_hashes s; s_prev := s_prev s; s_calls := s_calls s; s_result := s_result s |}.

Definition set_stop (s : state) (b : bool) : state :=
  {| s_now := s_now s; s_rst := s_rst s; s_rpc := s_rpc s; s_rtodo := s_rtodo s; s_ridx := s_ridx s; s_stop := b; s_rexc := s_rexc s;
     s_maxsize := s_maxsize s; s_memts := s_memts s; s_pq := s_pq s; s_hs := s_hs s; s_hq := s_hq s; s_final := s_final s;
     s_jst := s_jst s; s_jpc := s_jpc s; s_tracked := s_tracked s; s_mpc := s_mpc s; s_mdone := s_mdone s;
     s_seen := s_seen s; s_hashes := s_hashes s; s_prev := s_prev s; s_calls := s_calls s; s_result := s_result s |}.

Definition set_oom (s : state) (maxsize memts : Z) : state :=
  {| s_now := s_now s; s_rst := s_rst s; s_rpc := s_rpc s; s_rtodo := s_rtodo s; s_ridx := s_ridx s; s_stop := s_stop s; s_rexc := s_rexc s;
     s_maxsize := maxsize; s_memts := memts; s_pq := s_pq s; s_hs := s_hs s; s_hq := s_hq s; s_final := s_final s;
     s_jst := s_jst s; s_jpc := s_jpc s; s_tracked := s_tracked s; s_mpc := s_mpc s; s_mdone := s_mdone s;
     s_seen := s_seen s; s_hashes := s_hashes s; s_prev := s_prev s; s_calls := s_calls s; s_result := s_result s |}.

Definition set_hs (s : state) (hs : list (tstate * hpc)) : state :=
  {| s_now := s_now s; s_rst := s_rst s; s_rpc := s_rpc s; s_rtodo := s_rtodo s; s_ridx := s_ridx s; s_stop := s_stop s; s_rexc := s_rexc s;
     s_maxsize := s_maxsize s; s_memts := s_memts s; s_pq := s_pq s; s_hs := hs; s_hq := s_hq s; s_final := s_final s;
     s_jst := s_jst s; s_jpc := s_jpc s; s_tracked := s_tracked s; s_mpc := s_mpc s; s_mdone := s_mdone s;
     s_seen := s_seen s; s_hashes := s_hashes s; s_prev := s_prev s; s_calls := s_calls s; s_result := s_result s |}.

Definition set_final (s : state) : state :=
  {| s_now := s_now s; s_rst := s_rst s; s_rpc := s_rpc s; s_rtodo := s_rtodo s; s_ridx := s_ridx s; s_stop := s_stop s; s_rexc := s_rexc s;
     s_maxsize := s_maxsize s; s_memts := s_memts s; s_pq := s_pq s; s_hs := s_hs s; s_hq := s_hq s; s_final := true;
     s_jst := s_jst s; s_jpc := s_jpc s; s_tracked := s_tracked s; s_mpc := s_mpc s; s_mdone := s_mdone s;
     s_seen := s_seen s; s_hashes := s_hashes s; s_prev := s_prev s; s_calls := s_calls s; s_result := s_result s |}.

Definition upd_janitor (s : state) st pc tracked : state :=
  {| s_now := s_now s; s_rst := s_rst s; s_rpc := s_rpc s; s_rtodo := s_rtodo s; s_ridx := s_ridx s; s_stop := s_stop s; s_rexc := s_rexc s;
     s_maxsize := s_maxsize s; s_memts := s_memts s; s_pq := s_pq s; s_hs := s_hs s; s_hq := s_hq s; s_final := s_final s;
     s_jst := st; s_jpc := pc; s_tracked := tracked; s_mpc := s_mpc s; s_mdone := s_mdone s;
     s_seen := s_seen s; s_hashes := s_hashes s; s_prev := s_prev s; s_calls := s_calls s; s_result := s_result s |}.

Definition set_mpc (s : state) (pc : mpc) : state :=
  {| s_now := s_now s; s_rst := s_rst s; s_rpc := s_rpc s; s_rtodo := s_rtodo s; s_ridx := s_ridx s; s_stop := s_stop s; s_rexc := s_rexc s;
     s_maxsize := s_maxsize s; s_memts := s_memts s; s_pq := s_pq s; s_hs := s_hs s; s_hq := s_hq s; s_final := s_final s;
     s_jst := s_jst s; s_jpc := s_jpc s; s_tracked := s_tracked s; s_mpc := pc; s_mdone := s_mdone s;
     s_seen := s_seen s; s_hashes := s_hashes s; s_prev := s_prev s; s_calls := s_calls s; s_result := s_result s |}.

Definition upd_collector (s : state) seen hashes prev calls : state :=
  {| s_now := s_now s; s_rst := s_rst s; s_rpc := s_rpc s; s_rtodo := s_rtodo s; s_ridx := s_ridx s; s_stop := s_stop s; s_rexc := s_rexc s;
     s_maxsize := s_maxsize s; s_memts := s_memts s; s_pq := s_pq s; s_hs := s_hs s; s_hq := s_hq s; s_final := s_final s;
     s_jst := s_jst s; s_jpc := s_jpc s; s_tracked := s_tracked s; s_mpc := s_mpc s; s_mdone := s_mdone s;
     s_seen := seen; s_hashes := hashes; s_prev := prev; s_calls := calls; s_result := s_result s |}.

Definition finish_main (s : state) (r : result) : state :=
  {| s_now := s_now s; s_rst := s_rst s; s_rpc := s_rpc s; s_rtodo := s_rtodo s; s_ridx := s_ridx s; s_stop := s_stop s; s_rexc := s_rexc s;
     s_maxsize := s_maxsize s; s_memts := s_memts s; s_pq := s_pq s; s_hs := s_hs s; s_hq := s_hq s; s_final := s_final s;
     s_jst := s_jst s; s_jpc := s_jpc s; s_tracked := s_tracked s; s_mpc := MDone; s_mdone := true;
     s_seen := s_seen s; s_hashes := s_hashes s; s_prev := s_prev s; s_calls := s_calls s; s_result := Some r |}.

Fixpoint set_nth {X} (l : list X) (n : nat) (x : X) : list X :=
  match l, n with
  | [], _ => []
  | _ :: r, O => x :: r
  | y :: r, S k => y :: set_nth r k x
  end.

Definition upd_hasher (s : state) (i : nat) (st : tstate) (pc : hpc) : state := set_hs s (set_nth (s_hs s) i (st, pc)).

(* ---- reader: advance to the next scheduling point ---- *)
(* after finishing with the current item: look at the next event of the iterator *)
Definition reader_next (s : state) (todo : list rev) (idx : Z) : state :=
  match todo with
  | [] => upd_reader s TRunning (RPutClosed None) [] idx (s_rexc s)
  | ROom :: _ => upd_reader s TRunning RClock todo idx (s_rexc s)
  | RFail e :: _ => upd_reader s TRunning (RPutClosed (Some e)) [] idx (s_rexc s)
  | _ :: _ => upd_reader s TRunning RStopRead todo idx (s_rexc s)
  end.

(* ---- enabledness ---- *)
Inductive alt := AGo | ATimeout.

Definition pq_has_room (s : state) : bool := (s_maxsize s <=? 0) || (zlen (s_pq s) <? s_maxsize s).

Definition reader_enabled (s : state) : list alt :=
  match s_rst s with
  | TRunning =>
      match s_rpc s with
      | RPut _ | RPutClosed _ => if pq_has_room s then [AGo] else []
      | RExit => []
      | _ => [AGo]
      end
  | _ => []
  end.

Definition hasher_enabled (s : state) (i : nat) : list alt :=
  match nth_error (s_hs s) i with
  | Some (TRunning, pc) =>
      match pc with
      | HGet => match s_pq s with [] => [ATimeout] | _ => [AGo] end
      | HRequeue => if pq_has_room s then [AGo] else []
      | HExit => []
      | _ => [AGo]
      end
  | _ => []
  end.

Definition janitor_enabled (s : state) : list alt :=
  match s_jst s with
  | TRunning =>
      match s_jpc s with
      | JWait => if s_final s then [AGo] else [ATimeout]
      | JExit => []
      | _ => [AGo]
      end
  | _ => []
  end.

Definition main_enabled (s : state) : list alt :=
  if s_mdone s then []
  else match s_mpc s with
       | MGet => match s_hq s with [] => [] | _ => [AGo] end
       | MRJoin _ => match s_rst s with TDone => [AGo] | _ => [] end
       | MHJoin _ _ t => match tstate_of s t with TDone => [AGo] | _ => [] end
       | MJJoin _ => match s_jst s with TDone => [AGo] | _ => [] end
       | MDone => []
       | _ => [AGo]
       end.

Definition options (c : config) (s : state) : list (tid * alt) :=
  map (fun a => (0, a)) (main_enabled s)
  ++ map (fun a => (1, a)) (reader_enabled s)
  ++ map (fun a => (2, a)) (janitor_enabled s)
  ++ flat_map (fun i => map (fun a => (hasher_tid i, a)) (hasher_enabled s i)) (seq 0 (cf_hashers c)).

(* ---- steps ---- *)
Definition step_reader (s : state) : state :=
  match s_rpc s with
  | RStopRead =>
      if s_stop s then upd_reader s TRunning (RPutClosed None) [] (s_ridx s) (s_rexc s)
      else match s_rtodo s with
           | RPiece h :: _ => upd_reader s TRunning (RPut (QPiece (s_ridx s) (Some h) [])) (s_rtodo s) (s_ridx s) (s_rexc s)
           | RExc es :: _ => upd_reader s TRunning (RPut (QPiece (s_ridx s) None es)) (s_rtodo s) (s_ridx s) (s_rexc s)
           | _ => upd_reader s TRunning (RPut (QPiece (s_ridx s) None [])) (s_rtodo s) (s_ridx s) (s_rexc s)
           end
  | RPut it =>
      let s1 := set_pq s (s_pq s ++ [it]) in
      reader_next s1 (tl (s_rtodo s)) (s_ridx s + 1)
  | RClock =>
      (* _handle_oom *)
      let now := s_now s in
      if now - s_memts s >=? 100 then
        let new := Z.max 1 (s_maxsize s * 9 / 10) in
        if negb (new =? s_maxsize s) then reader_next (set_oom s new now) (tl (s_rtodo s)) (s_ridx s)
        else upd_reader s TRunning (RPutClosed (Some 12)) [] (s_ridx s) (s_rexc s)      (* ReadError(ENOMEM) *)
      else reader_next s (tl (s_rtodo s)) (s_ridx s)
  | RPutClosed exc =>
      let s1 := set_pq s (s_pq s ++ [QClosed]) in
      upd_reader s1 TDone RExit [] (s_ridx s) exc
  | RExit => s
  end.

Definition step_hasher (s : state) (i : nat) (a : alt) : state :=
  match nth_error (s_hs s) i with
  | Some (TRunning, pc) =>
      match pc with
      | HGet =>
          match a with
          | ATimeout => if Nat.eqb i 0 then set_now s (s_now s + 504) else upd_hasher (set_now s (s_now s + 504)) i TDone HExit
          | AGo =>
              match s_pq s with
              | [] => s
              | QClosed :: r => upd_hasher (set_pq s r) i TRunning HRequeue
              | QPiece idx h exc :: r =>
                  (* _handle_piece: exceptions are forwarded, a piece is hashed, nothing stays nothing *)
                  let out := match exc with _ :: _ => QPiece idx None exc | [] => QPiece idx h [] end in
                  upd_hasher (set_pq s r) i TRunning (HPutHash out)
              end
          end
      | HPutHash it => upd_hasher (set_hq s (s_hq s ++ [it])) i TRunning HGet
      | HRequeue => upd_hasher (set_pq s (s_pq s ++ [QClosed])) i TRunning HSet
      | HSet => upd_hasher (set_final s) i TDone HExit
      | HExit => s
      end
  | _ => s
  end.

Fixpoint remove_tid (t : tid) (l : list tid) : list tid :=
  match l with
  | [] => []
  | x :: r => if x =? t then r else x :: remove_tid t r
  end.

Definition step_janitor (s : state) (a : alt) : state :=
  match s_jpc s with
  | JWait =>
      match a with
      | AGo => match s_tracked s with
               | [] => upd_janitor s TRunning JPutClosed (s_tracked s)
               | l => upd_janitor s TRunning (JWaitAlive l) (s_tracked s)
               end
      | ATimeout =>
          let s1 := set_now s (s_now s + 1001) in
          match s_tracked s with
          | [] => upd_janitor s1 TRunning JWait (s_tracked s)
          | l => upd_janitor s1 TRunning (JPruneAlive l) (s_tracked s)
          end
      end
  | JWaitAlive (t :: rest) =>
      (* all(not h.is_running for h in self._hashers): stops at the first running hasher, then starts over *)
      if is_alive s t then upd_janitor s TRunning (JWaitAlive (s_tracked s)) (s_tracked s)
      else match rest with
           | [] => upd_janitor s TRunning JPutClosed (s_tracked s)
           | _ => upd_janitor s TRunning (JWaitAlive rest) (s_tracked s)
           end
  | JWaitAlive [] => upd_janitor s TRunning JPutClosed (s_tracked s)
  | JPruneAlive (t :: rest) =>
      let tracked := if is_alive s t then s_tracked s else remove_tid t (s_tracked s) in
      match rest with
      | [] => upd_janitor s TRunning JWait tracked
      | _ => upd_janitor s TRunning (JPruneAlive rest) tracked
      end
  | JPruneAlive [] => upd_janitor s TRunning JWait (s_tracked s)
  | JPutClosed => upd_janitor (set_hq s (s_hq s ++ [QClosed])) TDone JExit (s_tracked s)
  | JExit => s
  end.

(* ---- main ---- *)
Definition refused (c : config) (t : tid) : bool := existsb (Z.eqb t) (cf_refuse c).

Definition start_thread (s : state) (t : tid) : state :=
  if t =? 1 then reader_next (upd_reader s TRunning RStopRead (s_rtodo s) 0 None) (s_rtodo s) 0
  else if t =? 2 then upd_janitor s TRunning JWait (s_tracked s)
  else upd_hasher s (hasher_index t) TRunning HGet.

(* the thread started after t in HasherPool.__init__ (hashers first, janitor last), None after the janitor *)
Definition next_to_start (c : config) (t : tid) : option tid :=
  if t =? 1 then Some 3
  else if t =? 2 then None
  else if (t - 3 + 1) <? Z.of_nat (cf_hashers c) then Some (t + 1) else Some 2.

(* sorted(self._hashes_unsorted) *)
Fixpoint insert_hash (x : Z * Z) (l : list (Z * Z)) : list (Z * Z) :=
  match l with
  | [] => [x]
  | y :: r => if (fst y <? fst x) || ((fst y =? fst x) && (snd y <? snd x)) then y :: insert_hash x r else x :: l
  end.
Definition sorted_hashes (l : list (Z * Z)) : list Z := map snd (fold_right insert_hash [] l).

(* what Torrent.generate / Torrent.verify do with the collected hashes *)
Definition conclude (c : config) (s : state) : result :=
  let hs := sorted_hashes (s_hashes s) in
  match cf_verify c with
  | None => let n := zlen hs in
            if n =? cf_total c then ResTrue else if n <? cf_total c then ResFalse else ResRuntimeError 0
  | Some expected => if (fix eqb (a b : list Z) : bool :=
                             match a, b with
                             | [], [] => true
                             | x :: a', y :: b' => (x =? y) && eqb a' b'
                             | _, _ => false end) hs expected then ResTrue else ResFalse
  end.

(* the user callback, called with (done, piece index, error): None = returns None, Some false = cancel, Some true = raises *)
Definition user_cb (c : config) (done : Z) : option bool :=
  match cf_plan c with
  | CbAbsent | CbQuiet => None
  | CbCancelFrom k => if done >=? k then Some false else None
  | CbRaiseFrom k => if done >=? k then Some true else None
  end.

Definition has_user_cb (c : config) : bool := match cf_plan c with CbAbsent => false | _ => true end.

(* hash mismatch during verification *)
Definition mismatch (c : config) (idx : Z) (h : option Z) : bool :=
  match cf_verify c, h with
  | Some expected, Some hv => negb (nth (Z.to_nat idx) expected 0 =? hv)
  | _, _ => false
  end.

(* Collector._collect after the clock was read (seen already contains idx) *)
Definition collect_item (c : config) (s : state) (idx : Z) (h : option Z) (exc : list Z) : state :=
  let done := zlen (s_seen s) in
  let force := match exc with _ :: _ => true | [] => (done >=? cf_total c) || mismatch c idx h end in
  let now := s_now s in
  if force || (now - s_prev s >=? cf_interval c) then
    let s1 := upd_collector s (s_seen s) (s_hashes s) now (s_calls s) in
    (* the user callback is called once per error (once without error) until it cancels or raises *)
    let with_user (es : list (option Z)) :=
      match user_cb c done with
      | None => set_mpc (upd_collector s1 (s_seen s1) (s_hashes s1) now (s_calls s1 ++ map (fun e => (done, idx, e)) es)) MGet
      | Some raises =>
          let s2 := upd_collector s1 (s_seen s1) (s_hashes s1) now (s_calls s1 ++ map (fun e => (done, idx, e)) (firstn 1 es)) in
          if raises then set_mpc s2 (MStopRead (AFinal (ORaise (-1))))
          else set_mpc s2 (MStopRead AContinue)                      (* cancel; keeps collecting until the queue closes *)
      end in
    match cf_verify c with
    | None =>
        (* GenerateCallback._call_callback: errors are fatal *)
        match exc with
        | e :: _ => set_mpc s1 (MStopRead (AFinal (ORaise e)))
        | [] => if has_user_cb c then with_user [None] else set_mpc s1 MGet
        end
    | Some _ =>
        (* VerifyCallback._call_callback *)
        let exc' := match exc with _ :: _ => exc | [] => if mismatch c idx h then [1000] else [] end in
        if has_user_cb c then with_user (match exc' with [] => [None] | _ => map Some exc' end)
        else match exc' with
             | e :: _ => set_mpc s1 (MStopRead (AFinal (ORaise e)))
             | [] => set_mpc s1 MGet
             end
    end
  else set_mpc s MGet.

Definition raise_of (o : outcome) (rexc : option Z) : outcome :=
  match rexc with Some e => ORaise e | None => o end.

Definition finish (c : config) (s : state) (o : outcome) : state :=
  match o with
  | ONormal => finish_main s (conclude c s)
  | ORaise e => finish_main s (ResRaise e)
  end.

(* for hasher in self._hashers: fetch the element at the next position of the (live) list *)
Definition next_hasher (s : state) (o : outcome) (pos : nat) : mpc :=
  match nth_error (s_tracked s) pos with
  | Some t => MHJoinAlive o pos t
  | None => MJJoinAlive o
  end.

Definition step_main (c : config) (s : state) (inc : Z) : state :=
  match s_mpc s with
  | MAlive t => set_mpc s (MStart t)
  | MStart t =>
      if refused c t then
        (* only the additional hashers may fail to start *)
        if (t =? 1) || (t =? 2) || (t =? 3) then finish_main s (ResRuntimeError 1)
        else match next_to_start c t with Some t' => set_mpc s (MAlive t') | None => set_mpc s MGet end
      else
        let s1 := start_thread s t in
        match next_to_start c t with Some t' => set_mpc s1 (MAlive t') | None => set_mpc s1 MGet end
  | MGet =>
      match s_hq s with
      | [] => s
      | QClosed :: r => set_mpc (set_hq s r) (MRJoinAlive ONormal)
      | QPiece idx h exc :: r =>
          let s1 := set_hq s r in
          if existsb (Z.eqb idx) (s_seen s1) then set_mpc s1 (MStopRead (AFinal (ORaise (-2))))     (* assert *)
          else
            let hashes := match exc, h with [], Some hv => s_hashes s1 ++ [(idx, hv)] | _, _ => s_hashes s1 end in
            set_mpc (upd_collector s1 (s_seen s1 ++ [idx]) hashes (s_prev s1) (s_calls s1)) (MClock idx h exc)
      end
  | MClock idx h exc => collect_item c (set_now s (s_now s + inc)) idx h exc
  | MStopRead a =>
      if s_stop s then match a with AContinue => set_mpc s MGet | AFinal o => set_mpc s (MRJoinAlive o) end
      else set_mpc s (MStopWrite a)
  | MStopWrite a =>
      let s1 := set_stop s true in
      match a with AContinue => set_mpc s1 MGet | AFinal o => set_mpc s1 (MRJoinAlive o) end
  | MRJoinAlive o =>
      if is_alive s 1 then set_mpc s (MRJoin o) else set_mpc s (next_hasher s (raise_of o (s_rexc s)) 0)
  | MRJoin o => set_mpc s (next_hasher s (raise_of o (s_rexc s)) 0)
  | MHJoinAlive o pos t =>
      if is_alive s t then set_mpc s (MHJoin o pos t) else set_mpc s (next_hasher s o (S pos))
  | MHJoin o pos t => set_mpc s (next_hasher s o (S pos))
  | MJJoinAlive o => if is_alive s 2 then set_mpc s (MJJoin o) else finish c s o
  | MJJoin o => finish c s o
  | MDone => s
  end.

(* one step of the system: thread t performs its pending operation with alternative a;
   inc is the advance of the clock observed by a clock read *)
Definition step (c : config) (s : state) (t : tid) (a : alt) (inc : Z) : state :=
  if t =? 0 then step_main c s inc
  else if t =? 1 then (match s_rpc s with RClock => step_reader (set_now s (s_now s + inc)) | _ => step_reader s end)
  else if t =? 2 then step_janitor s a
  else step_hasher s (hasher_index t) a.

Definition alt_eqb (a b : alt) : bool := match a, b with AGo, AGo | ATimeout, ATimeout => true | _, _ => false end.

Definition enabled (c : config) (s : state) (t : tid) (a : alt) : bool :=
  existsb (fun o => (fst o =? t) && alt_eqb (snd o) a) (options c s).

(* replay a schedule; stops at the first choice that is not enabled *)
Fixpoint run (c : config) (s : state) (sched : list (tid * alt * Z)) : state * list (tid * alt * Z) :=
  match sched with
  | [] => (s, [])
  | (t, a, inc) :: r => if enabled c s t a then run c (step c s t a inc) r else (s, sched)
  end.

Definition running_threads (c : config) (s : state) : list tid :=
  filter (is_alive s) (1 :: 2 :: hasher_tids (cf_hashers c)).

(* replay with observation of the worker threads still running when the call returned *)
Fixpoint run_obs (c : config) (s : state) (sched : list (tid * alt * Z)) (left : option (list tid))
  : state * list (tid * alt * Z) * option (list tid) :=
  let left' := match left with
               | Some l => Some l
               | None => if s_mdone s then Some (running_threads c s) else None
               end in
  match sched with
  | [] => (s, [], left')
  | (t, a, inc) :: r => if enabled c s t a then run_obs c (step c s t a inc) r left' else (s, sched, left')
  end.

(* a deterministic round-robin scheduler for examples: the first enabled choice of a thread after the one
   that moved last; every clock reading advances 7 ms *)
Fixpoint auto_go (fuel : nat) (c : config) (s : state) (last : tid) : state :=
  match fuel with
  | O => s
  | S f => let opts := options c s in
           match filter (fun o : tid * alt => last <? fst o) opts ++ opts with
           | [] => s
           | (t, a) :: _ => auto_go f c (step c s t a 7) t
           end
  end.
Definition auto_run (fuel : nat) (c : config) (s : state) : state := auto_go fuel c s (-1).
