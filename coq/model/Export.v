(* Export.v -- model of Torrent.convert / dump / infohash / is_ready /
   read_stream and of the effects of write / write_stream (order of effects from
   the ex_..._steps lists of Extracted.v).  Executable definitions only. *)
From Torf Require Import Base Bencode PyVal Extracted Convert Validate.
Open Scope Z_scope.

Definition metainfo := list (pyval * pyval).

Section Exp.
Variable is_url : bytes -> bool.

(* ValueError from the converters becomes MetainfoError *)
Definition convert (md : metainfo) : res bval :=
  match encode_dict (ensure_info md) with
  | Err IValue | Err IOverflow => Err DMetainfo
  | r => r
  end.

(* ValueError of the bencoder (int beyond the digit limit) becomes MetainfoError *)
Definition encode_m (v : bval) : res bytes :=
  match encode v with
  | Err IValue => Err DMetainfo
  | r => r
  end.

(* Torrent.dump: validate (if requested), convert, encode -- the statement order is
   checked by the translator (fail-closed shape test of Torrent.dump) *)
Definition dump (fs : fsinfo) (do_validate : bool) (md : metainfo) : res bytes :=
  do _ <- (if do_validate then validate is_url fs md else Ok tt);
  do bv <- convert md;
  encode_m bv.

(* the bytes fed to sha1 by Torrent.infohash; [stored] = an explicitly set _infohash *)
Definition infohash_input (fs : fsinfo) (md : metainfo) : res bytes :=
  do _ <- validate is_url fs md;
  match dict_get (ensure_info md) (PStr k_info) with
  | Some (PDict info) =>
      match encode_dict info with
      | Err IValue | Err IOverflow => Err DMetainfo
      | Err e => Err e
      | Ok v => encode_m v
      end
  | _ => Err DMetainfo
  end.

Definition is_ready (fs : fsinfo) (md : metainfo) : res bool :=
  match validate is_url fs md with
  | Ok _ => Ok true
  | Err DMetainfo => Ok false
  | Err e => Err e
  end.

(* ---- read_stream ---- *)
Fixpoint raw_of_bval (fuel : nat) (v : bval) : pyval :=
  match fuel with
  | O => POther
  | S f =>
      match v with
      | BInt z => PInt z
      | BStr b => PBytes b
      | BList l => PList (map (raw_of_bval f) l)
      | BDict kvs => PDict (map (fun kv => (PBytes (fst kv), raw_of_bval f (snd kv))) kvs)
      end
  end.

Fixpoint bdict_get (kvs : list (bytes * bval)) (k : bytes) : option bval :=
  match kvs with
  | [] => None
  | (k', v) :: r => if bytes_eqb k' k then Some v else bdict_get r k
  end.

Fixpoint bdict_del (kvs : list (bytes * bval)) (k : bytes) : list (bytes * bval) :=
  match kvs with
  | [] => []
  | (k', v) :: r => if bytes_eqb k' k then r else (k', v) :: bdict_del r k
  end.

Fixpoint bdict_put (kvs : list (bytes * bval)) (k : bytes) (v : bval) : list (bytes * bval) :=
  match kvs with
  | [] => [(k, v)]
  | (k', v') :: r => if bytes_eqb k' k then (k', v) :: r else (k', v') :: bdict_put r k v
  end.

Definition k_creation_date := [99; 114; 101; 97; 116; 105; 111; 110; 32; 100; 97; 116; 101]%N.
Definition k_private := [112; 114; 105; 118; 97; 116; 101]%N.

Definition ts_min : Z := -62135510400.   (* 0001-01-02T00:00:00: smallest value datetime.fromtimestamp accepts (TZ=UTC) *)
Definition ts_max : Z := 253402300799.   (* 9999-12-31T23:59:59 *)

Definition bval_truthy (v : bval) : bool :=
  match v with
  | BInt z => negb (z =? 0)
  | BStr b => negb (match b with [] => true | _ => false end)
  | BList l => negb (match l with [] => true | _ => false end)
  | BDict l => negb (match l with [] => true | _ => false end)
  end.

Definition catches (x : ex_exc) (l : list ex_exc) : bool :=
  existsb (fun y => match x, y with
                    | XDecodingError, XDecodingError | XValueError, XValueError | XOverflowError, XOverflowError
                    | XMemoryError, XMemoryError | XRecursionError, XRecursionError | XOSError, XOSError => true
                    | _, _ => false end) l.

(* bencode.decode(content) under the except clause of read_stream *)
Definition rs_decode (content : bytes) : res bval :=
  match bdec content with
  | Err DBdecode => if catches XDecodingError ex_read_decode_catches || catches XValueError ex_read_decode_catches
                    then Err DBdecode else Err IOther
  | Err IValue => if catches XValueError ex_read_decode_catches then Err DBdecode else Err IValue
  | Err IOverflow => if catches XOverflowError ex_read_decode_catches then Err DBdecode else Err IOverflow
  | r => r
  end.

(* decode_dict(...) under the except RecursionError clause *)
Definition rs_convert (v : bval) : res pyval :=
  (* read_stream calls decode_dict directly (one frame less than decode_value -> decode_dict), as convert() calls encode_dict *)
  match decode_value (S depth_limit) v with
  | Err IRecursion => if catches XRecursionError ex_read_convert_catches then Err DBdecode else Err IRecursion
  | r => r
  end.

(* utils.assert_type(metainfo, ('info',), (dict,), must_exist=validate) *)
Definition rs_info_check (do_validate : bool) (md : metainfo) : res unit :=
  match dict_get md (PStr k_info) with
  | None => if do_validate then Err DMetainfo else Ok tt
  | Some (PDict _) => Ok tt
  | Some _ => Err DMetainfo
  end.

(* torrent.creation_date = metainfo_enc[b'creation date'] under its except clause *)
Definition rs_cdate (ekvs : list (bytes * bval)) (md : metainfo) : res metainfo :=
  match bdict_get ekvs k_creation_date with
  | None => Ok md
  | Some (BInt z) =>
      if (ts_min <=? z) && (z <=? ts_max)
      then Ok (dict_put md (PStr k_creation_date) (PDatetime z))
      else (* ValueError / OverflowError / OSError from datetime.fromtimestamp *)
        if catches XValueError ex_read_cdate_catches && catches XOverflowError ex_read_cdate_catches
           && catches XOSError ex_read_cdate_catches
        then Err DMetainfo else Err IOverflow
  | Some v => if bval_truthy v
              then (if catches XValueError ex_read_cdate_catches then Err DMetainfo else Err IValue)
              else Ok (dict_del md (PStr k_creation_date))
  end.

Definition rs_private (info_enc : option bval) (md : metainfo) : metainfo :=
  match info_enc with
  | Some (BDict ikvs) =>
      match bdict_get ikvs k_private with
      | Some v =>
          match dict_get (ensure_info md) (PStr k_info) with
          | Some (PDict info) =>
              dict_put (ensure_info md) (PStr k_info)
                       (PDict (dict_put info (PStr k_private) (PBool (bval_truthy v))))
          | _ => md end
      | None => md end
  | _ => md
  end.

(* pieces (a byte string) are taken out before decoding and put back raw *)
Definition rs_strip_pieces (ekvs : list (bytes * bval)) : option bval * list (bytes * bval) :=
  match bdict_get ekvs k_info with
  | Some (BDict ikvs) =>
      match bdict_get ikvs k_pieces with
      | Some (BStr p) => (Some (BStr p), bdict_put ekvs k_info (BDict (bdict_del ikvs k_pieces)))
      | Some p =>             (* not a byte string: decoded like every other value (fix 7f4b309) *)
          if ex_read_strips_any_pieces then (Some p, bdict_put ekvs k_info (BDict (bdict_del ikvs k_pieces)))
          else (None, ekvs)
      | None => (None, ekvs)
      end
  | _ => (None, ekvs)
  end.

Definition rs_restore_pieces (pieces : option bval) (md : metainfo) : metainfo :=
  match pieces, dict_get md (PStr k_info) with
  | Some p, Some (PDict info) =>
      dict_put md (PStr k_info) (PDict (dict_put info (PStr k_pieces) (raw_of_bval depth_limit p)))
  | _, _ => md
  end.

Definition rs_finish (do_validate : bool) (md : metainfo) : res metainfo :=
  if do_validate then (do _ <- validate is_url FSNone md; Ok (ensure_info md)) else Ok md.

Definition read_stream (do_validate : bool) (content : bytes) : res metainfo :=
  if Z.of_nat (length content) >? ex_max_torrent_file_size then Err IValue
  else
  do enc <- rs_decode content;
  match enc with
  | BDict ekvs =>
      let '(pieces, ekvs1) := rs_strip_pieces ekvs in
      do dec <- rs_convert (BDict ekvs1);
      match dec with
      | PDict md0 =>
          let md1 := rs_restore_pieces pieces md0 in
          do _ <- rs_info_check do_validate md1;
          do md2 <- rs_cdate ekvs md1;
          rs_finish do_validate (rs_private (bdict_get ekvs k_info) md2)
      | _ => Err DBdecode
      end
  | _ => Err DBdecode
  end.

(* ---- write / write_stream: effects on the target ---- *)
Inductive target :=
| TAbsent
| TFile (content : bytes)
| TDir
| TNoPerm (existing : option bytes).   (* open(.., 'wb') fails with EACCES; may or may not exist *)

Definition target_exists (t : target) : bool :=
  match t with TAbsent | TNoPerm None => false | _ => true end.

Definition write (fs : fsinfo) (overwrite do_validate : bool) (md : metainfo) (t : target) : res unit * target :=
  (fix go (steps : list ex_wstep) (content : option bytes) (t : target) : res unit * target :=
     match steps with
     | [] => (Ok tt, t)
     | WCheckExists :: r =>
         if negb overwrite && target_exists t then (Err DWrite, t) else go r content t
     | WDump :: r =>
         match dump fs do_validate md with
         | Ok c => go r (Some c) t
         | Err e => (Err e, t)
         end
     | WOpenWrite :: r =>
         match t with
         | TDir => (Err DWrite, t)
         | TNoPerm _ => (Err DWrite, t)
         | TAbsent | TFile _ =>
             (* open(...,'wb') creates/truncates, then the content (if already produced) is written *)
             go r content (TFile (match content with Some c => c | None => [] end))
         end
     end) ex_write_steps None t.

(* stream: seekable?, current content, does write() fail with OSError? *)
Record stream_st := { ss_seekable : bool; ss_content : bytes; ss_pos : Z; ss_fail : bool }.

(* a file-like write at a position: what lies before the position is kept (padded with zero bytes if the
   position is beyond the end), then the new bytes, then whatever the old content had beyond them *)
Definition write_at (old : bytes) (pos : Z) (c : bytes) : bytes :=
  let p := Z.to_nat pos in
  firstn p old ++ repeat 0%N (p - length old) ++ c ++ skipn (p + length c) old.

Definition write_stream (fs : fsinfo) (do_validate : bool) (md : metainfo) (s : stream_st) : res unit * stream_st :=
  (fix go (steps : list ex_sstep) (content : option bytes) (s : stream_st) : res unit * stream_st :=
     match steps with
     | [] => (Ok tt, s)
     | SDump :: r =>
         match dump fs do_validate md with
         | Ok c => go r (Some c) s
         | Err e => (Err e, s)
         end
     | SSeekTruncate :: r =>
         (* stream.seek(0); stream.truncate(0) *)
         if ss_seekable s
         then go r content {| ss_seekable := true; ss_content := []; ss_pos := 0; ss_fail := ss_fail s |}
         else go r content s
     | SWrite :: r =>
         if ss_fail s then (Err DWrite, s)
         else let c := match content with Some c => c | None => [] end in
              go r content {| ss_seekable := ss_seekable s;
                              ss_content := write_at (ss_content s) (ss_pos s) c;
                              ss_pos := ss_pos s + Z.of_nat (length c);
                              ss_fail := ss_fail s |}
     end) ex_write_stream_steps None s.

End Exp.
