(* History.v -- operation histories on ONE TorrentFileStream object (C19):
   sequential iterations (complete or abandoned after k items), indexed reads,
   hash checks, close.  The state is the open-handle table. *)
From Torf Require Import Base Extracted Geometry Stream.
Open Scope Z_scope.

Inductive hop :=
| HIter (k : Z)        (* consume k items then abandon; k < 0 = run to completion *)
| HGet (i : Z)
| HVerify (i : Z)
| HClose.

Inductive hout :=
| OItems (r : res (list item))
| OPiece (r : res bytes)
| OVerify (r : res (option bool))
| OClosed.

Section Run.
Variable H : bytes -> bytes.
Variables (d : disk) (fs : list file) (L : Z) (hashes : list bytes).

Definition hstep (h : handles) (o : hop) : hout * handles :=
  match o with
  | HIter k =>
      match iter_pieces_snap d h fs L with
      | Err e => (OItems (Err e), h)   (* generator raised: handle table as before the failing call *)
      | Ok l =>
          if (k <? 0) || (k >=? zlen l) then
            (OItems (Ok (map fst l)), last (map snd l) h)
          else
            let pre := firstn (Z.to_nat k) l in
            (OItems (Ok (map fst pre)), last (map snd pre) h)
      end
  | HGet i => let '(r, h') := get_piece d h fs L i in (OPiece r, h')
  | HVerify i => let '(r, h') := verify_piece H d h fs L hashes i in (OVerify r, h')
  | HClose => (OClosed, [])
  end.

Fixpoint hrun (h : handles) (ops : list hop) : list (hout * Z) :=
  match ops with
  | [] => []
  | o :: r => let '(out, h') := hstep h o in (out, zlen h') :: hrun h' r
  end.
End Run.
