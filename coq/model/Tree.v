(* Tree.v -- model of how a torrent's name and file list are computed from a
   content path: Torrent.path setter -> utils.list_files -> Torrent._set_files ->
   utils.filter_files, including pathlib / os.path path arithmetic (parsing of a
   spelled path, normpath, joining with the working directory, relative_to,
   relpath), the hidden / empty / pattern filter and the final sort.
   Strings are lists of code points; a path is a list of components.
   Executable definitions only. *)
From Torf Require Import Base Regex.
Open Scope Z_scope.

Definition str := list Z.
Definition c_dot : Z := 46.
Definition c_slash : Z := 47.
Definition s_dot : str := [46].
Definition s_dotdot : str := [46; 46].

Fixpoint leqb {A} (eqb : A -> A -> bool) (a b : list A) : bool :=
  match a, b with
  | [], [] => true
  | x :: a', y :: b' => eqb x y && leqb eqb a' b'
  | _, _ => false
  end.

(* lexicographic order of sequences (Python str and tuple comparison): first
   difference decides, a proper prefix comes first *)
Fixpoint lex_ltb {A} (ltb eqb : A -> A -> bool) (a b : list A) : bool :=
  match a, b with
  | [], [] => false
  | [], _ :: _ => true
  | _ :: _, [] => false
  | x :: a', y :: b' => if ltb x y then true else if eqb x y then lex_ltb ltb eqb a' b' else false
  end.

Definition str_eqb : str -> str -> bool := leqb Z.eqb.
(* Python str comparison: by code point *)
Definition str_ltb : str -> str -> bool := lex_ltb Z.ltb Z.eqb.
Definition path_eqb : list str -> list str -> bool := leqb str_eqb.
(* pathlib.PurePath.__lt__: tuple comparison of the parts *)
Definition path_ltb : list str -> list str -> bool := lex_ltb str_ltb str_eqb.

(* ---- spelled paths ---- *)
(* a path string: absolute or not, and its '/'-separated raw components
   (possibly empty, ".", ".."); no "//" prefix *)
Record spelled := { sp_abs : bool; sp_raw : list str }.

Definition is_nil {X} (l : list X) : bool := match l with [] => true | _ => false end.

(* pathlib.Path(str): empty and "." components vanish, ".." stays *)
Definition pl_parts (raw : list str) : list str :=
  filter (fun c => negb (is_nil c) && negb (str_eqb c s_dot)) raw.

(* os.path.normpath on components; acc is reversed *)
Fixpoint norm_go (abs : bool) (acc : list str) (cs : list str) : list str :=
  match cs with
  | [] => rev acc
  | c :: cs' =>
      if is_nil c || str_eqb c s_dot then norm_go abs acc cs'
      else if str_eqb c s_dotdot then
        match acc with
        | [] => if abs then norm_go abs [] cs' else norm_go abs [s_dotdot] cs'
        | a :: acc' => if str_eqb a s_dotdot then norm_go abs (s_dotdot :: acc) cs' else norm_go abs acc' cs'
        end
      else norm_go abs (c :: acc) cs'
  end.

(* _set_files.abspath: normpath(Path.cwd() / p); cwd / p is p for absolute p.
   The result is an absolute path given by its components. *)
Definition abspath (cwd : list str) (abs : bool) (parts : list str) : list str :=
  if abs then norm_go true [] parts else norm_go true [] (cwd ++ parts).

Fixpoint strip_prefix (p l : list str) : option (list str) :=
  match p, l with
  | [], _ => Some l
  | x :: p', y :: l' => if str_eqb x y then strip_prefix p' l' else None
  | _ :: _, [] => None
  end.

(* PurePath.relative_to *)
Definition relative_to (a b : list str) : res (list str) :=
  match strip_prefix b a with Some r => Ok r | None => Err IValue end.

(* os.path.relpath(path, start) for two relative paths under the same working
   directory: drop the common prefix, climb out of the rest of start *)
Fixpoint relpath (path start : list str) : list str :=
  match path, start with
  | x :: p', y :: s' => if str_eqb x y then relpath p' s' else map (fun _ => s_dotdot) start ++ path
  | _, _ => map (fun _ => s_dotdot) start ++ path
  end.

Definition last_or_empty (l : list str) : str := last l [].

Definition ends_with_dot (s : str) : bool :=
  match rev s with c :: _ => c =? c_dot | [] => false end.

(* str(pathlib.Path) ends with "." (os.curdir; os.pardir ends with it as well) *)
Definition str_ends_with_dot (abs : bool) (parts : list str) : bool :=
  match parts with
  | [] => negb abs                      (* str(Path()) = "." ; str(Path("/")) = "/" *)
  | _ => ends_with_dot (last_or_empty parts)
  end.

(* the name chosen for a multi-file torrent *)
Definition choose_name (cwd : list str) (abs : bool) (parts : list str) : str :=
  if negb abs && is_nil parts then last_or_empty cwd                                   (* str(basepath) == "." *)
  else if negb abs && path_eqb parts [s_dotdot] then last_or_empty (removelast cwd)    (* == ".." *)
  else if str_ends_with_dot abs parts then last_or_empty (abspath cwd abs parts)
  else last_or_empty parts.                                                            (* basepath.name *)

(* ---- patterns ---- *)
Definition lower (c : Z) : Z := if (65 <=? c) && (c <=? 90) then c + 32 else c.
(* str.casefold restricted to text without non-ASCII cased characters *)
Definition casefold (s : str) : str := map lower s.

Inductive gtok := GStar | GAny | GLit (c : Z) | GCls (neg : bool) (rs : list (Z * Z)).

(* contents of [...]: single characters and a-b ranges *)
Fixpoint cls_ranges (fuel : nat) (s : str) : list (Z * Z) :=
  match fuel with
  | O => []
  | S f =>
      match s with
      | a :: 45 :: b :: r => (a, b) :: cls_ranges f r
      | a :: r => (a, a) :: cls_ranges f r
      | [] => []
      end
  end.

Fixpoint split_at_close (s : str) (acc : str) : option (str * str) :=
  match s with
  | [] => None
  | 93 :: r => Some (rev acc, r)
  | c :: r => split_at_close r (c :: acc)
  end.

(* fnmatch.translate *)
Fixpoint glob_parse (fuel : nat) (s : str) : list gtok :=
  match fuel with
  | O => []
  | S f =>
      match s with
      | [] => []
      | 42 :: r => GStar :: glob_parse f r
      | 63 :: r => GAny :: glob_parse f r
      | 91 :: r =>
          let '(neg, r1) := match r with 33 :: r' => (true, r') | _ => (false, r) end in
          (* a "]" right after "[" or "[!" is a member of the set *)
          let '(first, r2) := match r1 with 93 :: r' => ([93], r') | _ => ([], r1) end in
          match split_at_close r2 [] with
          | None => GLit 91 :: glob_parse f r
          | Some (body, rest) => GCls neg (cls_ranges (S (length body)) (first ++ body)) :: glob_parse f rest
          end
      | c :: r => GLit c :: glob_parse f r
      end
  end.

Fixpoint gmatch (p : list gtok) (s : str) {struct p} : bool :=
  match p with
  | [] => is_nil s
  | GStar :: p' => (fix star (s : str) : bool :=
                      gmatch p' s || match s with [] => false | _ :: t => star t end) s
  | GAny :: p' => match s with _ :: t => gmatch p' t | [] => false end
  | GLit c :: p' => match s with x :: t => (x =? c) && gmatch p' t | [] => false end
  | GCls neg rs :: p' => match s with x :: t => xorb neg (in_ranges rs x) && gmatch p' t | [] => false end
  end.

(* fnmatch.fnmatch(path.casefold(), glob.casefold()) *)
Definition glob_hit (g : str) (subject : str) : bool :=
  let g' := casefold g in gmatch (glob_parse (S (length g')) g') (casefold subject).

(* a regular expression of the fragment: optional leading "^", then a body without "^" *)
Record rx := { rx_bol : bool; rx_body : re }.

Fixpoint suffixes (s : str) : list str :=
  match s with [] => [[]] | _ :: t => s :: suffixes t end.

(* Pattern.search *)
Definition rx_hit (x : rx) (subject : str) : bool :=
  if rx_bol x then accepts MMatch (rx_body x) subject
  else existsb (accepts MMatch (rx_body x)) (suffixes subject).

Record filters := {
  ex_globs : list str; ex_regexs : list rx;
  in_globs : list str; in_regexs : list rx
}.

(* filter_files.is_excluded *)
Definition is_excluded (fl : filters) (subject : str) : bool :=
  if existsb (fun r => rx_hit r subject) (in_regexs fl) then false
  else if existsb (fun g => glob_hit g subject) (in_globs fl) then false
  else if existsb (fun r => rx_hit r subject) (ex_regexs fl) then true
  else existsb (fun g => glob_hit g subject) (ex_globs fl).

Fixpoint join_slash (l : list str) : str :=
  match l with
  | [] => []
  | [x] => x
  | x :: r => x ++ c_slash :: join_slash r
  end.

(* str of a relative pathlib.Path built from parts *)
Definition path_str (parts : list str) : str :=
  match parts with [] => s_dot | _ => join_slash parts end.

(* filter_files.is_hidden *)
Definition is_hidden (parts : list str) : bool :=
  existsb (fun n => negb (str_eqb n s_dot) && negb (str_eqb n s_dotdot) &&
                    match n with c :: _ => c =? c_dot | [] => false end) parts.

(* ---- the pipeline ---- *)
Definition entry := (list str * Z)%type.     (* path relative to the content path ([] = the path itself), size *)

Inductive layout :=
| LEmpty                                     (* no files: name untouched, files/length removed *)
| LSingle (name : str) (len : Z)
| LMulti (name : str) (files : list entry).

(* sorted(files): insertion sort of File objects by their full pathlib path *)
Definition tagged := (entry * list str * list str)%type.   (* entry, relpath_with_parent, relpath_without_parent *)
Definition tkey (base : list str) (t : tagged) : list str := base ++ fst (fst (fst t)).

Fixpoint insert_by (base : list str) (e : tagged) (l : list tagged) : list tagged :=
  match l with
  | [] => [e]
  | x :: r => if path_ltb (tkey base x) (tkey base e) then x :: insert_by base e r else e :: l
  end.

Definition sort_tagged (base : list str) (l : list tagged) : list tagged :=
  fold_right (insert_by base) [] l.

(* utils.filter_files(files, getter=relpath_with_parent, basepath=relpath_with_parent(basepath),
                      hidden=False, exclude, include) followed by the size filter *)
Definition keep_entry (fl : filters) (fbase : list str) (wp : list str) (size : Z) : bool :=
  let without_base := pl_parts (relpath wp fbase) in
  let with_base := pl_parts (removelast fbase ++ wp) in
  negb (is_hidden without_base) && negb (is_excluded fl (path_str with_base)) && (0 <? size).

(* Torrent.path = spelled path, working directory cwd, listing = what list_files
   returned (in any order), given relative to the content path *)
Definition set_path (cwd : list str) (sp : spelled) (fl : filters) (listing : list entry) : res layout :=
  let parts := pl_parts (sp_raw sp) in
  let abs := sp_abs sp in
  let abase := abspath cwd abs parts in
  let aparent := removelast abase in
  do fbase <- relative_to abase aparent;
  do tl <- mapM (fun e : entry =>
                       do wp <- relative_to (abspath cwd abs (parts ++ fst e)) aparent;
                       do wo <- relative_to (abspath cwd abs (parts ++ fst e)) abase;
                       Ok (e, wp, wo)) listing;
  let kept := filter (fun t : tagged => keep_entry fl fbase (snd (fst t)) (snd (fst (fst t)))) tl in
  match kept with
  | [] => Ok LEmpty
  | t0 :: rest =>
      let e0 := fst (fst t0) in
      if is_nil rest && path_eqb (pl_parts (parts ++ fst e0)) parts     (* len(files) == 1 and files[0] == basepath *)
      then Ok (LSingle (last_or_empty (parts ++ fst e0)) (snd e0))
      else Ok (LMulti (choose_name cwd abs parts)
                      (map (fun t : tagged => (snd t, snd (fst (fst t)))) (sort_tagged parts kept)))
  end.
