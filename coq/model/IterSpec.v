(* IterSpec.v -- executable statement of C10 for one case: what iter_pieces must
   yield for a layout (sizes), piece length L and a damage plan, and the
   enumeration of small cases used by the bounded theorem. *)
From Torf Require Import Base Extracted Geometry Stream.
Open Scope Z_scope.

Inductive dmg := DOk | DMissing | DShort | DLong.

Definition dmg_eqb (a b : dmg) : bool :=
  match a, b with DOk, DOk | DMissing, DMissing | DShort, DShort | DLong, DLong => true | _, _ => false end.

(* content of the file starting at stream offset [off] with [sz] bytes: byte value = offset+1 mod 251 *)
Definition gen_bytes (off sz : Z) : bytes :=
  map (fun k => Z.to_N ((off + Z.of_nat k + 1) mod 251)) (seq 0 (Z.to_nat sz)).

Fixpoint files_of_aux (i : Z) (sizes : list Z) : list file :=
  match sizes with [] => [] | s :: r => (i, s) :: files_of_aux (i + 1) r end.
Definition files_of (sizes : list Z) : list file := files_of_aux 0 sizes.

Fixpoint disk_of_aux (i off : Z) (sizes : list Z) (dm : list dmg) : disk :=
  match sizes, dm with
  | s :: r, x :: dr =>
      let c := gen_bytes off s in
      (match x with
       | DOk => [(i, c)]
       | DMissing => []
       | DShort => [(i, removelast c)]
       | DLong => [(i, c ++ [255%N])]
       end) ++ disk_of_aux (i + 1) (off + s) r dr
  | _, _ => []
  end.
Definition disk_of (sizes : list Z) (dm : list dmg) : disk := disk_of_aux 0 0 sizes dm.

Fixpoint stream_exp_aux (off : Z) (sizes : list Z) : bytes :=
  match sizes with [] => [] | s :: r => gen_bytes off s ++ stream_exp_aux (off + s) r end.
Definition stream_exp (sizes : list Z) : bytes := stream_exp_aux 0 sizes.

(* does a positive-length bad file have a byte in [a, b]? *)
Fixpoint spoiled_aux (off : Z) (sizes : list Z) (dm : list dmg) (a b : Z) : bool :=
  match sizes, dm with
  | s :: r, x :: dr =>
      (negb (dmg_eqb x DOk) && overlaps off s a b) || spoiled_aux (off + s) r dr a b
  | _, _ => false
  end.

Definition item_piece (it : item) : option bytes := fst (fst it).

Definition opt_bytes_eqb (a b : option bytes) : bool :=
  match a, b with
  | None, None => true
  | Some x, Some y => bytes_eqb x y
  | _, _ => false
  end.

Fixpoint pieces_ok (sizes : list Z) (dm : list dmg) (L total : Z) (stream : bytes) (p : Z) (items : list item) : bool :=
  match items with
  | [] => true
  | it :: r =>
      let a := p * L in
      let b := Z.min ((p + 1) * L) total - 1 in
      let want := if spoiled_aux 0 sizes dm a b then None
                  else Some (firstn (Z.to_nat (b - a + 1)) (skipn (Z.to_nat a) stream)) in
      opt_bytes_eqb (item_piece it) want && pieces_ok sizes dm L total stream (p + 1) r
  end.

Definition xkind_eqb (a b : xkind) : bool :=
  match a, b with XMissing, XMissing | XSize, XSize => true | _, _ => false end.

Definition count_reports (reports : list xitem) (k : xkind) (i : Z) : Z :=
  zlen (filter (fun x => xkind_eqb (fst x) k && (snd x =? i)) reports).

Fixpoint reports_ok (i : Z) (dm : list dmg) (reports : list xitem) : bool :=
  match dm with
  | [] => true
  | x :: r =>
      let wm := match x with DMissing => 1 | _ => 0 end in
      let ws := match x with DShort | DLong => 1 | _ => 0 end in
      (count_reports reports XMissing i =? wm) && (count_reports reports XSize i =? ws)
        && reports_ok (i + 1) r reports
  end.

Definition spec_ok (sizes : list Z) (dm : list dmg) (L : Z) (items : list item) : bool :=
  let total := sumZ sizes in
  (zlen items =? cdiv total L)
  && pieces_ok sizes dm L total (stream_exp sizes) 0 items
  && reports_ok 0 dm (flat_map (fun it => snd it) items)
  && (zlen (flat_map (fun it => snd it) items) =? zlen (filter (fun x => negb (dmg_eqb x DOk)) dm)).

Definition case_ok (L : Z) (sizes : list Z) (dm : list dmg) : bool :=
  match iter_pieces (disk_of sizes dm) [] (files_of sizes) L with
  | Ok items => spec_ok sizes dm L items
  | Err _ => false
  end.

(* all lists of length n over vals *)
Fixpoint lists_of {X} (vals : list X) (n : nat) : list (list X) :=
  match n with
  | O => [[]]
  | S k => flat_map (fun v => map (cons v) (lists_of vals k)) vals
  end.

Definition all_dmg := [DOk; DMissing; DShort; DLong].

Definition domain_ok (L : Z) (szs : list Z) (n : nat) : bool :=
  forallb (fun sizes => forallb (fun dm => case_ok L sizes dm) (lists_of all_dmg n)) (lists_of szs n).
