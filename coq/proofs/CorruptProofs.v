(* CorruptProofs.v -- the files named by a content error contain every file that has a
   byte in the corrupt piece. *)
From Coq Require Import Lia ZifyBool.
From Torf Require Import Base Extracted Corrupt.
Open Scope Z_scope.
Ltac Zify.zify_post_hook ::= Z.to_euclidean_division_equations.

Definition offset (fs : list (Z * Z)) (k : nat) : Z := sumZ (map snd (firstn k fs)).

Lemma test_of_common_byte eb ee fb fe p :
  eb <= p < ee -> fb <= p < fe -> ex_vce_test eb ee fb fe = true.
Proof. unfold ex_vce_test. lia. Qed.

Lemma corrupt_go_In fs : forall k id sz pos eb ee,
  nth_error fs k = Some (id, sz) ->
  ex_vce_test eb ee (pos + offset fs k) (pos + offset fs k + sz) = true ->
  In id (corrupt_go fs pos eb ee).
Proof.
  induction fs as [|[id0 sz0] r IH]; intros k id sz pos eb ee Hk Ht; [destruct k; discriminate|].
  cbn [corrupt_go]. unfold ex_vce_fbeg, ex_vce_fend. destruct k as [|k].
  - injection Hk as -> ->. unfold offset in Ht. cbn [firstn map sumZ] in Ht. replace (pos + 0) with pos in Ht by lia.
    rewrite Ht. left. reflexivity.
  - apply in_or_app. right. apply (IH k id sz); [exact Hk|].
    unfold offset in *. cbn [firstn map sumZ snd] in Ht. replace (pos + sz0 + sumZ (map snd (firstn k r))) with (pos + (sz0 + sumZ (map snd (firstn k r)))) by lia. exact Ht.
Qed.

(* a byte at stream position p of file k lies in piece p / L: the error for that piece names file k *)
Theorem corrupt_files_contain fs k id sz p L :
  nth_error fs k = Some (id, sz) -> 0 < L ->
  offset fs k <= p < offset fs k + sz ->
  exists l, corrupt_files fs (p / L) L = Ok l /\ In id l.
Proof.
  intros Hk HL Hp. unfold corrupt_files.
  destruct fs as [|[id0 sz0] [|f2 r]].
  - destruct k; discriminate.
  - destruct k as [|[|k]]; try discriminate. injection Hk as -> ->. exists [id]. split; [reflexivity|left; reflexivity].
  - eexists. split; [reflexivity|]. apply (corrupt_go_In _ k id sz); [exact Hk|].
    apply (test_of_common_byte _ _ _ _ p); [unfold ex_vce_beg, ex_vce_end; lia|lia].
Qed.

(* conversely a file of positive size that is named has a byte in the piece *)
Lemma test_sound eb ee fb fe : eb < ee -> fb < fe -> ex_vce_test eb ee fb fe = true -> fb < ee /\ eb < fe.
Proof. unfold ex_vce_test. lia. Qed.
