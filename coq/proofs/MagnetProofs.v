(* MagnetProofs.v -- C14: setters are atomic; the hash number does not depend on letter case. *)
From Coq Require Import Lia ZifyBool.
From Torf Require Import Base Sexp Regex Extracted UrlQuote Magnet RegexProofs.
Open Scope Z_scope.

Theorem set_infohash_spec old v :
  set_infohash old v = if hex40 v || b32_32 v then (Ok tt, Some v) else (Err DMagnet, old).
Proof. unfold set_infohash. rewrite infohash_language. reflexivity. Qed.

Theorem set_xt_spec old v :
  set_xt old v =
    if hex40 v || b32_32 v then (Ok tt, Some v)
    else if has_urn_prefix v && (hex40 (skipn 9 v) || b32_32 (skipn 9 v)) then (Ok tt, Some (skipn 9 v))
    else (Err DMagnet, old).
Proof.
  unfold set_xt.
  replace (accepts ex_infohash_method_in_xt ex_infohash_re v) with (accepts ex_infohash_method ex_infohash_re v) by reflexivity.
  rewrite infohash_language, xt_language. reflexivity.
Qed.

Definition to_lower (c : Z) : Z := if (65 <=? c) && (c <=? 90) then c + 32 else c.

Lemma hexval_lower c : hexval (to_lower c) = hexval c.
Proof.
  unfold hexval, to_lower.
  destruct ((65 <=? c) && (c <=? 90)) eqn:E; [|reflexivity].
  destruct ((48 <=? c) && (c <=? 57)) eqn:E1; [lia|].
  destruct ((97 <=? c) && (c <=? 102)) eqn:E2; [lia|].
  replace ((48 <=? c + 32) && (c + 32 <=? 57)) with false by lia.
  destruct ((65 <=? c) && (c <=? 70)) eqn:E3.
  - replace ((97 <=? c + 32) && (c + 32 <=? 102)) with true by lia. lia.
  - replace ((97 <=? c + 32) && (c + 32 <=? 102)) with false by lia.
    replace ((65 <=? c + 32) && (c + 32 <=? 70)) with false by lia. reflexivity.
Qed.

Lemma b32val_lower c : b32val (to_lower c) = b32val c.
Proof.
  unfold b32val, to_lower.
  destruct ((65 <=? c) && (c <=? 90)) eqn:E; [|rewrite E; reflexivity].
  replace ((97 <=? c) && (c <=? 122)) with false by lia.
  replace ((97 <=? c + 32) && (c + 32 <=? 122)) with true by lia. lia.
Qed.

Lemma digits_to_Z_ext bits f g s : (forall c, f c = g c) ->
  digits_to_Z bits f s = digits_to_Z bits g s.
Proof.
  intros H. unfold digits_to_Z. generalize 0. induction s as [|c r IH]; intros acc; [reflexivity|].
  cbn [fold_left]. rewrite H. apply IH.
Qed.

Lemma digits_to_Z_map bits f h s :
  digits_to_Z bits f (map h s) = digits_to_Z bits (fun c => f (h c)) s.
Proof.
  unfold digits_to_Z. generalize 0. induction s as [|c r IH]; intros acc; [reflexivity|]. cbn [map fold_left]. apply IH.
Qed.

(* the 20-byte hash denoted by a magnet does not depend on the letter case of its notation *)
Theorem infohash_hex_case_insensitive h : infohash_hex (map to_lower h) = infohash_hex h.
Proof.
  unfold infohash_hex, hash_number. rewrite map_length.
  destruct (Nat.eqb (length h) 40); f_equal; rewrite digits_to_Z_map; apply digits_to_Z_ext; intros c;
    [apply hexval_lower|apply b32val_lower].
Qed.

Lemma Z_to_hex_length n : forall z acc, length (Z_to_hex n z acc) = (n + length acc)%nat.
Proof. induction n as [|n IH]; intros z acc; [reflexivity|]. cbn [Z_to_hex]. rewrite IH. cbn [length]. lia. Qed.

Theorem infohash_hex_length h : length (infohash_hex h) = 40%nat.
Proof. unfold infohash_hex. rewrite Z_to_hex_length. reflexivity. Qed.

Lemma list_eqb_Z_eq a : forall b, list_eqb Z.eqb a b = true <-> a = b.
Proof.
  induction a as [|x a IH]; intros [|y b]; cbn [list_eqb]; split; intros H; try discriminate; try reflexivity.
  - apply andb_true_iff in H as [H1 H2]. apply Z.eqb_eq in H1. apply IH in H2. congruence.
  - inversion H; subst. rewrite Z.eqb_refl. cbn. apply IH. reflexivity.
Qed.

Theorem adopts_iff h f : adopts h f = true <-> infohash_hex h = f.
Proof. unfold adopts. apply list_eqb_Z_eq. Qed.
