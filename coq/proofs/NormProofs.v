(* NormProofs.v -- the clock-normalised system explored in PipeExplore.v is the
   pipeline model itself, for configurations with reporting interval 0 and no
   out-of-memory events: every state reachable in the model (any schedule, any
   advance of the clock) normalises to a state reachable in the explored system.
   Hence the exploration theorems speak about the model's own runs. *)
From Coq Require Import Lia ZifyBool.
From Torf Require Import Base Pipeline PipelineProofs FlowProofs PipeExplore PipeExploreProofs.
Open Scope Z_scope.

Lemma options_norm c s : options c (norm s) = options c s.
Proof. reflexivity. Qed.

Lemma reader_next_norm s todo idx : norm (reader_next s todo idx) = norm (reader_next (norm s) todo idx).
Proof. unfold reader_next. destruct todo as [|[]]; reflexivity. Qed.

Lemma step_reader_norm s : s_rpc s <> RClock -> norm (step_reader s) = norm (step_reader (norm s)).
Proof.
  intros Hpc. unfold step_reader. change (s_rpc (norm s)) with (s_rpc s). destruct (s_rpc s); try reflexivity.
  - change (s_stop (norm s)) with (s_stop s). destruct (s_stop s); [reflexivity|].
    change (s_rtodo (norm s)) with (s_rtodo s). destruct (s_rtodo s) as [|[]]; reflexivity.
  - rewrite reader_next_norm. symmetry. rewrite reader_next_norm. reflexivity.
  - exfalso. apply Hpc. reflexivity.
Qed.

Lemma step_hasher_norm s i a : norm (step_hasher s i a) = norm (step_hasher (norm s) i a).
Proof.
  unfold step_hasher. change (s_hs (norm s)) with (s_hs s). destruct (nth_error (s_hs s) i) as [[[] pc]|]; try reflexivity.
  destruct pc; try reflexivity. destruct a.
  - change (s_pq (norm s)) with (s_pq s). destruct (s_pq s) as [|[] r]; reflexivity.
  - destruct (Nat.eqb i 0); reflexivity.
Qed.

Lemma step_janitor_norm s a : norm (step_janitor s a) = norm (step_janitor (norm s) a).
Proof.
  unfold step_janitor. change (s_jpc (norm s)) with (s_jpc s). destruct (s_jpc s) as [|[|t r]|[|t r]| |]; try reflexivity.
  - destruct a; change (s_tracked (norm s)) with (s_tracked s); destruct (s_tracked s); reflexivity.
  - change (is_alive (norm s) t) with (is_alive s t). destruct (is_alive s t); [reflexivity|destruct r; reflexivity].
  - change (is_alive (norm s) t) with (is_alive s t). destruct r; reflexivity.
Qed.

Lemma collect_item_norm c s idx h exc inc :
  cf_interval c = 0 -> s_prev s <= s_now s -> 0 <= inc ->
  norm (collect_item c (set_now s (s_now s + inc)) idx h exc) = norm (collect_item c (set_now (norm s) (s_now (norm s) + 0)) idx h exc).
Proof.
  intros Hi Hclock Hinc. unfold collect_item. rewrite Hi.
  cbn [set_now norm s_now s_prev s_seen].
  replace (s_now s + inc - s_prev s >=? 0) with true by lia. replace (0 + 0 - 0 >=? 0) with true by reflexivity.
  rewrite !orb_true_r.
  destruct (cf_verify c); destruct exc; destruct (has_user_cb c); try destruct (mismatch c idx h);
    try destruct (user_cb c (zlen (s_seen s))) as [[|]|]; reflexivity.
Qed.

Lemma start_thread_norm s t : norm (start_thread s t) = norm (start_thread (norm s) t).
Proof.
  unfold start_thread. destruct (t =? 1); [|destruct (t =? 2); reflexivity].
  rewrite reader_next_norm. symmetry. rewrite reader_next_norm. reflexivity.
Qed.

Lemma step_main_norm c s inc :
  cf_interval c = 0 -> s_prev s <= s_now s -> 0 <= inc ->
  norm (step_main c s inc) = norm (step_main c (norm s) 0).
Proof.
  intros Hi Hclock Hinc. unfold step_main. change (s_mpc (norm s)) with (s_mpc s). destruct (s_mpc s); try reflexivity.
  - destruct (refused c t); [destruct (_ || _); [reflexivity|destruct (next_to_start c t); reflexivity]|].
    destruct (next_to_start c t).
    + change (norm (set_mpc (start_thread s t) (MAlive t0))) with (set_mpc (norm (start_thread s t)) (MAlive t0)).
      rewrite start_thread_norm. reflexivity.
    + change (norm (set_mpc (start_thread s t) MGet)) with (set_mpc (norm (start_thread s t)) MGet).
      rewrite start_thread_norm. reflexivity.
  - change (s_hq (norm s)) with (s_hq s). destruct (s_hq s) as [|[|i h e] r]; try reflexivity.
    cbn [set_hq s_seen norm]. destruct (existsb (Z.eqb i) (s_seen s)); [reflexivity|]. destruct e; [destruct h|]; reflexivity.
  - apply collect_item_norm; assumption.
  - change (s_stop (norm s)) with (s_stop s). destruct (s_stop s); [destruct a|]; reflexivity.
  - destruct a; reflexivity.
  - change (is_alive (norm s) 1) with (is_alive s 1). destruct (is_alive s 1); reflexivity.
  - change (is_alive (norm s) t) with (is_alive s t). destruct (is_alive s t); reflexivity.
  - change (is_alive (norm s) 2) with (is_alive s 2). destruct (is_alive s 2); [reflexivity|]. unfold finish. destruct o; reflexivity.
  - unfold finish. destruct o; reflexivity.
Qed.

Lemma step_norm c s t a inc :
  cf_interval c = 0 -> s_rpc s <> RClock -> s_prev s <= s_now s -> 0 <= inc ->
  norm (step c s t a inc) = xstep c (norm s) (t, a).
Proof.
  intros Hi Hpc Hclock Hinc. unfold xstep, step. cbn [fst snd]. destruct (t =? 0); [apply step_main_norm; assumption|].
  destruct (t =? 1).
  - pose proof (step_reader_norm s Hpc) as Hn. change (s_rpc (norm s)) with (s_rpc s). destruct (s_rpc s); try exact Hn.
    exfalso. apply Hpc. reflexivity.
  - destruct (t =? 2); [apply step_janitor_norm|apply step_hasher_norm].
Qed.

(* no out-of-memory event among the inputs *)
Definition no_oom (l : list rev) : Prop := ~ In ROom l.

Lemma rtodo_incl c s : reach c s -> incl (s_rtodo s) (cf_items c).
Proof.
  induction 1 as [|s t a inc Hr IH Hen Hinc]; [apply incl_refl|].
  assert (Hrn : forall s0 todo idx, incl todo (cf_items c) -> incl (s_rtodo (reader_next s0 todo idx)) (cf_items c)).
  { intros s0 todo idx Hi. unfold reader_next. destruct todo as [|[]]; cbn; try exact Hi; intros x []. }
  assert (Htl : incl (tl (s_rtodo s)) (cf_items c)).
  { intros x Hx. apply IH. destruct (s_rtodo s); [destruct Hx|right; exact Hx]. }
  unfold step. destruct (t =? 0).
  - unfold step_main. destruct (s_mpc s); cbn; try exact IH.
    + destruct (refused c t0); [destruct (_ || _); [exact IH|destruct (next_to_start c t0); exact IH]|].
      assert (Hst : incl (s_rtodo (start_thread s t0)) (cf_items c)).
      { unfold start_thread. destruct (t0 =? 1); [apply Hrn; exact IH|destruct (t0 =? 2); exact IH]. }
      destruct (next_to_start c t0); exact Hst.
    + destruct (s_hq s) as [|[|i h e] r]; cbn; try exact IH. destruct (existsb _ _); exact IH.
    + unfold collect_item. destruct (_ || _); [|exact IH].
      destruct (cf_verify c); destruct exc; destruct (has_user_cb c); try destruct (mismatch c idx h); try destruct (user_cb c _) as [[|]|]; exact IH.
    + destruct (s_stop s); [destruct a0|]; exact IH.
    + destruct a0; exact IH.
    + destruct (is_alive s 1); exact IH.
    + destruct (is_alive s t0); exact IH.
    + destruct (is_alive s 2); [exact IH|]. unfold finish. destruct o; exact IH.
    + unfold finish. destruct o; exact IH.
  - destruct (t =? 1).
    + assert (Hsr : forall s0, s_rtodo s0 = s_rtodo s -> incl (s_rtodo (step_reader s0)) (cf_items c)).
      { intros s0 E. unfold step_reader. destruct (s_rpc s0).
        - destruct (s_stop s0); [cbn; intros x []|]. rewrite E. destruct (s_rtodo s) as [|[]]; cbn; exact IH || (intros x Hx; apply IH; exact Hx).
        - apply Hrn. rewrite E. exact Htl.
        - destruct (_ >=? _); [destruct (negb _)|]; try (apply Hrn; rewrite E; exact Htl). cbn. intros x [].
        - cbn. intros x [].
        - rewrite E. exact IH. }
      destruct (s_rpc s); apply Hsr; reflexivity.
    + destruct (t =? 2).
      * unfold step_janitor. destruct (s_jpc s) as [|[|t0 r]|[|t0 r]| |]; cbn; try exact IH.
        -- destruct a; destruct (s_tracked s); exact IH.
        -- destruct (is_alive s t0); [exact IH|destruct r; exact IH].
        -- destruct r; exact IH.
      * unfold step_hasher. destruct (nth_error (s_hs s) (hasher_index t)) as [[[] pc]|]; try exact IH.
        destruct pc; try exact IH. destruct a; [destruct (s_pq s) as [|[] r]; exact IH|destruct (Nat.eqb _ 0); exact IH].
Qed.

(* every run of the model (interval 0, no out-of-memory events) is covered by the explored system *)
Theorem reach_covered c s :
  cf_interval c = 0 -> no_oom (cf_items c) -> reach c s -> xreach c (norm s).
Proof.
  intros Hi Hoom Hr. induction Hr as [|s t a inc Hr IH Hen Hinc]; [apply xr_init|].
  assert (Hpc : s_rpc s <> RClock).
  { intros E. destruct (fi_clock c s (flow_invariant c s Hr) E) as (rest & Et). apply Hoom. apply (rtodo_incl c s Hr). rewrite Et. left. reflexivity. }
  pose proof (proj1 (progress_invariant c s Hr)) as Hclock.
  rewrite (step_norm c s t a inc Hi Hpc Hclock Hinc). apply xr_step; [exact IH|].
  rewrite options_norm. unfold enabled in Hen. apply existsb_exists in Hen as ([t' a'] & Hin & E). cbn [fst snd] in E.
  apply andb_true_iff in E as [E1 E2]. assert (t' = t) as -> by lia. replace a with a'; [exact Hin|]. destruct a', a; try reflexivity; discriminate E2.
Qed.

(* consequence: what the checker accepts holds (after normalising the clock) in every reachable state of the model *)
Theorem checkb_covers_model fuel depth c ref may_false raises :
  cf_interval c = 0 -> no_oom (cf_items c) ->
  checkb fuel depth c ref may_false raises = true ->
  forall s, reach c s -> goodb c ref may_false raises (norm s) = true /\ finishes c (norm s).
Proof.
  intros Hi Hoom Hc s Hr. exact (checkb_sound fuel depth c ref may_false raises Hc (norm s) (reach_covered c s Hi Hoom Hr)).
Qed.
