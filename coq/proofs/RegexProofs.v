(* RegexProofs.v -- C14: the language of the info-hash regexes regenerated from the
   source, as applied by the setters (match method included). *)
From Coq Require Import Lia ZifyBool.
From Torf Require Import Base Regex Extracted.
Open Scope Z_scope.

Lemma flat_map_singleton {X Y} (f : X -> list Y) x : flat_map f [x] = f x.
Proof. cbn. apply app_nil_r. Qed.

(* n repetitions of a one-character class consume exactly n characters of the class *)
Lemma rep_cls rs : forall n s,
  rmatch (RRep n (RSeq [RCls rs])) s =
    if (Nat.leb n (length s)) && forallb (in_ranges rs) (firstn n s) then [skipn n s] else [].
Proof.
  intros n s. cbn [rmatch].
  assert (forall n ss,
    (fix rep (n : nat) (ss : list (list Z)) : list (list Z) :=
       match n with O => ss | S k => rep k (flat_map (rmatch (RSeq [RCls rs])) ss) end) n ss =
    flat_map (fun s => if (Nat.leb n (length s)) && forallb (in_ranges rs) (firstn n s) then [skipn n s] else []) ss) as H.
  { clear. induction n as [|n IH]; intros ss.
    - cbn. induction ss as [|x r IHr]; [reflexivity|]. cbn. f_equal. exact IHr.
    - rewrite IH. clear IH. induction ss as [|x r IHr]; [reflexivity|].
      cbn [flat_map]. rewrite flat_map_app, IHr. f_equal.
      cbn [rmatch flat_map]. rewrite app_nil_r.
      destruct x as [|c t]; [reflexivity|].
      cbn [length firstn skipn forallb]. destruct (in_ranges rs c); cbn [flat_map app andb]; [|rewrite andb_false_r; reflexivity].
      rewrite app_nil_r. replace (Nat.leb (S n) (S (length t))) with (Nat.leb n (length t)) by reflexivity.
      reflexivity. }
  rewrite H. apply flat_map_singleton.
Qed.

Definition is_hex (c : Z) : bool := in_ranges [(48, 57); (97, 102); (65, 70)] c.
Definition is_b32 (c : Z) : bool := in_ranges [(97, 122); (65, 90); (50, 55)] c.

Definition hex40 (s : list Z) : bool := Nat.eqb (length s) 40 && forallb is_hex s.
Definition b32_32 (s : list Z) : bool := Nat.eqb (length s) 32 && forallb is_b32 s.

Lemma exact_len n (s : list Z) (P : Z -> bool) :
  (if Nat.leb n (length s) && forallb P (firstn n s) then match skipn n s with [] => true | _ => false end else false)
  = Nat.eqb (length s) n && forallb P s.
Proof.
  destruct (Nat.leb n (length s)) eqn:E1; cbn [andb].
  - apply Nat.leb_le in E1. destruct (skipn n s) as [|x r] eqn:Es.
    + assert (length s = n) as Hl.
      { apply (f_equal (@length Z)) in Es. rewrite skipn_length in Es. cbn in Es. lia. }
      rewrite Hl, Nat.eqb_refl. cbn [andb]. rewrite <- Hl, firstn_all. destruct (forallb P s); reflexivity.
    + assert (length s <> n) as Hl.
      { apply (f_equal (@length Z)) in Es. rewrite skipn_length in Es. cbn in Es. lia. }
      replace (Nat.eqb (length s) n) with false by (symmetry; apply Nat.eqb_neq; exact Hl).
      destruct (forallb P (firstn n s)); reflexivity.
  - apply Nat.leb_gt in E1. replace (Nat.eqb (length s) n) with false by (symmetry; apply Nat.eqb_neq; lia). reflexivity.
Qed.

Fixpoint seq_run (l : list re) (ss : list (list Z)) : list (list Z) :=
  match l with [] => ss | x :: r => seq_run r (flat_map (rmatch x) ss) end.
Fixpoint alt_run (l : list re) (s : list Z) : list (list Z) :=
  match l with [] => [] | x :: r => rmatch x s ++ alt_run r s end.

Lemma rmatch_seq l s : rmatch (RSeq l) s = seq_run l [s].
Proof. cbn [rmatch]. generalize [s] as ss. induction l as [|x r IH]; intros ss; [reflexivity|]. cbn [seq_run]. apply IH. Qed.
Lemma rmatch_alt l s : rmatch (RAlt l) s = alt_run l s.
Proof. cbn [rmatch]. induction l as [|x r IH]; [reflexivity|]. cbn [alt_run]. f_equal. exact IH. Qed.

(* the info-hash setter accepts exactly 40 hex or exactly 32 base32 characters, any case *)
Theorem infohash_language s :
  accepts ex_infohash_method ex_infohash_re s = hex40 s || b32_32 s.
Proof.
  unfold accepts, ex_infohash_method, ex_infohash_re.
  rewrite rmatch_seq. cbn [seq_run]. rewrite !flat_map_singleton.
  change (rmatch RBol s) with [s]. rewrite flat_map_singleton.
  rewrite rmatch_alt. cbn [alt_run]. rewrite !rmatch_seq. cbn [seq_run]. rewrite !flat_map_singleton.
  rewrite !rep_cls. rewrite app_nil_r.
  unfold hex40, b32_32. rewrite <- (exact_len 40 s is_hex), <- (exact_len 32 s is_b32).
  unfold is_hex, is_b32.
  match goal with |- context [if ?c then [skipn 40 s] else []] => set (c1 := c) end.
  match goal with |- context [if ?c then [skipn 32 s] else []] => set (c2 := c) end.
  destruct c1; destruct c2; cbn [app flat_map rmatch];
    repeat match goal with |- context [match skipn ?n s with _ => _ end] => destruct (skipn n s) end; reflexivity.
Qed.

(* ---- the exact-topic regex: "urn:btih:" (any case) followed by a hash ---- *)
Fixpoint match_classes (cl : list (list (Z * Z))) (s : list Z) : option (list Z) :=
  match cl with
  | [] => Some s
  | rs :: r => match s with
               | c :: t => if in_ranges rs c then match_classes r t else None
               | [] => None end
  end.

Lemma seq_run_nil l : seq_run l [] = [].
Proof. induction l as [|x r IH]; [reflexivity|]. cbn [seq_run flat_map]. exact IH. Qed.

Lemma seq_run_classes cl rest : forall s,
  seq_run (map RCls cl ++ rest) [s] =
    match match_classes cl s with Some t => seq_run rest [t] | None => [] end.
Proof.
  induction cl as [|rs r IH]; intros s; [reflexivity|].
  cbn [map app seq_run match_classes]. rewrite flat_map_singleton. cbn [rmatch].
  destruct s as [|c t]; [apply seq_run_nil|].
  destruct (in_ranges rs c); [apply IH|apply seq_run_nil].
Qed.

Lemma match_classes_skipn cl : forall s t, match_classes cl s = Some t -> t = skipn (length cl) s.
Proof.
  induction cl as [|rs r IH]; intros s t H; cbn [match_classes] in H; [inversion H; reflexivity|].
  destruct s as [|c u]; [discriminate|]. destruct (in_ranges rs c); [|discriminate]. cbn [length skipn]. apply IH. exact H.
Qed.

Definition urn_classes : list (list (Z * Z)) :=
  [[(117, 117); (85, 85)]; [(114, 114); (82, 82)]; [(110, 110); (78, 78)]; [(58, 58)];
   [(98, 98); (66, 66)]; [(116, 116); (84, 84)]; [(105, 105); (73, 73)]; [(104, 104); (72, 72)]; [(58, 58)]].

(* the prefix test: "urn:btih:" in any letter case *)
Definition has_urn_prefix (s : list Z) : bool :=
  match match_classes urn_classes s with Some _ => true | None => false end.

Theorem xt_language s :
  accepts ex_xt_method ex_xt_re s = has_urn_prefix s && (hex40 (skipn 9 s) || b32_32 (skipn 9 s)).
Proof.
  unfold accepts, ex_xt_method, has_urn_prefix.
  assert (ex_xt_re = RSeq (RBol :: map RCls urn_classes ++
            [RGroup (RSeq [RAlt [RSeq [RRep 40 (RSeq [RCls [(48, 57); (97, 102); (65, 70)]])];
                                 RSeq [RRep 32 (RSeq [RCls [(97, 122); (65, 90); (50, 55)]])]]]); REndZ])) as -> by reflexivity.
  rewrite rmatch_seq. cbn [seq_run]. rewrite flat_map_singleton. change (rmatch RBol s) with [s].
  rewrite seq_run_classes.
  destruct (match_classes urn_classes s) as [t|] eqn:Em; [|reflexivity].
  apply match_classes_skipn in Em. change (length urn_classes) with 9%nat in Em. subst t.
  cbn [andb]. cbn [seq_run]. rewrite flat_map_singleton.
  change (rmatch (RGroup ?x) ?y) with (rmatch x y).
  rewrite rmatch_seq. cbn [seq_run]. rewrite flat_map_singleton.
  pose proof (infohash_language (skipn 9 s)) as H.
  unfold accepts, ex_infohash_method, ex_infohash_re in H.
  rewrite rmatch_seq in H. cbn [seq_run] in H. rewrite !flat_map_singleton in H.
  change (rmatch RBol (skipn 9 s)) with [skipn 9 s] in H. rewrite flat_map_singleton in H.
  exact H.
Qed.
