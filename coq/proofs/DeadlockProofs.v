(* DeadlockProofs.v -- C03/C04, unbounded: no schedule deadlocks.  In every state
   reachable under any schedule, with any number of hashers and pieces, any
   callback plan, read fault, refused additional hasher and any clock, some thread
   can take a step as long as the call has not returned. *)
From Coq Require Import Lia ZifyBool.
From Torf Require Import Base Pipeline PipelineProofs ThreadProofs.
Open Scope Z_scope.

Definition is_piece (q : qitem) : bool := match q with QPiece _ _ _ => true | QClosed => false end.
Definition at_requeue (h : tstate * hpc) : bool := match h with (TRunning, HRequeue) => true | _ => false end.
Definition nreq (s : state) : nat := length (filter at_requeue (s_hs s)).

Definition collecting (pc : mpc) : bool :=
  match pc with MGet | MClock _ _ _ | MStopRead _ | MStopWrite _ => true | _ => false end.

Definition h0_working (s : state) : Prop :=
  exists pc, nth_error (s_hs s) 0 = Some (TRunning, pc) /\ (pc = HGet \/ exists it, pc = HPutHash it).

Definition before_h0 (pc : mpc) : bool :=
  match pc with MAlive t | MStart t => (t =? 1) || (t =? 3) | _ => false end.

Record DInv (c : config) (s : state) : Prop := {
  (* the end-of-stream token of the piece queue *)
  d_before : s_rst s <> TDone -> Forall (fun q => is_piece q = true) (s_pq s) /\ nreq s = 0%nat;
  d_after : s_rst s = TDone ->
            (exists l, s_pq s = l ++ [QClosed] /\ Forall (fun q => is_piece q = true) l /\ nreq s = 0%nat) \/
            (s_pq s = [] /\ nreq s = 1%nat);
  (* the vital hasher works as long as the reader does *)
  d_h0 : s_mdone s = false -> before_h0 (s_mpc s) = false -> s_rst s <> TDone -> h0_working s;
  (* the hash queue is closed exactly once, by the janitor *)
  d_hq : s_jst s = TDone -> collecting (s_mpc s) = true -> In QClosed (s_hq s);
  (* running threads are not at their exit points *)
  d_rput : forall it, s_rpc s = RPut it -> is_piece it = true;
  d_rexit : s_rst s = TRunning -> s_rpc s <> RExit;
  d_jexit : s_jst s = TRunning -> s_jpc s <> JExit;
  d_hexit : forall i, nth_error (s_hs s) i <> Some (TRunning, HExit);
  (* hashers that are still to be started are new *)
  d_unstarted : forall t, s_mpc s = MAlive t \/ s_mpc s = MStart t -> t <> 2 ->
                forall i st pc, (t = 1 \/ (hasher_index t <= i)%nat) -> nth_error (s_hs s) i = Some (st, pc) -> st = TNew;
  (* main only waits for a hasher it has seen alive *)
  d_hjoin : forall o pos t, s_mpc s = MHJoin o pos t -> tstate_of s t <> TNew
}.

(* ---- counting hashers that hold the token ---- *)
Definition b2n (b : bool) : nat := if b then 1%nat else 0%nat.

Lemma filter_set_nth {X} (p : X -> bool) (l : list X) : forall i x old,
  nth_error l i = Some old ->
  (length (filter p (set_nth l i x)) + b2n (p old) = length (filter p l) + b2n (p x))%nat.
Proof.
  induction l as [|y r IH]; intros i x old Hn; [destruct i; discriminate Hn|].
  destruct i as [|i]; cbn [nth_error] in Hn.
  - injection Hn as ->. cbn [set_nth filter]. destruct (p old), (p x); cbn [length b2n]; lia.
  - cbn [set_nth filter]. specialize (IH i x old Hn). destruct (p y); cbn [length]; lia.
Qed.

Lemma filter_nth_pos {X} (p : X -> bool) (l : list X) i x : nth_error l i = Some x -> p x = true -> (1 <= length (filter p l))%nat.
Proof.
  revert i. induction l as [|y r IH]; intros i Hn Hp; [destruct i; discriminate Hn|].
  destruct i as [|i]; cbn [nth_error] in Hn; cbn [filter].
  - injection Hn as ->. rewrite Hp. cbn [length]. lia.
  - specialize (IH i Hn Hp). destruct (p y); cbn [length]; lia.
Qed.

Lemma nreq_upd s s0 i st pc old :
  s_hs s0 = s_hs s -> nth_error (s_hs s) i = Some old ->
  (nreq (upd_hasher s0 i st pc) + b2n (at_requeue old) = nreq s + b2n (at_requeue (st, pc)))%nat.
Proof.
  intros Eh Hn. unfold nreq, upd_hasher. cbn [set_hs s_hs]. rewrite Eh. apply filter_set_nth. exact Hn.
Qed.

Definition dview (s : state) := (s_rst s, s_rpc s, s_pq s, s_hs s, s_hq s, s_jst s, s_jpc s, s_mpc s, s_mdone s).

Lemma DInv_of_dview c s s' : dview s' = dview s -> DInv c s -> DInv c s'.
Proof.
  unfold dview. intros E I. injection E as E1 E2 E3 E4 E5 E6 E7 E8 E9. destruct I.
  constructor; unfold nreq, h0_working, tstate_of in *; rewrite ?E1, ?E2, ?E3, ?E4, ?E5, ?E6, ?E7, ?E8, ?E9; assumption.
Qed.

Lemma DInv_init c : DInv c (init c).
Proof.
  constructor; cbn; try discriminate.
  - intros _. split; [constructor|]. unfold nreq. cbn. induction (seq 0 (cf_hashers c)); [reflexivity|exact IHl].
  - intros i. generalize (seq 0 (cf_hashers c)) as l. intros l. revert i. induction l as [|x r IH]; intros [|i]; cbn; try discriminate. apply IH.
  - intros t _ _ i st pc _. generalize (seq 0 (cf_hashers c)) as l. intros l. revert i. induction l as [|x r IH]; intros [|i]; cbn; try discriminate.
    + intros E. injection E as <- _. reflexivity.
    + apply IH.
Qed.

(* ---- janitor ---- *)
Lemma step_janitor_DInv c s a : s_jst s = TRunning -> DInv c s -> DInv c (step_janitor s a).
Proof.
  intros Hrun I. destruct I.
  assert (forall s', s_rst s' = s_rst s -> s_rpc s' = s_rpc s -> s_pq s' = s_pq s -> s_hs s' = s_hs s -> s_mpc s' = s_mpc s -> s_mdone s' = s_mdone s ->
            (s_jst s' = TDone -> In QClosed (s_hq s')) -> (s_jst s' = TRunning -> s_jpc s' <> JExit) -> s_jst s' <> TNew -> DInv c s') as K.
  { intros s' E1 E2 E3 E4 E5 E6 Hq Hj Hjn. constructor; unfold nreq, h0_working in *; rewrite ?E1, ?E2, ?E3, ?E4, ?E5, ?E6; auto.
    intros o pos t E. specialize (d_hjoin0 o pos t E). unfold tstate_of in *. rewrite E1, E4.
    destruct (t =? 1); [exact d_hjoin0|]. destruct (t =? 2); [exact Hjn|exact d_hjoin0]. }
  unfold step_janitor. destruct (s_jpc s) as [|rest|rest| |] eqn:Epc.
  - destruct a; destruct (s_tracked s); apply K; try reflexivity; cbn; try discriminate.
  - destruct rest as [|t rest]; [apply K; try reflexivity; cbn; discriminate|].
    destruct (is_alive s t); [apply K; try reflexivity; cbn; discriminate|].
    destruct rest; apply K; try reflexivity; cbn; discriminate.
  - destruct rest as [|t rest]; [apply K; try reflexivity; cbn; discriminate|].
    destruct rest; apply K; try reflexivity; cbn; discriminate.
  - apply K; try reflexivity; cbn; try discriminate. intros _. apply in_or_app. right. left. reflexivity.
  - exfalso. apply (d_jexit0 Hrun). reflexivity.
Qed.

(* ---- reader ---- *)
Lemma reader_next_dview s todo idx :
  let s' := reader_next s todo idx in
  s_rst s' = TRunning /\ s_rpc s' <> RExit /\ (forall it, s_rpc s' <> RPut it) /\ s_pq s' = s_pq s /\ s_hs s' = s_hs s /\ s_hq s' = s_hq s /\
  s_jst s' = s_jst s /\ s_jpc s' = s_jpc s /\ s_mpc s' = s_mpc s /\ s_mdone s' = s_mdone s.
Proof. unfold reader_next. break_match; cbn; repeat split; try reflexivity; discriminate. Qed.

Lemma step_reader_DInv c s : s_rst s = TRunning -> DInv c s -> DInv c (step_reader s).
Proof.
  intros Hrun I. destruct I.
  assert (s_rst s <> TDone) as Hnd by congruence. destruct (d_before0 Hnd) as [Hpq Hnr].
  (* a step that leaves the reader running and the piece queue a queue of pieces *)
  assert (forall s', s_rst s' = TRunning -> s_rpc s' <> RExit -> (forall it, s_rpc s' = RPut it -> is_piece it = true) ->
            Forall (fun q => is_piece q = true) (s_pq s') -> s_hs s' = s_hs s -> s_hq s' = s_hq s ->
            s_jst s' = s_jst s -> s_jpc s' = s_jpc s -> s_mpc s' = s_mpc s -> s_mdone s' = s_mdone s -> DInv c s') as K.
  { intros s' E1 E2 E3 E4 E5 E6 E7 E8 E9 E10.
    constructor; unfold nreq, h0_working in *; rewrite ?E1, ?E5, ?E6, ?E7, ?E8, ?E9, ?E10; auto; try discriminate.
    all: try (intros Hm Hb _; apply d_h1; assumption).
    all: try (intros o pos t E; specialize (d_hjoin0 o pos t E); unfold tstate_of in *; rewrite E1, E5, E7; rewrite Hrun in d_hjoin0;
              destruct (t =? 1); [discriminate|exact d_hjoin0]). }
  unfold step_reader. destruct (s_rpc s) as [|it| |exc|] eqn:Epc.
  - (* RStopRead *)
    destruct (s_stop s); [apply K; try reflexivity; cbn; try discriminate; assumption|].
    destruct (s_rtodo s) as [|[h|es| | |e] r]; apply K; try reflexivity; cbn; try discriminate; try assumption;
      intros it E; injection E as <-; reflexivity.
  - (* RPut *)
    destruct (reader_next_dview (set_pq s (s_pq s ++ [it])) (tl (s_rtodo s)) (s_ridx s + 1)) as (A1 & A2 & A3 & A4 & A5 & A6 & A7 & A8 & A9 & A10).
    apply K; try assumption.
    + intros it' E. exfalso. exact (A3 it' E).
    + rewrite A4. cbn [set_pq s_pq]. apply Forall_app. split; [exact Hpq|]. constructor; [apply d_rput0; reflexivity|constructor].
  - (* RClock *)
    destruct (s_now s - s_memts s >=? 100).
    + destruct (negb (Z.max 1 (s_maxsize s * 9 / 10) =? s_maxsize s)).
      * destruct (reader_next_dview (set_oom s (Z.max 1 (s_maxsize s * 9 / 10)) (s_now s)) (tl (s_rtodo s)) (s_ridx s)) as (A1 & A2 & A3 & A4 & A5 & A6 & A7 & A8 & A9 & A10).
        apply K; try assumption; [intros it' E; exfalso; exact (A3 it' E)|rewrite A4; exact Hpq].
      * apply K; try reflexivity; cbn; try discriminate; assumption.
    + destruct (reader_next_dview s (tl (s_rtodo s)) (s_ridx s)) as (A1 & A2 & A3 & A4 & A5 & A6 & A7 & A8 & A9 & A10).
      apply K; try assumption; [intros it' E; exfalso; exact (A3 it' E)|rewrite A4; exact Hpq].
  - (* RPutClosed: the end-of-stream token enters the queue, the reader ends *)
    constructor; cbn [upd_reader set_pq s_rst s_rpc s_pq s_hs s_hq s_jst s_jpc s_mpc s_mdone]; unfold nreq, h0_working; cbn [upd_reader set_pq s_hs]; try discriminate; auto.
    + intros H. exfalso. apply H. reflexivity.
    + intros _. left. exists (s_pq s). repeat split; assumption.
    + intros _ _ H. exfalso. apply H. reflexivity.
    + intros o pos t E. specialize (d_hjoin0 o pos t E). unfold tstate_of in *. cbn [upd_reader set_pq s_rst s_jst s_hs].
      destruct (t =? 1); [discriminate|exact d_hjoin0].
  - exfalso. exact (d_rexit0 Hrun eq_refl).
Qed.

(* ---- hashers ---- *)
Lemma nth_error_set_nth {X} (l : list X) : forall i j x,
  nth_error (set_nth l i x) j =
  if Nat.eqb i j then (match nth_error l i with Some _ => Some x | None => None end) else nth_error l j.
Proof.
  induction l as [|y r IH]; intros i j x.
  - cbn. destruct i, j; cbn; try reflexivity. destruct (Nat.eqb i j); reflexivity.
  - destruct i as [|i], j as [|j]; cbn [set_nth nth_error Nat.eqb]; try reflexivity. apply IH.
Qed.

(* replacing the entry of hasher i (which was running at [pc0]) and possibly the queues *)
Lemma DInv_hasher c s s0 i pc0 st pc :
  nth_error (s_hs s) i = Some (TRunning, pc0) ->
  s_rst s0 = s_rst s -> s_rpc s0 = s_rpc s -> s_hs s0 = s_hs s -> s_jst s0 = s_jst s -> s_jpc s0 = s_jpc s ->
  s_mpc s0 = s_mpc s -> s_mdone s0 = s_mdone s ->
  (st, pc) <> (TRunning, HExit) -> st <> TNew ->
  (* the piece queue and the token count *)
  (s_rst s <> TDone -> Forall (fun q => is_piece q = true) (s_pq s0) /\ at_requeue (st, pc) = false /\ at_requeue (TRunning, pc0) = false) ->
  (s_rst s = TDone ->
     ((exists l, s_pq s0 = l ++ [QClosed] /\ Forall (fun q => is_piece q = true) l) /\
      (nreq s + b2n (at_requeue (st, pc)) = b2n (at_requeue (TRunning, pc0)))%nat) \/
     (s_pq s0 = [] /\ (nreq s + b2n (at_requeue (st, pc)) = 1 + b2n (at_requeue (TRunning, pc0)))%nat)) ->
  (* the vital hasher *)
  (i = 0%nat -> s_rst s <> TDone -> h0_working s -> st = TRunning /\ (pc = HGet \/ exists it, pc = HPutHash it)) ->
  (forall q, In q (s_hq s) -> In q (s_hq s0)) ->
  DInv c s -> DInv c (upd_hasher s0 i st pc).
Proof.
  intros Hn E1 E2 E3 E4 E5 E6 E7 Hne Hst Hbef Haft Hh0 Hhq I. destruct I.
  pose proof (nreq_upd s s0 i st pc (TRunning, pc0) E3 Hn) as Hcount.
  constructor; cbn [upd_hasher set_hs s_rst s_rpc s_pq s_hq s_jst s_jpc s_mpc s_mdone]; rewrite ?E1, ?E2, ?E4, ?E5, ?E6, ?E7.
  - intros Hnd. destruct (Hbef Hnd) as (A & B & C). destruct (d_before0 Hnd) as [_ D]. split; [exact A|].
    rewrite B, C in Hcount. cbn [b2n] in Hcount. lia.
  - intros Hd. destruct (Haft Hd) as [[(l & El & Fl) Hc]|[Ep Hc]].
    + left. exists l. repeat split; try assumption. lia.
    + right. split; [exact Ep|]. lia.
  - intros Hm Hb Hnd. specialize (d_h1 Hm Hb Hnd). destruct d_h1 as (pc1 & Hp1 & Hpc1).
    unfold h0_working, upd_hasher. cbn [set_hs s_hs]. rewrite E3, nth_error_set_nth.
    destruct (Nat.eqb i 0) eqn:Ei.
    + apply Nat.eqb_eq in Ei. subst i. rewrite Hn. destruct (Hh0 eq_refl Hnd (ex_intro _ pc1 (conj Hp1 Hpc1))) as [-> Hpc]. exists pc. split; [reflexivity|exact Hpc].
    + exists pc1. split; assumption.
  - intros Hj Hc. apply Hhq. apply d_hq0; assumption.
  - exact d_rput0.
  - exact d_rexit0.
  - exact d_jexit0.
  - intros j. unfold upd_hasher. cbn [set_hs s_hs]. rewrite E3, nth_error_set_nth. destruct (Nat.eqb i j).
    + rewrite Hn. intros E. injection E as Ea Eb. apply Hne. rewrite Ea, Eb. reflexivity.
    + apply d_hexit0.
  - intros t Ht H2 j st' pc' Hj. unfold upd_hasher. cbn [set_hs s_hs]. rewrite E3, nth_error_set_nth. destruct (Nat.eqb i j) eqn:Eij.
    + apply Nat.eqb_eq in Eij. subst j. exfalso. pose proof (d_unstarted0 t Ht H2 i TRunning pc0 Hj Hn). discriminate.
    + apply (d_unstarted0 t Ht H2 j st' pc' Hj).
  - intros o pos t E. specialize (d_hjoin0 o pos t E). rewrite tstate_upd_hasher.
    assert (tstate_of s0 t = tstate_of s t) as Et by (unfold tstate_of; rewrite E1, E3, E4; reflexivity).
    destruct ((t =? 1) || (t =? 2)); [rewrite Et; exact d_hjoin0|].
    destruct (Nat.eqb i (hasher_index t) && Nat.ltb i (length (s_hs s0))); [exact Hst|rewrite Et; exact d_hjoin0].
Qed.

Lemma piece_head_closed (r : list qitem) : Forall (fun q => is_piece q = true) (QClosed :: r) -> False.
Proof. intros H. inversion H as [|? ? Hh _]. discriminate Hh. Qed.

Lemma closed_split_head l r : QClosed :: r = l ++ [QClosed] -> Forall (fun q => is_piece q = true) l -> l = [] /\ r = [].
Proof.
  intros E F. destruct l as [|x l]; [cbn in E; injection E as <-; auto|].
  cbn in E. injection E as <- _. inversion F as [|? ? Hh _]. discriminate Hh.
Qed.

Lemma piece_split_head i h e r l : QPiece i h e :: r = l ++ [QClosed] -> exists l', l = QPiece i h e :: l' /\ r = l' ++ [QClosed].
Proof.
  intros E. destruct l as [|x l]; [cbn in E; discriminate E|]. cbn in E. injection E as <- ->. exists l. auto.
Qed.

Lemma h0_not pc0 s : h0_working s -> nth_error (s_hs s) 0 = Some (TRunning, pc0) ->
  (pc0 = HGet \/ exists it, pc0 = HPutHash it).
Proof. intros (pc & Hp & Hpc) Hn. rewrite Hn in Hp. injection Hp as <-. exact Hpc. Qed.

Lemma step_hasher_DInv c s i a : DInv c s -> DInv c (step_hasher s i a).
Proof.
  intros I. unfold step_hasher. destruct (nth_error (s_hs s) i) as [[st pc]|] eqn:Hn; [|exact I].
  destruct st; try exact I.
  pose proof (d_before c s I) as Hb. pose proof (d_after c s I) as Ha.
  destruct pc as [|it| | |].
  - (* HGet *)
    destruct a.
    + destruct (s_pq s) as [|[|idx h exc] r] eqn:Epq; [exact I| |].
      * (* the end-of-stream token *)
        refine (DInv_hasher c s (set_pq s r) i HGet TRunning HRequeue Hn eq_refl eq_refl eq_refl eq_refl eq_refl eq_refl eq_refl _ _ _ _ _ _ I);
          cbn [set_pq s_pq s_hq].
        -- discriminate.
        -- discriminate.
        -- intros Hnd. exfalso. destruct (Hb Hnd) as [F _]. exact (piece_head_closed r F).
        -- intros Hd. destruct (Ha Hd) as [(l & El & Fl & Hc)|[Ep _]]; [|discriminate Ep].
           destruct (closed_split_head l r El Fl) as [-> ->]. right. split; [reflexivity|]. rewrite Hc. reflexivity.
        -- intros _ Hnd _. exfalso. destruct (Hb Hnd) as [F _]. exact (piece_head_closed r F).
        -- auto.
      * refine (DInv_hasher c s (set_pq s r) i HGet TRunning _ Hn eq_refl eq_refl eq_refl eq_refl eq_refl eq_refl eq_refl _ _ _ _ _ _ I);
          cbn [set_pq s_pq s_hq].
        -- discriminate.
        -- discriminate.
        -- intros Hnd. destruct (Hb Hnd) as [F _]. inversion F; subst. repeat split; try assumption; reflexivity.
        -- intros Hd. destruct (Ha Hd) as [(l & El & Fl & Hc)|[Ep _]]; [|discriminate Ep].
           destruct (piece_split_head _ _ _ _ _ El) as (l' & -> & ->). inversion Fl; subst.
           left. split; [exists l'; split; [reflexivity|assumption]|]. rewrite Hc. reflexivity.
        -- intros _ _ _. split; [reflexivity|]. right. eexists. reflexivity.
        -- auto.
    + destruct (Nat.eqb i 0) eqn:Ei.
      * apply (DInv_of_dview c s); [reflexivity|exact I].
      * refine (DInv_hasher c s (set_now s (s_now s + 504)) i HGet TDone HExit Hn eq_refl eq_refl eq_refl eq_refl eq_refl eq_refl eq_refl _ _ _ _ _ _ I);
          cbn [set_now s_pq s_hq].
        -- discriminate.
        -- discriminate.
        -- intros Hnd. destruct (Hb Hnd) as [F _]. repeat split; try assumption; reflexivity.
        -- intros Hd. destruct (Ha Hd) as [(l & El & Fl & Hc)|[Ep Hc]].
           ++ left. split; [exists l; split; assumption|]. rewrite Hc. reflexivity.
           ++ right. split; [exact Ep|]. rewrite Hc. reflexivity.
        -- intros ->. discriminate Ei.
        -- auto.
  - (* HPutHash *)
    refine (DInv_hasher c s (set_hq s (s_hq s ++ [it])) i (HPutHash it) TRunning HGet Hn eq_refl eq_refl eq_refl eq_refl eq_refl eq_refl eq_refl _ _ _ _ _ _ I);
      cbn [set_hq s_pq s_hq].
    + discriminate.
    + discriminate.
    + intros Hnd. destruct (Hb Hnd) as [F _]. repeat split; try assumption; reflexivity.
    + intros Hd. destruct (Ha Hd) as [(l & El & Fl & Hc)|[Ep Hc]].
      * left. split; [exists l; split; assumption|]. rewrite Hc. reflexivity.
      * right. split; [exact Ep|]. rewrite Hc. reflexivity.
    + intros _ _ _. split; [reflexivity|left; reflexivity].
    + intros q Hq. apply in_or_app. left. exact Hq.
  - (* HRequeue *)
    assert (1 <= nreq s)%nat as Hpos by (unfold nreq; apply (filter_nth_pos at_requeue (s_hs s) i (TRunning, HRequeue) Hn eq_refl)).
    refine (DInv_hasher c s (set_pq s (s_pq s ++ [QClosed])) i HRequeue TRunning HSet Hn eq_refl eq_refl eq_refl eq_refl eq_refl eq_refl eq_refl _ _ _ _ _ _ I);
      cbn [set_pq s_pq s_hq].
    + discriminate.
    + discriminate.
    + intros Hnd. exfalso. destruct (Hb Hnd) as [_ Hc]. lia.
    + intros Hd. destruct (Ha Hd) as [(l & El & Fl & Hc)|[Ep Hc]]; [exfalso; lia|].
      left. split; [exists []; rewrite Ep; split; [reflexivity|constructor]|]. rewrite Hc. reflexivity.
    + intros -> Hnd Hw. exfalso. destruct (h0_not _ _ Hw Hn) as [E|[it E]]; discriminate E.
    + auto.
  - (* HSet *)
    refine (DInv_hasher c s (set_final s) i HSet TDone HExit Hn eq_refl eq_refl eq_refl eq_refl eq_refl eq_refl eq_refl _ _ _ _ _ _ I);
      cbn [set_final s_pq s_hq].
    + discriminate.
    + discriminate.
    + intros Hnd. destruct (Hb Hnd) as [F _]. repeat split; try assumption; reflexivity.
    + intros Hd. destruct (Ha Hd) as [(l & El & Fl & Hc)|[Ep Hc]].
      * left. split; [exists l; split; assumption|]. rewrite Hc. reflexivity.
      * right. split; [exact Ep|]. rewrite Hc. reflexivity.
    + intros -> Hnd Hw. exfalso. destruct (h0_not _ _ Hw Hn) as [E|[it E]]; discriminate E.
    + auto.
  - exact I.
Qed.

(* ---- the collecting thread ---- *)
Lemma DInv_pc c s s' :
  s_rst s' = s_rst s -> s_rpc s' = s_rpc s -> s_pq s' = s_pq s -> s_hs s' = s_hs s -> s_jst s' = s_jst s -> s_jpc s' = s_jpc s ->
  s_mdone s' = s_mdone s ->
  (before_h0 (s_mpc s') = false -> before_h0 (s_mpc s) = false) ->
  (s_jst s = TDone -> collecting (s_mpc s') = true -> In QClosed (s_hq s')) ->
  (forall t, s_mpc s' = MAlive t \/ s_mpc s' = MStart t -> t <> 2 ->
     forall i st pc, (t = 1 \/ (hasher_index t <= i)%nat) -> nth_error (s_hs s) i = Some (st, pc) -> st = TNew) ->
  (forall o pos t, s_mpc s' = MHJoin o pos t -> tstate_of s t <> TNew) ->
  DInv c s -> DInv c s'.
Proof.
  intros E1 E2 E3 E4 E5 E6 E7 Hb Hq Hu Hj I. destruct I.
  constructor; unfold nreq, h0_working in *; rewrite ?E1, ?E2, ?E3, ?E4, ?E5, ?E6, ?E7; auto.
  intros o pos t E. unfold tstate_of. rewrite E1, E4, E5. apply (Hj o pos t E).
Qed.

Lemma DInv_finish_main c s r : DInv c s -> DInv c (finish_main s r).
Proof.
  intros I. destruct I.
  constructor; unfold nreq, h0_working in *; cbn [finish_main s_rst s_rpc s_pq s_hs s_hq s_jst s_jpc s_mpc s_mdone]; auto; try discriminate.
  intros t [E|E]; discriminate E.
Qed.

Lemma collect_item_dview c s idx h exc :
  let s' := collect_item c s idx h exc in
  s_rst s' = s_rst s /\ s_rpc s' = s_rpc s /\ s_pq s' = s_pq s /\ s_hs s' = s_hs s /\ s_hq s' = s_hq s /\ s_jst s' = s_jst s /\
  s_jpc s' = s_jpc s /\ s_mdone s' = s_mdone s /\ before_h0 (s_mpc s') = false /\ starting (s_mpc s') = false /\
  (forall o pos t, s_mpc s' <> MHJoin o pos t).
Proof. unfold collect_item. break_match; cbn; repeat split; try reflexivity; discriminate. Qed.

Lemma next_hasher_flags s o pos : before_h0 (next_hasher s o pos) = false /\ collecting (next_hasher s o pos) = false /\ starting (next_hasher s o pos) = false /\
  (forall o' pos' t', next_hasher s o pos <> MHJoin o' pos' t').
Proof. unfold next_hasher. destruct (nth_error (s_tracked s) pos); repeat split; try reflexivity; discriminate. Qed.

Ltac dpc c s I :=
  match goal with |- DInv _ ?s' => refine (DInv_pc c s s' eq_refl eq_refl eq_refl eq_refl eq_refl eq_refl eq_refl _ _ _ _ I) end;
  cbn [set_mpc set_hq set_stop upd_collector s_mpc s_hq];
  match goal with E : s_mpc s = _ |- _ => rewrite ?E end;
  try (let E := fresh "E" in intros ? ? ? E; discriminate E).

Lemma step_main_DInv c s a inc :
  (1 <= cf_hashers c)%nat -> enabled c s 0 a = true -> TInv c s -> DInv c s -> DInv c (step_main c s inc).
Proof.
  intros Hn Hen T I. destruct (main_enabled_not_done c s a Hen) as [Hmd Hin].
  unfold step_main. destruct (s_mpc s) as [t|t| |idx h exc|aft|aft|o|o|o pos t|o pos t|o|o|] eqn:Epc.
  - (* MAlive *)
    dpc c s I; [auto|discriminate|].
    intros t' [E|E] H2; [discriminate E|]. injection E as <-. apply (d_unstarted c s I t); [left; exact Epc|exact H2].
  - (* MStart *)
    destruct (t_start c s T t (or_intror Epc)) as (Hjnew & Hvalid & Hr1 & Hrn).
    destruct (refused c t) eqn:Eref.
    + destruct ((t =? 1) || (t =? 2) || (t =? 3)) eqn:E123; [apply DInv_finish_main; exact I|].
      destruct (next_to_start c t) as [t'|] eqn:Ent.
      * destruct (next_to_start_valid c t t' Hn Hvalid Ent) as [A B].
        dpc c s I.
        -- intros _. cbn [before_h0]. lia.
        -- discriminate.
        -- intros t'' [E|E] H2; [|discriminate E]. injection E as <-. intros i st pc Hi Hnth.
           apply (d_unstarted c s I t (or_intror Epc) ltac:(lia) i st pc); [|exact Hnth]. right.
           destruct Hi as [Hi|Hi]; [contradiction|]. unfold next_to_start in Ent.
           replace (t =? 1) with false in Ent by lia. replace (t =? 2) with false in Ent by lia.
           destruct (t - 3 + 1 <? Z.of_nat (cf_hashers c)); injection Ent as <-; [unfold hasher_index in *; lia|contradiction].
      * dpc c s I; [intros _; cbn [before_h0]; lia|intros E; congruence|]. intros t'' [E|E]; discriminate E.
    + (* the thread is started *)
      unfold start_thread. destruct (t =? 1) eqn:E1.
      * (* the reader *)
        assert (t = 1) as -> by lia. specialize (Hr1 eq_refl).
        assert (next_to_start c 1 = Some 3) as -> by reflexivity.
        destruct (reader_next_dview (upd_reader s TRunning RStopRead (s_rtodo s) 0 None) (s_rtodo s) 0) as (A1 & A2 & A3 & A4 & A5 & A6 & A7 & A8 & A9 & A10).
        assert (s_rst s <> TDone) as Hnd by congruence. destruct (d_before c s I Hnd) as [Hpq Hnr]. destruct I.
        constructor; cbn [set_mpc s_rst s_rpc s_pq s_hs s_hq s_jst s_jpc s_mpc s_mdone]; unfold nreq, h0_working;
          cbn [set_mpc s_hs]; rewrite ?A1, ?A4, ?A5, ?A6, ?A7, ?A8, ?A10; cbn [upd_reader s_pq s_hs s_hq s_jst s_jpc s_mdone]; auto; try discriminate.
        all: try (intros H; discriminate H).
        all: try (intros it E; exfalso; exact (A3 it E)).
        all: try (intros t' [E|E] H2; [|discriminate E]; injection E as <-; intros i st pc _ Hnth;
                  apply (d_unstarted0 1 (or_intror Epc) ltac:(lia) i st pc); [left; reflexivity|exact Hnth]).
      * destruct (t =? 2) eqn:E2.
        -- (* the janitor: the last one *)
           assert (t = 2) as -> by lia. assert (next_to_start c 2 = None) as -> by reflexivity.
           destruct I.
           constructor; cbn [set_mpc upd_janitor s_rst s_rpc s_pq s_hs s_hq s_jst s_jpc s_mpc s_mdone]; unfold nreq, h0_working;
             cbn [set_mpc upd_janitor s_hs]; auto; try discriminate.
           ++ intros Hm _ Hnd. apply d_h1; [exact Hm|rewrite Epc; reflexivity|exact Hnd].
           ++ intros t' [E|E]; discriminate E.
        -- (* a hasher *)
           assert (is_hasher c t) as Hh by (destruct Hvalid as [H|[H|H]]; [lia|lia|exact H]).
           assert (exists pc0, nth_error (s_hs s) (hasher_index t) = Some (TNew, pc0)) as (pc0 & Hn0).
           { destruct (nth_error (s_hs s) (hasher_index t)) as [[st pc]|] eqn:E.
             - exists pc. f_equal. f_equal. apply (d_unstarted c s I t (or_intror Epc) ltac:(lia) (hasher_index t) st pc); [right; lia|exact E].
             - exfalso. apply nth_error_None in E. rewrite (t_len c s T) in E. unfold is_hasher, hasher_index in *. lia. }
           destruct (next_to_start c t) as [t'|] eqn:Ent.
           2:{ unfold next_to_start in Ent. rewrite E1, E2 in Ent. destruct (t - 3 + 1 <? Z.of_nat (cf_hashers c)); discriminate Ent. }
           destruct (next_to_start_valid c t t' Hn Hvalid Ent) as [A B].
           pose proof (filter_set_nth at_requeue (s_hs s) (hasher_index t) (TRunning, HGet) (TNew, pc0) Hn0) as Hcount. cbn [at_requeue b2n] in Hcount.
           destruct I.
           constructor; cbn [set_mpc upd_hasher set_hs s_rst s_rpc s_pq s_hs s_hq s_jst s_jpc s_mpc s_mdone]; unfold nreq, h0_working;
             cbn [set_mpc upd_hasher set_hs s_hs]; auto; try discriminate.
           ++ intros Hd. destruct (d_before0 Hd) as [F Hc]. split; [exact F|]. unfold nreq in Hc. lia.
           ++ intros Hd. destruct (d_after0 Hd) as [(l & El & Fl & Hc)|[Ep Hc]]; unfold nreq in Hc.
              ** left. exists l. repeat split; try assumption. lia.
              ** right. split; [exact Ep|lia].
           ++ intros Hm Hb Hnd. rewrite nth_error_set_nth. destruct (Nat.eqb (hasher_index t) 0) eqn:Ei.
              ** rewrite Hn0. exists HGet. split; [reflexivity|left; reflexivity].
              ** apply d_h1; [exact Hm| |exact Hnd]. rewrite Epc. cbn [before_h0]. apply Nat.eqb_neq in Ei. unfold hasher_index, is_hasher in *. lia.
           ++ intros j. rewrite nth_error_set_nth. destruct (Nat.eqb (hasher_index t) j); [rewrite Hn0; discriminate|apply d_hexit0].
           ++ intros t'' [E|E] H2; [|discriminate E]. injection E as <-. intros j st pc Hj. rewrite nth_error_set_nth.
              destruct Hj as [Hj|Hj]; [contradiction|].
              assert (t' = t + 1) as ->.
              { unfold next_to_start in Ent. rewrite E1, E2 in Ent. destruct (t - 3 + 1 <? Z.of_nat (cf_hashers c)); injection Ent as <-; [reflexivity|contradiction]. }
              replace (Nat.eqb (hasher_index t) j) with false by (symmetry; apply Nat.eqb_neq; unfold hasher_index, is_hasher in *; lia).
              apply (d_unstarted0 t (or_intror Epc) ltac:(lia) j st pc). right. unfold hasher_index in *. lia.
  - (* MGet *)
    destruct (s_hq s) as [|[|idx h exc] r] eqn:Ehq; [exact I| |].
    + dpc c s I; [auto|discriminate|intros t [E|E]; discriminate E].
    + pose proof (d_hq c s I) as Hq. rewrite Epc, Ehq in Hq.
      assert (s_jst s = TDone -> In QClosed r) as Hr.
      { intros Hj. destruct (Hq Hj eq_refl) as [E|E]; [discriminate E|exact E]. }
      destruct (existsb (Z.eqb idx) (s_seen (set_hq s r))); dpc c s I; try (intros t [E|E]; discriminate E); auto.
  - (* MClock *)
    destruct (collect_item_dview c (set_now s (s_now s + inc)) idx h exc) as (A1 & A2 & A3 & A4 & A5 & A6 & A7 & A8 & A9 & A10 & A11).
    apply (DInv_pc c s); try assumption.
    + intros _. rewrite Epc. reflexivity.
    + intros Hj _. rewrite A5. apply (d_hq c s I Hj). rewrite Epc. reflexivity.
    + intros t [E|E]; rewrite E in A10; discriminate A10.
    + intros o pos t E. exfalso. exact (A11 o pos t E).
  - (* MStopRead *)
    pose proof (d_hq c s I) as Hq. rewrite Epc in Hq.
    destruct (s_stop s); [destruct aft|]; dpc c s I; try (intros t [E|E]; discriminate E); auto; discriminate.
  - (* MStopWrite *)
    pose proof (d_hq c s I) as Hq. rewrite Epc in Hq.
    destruct aft; dpc c s I; try (intros t [E|E]; discriminate E); auto; discriminate.
  - (* MRJoinAlive *)
    destruct (next_hasher_flags s (raise_of o (s_rexc s)) 0) as (F1 & F2 & F3 & F4).
    destruct (is_alive s 1).
    + dpc c s I; [auto|discriminate|intros t' [E|E]; discriminate E].
    + dpc c s I; [auto| | |].
      * intros _ E. rewrite E in F2. discriminate F2.
      * intros t' [E|E]; rewrite E in F3; discriminate F3.
      * intros o' pos' t' E. exfalso. exact (F4 _ _ _ E).
  - (* MRJoin *)
    destruct (next_hasher_flags s (raise_of o (s_rexc s)) 0) as (F1 & F2 & F3 & F4).
    dpc c s I; [auto| | |].
    + intros _ E. rewrite E in F2. discriminate F2.
    + intros t' [E|E]; rewrite E in F3; discriminate F3.
    + intros o' pos' t' E. exfalso. exact (F4 _ _ _ E).
  - (* MHJoinAlive *)
    destruct (next_hasher_flags s o (S pos)) as (F1 & F2 & F3 & F4).
    destruct (is_alive s t) eqn:Eal.
    + dpc c s I; [auto|discriminate|intros t' [E|E]; discriminate E|].
      intros o' pos' t' E. injection E as _ _ <-. unfold is_alive in Eal. destruct (tstate_of s t); discriminate.
    + dpc c s I; [auto| | |].
      * intros _ E. rewrite E in F2. discriminate F2.
      * intros t' [E|E]; rewrite E in F3; discriminate F3.
      * intros o' pos' t' E. exfalso. exact (F4 _ _ _ E).
  - (* MHJoin *)
    destruct (next_hasher_flags s o (S pos)) as (F1 & F2 & F3 & F4).
    dpc c s I; [auto| | |].
    + intros _ E. rewrite E in F2. discriminate F2.
    + intros t' [E|E]; rewrite E in F3; discriminate F3.
    + intros o' pos' t' E. exfalso. exact (F4 _ _ _ E).
  - (* MJJoinAlive *)
    destruct (is_alive s 2); [dpc c s I; [auto|discriminate|intros t' [E|E]; discriminate E]|].
    unfold finish. destruct o; apply DInv_finish_main; exact I.
  - unfold finish. destruct o; apply DInv_finish_main; exact I.
  - exact I.
Qed.

(* ---- every reachable state ---- *)
Theorem deadlock_invariant c s : (1 <= cf_hashers c)%nat -> reach c s -> DInv c s.
Proof.
  intros Hn. induction 1 as [|s t a inc Hr IH Hen Hinc]; [apply DInv_init|].
  pose proof (thread_invariant c s Hn Hr) as T.
  unfold step. destruct (enabled_tid c s t a Hen) as [[-> Hin]|[[-> Hin]|[[-> Hin]|Ht]]].
  - cbn [Z.eqb]. apply (step_main_DInv c s a inc Hn Hen T IH).
  - cbn [Z.eqb]. assert (s_rst s = TRunning) as Hrun.
    { unfold reader_enabled in Hin. destruct (s_rst s); [destruct Hin|reflexivity|destruct Hin]. }
    destruct (s_rpc s); try (apply step_reader_DInv; assumption).
    apply step_reader_DInv; [exact Hrun|]. apply (DInv_of_dview c s); [reflexivity|exact IH].
  - cbn [Z.eqb]. assert (s_jst s = TRunning) as Hrun.
    { unfold janitor_enabled in Hin. destruct (s_jst s); [destruct Hin|reflexivity|destruct Hin]. }
    apply step_janitor_DInv; assumption.
  - replace (t =? 0) with false by lia. replace (t =? 1) with false by lia. replace (t =? 2) with false by lia.
    apply step_hasher_DInv. exact IH.
Qed.

Lemma hasher_enabled_in_options c s i a : (i < cf_hashers c)%nat -> In a (hasher_enabled s i) -> In (hasher_tid i, a) (options c s).
Proof.
  intros Hi Ha. unfold options. apply in_or_app. right. apply in_or_app. right. apply in_or_app. right.
  apply in_flat_map. exists i. split; [apply in_seq; lia|]. apply in_map. exact Ha.
Qed.

(* As long as the call has not returned, some thread can move: no schedule deadlocks --
   for any number of hashers and pieces, any callback plan, fault plan and clock. *)
Theorem no_deadlock c s :
  (1 <= cf_hashers c)%nat -> reach c s -> s_mdone s = false -> options c s <> [].
Proof.
  intros Hn Hr Hmd Hopt.
  pose proof (thread_invariant c s Hn Hr) as T. pose proof (deadlock_invariant c s Hn Hr) as D.
  destruct (not_done_facts c s T Hmd) as [Hres Hpc].
  assert (main_enabled s = []) as Hmain.
  { unfold options in Hopt. apply app_eq_nil in Hopt as [H _]. destruct (main_enabled s); [reflexivity|discriminate H]. }
  assert (reader_enabled s = []) as Hreader.
  { unfold options in Hopt. apply app_eq_nil in Hopt as [_ H]. apply app_eq_nil in H as [H _]. destruct (reader_enabled s); [reflexivity|discriminate H]. }
  assert (janitor_enabled s = []) as Hjan.
  { unfold options in Hopt. apply app_eq_nil in Hopt as [_ H]. apply app_eq_nil in H as [_ H]. apply app_eq_nil in H as [H _].
    destruct (janitor_enabled s); [reflexivity|discriminate H]. }
  assert (forall i, (i < cf_hashers c)%nat -> hasher_enabled s i = []) as Hhash.
  { intros i Hi. destruct (hasher_enabled s i) as [|a l] eqn:E; [reflexivity|]. exfalso.
    pose proof (hasher_enabled_in_options c s i a Hi ltac:(rewrite E; left; reflexivity)) as Hin. rewrite Hopt in Hin. destruct Hin. }
  (* the janitor is not running *)
  assert (s_jst s <> TRunning) as Hjnr.
  { intros Hj. unfold janitor_enabled in Hjan. rewrite Hj in Hjan. pose proof (d_jexit c s D Hj) as Hne.
    destruct (s_jpc s); try discriminate Hjan; [destruct (s_final s); discriminate Hjan|contradiction]. }
  (* a running hasher that is not waiting to requeue can always move; one that waits has room *)
  assert (forall i pc, nth_error (s_hs s) i = Some (TRunning, pc) -> False) as Hnoh.
  { intros i pc Hi. assert (i < cf_hashers c)%nat as Hlt by (rewrite <- (t_len c s T); apply nth_error_Some; congruence).
    specialize (Hhash i Hlt). unfold hasher_enabled in Hhash. rewrite Hi in Hhash.
    destruct pc; try discriminate Hhash.
    - destruct (s_pq s); discriminate Hhash.
    - (* HRequeue: the queue is empty, so there is room *)
      assert (1 <= nreq s)%nat as Hpos by (unfold nreq; apply (filter_nth_pos at_requeue (s_hs s) i (TRunning, HRequeue) Hi eq_refl)).
      destruct (s_rst s) eqn:Er.
      + destruct (d_before c s D ltac:(congruence)) as [_ Hc]. lia.
      + destruct (d_before c s D ltac:(congruence)) as [_ Hc]. lia.
      + destruct (d_after c s D Er) as [(l & El & Fl & Hc)|[Ep Hc]]; [lia|].
        unfold pq_has_room in Hhash. rewrite Ep in Hhash. change (zlen (@nil qitem)) with 0 in Hhash.
        destruct (s_maxsize s <=? 0) eqn:E1; cbn [orb] in Hhash; [discriminate Hhash|]. replace (0 <? s_maxsize s) with true in Hhash by lia. discriminate Hhash.
    - exact (d_hexit c s D i Hi). }
  (* main is past the start phase *)
  assert (starting (s_mpc s) = false) as Hns.
  { unfold main_enabled in Hmain. rewrite Hmd in Hmain. destruct (s_mpc s); try reflexivity; discriminate Hmain. }
  destruct (t_started c s T Hns ltac:(unfold refused_fatal; rewrite Hres; discriminate)) as [Hrn Hjn].
  assert (s_jst s = TDone) as Hjd by (destruct (s_jst s); [contradiction|contradiction|reflexivity]).
  unfold main_enabled in Hmain. rewrite Hmd in Hmain.
  destruct (s_mpc s) as [t|t| |idx h exc|aft|aft|o|o|o pos t|o pos t|o|o|] eqn:Epc; try discriminate Hmain.
  - (* MGet with an empty hash queue: but the janitor has closed it *)
    pose proof (d_hq c s D Hjd ltac:(rewrite Epc; reflexivity)) as Hq. destruct (s_hq s); [destruct Hq|discriminate Hmain].
  - (* waiting for the reader: it is running, hence blocked on a full queue, but then the vital hasher can take an item *)
    destruct (s_rst s) eqn:Er; try discriminate Hmain; [contradiction|].
    destruct (d_h0 c s D Hmd ltac:(rewrite Epc; reflexivity) ltac:(congruence)) as (pc & Hp & _). exact (Hnoh 0%nat pc Hp).
  - (* waiting for a hasher that is running *)
    destruct (tstate_of s t) eqn:Et; try discriminate Hmain.
    + exfalso. exact (d_hjoin c s D o pos t Epc Et).
    + unfold tstate_of in Et. destruct (t =? 1) eqn:E1; [|destruct (t =? 2) eqn:E2].
      * destruct (d_h0 c s D Hmd ltac:(rewrite Epc; reflexivity) ltac:(congruence)) as (pc & Hp & _). exact (Hnoh 0%nat pc Hp).
      * congruence.
      * destruct (nth_error (s_hs s) (hasher_index t)) as [[st pc]|] eqn:En; [|discriminate Et]. subst st. exact (Hnoh _ pc En).
  - (* waiting for the janitor, which has ended *)
    rewrite Hjd in Hmain. discriminate Hmain.
  - exact (Hpc eq_refl).
Qed.
