(* CompleteProofs.v -- C01/C02/C03/C04, unbounded: "False only for the right reason".
   A hashing run over readable content that returns False was told to stop (cancelled); a verification run
   over intact content that returns False was told to stop.  For every schedule, hasher count, piece
   count, callback plan, out-of-memory handling and clock. *)
From Coq Require Import Lia ZifyBool Permutation.
From Torf Require Import Base Pipeline PipelineProofs Tree OrderProofs FlowProofs ThreadProofs DeadlockProofs ConservationProofs ReaderDoneProofs
  DrainProofs VerifyTrueProofs VerifyFalseProofs.
Open Scope Z_scope.

(* ---- a verdict is only reached when the reader ended without an error ---- *)
Definition post_join (pc : mpc) : option outcome :=
  match pc with MHJoinAlive o _ _ | MHJoin o _ _ | MJJoinAlive o | MJJoin o => Some o | _ => None end.

Definition X (s : state) : Prop :=
  (post_join (s_mpc s) = Some ONormal -> s_rexc s = None) /\
  (s_mpc s = MDone -> forall r, s_result s = Some r -> verdict r -> s_rexc s = None).

Lemma X_keep s s' : s_mpc s' = s_mpc s -> s_result s' = s_result s -> s_rexc s' = s_rexc s -> X s -> X s'.
Proof. unfold X. intros -> -> ->. auto. Qed.

Lemma X_to s pc : pc <> MDone -> (post_join pc = Some ONormal -> s_rexc s = None) -> X (set_mpc s pc).
Proof. intros A B. split; cbn [set_mpc s_mpc s_rexc]; [exact B|intros F; contradiction]. Qed.

Lemma post_join_next_hasher s o pos : post_join (next_hasher s o pos) = Some o.
Proof. unfold next_hasher. destruct (nth_error (s_tracked s) pos); reflexivity. Qed.

Lemma next_hasher_not_done s o pos : next_hasher s o pos <> MDone.
Proof. unfold next_hasher. destruct (nth_error (s_tracked s) pos); discriminate. Qed.

Lemma X_finish c s o : (o = ONormal -> s_rexc s = None) -> X (finish c s o).
Proof.
  intros H. unfold finish. destruct o as [|e]; split; cbn [finish_main s_mpc s_result s_rexc]; try discriminate.
  - intros _ r _ _. apply H. reflexivity.
  - intros _ r E [V|V]; rewrite V in E; discriminate E.
Qed.

Lemma raise_of_normal_rexc o x : raise_of o x = ONormal -> x = None.
Proof. unfold raise_of. destruct x; [discriminate|reflexivity]. Qed.

Lemma step_main_X c s inc : X s -> X (step_main c s inc).
Proof.
  intros HX. pose proof HX as [X1 X2]. unfold step_main. destruct (s_mpc s) eqn:Empc;
    try (apply X_to; [discriminate|intros F; discriminate F]).
  - destruct (refused c t).
    + destruct ((t =? 1) || (t =? 2) || (t =? 3)).
      * split; cbn [finish_main s_mpc s_result s_rexc]; [discriminate|]. intros _ r E [V|V]; rewrite V in E; discriminate E.
      * destruct (next_to_start c t); apply X_to; try discriminate; intros F; discriminate F.
    + destruct (next_to_start c t); apply X_to; try discriminate; intros F; discriminate F.
  - destruct (s_hq s) as [|[|idx h exc] r]; [exact HX|apply X_to; [discriminate|intros F; discriminate F]|].
    cbn [set_hq s_seen]. destruct (existsb _ _); apply X_to; try discriminate; intros F; discriminate F.
  - destruct (collect_item_mpc c (set_now s (s_now s + inc)) idx h exc) as [Em|[Em|[e Em]]];
      (split; rewrite Em; [intros F; discriminate F|intros F; discriminate F]).
  - destruct (s_stop s); [destruct a|]; apply X_to; try discriminate; intros F; discriminate F.
  - destruct a; apply X_to; try discriminate; intros F; discriminate F.
  - destruct (is_alive s 1); [apply X_to; [discriminate|intros F; discriminate F]|].
    apply X_to; [apply next_hasher_not_done|]. rewrite post_join_next_hasher. intros E. injection E as E. exact (raise_of_normal_rexc _ _ E).
  - apply X_to; [apply next_hasher_not_done|]. rewrite post_join_next_hasher. intros E. injection E as E. exact (raise_of_normal_rexc _ _ E).
  - destruct (is_alive s t).
    + apply X_to; [discriminate|]. cbn. intros E. apply X1. exact E.
    + apply X_to; [apply next_hasher_not_done|]. rewrite post_join_next_hasher. intros E. apply X1. exact E.
  - apply X_to; [apply next_hasher_not_done|]. rewrite post_join_next_hasher. intros E. apply X1. exact E.
  - destruct (is_alive s 2).
    + apply X_to; [discriminate|]. cbn. intros E. apply X1. exact E.
    + apply X_finish. intros ->. apply X1. reflexivity.
  - apply X_finish. intros ->. apply X1. reflexivity.
  - exact HX.
Qed.

Lemma step_reader_mr s : s_mpc (step_reader s) = s_mpc s /\ s_result (step_reader s) = s_result s.
Proof. destruct (step_reader_keep s) as (_ & _ & _ & _ & _ & A & B). split; assumption. Qed.

Theorem verdict_invariant_rexc c s : (1 <= cf_hashers c)%nat -> reach c s -> X s.
Proof.
  intros Hn. induction 1 as [|s t a inc Hr IH Hen Hinc]; [split; cbn; discriminate|].
  pose proof (thread_invariant c s Hn Hr) as T.
  unfold step. destruct (enabled_tid c s t a Hen) as [[-> Hin]|[[-> Hin]|[[-> Hin]|Ht]]].
  - cbn [Z.eqb Pos.eqb]. apply step_main_X. exact IH.
  - cbn [Z.eqb Pos.eqb]. assert (s_rst s = TRunning) as Hrun.
    { unfold reader_enabled in Hin. destruct (s_rst s); [destruct Hin|reflexivity|destruct Hin]. }
    assert (Halive : is_alive s 1 = true) by (unfold is_alive, tstate_of; cbn; rewrite Hrun; reflexivity).
    assert (Hgoal : forall s0, s_mpc s0 = s_mpc s -> s_result s0 = s_result s -> X (step_reader s0)).
    { intros s0 E1 E2. destruct (step_reader_mr s0) as [A B]. destruct IH as [X1 X2]. split; rewrite A, ?B, E1, ?E2.
      - intros F. exfalso. assert (joining (s_mpc s) = true) as J by (destruct (s_mpc s); cbn in F; try discriminate F; reflexivity).
        rewrite (t_rjoined c s T (or_introl J)) in Halive. discriminate Halive.
      - intros F r Er [V|V]; exfalso;
          (assert (~ refused_fatal s) as Hnf by (unfold refused_fatal; rewrite Er, V; discriminate));
          rewrite (t_rjoined c s T (or_intror (conj F Hnf))) in Halive; discriminate Halive. }
    destruct (s_rpc s); apply Hgoal; reflexivity.
  - cbn [Z.eqb Pos.eqb]. destruct (step_janitor_rd s a) as (_ & _ & A3 & _). destruct (step_janitor_keep s a) as (_ & _ & _ & _ & E5 & E6).
    apply (X_keep s); assumption.
  - replace (t =? 0) with false by lia. replace (t =? 1) with false by lia. replace (t =? 2) with false by lia.
    destruct (step_hasher_rd s (hasher_index t) a) as (_ & _ & A3 & _). destruct (step_hasher_keep s (hasher_index t) a) as (_ & _ & _ & E4 & E5 & _).
    apply (X_keep s); assumption.
Qed.

(* ---- if every item of the content is a readable piece, every collected piece has its hash ---- *)
Section AllPieces.
Variable c : config.
Hypothesis HY : forall i r, nth_error (yielded (cf_items c)) i = Some r -> exists x, r = RPiece x.

Definition K (s : state) : Prop := length (s_hashes s) = length (s_seen s).

Lemma K_keep s s' : s_hashes s' = s_hashes s -> s_seen s' = s_seen s -> K s -> K s'.
Proof. unfold K. intros -> ->. auto. Qed.

Lemma step_main_K s inc : FInv c s -> K s -> K (step_main c s inc).
Proof.
  intros Hf HK. unfold step_main. destruct (s_mpc s) eqn:Empc; try (apply (K_keep s); [reflexivity|reflexivity|exact HK]).
  - destruct (refused c t).
    + destruct ((t =? 1) || (t =? 2) || (t =? 3)); [apply (K_keep s); try reflexivity; exact HK|].
      destruct (next_to_start c t); apply (K_keep s); try reflexivity; exact HK.
    + pose proof (start_thread_rview s t) as Ev. unfold rview in Ev. injection Ev as _ E2 _.
      pose proof (start_thread_cview s t) as Ec. unfold cview in Ec. injection Ec as E1 _ _ _.
      destruct (next_to_start c t); apply (K_keep s); cbn [set_mpc s_hashes s_seen]; try assumption.
  - destruct (s_hq s) as [|[|idx h exc] r] eqn:Ehq; [exact HK|apply (K_keep s); try reflexivity; exact HK|].
    cbn [set_hq s_seen]. destruct (existsb _ _); [apply (K_keep s); try reflexivity; exact HK|].
    pose proof (fi_payload c s Hf) as Hpay. unfold flight in Hpay. rewrite Ehq in Hpay.
    apply Forall_app in Hpay as [_ Hrest]. apply Forall_app in Hrest as [_ Hq]. inversion Hq as [|q0 l0 Hitem _]. cbn [payload_ok] in Hitem.
    destruct Hitem as [_ Hitem]. destruct (nth_error (yielded (cf_items c)) (Z.to_nat idx)) as [r0|] eqn:En; [|contradiction].
    destruct (HY _ _ En) as [hv ->]. destruct Hitem as [-> ->].
    unfold K in *. cbn [set_mpc upd_collector set_hq s_hashes s_seen]. rewrite !app_length. cbn [length]. lia.
  - destruct (collect_item_fview c (set_now s (s_now s + inc)) idx h exc) as [E _]. injection E as _ _ _ _ _ _ _ E8 E9.
    apply (K_keep s); assumption.
  - destruct (s_stop s); [destruct a|]; apply (K_keep s); try reflexivity; exact HK.
  - destruct a; apply (K_keep s); try reflexivity; exact HK.
  - destruct (is_alive s 1); apply (K_keep s); try reflexivity; exact HK.
  - destruct (is_alive s t); apply (K_keep s); try reflexivity; exact HK.
  - destruct (is_alive s 2); [apply (K_keep s); try reflexivity; exact HK|]. unfold finish. destruct o; apply (K_keep s); try reflexivity; exact HK.
  - unfold finish. destruct o; apply (K_keep s); try reflexivity; exact HK.
Qed.

Theorem all_collected_are_hashed s : reach c s -> K s.
Proof.
  induction 1 as [|s t a inc Hr IH Hen Hinc]; [reflexivity|].
  pose proof (flow_invariant c s Hr) as Hf.
  assert (Hv : forall s', rview s' = rview s -> cview s' = cview s -> K s').
  { intros s' E1 E2. unfold rview in E1. unfold cview in E2. injection E1 as _ A _. injection E2 as B _ _ _. apply (K_keep s); assumption. }
  unfold step. destruct (t =? 0); [apply step_main_K; assumption|].
  destruct (t =? 1).
  - destruct (s_rpc s); apply Hv; try apply step_reader_rview; try apply step_reader_cview;
      try (rewrite step_reader_rview; reflexivity); rewrite step_reader_cview; reflexivity.
  - destruct (t =? 2); apply Hv; [apply step_janitor_rview|apply step_janitor_cview|apply step_hasher_rview|apply step_hasher_cview].
Qed.
End AllPieces.

Lemma sorted_hashes_len L : zlen (sorted_hashes L) = zlen L.
Proof.
  rewrite sorted_hashes_isort. unfold zlen. rewrite map_length.
  rewrite (Permutation_length (isort_perm (fun p : Z * Z => p) pair_ltb L)). reflexivity.
Qed.

Lemma readable_all_pieces c hs : yielded (cf_items c) = map RPiece hs ->
  forall i r, nth_error (yielded (cf_items c)) i = Some r -> exists x, r = RPiece x.
Proof.
  intros HY i r Hn. rewrite HY, nth_error_map in Hn. destruct (nth_error hs i) as [x|]; [|discriminate Hn].
  injection Hn as <-. exists x. reflexivity.
Qed.

(* in a run over readable content that returned a verdict without having been told to stop, every piece has its hash *)
Lemma unstopped_verdict_has_all_hashes c s r hs :
  (1 <= cf_hashers c)%nat -> reach c s -> yielded (cf_items c) = map RPiece hs ->
  s_result s = Some r -> verdict r -> s_stop s = false -> length (s_hashes s) = length hs.
Proof.
  intros Hn Hr HY Hres Hv Hs.
  pose proof (thread_invariant c s Hn Hr) as T.
  assert (Hmd : s_mpc s = MDone) by (apply (t_done c s T); apply (t_result c s T); rewrite Hres; discriminate).
  destruct (verdict_invariant_rexc c s Hn Hr) as [_ X2]. pose proof (X2 Hmd r Hres Hv) as He.
  pose proof (uncancelled_run_collects_everything c s r Hn Hr Hres Hv Hs He) as Hp.
  apply Permutation_length in Hp. rewrite map_length, seq_length in Hp.
  rewrite (all_collected_are_hashed c (readable_all_pieces c hs HY) s Hr), Hp.
  unfold nitems, zlen. rewrite HY, map_length. lia.
Qed.

(* Hashing: False only if the run was told to stop. *)
Theorem generate_false_means_stopped c s hs :
  (1 <= cf_hashers c)%nat -> reach c s -> cf_verify c = None ->
  yielded (cf_items c) = map RPiece hs -> cf_total c = zlen hs ->
  s_result s = Some ResFalse -> s_stop s = true.
Proof.
  intros Hn Hr Hgen HY Htot Hres. destruct (s_stop s) eqn:Hs; [reflexivity|exfalso].
  pose proof (unstopped_verdict_has_all_hashes c s ResFalse hs Hn Hr HY Hres (or_intror eq_refl) Hs) as Hlen.
  destruct (verdict_invariant c s Hr) as [_ Hc]. specialize (Hc ResFalse Hres (or_intror eq_refl)).
  unfold conclude in Hc. rewrite Hgen in Hc. cbv zeta in Hc. rewrite sorted_hashes_len in Hc.
  replace (zlen (s_hashes s) =? cf_total c) with true in Hc by (unfold zlen in *; lia). discriminate Hc.
Qed.

(* ... and it returns True with exactly the hashes of the content otherwise *)
Theorem generate_unstopped_returns_true c s r hs :
  (1 <= cf_hashers c)%nat -> reach c s -> cf_verify c = None ->
  yielded (cf_items c) = map RPiece hs -> cf_total c = zlen hs ->
  s_result s = Some r -> verdict r -> s_stop s = false -> r = ResTrue.
Proof.
  intros Hn Hr Hgen HY Htot Hres Hv Hs. destruct Hv as [->| ->]; [reflexivity|].
  rewrite (generate_false_means_stopped c s hs Hn Hr Hgen HY Htot Hres) in Hs. discriminate Hs.
Qed.

(* Verification of intact content: False only if the run was told to stop. *)
Theorem verify_false_on_intact_means_stopped c s expd :
  (1 <= cf_hashers c)%nat -> reach c s -> cf_verify c = Some expd ->
  yielded (cf_items c) = map RPiece expd -> s_result s = Some ResFalse -> s_stop s = true.
Proof.
  intros Hn Hr Hv HY Hres. destruct (s_stop s) eqn:Hs; [reflexivity|exfalso].
  pose proof (unstopped_verdict_has_all_hashes c s ResFalse expd Hn Hr HY Hres (or_intror eq_refl) Hs) as Hlen.
  pose proof (verify_false_on_intact_is_incomplete c s expd Hr Hv HY Hres). lia.
Qed.

(* ... with exactly the reference hashes, in piece order *)
Theorem unstopped_generate_stores_reference c s r hs :
  (1 <= cf_hashers c)%nat -> reach c s -> cf_verify c = None ->
  yielded (cf_items c) = map RPiece hs -> cf_total c = zlen hs ->
  s_result s = Some r -> verdict r -> s_stop s = false ->
  r = ResTrue /\ sorted_hashes (s_hashes s) = hs.
Proof.
  intros Hn Hr Hgen HY Htot Hres Hv Hs.
  pose proof (generate_unstopped_returns_true c s r hs Hn Hr Hgen HY Htot Hres Hv Hs) as ->.
  split; [reflexivity|]. exact (true_means_reference c s hs Hr Hgen HY Htot Hres).
Qed.
