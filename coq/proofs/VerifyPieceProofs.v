(* VerifyPieceProofs.v -- C11: get_piece_hash / verify_piece on intact content, and the
   agreement of random access with sequential iteration. *)
From Coq Require Import Lia ZifyBool.
From Torf Require Import Base Extracted Geometry Stream GeometryProofs ChunkProofs IterProofs GetPieceProofs IterDamage.
Open Scope Z_scope.

Lemma bytes_eqb_iff a : forall b, bytes_eqb a b = true <-> a = b.
Proof.
  induction a as [|x a IH]; intros [|y b]; cbn [bytes_eqb]; try (split; [discriminate|discriminate]); [tauto|].
  rewrite andb_true_iff, IH, N.eqb_eq. split; [intros [-> ->]; reflexivity|intros E; injection E as -> ->; auto].
Qed.

(* the bytes of piece i *)
Definition piece_bytes (d : disk) (fs : list file) (L i : Z) : bytes :=
  firstn (Z.to_nat L) (skipn (Z.to_nat (i * L)) (stream_of d fs)).

Section VP.
Variable H : bytes -> bytes.

Theorem get_piece_hash_intact d fs L i h :
  allpos fs -> NoDup fs -> intact d fs -> 0 < L -> 0 <= i -> i * L < total_size fs ->
  fst (get_piece_hash H d h fs L i) = Ok (Some (H (piece_bytes d fs L i))).
Proof.
  intros Hp Hnd Hint HL Hi Hlt. unfold get_piece_hash.
  pose proof (get_piece_intact d fs L i h Hp Hnd Hint HL Hi Hlt) as E.
  destruct (get_piece d h fs L i) as [r h']. cbn [fst] in E. subst r. reflexivity.
Qed.

(* the hash check of piece i is positive exactly when the hash of its bytes is the stored hash *)
Theorem verify_piece_intact d fs L hashes i h :
  allpos fs -> NoDup fs -> intact d fs -> 0 < L -> 0 <= i -> i * L < total_size fs -> i < zlen hashes ->
  exists b, fst (verify_piece H d h fs L hashes i) = Ok (Some b) /\
            (b = true <-> H (piece_bytes d fs L i) = nth (Z.to_nat i) hashes []).
Proof.
  intros Hp Hnd Hint HL Hi Hlt Hn. unfold verify_piece.
  cbv zeta. assert ((i <? 0) = false) as E0 by lia. rewrite E0. cbv iota. rewrite E0.
  assert ((i >=? zlen hashes) = false) as -> by lia. cbn [orb].
  pose proof (get_piece_hash_intact d fs L i h Hp Hnd Hint HL Hi Hlt) as E.
  destruct (get_piece_hash H d h fs L i) as [r h']. cbn [fst] in E. subst r.
  eexists. split; [reflexivity|]. rewrite bytes_eqb_iff. split; intros E; symmetry; exact E.
Qed.

(* an index beyond the stored hashes is refused with the documented error *)
Theorem verify_piece_out_of_range d fs L hashes i h :
  zlen hashes <= i -> fst (verify_piece H d h fs L hashes i) = Err DValue.
Proof.
  intros Hn. unfold verify_piece. pose proof (zlen_nonneg hashes).
  cbv zeta. assert ((i <? 0) = false) as E0 by lia. rewrite E0. cbv iota. rewrite E0.
  assert ((i >=? zlen hashes) = true) as -> by lia. reflexivity.
Qed.
End VP.

(* random access = sequential access: the i-th chunk of the stream is the piece get_piece returns *)
Lemma chunks_nth L s i : 0 < L -> 0 <= i -> i * L < zlen s ->
  nth_error (chunks L s) (Z.to_nat i) = Some (firstn (Z.to_nat L) (skipn (Z.to_nat (i * L)) s)).
Proof.
  intros HL Hi Hlt. rewrite (chunks_split L HL s).
  pose proof (fulls_length L HL s) as Hfl. pose proof (rem_length L HL s) as Hrl.
  pose proof (Z.div_mod (zlen s) L ltac:(lia)) as Hdm. pose proof (Z.mod_pos_bound (zlen s) L HL) as Hmb.
  destruct (Z_lt_dec i (zlen s / L)) as [Hfull|Hlast].
  - rewrite nth_error_app1 by (unfold zlen in *; lia).
    rewrite (fulls_nth L HL s i Hi Hfull). unfold slice. do 2 f_equal. lia.
  - assert (i = zlen s / L) as Ei by nia.
    rewrite nth_error_app2 by (unfold zlen in *; lia).
    replace (Z.to_nat i - length (fulls L s))%nat with 0%nat by (unfold zlen in *; lia).
    destruct (rem L s) as [|b r] eqn:Er.
    + exfalso. unfold zlen in Hrl at 1. cbn [length] in Hrl. nia.
    + cbn [nth_error]. rewrite <- Er, (rem_eq L HL s), <- Ei. f_equal.
      rewrite firstn_all2; [reflexivity|]. rewrite skipn_length. unfold zlen in *. nia.
Qed.

Theorem get_piece_is_iter_piece d fs L i h h' :
  allpos fs -> NoDup fs -> intact d fs -> 0 < L -> 0 <= i -> i * L < total_size fs ->
  exists items,
    iter_pieces d h' fs L = Ok items /\
    exists it, nth_error items (Z.to_nat i) = Some it /\ res_map Some (fst (get_piece d h fs L i)) = Ok (piece_of it).
Proof.
  intros Hp Hnd Hint HL Hi Hlt.
  destruct (iter_pieces_intact d L HL fs h' Hint) as (items & E & Hpieces & _).
  exists items. split; [exact E|].
  rewrite (get_piece_intact d fs L i h Hp Hnd Hint HL Hi Hlt). cbn [res_map].
  pose proof (stream_len d fs Hint) as Hlen.
  pose proof (chunks_nth L (stream_of d fs) i HL Hi ltac:(lia)) as Hn.
  assert (nth_error (map piece_of items) (Z.to_nat i) = Some (Some (firstn (Z.to_nat L) (skipn (Z.to_nat (i * L)) (stream_of d fs))))) as Hm.
  { rewrite Hpieces, nth_error_map, Hn. reflexivity. }
  rewrite nth_error_map in Hm. destruct (nth_error items (Z.to_nat i)) as [it|]; [|discriminate].
  exists it. split; [reflexivity|]. cbn [option_map] in Hm. injection Hm as Hm. rewrite Hm. reflexivity.
Qed.
