(* VerifyFilesizeAgree.v -- C20, end to end inside Coq: whenever full content verification returns True on a path, the
   quick size check returns True on it too.  Three models are composed: the piece reader (model/Stream.v: what
   verify() reads), the threaded pipeline (model/Pipeline.v: what verify() does with it, under any schedule) and the
   size check (model/Filesize.v). *)
From Coq Require Import Lia ZifyBool Permutation.
From Torf Require Import Base Extracted Geometry Stream GeometryProofs IterProofs IterDamage Filesize FilesizeProofs FilesizeAgree
  Pipeline PipelineProofs Tree OrderProofs FlowProofs VerifyTrueProofs.
Open Scope Z_scope.

(* ---- the pipeline: a verification that returns True has met only readable pieces ---- *)
Definition is_rpiece (r : rev) : bool := match r with RPiece _ => true | _ => false end.

Theorem verify_true_means_all_pieces c s expd :
  reach c s -> cf_verify c = Some expd -> Pipeline.zlen (yielded (cf_items c)) = Pipeline.zlen expd ->
  s_result s = Some ResTrue -> forallb is_rpiece (yielded (cf_items c)) = true.
Proof.
  intros Hr Hv Hlen Hres. pose proof (flow_invariant c s Hr) as Hf.
  destruct (verify_result_invariant c s Hr) as [_ Hsorted]. specialize (Hsorted Hres expd Hv).
  set (Y := yielded (cf_items c)) in *.
  assert (Hh : length (s_hashes s) = length Y).
  { rewrite <- Hsorted in Hlen. rewrite sorted_hashes_isort in Hlen. unfold Pipeline.zlen in Hlen. rewrite map_length in Hlen.
    rewrite (Permutation_length (isort_perm (fun p : Z * Z => p) pair_ltb (s_hashes s))) in Hlen. lia. }
  pose proof (fi_hashes c s Hf) as Hhs. rewrite Forall_forall in Hhs. fold Y in Hhs.
  pose proof (fi_bound c s Hf) as Hb. rewrite Forall_forall in Hb.
  (* the hashed indexes are pairwise distinct naturals below |Y|, and there are |Y| of them: all of 0..|Y|-1 *)
  set (I := map (fun p => Z.to_nat (fst p)) (s_hashes s)).
  assert (Hnat : forall p, In p (s_hashes s) -> 0 <= fst p /\ exists x, nth_error Y (Z.to_nat (fst p)) = Some (RPiece x)).
  { intros p Hp. destruct (Hhs p Hp) as [Hseen Hn]. split; [|exists (snd p); exact Hn].
    assert (0 <= fst p < s_ridx s) by (apply Hb; unfold indices; apply in_or_app; right; exact Hseen). lia. }
  assert (HndI : NoDup I).
  { unfold I. pose proof (fi_hnodup c s Hf) as Hnd. clear - Hnd Hnat. induction (s_hashes s) as [|p l IH]; [constructor|].
    cbn [map] in *. inversion Hnd as [|? ? Hni Hnd']; subst. constructor.
    - intros Hin. apply Hni. apply in_map_iff in Hin as (q & Eq & Hq). apply in_map_iff. exists q. split; [|exact Hq].
      destruct (Hnat p ltac:(left; reflexivity)) as [Hp _]. destruct (Hnat q ltac:(right; exact Hq)) as [Hq0 _]. lia.
    - apply IH; [|exact Hnd']. intros q Hq. apply Hnat. right. exact Hq. }
  assert (Hincl : incl I (seq 0 (length Y))).
  { intros i Hi. unfold I in Hi. apply in_map_iff in Hi as (p & <- & Hp). destruct (Hnat p Hp) as [_ [x Hx]].
    apply in_seq. split; [lia|]. cbn. apply nth_error_Some. rewrite Hx. discriminate. }
  assert (Hall : incl (seq 0 (length Y)) I).
  { apply (NoDup_length_incl HndI); [|exact Hincl]. unfold I. rewrite map_length, seq_length. lia. }
  apply forallb_forall. intros r Hin. apply In_nth_error in Hin as [i Hi].
  assert (Hi' : In i I) by (apply Hall; apply in_seq; split; [lia|]; cbn; apply nth_error_Some; rewrite Hi; discriminate).
  unfold I in Hi'. apply in_map_iff in Hi' as (p & <- & Hp). destruct (Hnat p Hp) as [_ [x Hx]]. rewrite Hx in Hi. injection Hi as <-. reflexivity.
Qed.

(* ---- from the reader's items to the events the pipeline sees ---- *)
Section Compose.
Variable H : bytes -> Z.            (* the (abstract) piece hash *)
Variable code : xitem -> Z.         (* the exception a read / size error stands for *)

Definition rev_of_item (it : item) : rev :=
  match excs_of it, piece_of it with
  | [], Some b => RPiece (H b)
  | [], None => RNone
  | e :: es, _ => RExc (map code (e :: es))
  end.

Lemma yielded_revs items : yielded (map rev_of_item items) = map rev_of_item items.
Proof.
  unfold yielded. induction items as [|it l IH]; [reflexivity|]. cbn [map filter].
  assert (is_item (rev_of_item it) = true) as -> by (unfold rev_of_item; destruct (excs_of it); [destruct (piece_of it)|]; reflexivity).
  rewrite IH. reflexivity.
Qed.

Lemma all_pieces_no_excs items : forallb is_rpiece (map rev_of_item items) = true -> flat_map excs_of items = [].
Proof.
  induction items as [|it l IH]; [reflexivity|]. cbn [map forallb flat_map]. intros Hb. apply andb_true_iff in Hb as [H1 H2].
  rewrite (IH H2), app_nil_r. unfold rev_of_item in H1. destruct (excs_of it); [reflexivity|discriminate H1].
Qed.

(* Whenever full verification of the content at a path returns True -- the reader's items fed through the
   pipeline under ANY schedule, with any number of hashers -- the size check of that path returns True. *)
Theorem verify_true_implies_filesize_true d L fs h items c s expd :
  0 < L -> allpos fs -> NoDup fs ->
  iter_pieces d h fs L = Ok items ->
  cf_items c = map rev_of_item items -> cf_verify c = Some expd -> Pipeline.zlen expd = Pipeline.zlen items ->
  reach c s -> s_result s = Some ResTrue ->
  fst (verify_filesize None false (map fsize fs) (map (fstate_of d) fs)) = FRet true /\
  fst (verify_filesize (Some 0) false (map fsize fs) (map (fstate_of d) fs)) = FRet true.
Proof.
  intros HL Hpos Hnd Eit Hitems Hv Hlen Hr Hres.
  assert (HY : yielded (cf_items c) = map rev_of_item items) by (rewrite Hitems; apply yielded_revs).
  pose proof (verify_true_means_all_pieces c s expd Hr Hv ltac:(rewrite HY; unfold Pipeline.zlen in *; rewrite map_length; lia) Hres) as Hall.
  rewrite HY in Hall. apply all_pieces_no_excs in Hall.
  exact (filesize_agrees_with_full_read d L fs h items HL Hpos Hnd Eit Hall).
Qed.
End Compose.
