(* OrderProofs.v -- lexicographic orders are strict total orders; an insertion
   sort by a strict total order on duplicate-free keys yields the same list for
   every permutation of its input. *)
From Coq Require Import Lia ZifyBool Permutation.
From Torf Require Import Base Tree.
Open Scope Z_scope.

Section Lex.
  Context {A : Type} (ltb eqb : A -> A -> bool).
  Hypothesis eqb_eq : forall a b, eqb a b = true <-> a = b.
  Hypothesis ltb_irrefl : forall a, ltb a a = false.
  Hypothesis ltb_trans : forall a b c, ltb a b = true -> ltb b c = true -> ltb a c = true.
  Hypothesis ltb_total : forall a b, ltb a b = false -> ltb b a = false -> a = b.

  Lemma eqb_refl a : eqb a a = true.
  Proof using eqb_eq. apply eqb_eq. reflexivity. Qed.

  Lemma leqb_eq (a b : list A) : leqb eqb a b = true <-> a = b.
  Proof using eqb_eq.
    revert b. induction a as [|x a IH]; intros [|y b]; cbn [leqb].
    - split; reflexivity.
    - split; discriminate.
    - split; discriminate.
    - rewrite andb_true_iff, eqb_eq, IH. split; [intros [-> ->]; reflexivity | intros E; injection E as -> ->; split; reflexivity].
  Qed.

  Lemma lex_irrefl (a : list A) : lex_ltb ltb eqb a a = false.
  Proof using eqb_eq ltb_irrefl. induction a as [|x a IH]; cbn [lex_ltb]; [reflexivity|]. rewrite ltb_irrefl, eqb_refl. exact IH. Qed.

  Lemma lex_trans (a b c : list A) :
    lex_ltb ltb eqb a b = true -> lex_ltb ltb eqb b c = true -> lex_ltb ltb eqb a c = true.
  Proof using eqb_eq ltb_trans.
    revert b c. induction a as [|x a IH]; intros [|y b] [|z c]; cbn [lex_ltb]; try discriminate; try reflexivity.
    destruct (ltb x y) eqn:Hxy.
    - intros _. destruct (ltb y z) eqn:Hyz.
      + intros _. rewrite (ltb_trans _ _ _ Hxy Hyz). reflexivity.
      + destruct (eqb y z) eqn:Eyz; [|discriminate]. apply eqb_eq in Eyz. subst z. intros _. rewrite Hxy. reflexivity.
    - destruct (eqb x y) eqn:Exy; [|discriminate]. apply eqb_eq in Exy. subst y. intros Hab.
      destruct (ltb x z) eqn:Hxz; [reflexivity|]. destruct (eqb x z) eqn:Exz; [|discriminate].
      intros Hbc. exact (IH _ _ Hab Hbc).
  Qed.

  Lemma lex_total (a b : list A) :
    lex_ltb ltb eqb a b = false -> lex_ltb ltb eqb b a = false -> a = b.
  Proof using eqb_eq ltb_total.
    revert b. induction a as [|x a IH]; intros [|y b]; cbn [lex_ltb]; try discriminate; [reflexivity|].
    destruct (ltb x y) eqn:Hxy; [discriminate|]. destruct (ltb y x) eqn:Hyx; [intros _; discriminate|].
    pose proof (ltb_total _ _ Hxy Hyx) as ->. rewrite eqb_refl. intros H1 H2. f_equal. exact (IH _ H1 H2).
  Qed.

  Lemma lex_app_prefix (p a b : list A) : lex_ltb ltb eqb (p ++ a) (p ++ b) = lex_ltb ltb eqb a b.
  Proof using eqb_eq ltb_irrefl. induction p as [|x p IH]; cbn [app lex_ltb]; [reflexivity|]. rewrite ltb_irrefl, eqb_refl. exact IH. Qed.
End Lex.

Lemma Zltb_total a b : (a <? b) = false -> (b <? a) = false -> a = b.
Proof. lia. Qed.
Lemma Zltb_trans a b c : (a <? b) = true -> (b <? c) = true -> (a <? c) = true.
Proof. lia. Qed.

Lemma str_eqb_eq a b : str_eqb a b = true <-> a = b.
Proof. apply leqb_eq. exact Z.eqb_eq. Qed.
Lemma str_eqb_refl a : str_eqb a a = true.
Proof. apply str_eqb_eq. reflexivity. Qed.
Lemma str_ltb_irrefl a : str_ltb a a = false.
Proof. apply lex_irrefl; [exact Z.eqb_eq | exact Z.ltb_irrefl]. Qed.
Lemma str_ltb_trans a b c : str_ltb a b = true -> str_ltb b c = true -> str_ltb a c = true.
Proof. apply lex_trans; [exact Z.eqb_eq | exact Zltb_trans]. Qed.
Lemma str_ltb_total a b : str_ltb a b = false -> str_ltb b a = false -> a = b.
Proof. apply lex_total; [exact Z.eqb_eq | exact Zltb_total]. Qed.

Lemma path_eqb_eq a b : path_eqb a b = true <-> a = b.
Proof. apply leqb_eq. exact str_eqb_eq. Qed.
Lemma path_eqb_refl a : path_eqb a a = true.
Proof. apply path_eqb_eq. reflexivity. Qed.
Lemma path_ltb_irrefl a : path_ltb a a = false.
Proof. apply lex_irrefl; [exact str_eqb_eq | exact str_ltb_irrefl]. Qed.
Lemma path_ltb_trans a b c : path_ltb a b = true -> path_ltb b c = true -> path_ltb a c = true.
Proof. apply lex_trans; [exact str_eqb_eq | exact str_ltb_trans]. Qed.
Lemma path_ltb_total a b : path_ltb a b = false -> path_ltb b a = false -> a = b.
Proof. apply lex_total; [exact str_eqb_eq | exact str_ltb_total]. Qed.
Lemma path_ltb_app_prefix p a b : path_ltb (p ++ a) (p ++ b) = path_ltb a b.
Proof. apply lex_app_prefix; [exact str_eqb_eq | exact str_ltb_irrefl]. Qed.

(* ---- insertion sort by key ---- *)
Section Sort.
  Context {T K : Type} (key : T -> K) (ltb : K -> K -> bool).
  Hypothesis ltb_irrefl : forall a, ltb a a = false.
  Hypothesis ltb_trans : forall a b c, ltb a b = true -> ltb b c = true -> ltb a c = true.
  Hypothesis ltb_total : forall a b, ltb a b = false -> ltb b a = false -> a = b.

  Fixpoint ins (e : T) (l : list T) : list T :=
    match l with
    | [] => [e]
    | x :: r => if ltb (key x) (key e) then x :: ins e r else e :: l
    end.
  Definition isort (l : list T) : list T := fold_right ins [] l.

  Inductive ssorted : list T -> Prop :=
  | ss_nil : ssorted []
  | ss_cons x l : (forall y, In y l -> ltb (key x) (key y) = true) -> ssorted l -> ssorted (x :: l).

  Lemma ins_perm e l : Permutation (ins e l) (e :: l).
  Proof.
    induction l as [|x r IH]; cbn [ins]; [reflexivity|]. destruct (ltb (key x) (key e)); [|reflexivity].
    rewrite IH. apply perm_swap.
  Qed.

  Lemma isort_perm l : Permutation (isort l) l.
  Proof. induction l as [|x r IH]; cbn [isort fold_right]; [reflexivity|]. fold (isort r). rewrite ins_perm. constructor. exact IH. Qed.

  Lemma ins_sorted e l : ssorted l -> (forall y, In y l -> key y <> key e) -> ssorted (ins e l).
  Proof.
    induction 1 as [|x l Hx Hs IH]; intros Hne; cbn [ins].
    - constructor; [intros y []|constructor].
    - destruct (ltb (key x) (key e)) eqn:Hxe.
      + constructor.
        * intros y Hy. apply (Permutation_in _ (ins_perm e l)) in Hy. destruct Hy as [<-|Hy]; [exact Hxe|apply Hx; exact Hy].
        * apply IH. intros y Hy. apply Hne. right. exact Hy.
      + assert (Hex : ltb (key e) (key x) = true).
        { destruct (ltb (key e) (key x)) eqn:H2; [reflexivity|]. exfalso. apply (Hne x); [left; reflexivity|]. apply ltb_total; assumption. }
        constructor; [|constructor; assumption].
        intros y [<-|Hy]; [exact Hex|]. apply (ltb_trans _ _ _ Hex). apply Hx. exact Hy.
  Qed.

  Lemma isort_sorted l : NoDup (map key l) -> ssorted (isort l).
  Proof.
    induction l as [|x r IH]; cbn [isort fold_right map]; intros Hnd; [constructor|]. fold (isort r).
    inversion Hnd as [|k ks Hnin Hnd']; subst. apply ins_sorted; [apply IH; exact Hnd'|].
    intros y Hy E. apply Hnin. rewrite <- E. apply in_map. apply (Permutation_in _ (isort_perm r)). exact Hy.
  Qed.

  Lemma ssorted_unique l1 l2 :
    ssorted l1 -> ssorted l2 -> (forall x, In x l1 <-> In x l2) -> l1 = l2.
  Proof.
    intros H1. revert l2. induction H1 as [|x l Hx Hs IH]; intros l2 H2 Hiff.
    - destruct l2 as [|y r]; [reflexivity|]. exfalso. apply (proj2 (Hiff y)). left. reflexivity.
    - destruct H2 as [|y r Hy Hr]; [exfalso; apply (proj1 (Hiff x)); left; reflexivity|].
      assert (x = y) as ->.
      { destruct (proj1 (Hiff x) (or_introl eq_refl)) as [E|Hxr]; [symmetry; exact E|].
        destruct (proj2 (Hiff y) (or_introl eq_refl)) as [E|Hyl]; [exact E|].
        exfalso. pose proof (ltb_trans _ _ _ (Hx _ Hyl) (Hy _ Hxr)) as C. rewrite ltb_irrefl in C. discriminate. }
      f_equal. apply IH; [exact Hr|]. intros z. split; intros Hz.
      + destruct (proj1 (Hiff z) (or_intror Hz)) as [E|Hz']; [|exact Hz'].
        exfalso. subst z. pose proof (Hx _ Hz) as C. rewrite ltb_irrefl in C. discriminate.
      + destruct (proj2 (Hiff z) (or_intror Hz)) as [E|Hz']; [|exact Hz'].
        exfalso. subst z. pose proof (Hy _ Hz) as C. rewrite ltb_irrefl in C. discriminate.
  Qed.

  Theorem isort_perm_invariant l1 l2 :
    Permutation l1 l2 -> NoDup (map key l1) -> isort l1 = isort l2.
  Proof.
    intros Hp Hnd. apply ssorted_unique.
    - apply isort_sorted. exact Hnd.
    - apply isort_sorted. apply (Permutation_NoDup (Permutation_map key Hp)). exact Hnd.
    - intros x. split; intros Hx.
      + apply (Permutation_in _ (Permutation_sym (isort_perm l2))). apply (Permutation_in _ Hp). apply (Permutation_in _ (isort_perm l1)). exact Hx.
      + apply (Permutation_in _ (Permutation_sym (isort_perm l1))). apply (Permutation_in _ (Permutation_sym Hp)). apply (Permutation_in _ (isort_perm l2)). exact Hx.
  Qed.
End Sort.
