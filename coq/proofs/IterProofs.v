(* IterProofs.v -- C01 (reader part): on intact content iter_pieces yields
   exactly the L-sized chunks of the concatenated files, without exceptions,
   for every layout and every initial handle table. *)
From Coq Require Import Lia ZifyBool.
From Torf Require Import Base Extracted Geometry Stream GeometryProofs ChunkProofs.
Open Scope Z_scope.

Definition content_of (d : disk) (f : file) : bytes :=
  match disk_get d (fid f) with Some c => c | None => [] end.

(* every listed file exists with exactly the recorded size *)
Definition intact (d : disk) (fs : list file) : Prop :=
  Forall (fun f => exists c, disk_get d (fid f) = Some c /\ zlen c = fsize f) fs.

Definition stream_of (d : disk) (fs : list file) : bytes := concat (map (content_of d) fs).

Definition piece_of (it : item) : option bytes := fst (fst it).
Definition excs_of (it : item) : list xitem := snd it.

Lemma get_open_file_present d h id c :
  disk_get d id = Some c -> exists h', get_open_file d h id = (Ok tt, h').
Proof.
  intros Hc. unfold get_open_file. destruct (zmem id h); [eexists; reflexivity|].
  rewrite Hc. eexists; reflexivity.
Qed.

Section Iter.
Variables (d : disk) (L : Z).
Hypothesis HL : 0 < L.

Lemma iter_files_intact fs_all : forall todo st acc pre,
  intact d todo ->
  mp_bycatch (it_mp st) = [] -> it_skip st = 0 ->
  it_trailing st = rem L pre ->
  map piece_of (map fst acc) = map Some (fulls L pre) ->
  Forall (fun x => excs_of (fst x) = []) acc ->
  exists acc' st',
    iter_files d fs_all L todo st acc = Ok (acc', st') /\
    map piece_of (map fst acc') = map Some (fulls L (pre ++ stream_of d todo)) /\
    Forall (fun x => excs_of (fst x) = []) acc' /\
    it_trailing st' = rem L (pre ++ stream_of d todo).
Proof.
  induction todo as [|f r IH]; intros st acc pre Hin Hbc Hsk Htr Hacc Hex.
  - cbn [iter_files]. exists acc, st. unfold stream_of. cbn [map concat]. rewrite app_nil_r. auto.
  - inversion Hin as [|? ? (c & Hc & Hsz) Hr]; subst.
    cbn [iter_files]. rewrite Hbc. cbn [file_mem]. rewrite Hc.
    replace (negb (zlen c =? fsize f)) with false by lia.
    destruct (get_open_file_present d (it_h st) (fid f) c Hc) as [h' ->].
    rewrite Hsk. cbn [Z.to_nat skipn]. rewrite Htr.
    rewrite (pieces_from_handle_eq L HL) by (apply rem_lt; assumption).
    fold (fulls L (rem L pre ++ c)). fold (rem L (rem L pre ++ c)).
    set (st' := {| it_trailing := rem L (rem L pre ++ c); it_skip := 0; it_mp := it_mp st;
                   it_h := h'; it_lastfile := fid f |}).
    destruct (IH st' (acc ++ map (fun p => ((Some p, fid f, []), h')) (fulls L (rem L pre ++ c))) (pre ++ c))
      as (acc' & st'' & E & Hp & Hx & Ht); try assumption; try reflexivity.
    + cbn [it_trailing st']. symmetry. apply rem_app. exact HL.
    + rewrite !map_app, Hacc, !map_map. cbn [fst piece_of]. rewrite (fulls_app L HL pre c), map_app.
      reflexivity.
    + apply Forall_app. split; [exact Hex|]. apply Forall_forall. intros x Hx.
      apply in_map_iff in Hx as (p & <- & _). reflexivity.
    + exists acc', st''. split; [exact E|].
      assert (content_of d f = c) as Hcf by (unfold content_of; rewrite Hc; reflexivity).
      unfold stream_of in *. cbn [map concat]. rewrite Hcf.
      rewrite <- app_assoc in Hp, Ht. auto.
Qed.

Theorem iter_pieces_intact fs h :
  intact d fs ->
  exists items,
    iter_pieces d h fs L = Ok items /\
    map piece_of items = map Some (chunks L (stream_of d fs)) /\
    Forall (fun it => excs_of it = []) items.
Proof.
  intros Hin. unfold iter_pieces, iter_pieces_snap.
  replace (L <=? 0) with false by lia.
  set (st0 := {| it_trailing := []; it_skip := 0; it_mp := {| mp_seen := []; mp_bycatch := [] |};
                 it_h := h; it_lastfile := 0 |}).
  destruct (iter_files_intact fs fs st0 [] [] Hin) as (acc & st & E & Hp & Hx & Ht);
    try reflexivity; try constructor.
  rewrite E. cbn [bind res_map]. cbn [app] in Hp, Ht.
  rewrite (chunks_split L HL (stream_of d fs)). rewrite Ht.
  destruct (rem L (stream_of d fs)) as [|b t] eqn:Er.
  - eexists. split; [reflexivity|]. rewrite app_nil_r. split; [exact Hp|].
    apply Forall_forall. intros it Hit. apply in_map_iff in Hit as (x & <- & Hx').
    apply (proj1 (Forall_forall _ _) Hx x Hx').
  - eexists. split; [reflexivity|]. rewrite !map_app, Hp. cbn [map fst piece_of]. split; [reflexivity|].
    apply Forall_app. split.
    + apply Forall_forall. intros it Hit. apply in_map_iff in Hit as (x & <- & Hx').
      apply (proj1 (Forall_forall _ _) Hx x Hx').
    + repeat constructor.
Qed.

End Iter.
