(* UrlQuoteProofs.v -- C13: quoting is inverted by unquoting, and quoted text never
   contains the separators '&' and '='. *)
From Coq Require Import Lia ZifyBool.
From Torf Require Import Base Sexp UrlQuote.
Open Scope Z_scope.
Ltac Zify.zify_post_hook ::= Z.to_euclidean_division_equations.

Definition is_byte (c : N) : Prop := (c < 256)%N.

Lemma unhex_hexdig n : (n < 16)%N -> unhex_any (hexdig_upper n) = Some n.
Proof.
  intros H. unfold hexdig_upper, unhex_any.
  destruct (n <? 10)%N eqn:E.
  - replace ((48 <=? 48 + n) && (48 + n <=? 57))%N with true by lia. f_equal. lia.
  - replace ((48 <=? 55 + n) && (55 + n <=? 57))%N with false by lia.
    replace ((97 <=? 55 + n) && (55 + n <=? 102))%N with false by lia.
    replace ((65 <=? 55 + n) && (55 + n <=? 70))%N with true by lia. f_equal. lia.
Qed.

Lemma unreserved_not_special c : is_unreserved c = true -> (c =? 43)%N = false /\ (c =? 37)%N = false /\ c <> 38%N /\ c <> 61%N.
Proof. unfold is_unreserved. intros H. repeat split; lia. Qed.

Lemma hexdig_not_sep n : (n < 16)%N -> hexdig_upper n <> 38%N /\ hexdig_upper n <> 61%N.
Proof. intros H. unfold hexdig_upper. destruct (n <? 10)%N eqn:E; split; lia. Qed.

Theorem unquote_quote b : Forall is_byte b ->
  forall fuel, (length (quote_plus b) < fuel)%nat -> unquote_plus_fuel fuel (quote_plus b) = b.
Proof.
  induction 1 as [|c r Hc Hr IH]; intros fuel Hf; [destruct fuel; reflexivity|].
  cbn [quote_plus] in *. unfold is_byte in Hc.
  destruct (is_unreserved c) eqn:Eu.
  - destruct (unreserved_not_special c Eu) as (E1 & E2 & _).
    destruct fuel as [|fuel]; [cbn in Hf; lia|]. cbn [unquote_plus_fuel]. rewrite E1, E2. f_equal.
    apply IH. cbn [length] in Hf. lia.
  - destruct (c =? 32)%N eqn:Es.
    + apply N.eqb_eq in Es. subst c.
      destruct fuel as [|fuel]; [cbn in Hf; lia|]. cbn [unquote_plus_fuel]. rewrite N.eqb_refl.
      f_equal. apply IH. cbn [length] in Hf. lia.
    + destruct fuel as [|fuel]; [cbn in Hf; lia|]. cbn [unquote_plus_fuel].
      replace (37 =? 43)%N with false by reflexivity. rewrite N.eqb_refl.
      rewrite !unhex_hexdig by lia. f_equal; [lia|]. apply IH. cbn [length] in Hf. lia.
Qed.

Theorem unquote_plus_quote_plus b : Forall is_byte b -> unquote_plus (quote_plus b) = b.
Proof. intros H. unfold unquote_plus. apply unquote_quote; [exact H|lia]. Qed.

(* quoted text contains neither '&' nor '=' : fields and key/value pairs split unambiguously *)
Theorem quote_plus_no_separators b : Forall is_byte b -> ~ In 38%N (quote_plus b) /\ ~ In 61%N (quote_plus b).
Proof.
  induction 1 as [|c r Hc Hr [IH1 IH2]]; [split; intros []|].
  cbn [quote_plus]. unfold is_byte in Hc.
  destruct (is_unreserved c) eqn:Eu.
  - destruct (unreserved_not_special c Eu) as (_ & _ & N1 & N2). split; intros [E|E]; try contradiction; congruence.
  - destruct (c =? 32)%N.
    + split; intros [E|E]; try contradiction; discriminate.
    + destruct (hexdig_not_sep (c / 16)%N ltac:(lia)) as [A1 A2]. destruct (hexdig_not_sep (c mod 16)%N ltac:(lia)) as [B1 B2].
      split; intros [E|[E|[E|E]]]; try contradiction; try discriminate; congruence.
Qed.
