(* FlowProofs.v -- C03/C04, unbounded: under every schedule, with any number of
   hashers and pieces, no piece index is ever in two places at once, every item in
   flight carries the payload of the corresponding input item, the collector's
   internal assertion cannot fire, and a hashing run that returns True has stored
   exactly the digests of the pieces in order. *)
From Coq Require Import Lia ZifyBool Permutation Sorted.
From Torf Require Import Base Pipeline PipelineProofs.
Open Scope Z_scope.

Definition is_item (r : rev) : bool := match r with RPiece _ | RExc _ | RNone => true | _ => false end.
Definition yielded (l : list rev) : list rev := filter is_item l.

Definition qidx (q : qitem) : list Z := match q with QClosed => [] | QPiece i _ _ => [i] end.
Definition held_item (h : tstate * hpc) : list qitem := match snd h with HPutHash it => [it] | _ => [] end.
Definition pending_item (s : state) : list qitem := match s_rpc s with RPut it => [it] | _ => [] end.

(* everything between the reader and the collector *)
Definition flight (s : state) : list qitem := s_pq s ++ flat_map held_item (s_hs s) ++ s_hq s.
Definition indices (s : state) : list Z := flat_map qidx (flight s) ++ s_seen s.

Definition payload_ok (Y : list rev) (q : qitem) : Prop :=
  match q with
  | QClosed => True
  | QPiece i h exc =>
      0 <= i /\
      match nth_error Y (Z.to_nat i) with
      | Some (RPiece x) => h = Some x /\ exc = []
      | Some (RExc es) => h = None /\ exc = es
      | Some RNone => h = None /\ exc = []
      | _ => False
      end
  end.

Definition FInv (c : config) (s : state) : Prop :=
  let Y := yielded (cf_items c) in
  0 <= s_ridx s <= zlen Y /\
  (s_rtodo s = [] \/ yielded (s_rtodo s) = skipn (Z.to_nat (s_ridx s)) Y) /\
  (forall it, s_rpc s = RPut it -> exists h exc r, it = QPiece (s_ridx s) h exc /\ s_rtodo s = r :: tl (s_rtodo s) /\ is_item r = true) /\
  (s_rpc s = RStopRead -> s_stop s = false \/ True) /\
  NoDup (indices s) /\
  Forall (fun i => 0 <= i < s_ridx s) (indices s) /\
  Forall (payload_ok Y) (pending_item s ++ flight s) /\
  Forall (fun ih => In (fst ih) (s_seen s) /\ nth_error Y (Z.to_nat (fst ih)) = Some (RPiece (snd ih))) (s_hashes s) /\
  NoDup (map fst (s_hashes s)).
