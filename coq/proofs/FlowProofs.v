(* FlowProofs.v -- C03/C04, unbounded: under every schedule, with any number of
   hashers and pieces, no piece index is ever in two places at once, every item in
   flight carries the payload of the corresponding input item, the collector's
   internal assertion cannot fire, and a hashing run that returns True has stored
   exactly the digests of the pieces in order. *)
From Coq Require Import Lia ZifyBool Permutation Sorted.
From Torf Require Import Base Pipeline PipelineProofs.
Open Scope Z_scope.

Definition is_item (r : rev) : bool := match r with RPiece _ | RExc _ | RNone => true | _ => false end.
Definition yielded (l : list rev) : list rev := filter is_item l.

Definition qidx (q : qitem) : list Z := match q with QClosed => [] | QPiece i _ _ => [i] end.
Definition held_item (h : tstate * hpc) : list qitem := match snd h with HPutHash it => [it] | _ => [] end.

(* everything between the reader and the collector *)
Definition flight (s : state) : list qitem := s_pq s ++ flat_map held_item (s_hs s) ++ s_hq s.
Definition indices (s : state) : list Z := flat_map qidx (flight s) ++ s_seen s.

Definition payload_ok (Y : list rev) (q : qitem) : Prop :=
  match q with
  | QClosed => True
  | QPiece i h exc =>
      0 <= i /\
      match nth_error Y (Z.to_nat i) with
      | Some (RPiece x) => h = Some x /\ exc = []
      | Some (RExc es) => h = None /\ exc = es
      | Some RNone => h = None /\ exc = []
      | _ => False
      end
  end.

Record FInv (c : config) (s : state) : Prop := {
  fi_ridx : 0 <= s_ridx s <= zlen (yielded (cf_items c));
  fi_todo : s_rtodo s = [] \/ yielded (s_rtodo s) = skipn (Z.to_nat (s_ridx s)) (yielded (cf_items c));
  fi_head : s_rst s = TRunning -> s_rpc s = RStopRead -> exists r rest, s_rtodo s = r :: rest /\ is_item r = true;
  fi_put : forall it, s_rpc s = RPut it ->
           exists r rest h exc, s_rtodo s = r :: rest /\ is_item r = true /\ it = QPiece (s_ridx s) h exc /\ payload_ok (yielded (cf_items c)) it;
  fi_clock : s_rpc s = RClock -> exists rest, s_rtodo s = ROom :: rest;
  fi_new : s_rst s = TNew -> s_ridx s = 0 /\ s_rtodo s = cf_items c;
  fi_start : forall t, s_mpc s = MAlive t \/ s_mpc s = MStart t -> 1 <= t /\ (t = 1 -> s_rst s = TNew);
  fi_nodup : NoDup (indices s);
  fi_bound : Forall (fun i => 0 <= i < s_ridx s) (indices s);
  fi_payload : Forall (payload_ok (yielded (cf_items c))) (flight s);
  fi_hashes : Forall (fun ih => In (fst ih) (s_seen s) /\ nth_error (yielded (cf_items c)) (Z.to_nat (fst ih)) = Some (RPiece (snd ih))) (s_hashes s);
  fi_hnodup : NoDup (map fst (s_hashes s))
}.

(* ---- list facts ---- *)
Lemma skipn_cons_nth {X} (l : list X) : forall n x t, skipn n l = x :: t -> nth_error l n = Some x /\ skipn (S n) l = t /\ (n < length l)%nat.
Proof.
  induction l as [|y l IH]; intros n x t H; [destruct n; discriminate H|].
  destruct n as [|n]; cbn [skipn] in H.
  - injection H as -> ->. cbn. repeat split; lia.
  - destruct (IH n x t H) as (A & B & C). cbn [nth_error skipn length]. repeat split; [exact A|exact B|lia].
Qed.

Lemma yielded_cons r t : yielded (r :: t) = if is_item r then r :: yielded t else yielded t.
Proof. reflexivity. Qed.

Lemma flat_map_set_nth {X Y} (f : X -> list Y) (l : list X) : forall i x old,
  nth_error l i = Some old -> f old = [] ->
  Permutation (flat_map f (set_nth l i x)) (f x ++ flat_map f l).
Proof.
  induction l as [|y l IH]; intros i x old Hn Ho; [destruct i; discriminate Hn|].
  destruct i as [|i]; cbn [nth_error] in Hn.
  - injection Hn as ->. cbn [set_nth flat_map]. rewrite Ho. reflexivity.
  - cbn [set_nth flat_map]. rewrite (IH i x old Hn Ho). rewrite !app_assoc. apply Permutation_app_tail. apply Permutation_app_comm.
Qed.

Lemma flat_map_set_nth_remove {X Y} (f : X -> list Y) (l : list X) : forall i x old,
  nth_error l i = Some old -> f x = [] ->
  Permutation (f old ++ flat_map f (set_nth l i x)) (flat_map f l).
Proof.
  induction l as [|y l IH]; intros i x old Hn Hx; [destruct i; discriminate Hn|].
  destruct i as [|i]; cbn [nth_error] in Hn.
  - injection Hn as ->. cbn [set_nth flat_map]. rewrite Hx. reflexivity.
  - cbn [set_nth flat_map]. rewrite <- (IH i x old Hn Hx). rewrite !app_assoc. apply Permutation_app_tail. apply Permutation_app_comm.
Qed.

Lemma flat_map_set_nth_same {X Y} (f : X -> list Y) (l : list X) : forall i x old,
  nth_error l i = Some old -> f x = f old -> flat_map f (set_nth l i x) = flat_map f l.
Proof.
  induction l as [|y l IH]; intros i x old Hn Hx; [destruct i; discriminate Hn|].
  destruct i as [|i]; cbn [nth_error] in Hn.
  - injection Hn as ->. cbn [set_nth flat_map]. rewrite Hx. reflexivity.
  - cbn [set_nth flat_map]. rewrite (IH i x old Hn Hx). reflexivity.
Qed.

(* ---- the invariant is a property of a view of the state ---- *)
Definition fview (s : state) :=
  (s_ridx s, s_rtodo s, s_rst s, s_rpc s, s_pq s, flat_map held_item (s_hs s), s_hq s, s_seen s, s_hashes s, s_mpc s).

Lemma FInv_of_fview c s s' : fview s' = fview s -> FInv c s -> FInv c s'.
Proof.
  unfold fview. intros E Hinv. injection E as E1 E2 E3 E4 E5 E6 E7 E8 E9 E10.
  assert (Ef : flight s' = flight s) by (unfold flight; rewrite E5, E6, E7; reflexivity).
  assert (Ei : indices s' = indices s) by (unfold indices; rewrite Ef, E8; reflexivity).
  destruct Hinv. constructor; rewrite ?E1, ?E2, ?E3, ?E4, ?Ei, ?Ef, ?E8, ?E9, ?E10; assumption.
Qed.

Lemma FInv_init c : FInv c (init c).
Proof.
  constructor; cbn.
  - unfold zlen. lia.
  - right. reflexivity.
  - discriminate.
  - discriminate.
  - discriminate.
  - intros _. split; reflexivity.
  - intros t [E|E]; [injection E as <-; split; [lia|reflexivity]|discriminate E].
  - unfold indices, flight. cbn. replace (flat_map held_item (map (fun _ : nat => (TNew, HGet)) (seq 0 (cf_hashers c)))) with (@nil qitem).
    + constructor.
    + induction (seq 0 (cf_hashers c)); [reflexivity|cbn; assumption].
  - unfold indices, flight. cbn. replace (flat_map held_item (map (fun _ : nat => (TNew, HGet)) (seq 0 (cf_hashers c)))) with (@nil qitem).
    + constructor.
    + induction (seq 0 (cf_hashers c)); [reflexivity|cbn; assumption].
  - unfold flight. cbn. replace (flat_map held_item (map (fun _ : nat => (TNew, HGet)) (seq 0 (cf_hashers c)))) with (@nil qitem).
    + constructor.
    + induction (seq 0 (cf_hashers c)); [reflexivity|cbn; assumption].
  - constructor.
  - constructor.
Qed.

(* ---- generic preservation: the reader, the collected pieces and the hashes are untouched and
        the items in flight are rearranged (possibly some vanish, possibly markers are added) ---- *)
Lemma NoDup_app_r {X} (a b : list X) : NoDup (a ++ b) -> NoDup b.
Proof. induction a as [|x a IH]; cbn; [auto|]. intros H. inversion H; subst. apply IH. assumption. Qed.

Lemma FInv_flight c s s' extra :
  FInv c s ->
  s_ridx s' = s_ridx s -> s_rtodo s' = s_rtodo s -> s_rst s' = s_rst s -> s_rpc s' = s_rpc s ->
  s_seen s' = s_seen s -> s_hashes s' = s_hashes s -> s_mpc s' = s_mpc s ->
  Permutation (extra ++ flat_map qidx (flight s')) (flat_map qidx (flight s)) ->
  Forall (payload_ok (yielded (cf_items c))) (flight s') ->
  FInv c s'.
Proof.
  intros Hinv E1 E2 E3 E4 E5 E6 E7 Hp Hpay.
  assert (Hperm : Permutation (extra ++ indices s') (indices s)).
  { unfold indices. rewrite E5, app_assoc. apply Permutation_app_tail. exact Hp. }
  pose proof (fi_nodup c s Hinv) as F. pose proof (fi_bound c s Hinv) as G.
  destruct Hinv. constructor; rewrite ?E1, ?E2, ?E3, ?E4, ?E5, ?E6, ?E7; try assumption.
  - apply (NoDup_app_r extra). apply (Permutation_NoDup (Permutation_sym Hperm)). exact F.
  - apply (Permutation_Forall (Permutation_sym Hperm)) in G. apply Forall_app in G as [_ G]. exact G.
Qed.

Lemma qidx_app a b : flat_map qidx (a ++ b) = flat_map qidx a ++ flat_map qidx b.
Proof. apply flat_map_app. Qed.

(* ---- janitor ---- *)
Lemma step_janitor_FInv c s a : FInv c s -> FInv c (step_janitor s a).
Proof.
  intros Hinv. unfold step_janitor. destruct (s_jpc s) as [|[|t r]|[|t r]| |];
    try (apply (FInv_of_fview c s); [reflexivity|exact Hinv]).
  - destruct a; destruct (s_tracked s); apply (FInv_of_fview c s); try reflexivity; exact Hinv.
  - destruct (is_alive s t); [|destruct r]; apply (FInv_of_fview c s); try reflexivity; exact Hinv.
  - destruct r; apply (FInv_of_fview c s); try reflexivity; exact Hinv.
  - (* hash_queue.put(QUEUE_CLOSED) *)
    apply (FInv_flight c s _ [] Hinv); try reflexivity; cbn [upd_janitor set_hq flight s_pq s_hs s_hq app].
    + unfold flight. rewrite !qidx_app. cbn. rewrite app_nil_r. reflexivity.
    + pose proof (fi_payload c s Hinv) as Hp. unfold flight in *. rewrite !app_assoc. apply Forall_app. split; [rewrite <- app_assoc; exact Hp|repeat constructor].
Qed.

(* ---- hashers ---- *)
Lemma held_none_HGet st : held_item (st, HGet) = []. Proof. reflexivity. Qed.

Lemma step_hasher_FInv c s i a : FInv c s -> FInv c (step_hasher s i a).
Proof.
  intros Hinv. unfold step_hasher. destruct (nth_error (s_hs s) i) as [[[] pc]|] eqn:En; try exact Hinv.
  pose proof (fi_payload c s Hinv) as Hpay. unfold flight in Hpay.
  destruct pc.
  - (* piece_queue.get *)
    destruct a.
    + destruct (s_pq s) as [|[|idx h exc] r] eqn:Epq; [exact Hinv| |].
      * (* QUEUE_CLOSED *)
        apply (FInv_flight c s _ [] Hinv); try reflexivity; unfold upd_hasher, flight; cbn [set_hs set_pq s_pq s_hs s_hq app].
        -- rewrite Epq. rewrite (flat_map_set_nth_same held_item _ i _ (TRunning, HGet) En) by reflexivity. reflexivity.
        -- rewrite (flat_map_set_nth_same held_item _ i _ (TRunning, HGet) En) by reflexivity.
           inversion Hpay; assumption.
      * (* a piece: it moves from the queue into the hasher's hands *)
        inversion Hpay as [|x l Hx Hrest]; subst.
        set (out := match exc with _ :: _ => QPiece idx None exc | [] => QPiece idx h [] end).
        assert (Hout : out = QPiece idx h exc).
        { unfold out. pose proof Hx as Hx0. cbn [payload_ok] in Hx0. destruct Hx0 as [_ Hx0]. destruct (nth_error (yielded (cf_items c)) (Z.to_nat idx)) as [[]|]; try contradiction; destruct Hx0 as [-> ->]; try reflexivity; destruct es; reflexivity. }
        apply (FInv_flight c s _ [] Hinv); try reflexivity; unfold upd_hasher, flight; cbn [set_hs set_pq s_pq s_hs s_hq app].
        -- rewrite Epq. rewrite !qidx_app.
           rewrite (flat_map_set_nth held_item _ i (TRunning, HPutHash out) (TRunning, HGet) En) by reflexivity.
           cbn [held_item snd flat_map app qidx]. fold out. rewrite Hout. cbn [qidx app].
           apply Permutation_sym. apply Permutation_cons_app. reflexivity.
        -- apply Forall_app in Hrest as [Hr Hrest']. apply Forall_app. split; [exact Hr|].
           apply Forall_app in Hrest' as [Hh Hq]. apply Forall_app. split; [|exact Hq].
           apply (Permutation_Forall (Permutation_sym (flat_map_set_nth held_item _ i (TRunning, HPutHash out) (TRunning, HGet) En eq_refl))).
           cbn [held_item snd app]. fold out. constructor; [rewrite Hout; exact Hx|exact Hh].
    + (* timeout *)
      destruct (Nat.eqb i 0).
      * apply (FInv_of_fview c s); [reflexivity|exact Hinv].
      * apply (FInv_of_fview c s); [|exact Hinv]. unfold fview, upd_hasher. cbn [set_hs set_now s_ridx s_rtodo s_rst s_rpc s_pq s_hs s_hq s_seen s_hashes].
        rewrite (flat_map_set_nth_same held_item _ i _ (TRunning, HGet) En) by reflexivity. reflexivity.
  - (* hash_queue.put: the piece moves on *)
    apply (FInv_flight c s _ [] Hinv); try reflexivity; unfold upd_hasher, flight; cbn [set_hs set_hq s_pq s_hs s_hq app].
    + rewrite !qidx_app. apply Permutation_app_head.
      rewrite <- (flat_map_set_nth_remove held_item (s_hs s) i (TRunning, HGet) (TRunning, HPutHash it) En eq_refl).
      cbn [held_item snd]. rewrite !qidx_app. cbn [flat_map app]. rewrite app_nil_r.
      rewrite <- app_assoc. rewrite (app_assoc _ (flat_map qidx (s_hq s)) (qidx it)). apply Permutation_app_comm.
    + apply Forall_app in Hpay as [Hp Hrest]. apply Forall_app in Hrest as [Hh Hq].
      pose proof (Permutation_Forall (Permutation_sym (flat_map_set_nth_remove held_item (s_hs s) i (TRunning, HGet) (TRunning, HPutHash it) En eq_refl)) Hh) as Hh'.
      cbn [held_item snd app] in Hh'. inversion Hh' as [|x l Hit Hh'']; subst.
      apply Forall_app. split; [exact Hp|]. apply Forall_app. split; [exact Hh''|]. apply Forall_app. split; [exact Hq|repeat constructor; exact Hit].
  - (* piece_queue.put(QUEUE_CLOSED) *)
    apply (FInv_flight c s _ [] Hinv); try reflexivity; unfold upd_hasher, flight; cbn [set_hs set_pq s_pq s_hs s_hq app].
    + rewrite (flat_map_set_nth_same held_item _ i _ (TRunning, HRequeue) En) by reflexivity.
      rewrite !qidx_app. cbn [flat_map qidx app]. rewrite app_nil_r. reflexivity.
    + rewrite (flat_map_set_nth_same held_item _ i _ (TRunning, HRequeue) En) by reflexivity.
      apply Forall_app in Hpay as [Hp Hrest]. rewrite <- app_assoc. apply Forall_app. split; [exact Hp|]. constructor; [exact I|exact Hrest].
  - apply (FInv_of_fview c s); [|exact Hinv]. unfold fview, upd_hasher. cbn [set_hs set_final s_ridx s_rtodo s_rst s_rpc s_pq s_hs s_hq s_seen s_hashes].
    rewrite (flat_map_set_nth_same held_item _ i _ (TRunning, HSet) En) by reflexivity. reflexivity.
  - exact Hinv.
Qed.

(* ---- reader ---- *)
Lemma reader_next_fields s todo idx :
  let s' := reader_next s todo idx in
  s_ridx s' = idx /\ s_rst s' = TRunning /\ s_pq s' = s_pq s /\ s_hs s' = s_hs s /\ s_hq s' = s_hq s /\
  s_seen s' = s_seen s /\ s_hashes s' = s_hashes s /\
  (s_rtodo s' = [] \/ s_rtodo s' = todo) /\
  (s_rpc s' = RStopRead -> s_rtodo s' = todo /\ exists r rest, todo = r :: rest /\ is_item r = true) /\
  (s_rpc s' = RClock -> s_rtodo s' = todo /\ exists rest, todo = ROom :: rest) /\
  (forall it, s_rpc s' <> RPut it).
Proof.
  unfold reader_next. destruct todo as [|[h|es| | |e] rest]; cbn;
    repeat split; try reflexivity; try (right; reflexivity); try (left; reflexivity); try discriminate;
    try (intros _; eexists; eexists; split; reflexivity); try (intros _; eexists; reflexivity);
    try (eexists; eexists; split; reflexivity); try (eexists; reflexivity).
Qed.

Lemma yielded_skipn_head c s r rest :
  s_rtodo s = r :: rest -> is_item r = true ->
  (s_rtodo s = [] \/ yielded (s_rtodo s) = skipn (Z.to_nat (s_ridx s)) (yielded (cf_items c))) ->
  nth_error (yielded (cf_items c)) (Z.to_nat (s_ridx s)) = Some r /\
  yielded rest = skipn (S (Z.to_nat (s_ridx s))) (yielded (cf_items c)) /\
  (Z.to_nat (s_ridx s) < length (yielded (cf_items c)))%nat.
Proof.
  intros Et Hi [C|Hy]; [rewrite Et in C; discriminate|].
  rewrite Et, yielded_cons, Hi in Hy. symmetry in Hy. destruct (skipn_cons_nth _ _ _ _ Hy) as (A & B & C).
  repeat split; [exact A|symmetry; exact B|exact C].
Qed.

Lemma indices_put_pq s it :
  indices (set_pq s (s_pq s ++ [it])) = flat_map qidx (s_pq s) ++ qidx it ++ flat_map qidx (flat_map held_item (s_hs s) ++ s_hq s) ++ s_seen s.
Proof.
  unfold indices, flight. cbn [set_pq s_pq s_hs s_hq s_seen]. rewrite !qidx_app. cbn [flat_map]. rewrite app_nil_r, <- !app_assoc. reflexivity.
Qed.

Lemma start_ok_running c s : FInv c s -> s_rst s = TRunning ->
  forall t, s_mpc s = MAlive t \/ s_mpc s = MStart t -> 1 <= t /\ (t = 1 -> False).
Proof.
  intros Hinv Hrun t Ht. destruct (fi_start c s Hinv t Ht) as [A B]. split; [exact A|].
  intros E. rewrite (B E) in Hrun. discriminate.
Qed.

Lemma reader_next_mpc s todo idx : s_mpc (reader_next s todo idx) = s_mpc s.
Proof. unfold reader_next. destruct todo as [|[]]; reflexivity. Qed.

Lemma step_reader_FInv c s : s_rst s = TRunning -> FInv c s -> FInv c (step_reader s).
Proof.
  intros Hrun Hinv. pose proof (start_ok_running c s Hinv Hrun) as Hstart.
  assert (Hst : forall rst, forall t, s_mpc s = MAlive t \/ s_mpc s = MStart t -> 1 <= t /\ (t = 1 -> rst = TNew)).
  { intros rst t Ht. destruct (Hstart t Ht) as [A B]. split; [exact A|intros E; destruct (B E)]. } unfold step_reader. destruct (s_rpc s) as [|q| |exc|] eqn:Epc.
  - (* read the stop flag *)
    destruct (s_stop s).
    + destruct Hinv. constructor; cbn; try assumption; try discriminate; try apply Hst; [left; reflexivity].
    + destruct (fi_head c s Hinv Hrun Epc) as (r & rest & Et & Hi).
      destruct (yielded_skipn_head c s r rest Et Hi (fi_todo c s Hinv)) as (Hn & _ & _).
      assert (Hput : forall h exc, payload_ok (yielded (cf_items c)) (QPiece (s_ridx s) h exc) ->
                FInv c (upd_reader s TRunning (RPut (QPiece (s_ridx s) h exc)) (r :: rest) (s_ridx s) (s_rexc s))).
      { intros h exc Hp. rewrite <- Et. destruct Hinv. constructor; cbn; try assumption; try discriminate; try apply Hst.
        intros it E. injection E as <-. exists r, rest, h, exc. split; [exact Et|split; [exact Hi|split; [reflexivity|exact Hp]]]. }
      pose proof (fi_ridx c s Hinv) as Hr.
      rewrite Et. destruct r; try discriminate Hi; apply Hput; cbn; (split; [lia|]); rewrite Hn; split; reflexivity.
  - (* piece_queue.put(piece) *)
    destruct (fi_put c s Hinv q Epc) as (r & rest & h & exc & Et & Hi & -> & Hp).
    destruct (yielded_skipn_head c s r rest Et Hi (fi_todo c s Hinv)) as (Hn & Hy & Hlt).
    pose proof (reader_next_fields (set_pq s (s_pq s ++ [QPiece (s_ridx s) h exc])) (tl (s_rtodo s)) (s_ridx s + 1)) as Hf.
    cbv zeta in Hf. destruct Hf as (F1 & F2 & F3 & F4 & F5 & F6 & F7 & F8 & F9 & F10 & F11).
    set (s' := reader_next _ _ _) in *.
    pose proof (fi_ridx c s Hinv) as Hr. pose proof (fi_bound c s Hinv) as Hb. pose proof (fi_nodup c s Hinv) as Hnd.
    assert (Etl : tl (s_rtodo s) = rest) by (rewrite Et; reflexivity).
    assert (Hidx : Permutation (indices s') (s_ridx s :: indices s)).
    { unfold indices, flight. rewrite F3, F4, F5, F6. cbn [set_pq s_pq s_hs s_hq s_seen]. rewrite !qidx_app. cbn [flat_map qidx app].
      rewrite <- !app_assoc. cbn [app]. apply Permutation_sym. apply Permutation_cons_app. reflexivity. }
    constructor.
    + rewrite F1. unfold zlen. lia.
    + rewrite F1. destruct F8 as [E|E]; [left; exact E|]. right. rewrite E, Etl, Hy. f_equal. lia.
    + intros _ E. destruct (F9 E) as (E1 & r' & rest' & E2 & E3). exists r', rest'. rewrite E1. split; assumption.
    + intros it E. exfalso. exact (F11 it E).
    + intros E. destruct (F10 E) as (E1 & rest' & E2). exists rest'. rewrite E1. exact E2.
    + rewrite F2. discriminate.
    + unfold s'. rewrite reader_next_mpc. cbn [set_pq s_mpc]. apply Hst.
    + apply (Permutation_NoDup (Permutation_sym Hidx)). constructor; [|exact Hnd].
      intros Hin. rewrite Forall_forall in Hb. specialize (Hb _ Hin). lia.
    + apply (Permutation_Forall (Permutation_sym Hidx)). rewrite F1. constructor; [lia|]. eapply Forall_impl; [|exact Hb]. cbn. intros a Ha. lia.
    + unfold flight. rewrite F3, F4, F5. cbn [set_pq s_pq s_hs s_hq]. pose proof (fi_payload c s Hinv) as Hpay. unfold flight in Hpay.
      rewrite <- app_assoc. apply Forall_app in Hpay as [H1 H2]. apply Forall_app. split; [exact H1|]. constructor; [exact Hp|exact H2].
    + rewrite F6, F7. exact (fi_hashes c s Hinv).
    + rewrite F7. exact (fi_hnodup c s Hinv).
  - (* the out-of-memory handler reads the clock *)
    destruct (fi_clock c s Hinv Epc) as (rest & Et).
    assert (Hnext : forall s0, fview s0 = fview s -> FInv c (reader_next s0 (tl (s_rtodo s)) (s_ridx s))).
    { intros s0 E0. pose proof (reader_next_fields s0 (tl (s_rtodo s)) (s_ridx s)) as Hf. cbv zeta in Hf.
      destruct Hf as (F1 & F2 & F3 & F4 & F5 & F6 & F7 & F8 & F9 & F10 & F11). set (s' := reader_next _ _ _) in *.
      unfold fview in E0. injection E0 as G1 G2 G3 G4 G5 G6 G7 G8 G9 G10.
      assert (Ef : flight s' = flight s) by (unfold flight; rewrite F3, F4, F5, G5, G6, G7; reflexivity).
      assert (Ei : indices s' = indices s) by (unfold indices; rewrite Ef, F6, G8; reflexivity).
      assert (Em : s_mpc s' = s_mpc s) by (unfold s'; rewrite reader_next_mpc; exact G10).
      constructor; rewrite ?F1, ?F2, ?Ei, ?Ef, ?F6, ?F7, ?G8, ?G9, ?Em; try (destruct Hinv; assumption); try apply Hst.
      - destruct F8 as [E|E]; [left; exact E|]. destruct (fi_todo c s Hinv) as [C|C]; [rewrite Et in C; discriminate|].
        right. rewrite E. rewrite Et in C. rewrite yielded_cons in C. cbn [is_item] in C. rewrite Et. exact C.
      - intros _ E. destruct (F9 E) as (E1 & r' & rest' & E2 & E3). exists r', rest'. rewrite E1. split; assumption.
      - intros it E. exfalso. exact (F11 it E).
      - intros E. destruct (F10 E) as (E1 & rest' & E2). exists rest'. rewrite E1. exact E2.
      - discriminate. }
    destruct (_ >=? _); [destruct (negb _)|].
    + apply Hnext. reflexivity.
    + destruct Hinv. constructor; cbn; try assumption; try discriminate; try apply Hst; [left; reflexivity].
    + apply Hnext. reflexivity.
  - (* finally: piece_queue.put(QUEUE_CLOSED) *)
    pose proof (fi_payload c s Hinv) as Hpay. unfold flight in Hpay.
    assert (Ei : indices (upd_reader (set_pq s (s_pq s ++ [QClosed])) TDone RExit [] (s_ridx s) exc) = indices s).
    { unfold indices, flight. cbn [upd_reader set_pq s_pq s_hs s_hq s_seen]. rewrite !qidx_app. cbn [flat_map qidx]. rewrite app_nil_r. reflexivity. }
    destruct Hinv. constructor; rewrite ?Ei; cbn [upd_reader set_pq s_ridx s_rtodo s_rst s_rpc s_seen s_hashes s_mpc]; try assumption; try discriminate; try apply Hst.
    + left. reflexivity.
    + unfold flight. cbn [upd_reader set_pq s_pq s_hs s_hq]. rewrite <- app_assoc. apply Forall_app in Hpay as [H1 H2]. apply Forall_app. split; [exact H1|]. constructor; [exact I|exact H2].
  - exact Hinv.
Qed.

(* ---- main / collector ---- *)
Lemma FInv_set_mpc c s pc :
  FInv c s -> (forall t, pc = MAlive t \/ pc = MStart t -> 1 <= t /\ (t = 1 -> s_rst s = TNew)) -> FInv c (set_mpc s pc).
Proof. intros Hinv Hpc. destruct Hinv. constructor; cbn [set_mpc s_ridx s_rtodo s_rst s_rpc s_seen s_hashes s_mpc]; assumption. Qed.

Ltac not_start := let t := fresh in let H := fresh in intros t [H|H]; discriminate H.

Lemma FInv_finish_main c s r : FInv c s -> FInv c (finish_main s r).
Proof. intros Hinv. destruct Hinv. constructor; cbn [finish_main s_ridx s_rtodo s_rst s_rpc s_seen s_hashes s_mpc]; try assumption. not_start. Qed.

Lemma FInv_finish c s o : FInv c s -> FInv c (finish c s o).
Proof. intros H. unfold finish. destruct o; apply FInv_finish_main; exact H. Qed.

Lemma next_hasher_not_start s o pos : forall t, next_hasher s o pos = MAlive t \/ next_hasher s o pos = MStart t -> 1 <= t /\ (t = 1 -> s_rst s = TNew).
Proof. unfold next_hasher. destruct (nth_error _ _); not_start. Qed.

Lemma next_to_start_ge c t t' : 1 <= t -> next_to_start c t = Some t' -> 2 <= t'.
Proof.
  unfold next_to_start. intros Ht. destruct (t =? 1) eqn:E1; [intros E; injection E as <-; lia|].
  destruct (t =? 2) eqn:E2; [discriminate|]. destruct (_ <? _); intros E; injection E as <-; lia.
Qed.

Lemma start_thread_FInv c s t pc : 1 <= t -> (t = 1 -> s_rst s = TNew) -> FInv c s ->
  (forall t', pc = MAlive t' \/ pc = MStart t' -> 2 <= t') ->
  FInv c (set_mpc (start_thread s t) pc).
Proof.
  intros Ht H1 Hinv Hpc.
  assert (Hpc' : forall s0 t', pc = MAlive t' \/ pc = MStart t' -> 1 <= t' /\ (t' = 1 -> s_rst s0 = TNew)).
  { intros s0 t' Hm. pose proof (Hpc t' Hm). split; [lia|intros ->; lia]. }
  unfold start_thread. destruct (t =? 1) eqn:E1.
  - (* the reader starts: it fetches its first item *)
    assert (t = 1) as -> by lia. destruct (fi_new c s Hinv (H1 eq_refl)) as [Er Et].
    pose proof (reader_next_fields (upd_reader s TRunning RStopRead (s_rtodo s) 0 None) (s_rtodo s) 0) as Hf. cbv zeta in Hf.
    destruct Hf as (F1 & F2 & F3 & F4 & F5 & F6 & F7 & F8 & F9 & F10 & F11). set (s' := reader_next _ _ _) in *.
    assert (Ef : flight (set_mpc s' pc) = flight s) by (unfold flight; cbn [set_mpc s_pq s_hs s_hq]; rewrite F3, F4, F5; reflexivity).
    assert (Ei : indices (set_mpc s' pc) = indices s) by (unfold indices; rewrite Ef; cbn [set_mpc s_seen]; rewrite F6; reflexivity).
    constructor; rewrite ?Ei, ?Ef; cbn [set_mpc s_ridx s_rtodo s_rst s_rpc s_seen s_hashes s_mpc]; rewrite ?F1, ?F2, ?F6, ?F7.
    + pose proof (fi_ridx c s Hinv). lia.
    + destruct F8 as [E|E]; [left; exact E|]. right. rewrite E, Et. reflexivity.
    + intros _ E. destruct (F9 E) as (E0 & r' & rest' & E2 & E3). exists r', rest'. rewrite E0. split; assumption.
    + intros it E. exfalso. exact (F11 it E).
    + intros E. destruct (F10 E) as (E0 & rest' & E2). exists rest'. rewrite E0. exact E2.
    + discriminate.
    + intros t' Hm. pose proof (Hpc t' Hm). split; [lia|intros ->; lia].
    + exact (fi_nodup c s Hinv).
    + pose proof (fi_bound c s Hinv) as Hb. rewrite Er in Hb. exact Hb.
    + exact (fi_payload c s Hinv).
    + exact (fi_hashes c s Hinv).
    + exact (fi_hnodup c s Hinv).
  - apply FInv_set_mpc; [|apply Hpc']. destruct (t =? 2) eqn:E2.
    + apply (FInv_of_fview c s); [reflexivity|exact Hinv].
    + unfold upd_hasher. destruct (nth_error (s_hs s) (hasher_index t)) as [old|] eqn:En.
      * apply (FInv_flight c s _ (flat_map qidx (held_item old)) Hinv); try reflexivity; unfold flight; cbn [set_hs s_pq s_hs s_hq].
        -- rewrite !qidx_app.
           rewrite <- (flat_map_set_nth_remove held_item (s_hs s) (hasher_index t) (TRunning, HGet) old En eq_refl).
           rewrite !qidx_app. rewrite !app_assoc. apply Permutation_app_tail. apply Permutation_app_tail. apply Permutation_app_comm.
        -- pose proof (fi_payload c s Hinv) as Hpay. unfold flight in Hpay.
           apply Forall_app in Hpay as [Hp Hrest]. apply Forall_app in Hrest as [Hh Hq].
           pose proof (Permutation_Forall (Permutation_sym (flat_map_set_nth_remove held_item (s_hs s) (hasher_index t) (TRunning, HGet) old En eq_refl)) Hh) as Hh'.
           apply Forall_app in Hh' as [_ Hh']. apply Forall_app. split; [exact Hp|]. apply Forall_app. split; [exact Hh'|exact Hq].
      * replace (set_nth (s_hs s) (hasher_index t) (TRunning, HGet)) with (s_hs s).
        -- apply (FInv_of_fview c s); [reflexivity|exact Hinv].
        -- clear -En. revert En. generalize (hasher_index t). induction (s_hs s) as [|y l IH]; intros [|n] E; cbn in *; try discriminate; try reflexivity.
           f_equal. apply IH. exact E.
Qed.

Lemma NoDup_snoc {X} (l : list X) x : ~ In x l -> NoDup l -> NoDup (l ++ [x]).
Proof.
  induction l as [|y l IH]; intros Hni Hnd; cbn; [constructor; [intros []|constructor]|].
  inversion Hnd; subst. constructor.
  - intros Hi. apply in_app_or in Hi as [Hi|[Hi|[]]]; [contradiction|]. subst y. apply Hni. left. reflexivity.
  - apply IH; [intros Hi; apply Hni; right; exact Hi|assumption].
Qed.

Lemma collect_item_fview c s idx h exc :
  (s_ridx (collect_item c s idx h exc), s_rtodo (collect_item c s idx h exc), s_rst (collect_item c s idx h exc), s_rpc (collect_item c s idx h exc),
   s_pq (collect_item c s idx h exc), s_hs (collect_item c s idx h exc), s_hq (collect_item c s idx h exc), s_seen (collect_item c s idx h exc),
   s_hashes (collect_item c s idx h exc)) =
  (s_ridx s, s_rtodo s, s_rst s, s_rpc s, s_pq s, s_hs s, s_hq s, s_seen s, s_hashes s) /\
  (forall t, s_mpc (collect_item c s idx h exc) <> MAlive t /\ s_mpc (collect_item c s idx h exc) <> MStart t).
Proof.
  unfold collect_item. destruct (_ || _); [|split; [reflexivity|intros t; split; discriminate]].
  destruct (cf_verify c); destruct exc; destruct (has_user_cb c); try destruct (mismatch c idx h); try destruct (user_cb c _) as [[|]|];
    (split; [reflexivity|intros t; split; discriminate]).
Qed.

Lemma In_indices_hq s q i : In q (s_hq s) -> In i (qidx q) -> In i (flat_map qidx (flight s)).
Proof.
  intros Hq Hi. unfold flight. rewrite !qidx_app. apply in_or_app. right. apply in_or_app. right.
  apply in_flat_map. exists q. split; assumption.
Qed.

Lemma step_main_FInv c s inc : FInv c s -> FInv c (step_main c s inc).
Proof.
  intros Hinv. unfold step_main. destruct (s_mpc s) eqn:Empc.
  - (* is_alive before start *)
    apply FInv_set_mpc; [exact Hinv|]. intros t0 [E|E]; [discriminate E|]. injection E as <-. apply (fi_start c s Hinv). left. exact Empc.
  - destruct (fi_start c s Hinv t (or_intror Empc)) as [Ht H1].
    assert (Hnext : forall t', next_to_start c t = Some t' -> forall t0, MAlive t' = MAlive t0 \/ MAlive t' = MStart t0 -> 2 <= t0).
    { intros t' E t0 [E0|E0]; [injection E0 as <-; exact (next_to_start_ge c t t' Ht E)|discriminate E0]. }
    destruct (refused c t).
    + destruct ((t =? 1) || (t =? 2) || (t =? 3)); [apply FInv_finish_main; exact Hinv|].
      destruct (next_to_start c t) as [t'|] eqn:En; apply FInv_set_mpc; try exact Hinv; [|not_start].
      intros t0 Hm. pose proof (Hnext t' eq_refl t0 Hm). split; [lia|intros ->; lia].
    + destruct (next_to_start c t) as [t'|] eqn:En; apply start_thread_FInv; try assumption; [exact (Hnext t' eq_refl)|].
      intros t0 [E|E]; discriminate E.
  - (* hash_queue.get() *)
    destruct (s_hq s) as [|[|idx h exc] r] eqn:Ehq; [exact Hinv| |].
    + apply FInv_set_mpc; [|not_start]. apply (FInv_flight c s _ [] Hinv); try reflexivity; unfold flight; cbn [set_hq s_pq s_hs s_hq app].
      * rewrite Ehq, !qidx_app. reflexivity.
      * pose proof (fi_payload c s Hinv) as Hpay. unfold flight in Hpay. rewrite Ehq in Hpay.
        apply Forall_app in Hpay as [Hp Hrest]. apply Forall_app in Hrest as [Hh Hq]. inversion Hq; subst.
        apply Forall_app. split; [exact Hp|]. apply Forall_app. split; assumption.
    + (* a piece arrives *)
      pose proof (fi_nodup c s Hinv) as Hnd. pose proof (fi_payload c s Hinv) as Hpay. pose proof (fi_bound c s Hinv) as Hb.
      assert (Hin : In idx (flat_map qidx (flight s))) by (apply (In_indices_hq s (QPiece idx h exc)); [rewrite Ehq; left; reflexivity|left; reflexivity]).
      assert (Hnotseen : ~ In idx (s_seen s)).
      { intros Hs.
        pose proof (fi_nodup c s Hinv) as Hnd2. unfold indices in Hnd2.
        apply in_split in Hin as (l1 & l2 & E). rewrite E in Hnd2. rewrite <- app_assoc in Hnd2. cbn [app] in Hnd2.
        apply NoDup_remove_2 in Hnd2. apply Hnd2. apply in_or_app. right. apply in_or_app. right. exact Hs. }
      cbn [set_hq s_seen].
      destruct (existsb (Z.eqb idx) (s_seen s)) eqn:Eex.
      { exfalso. apply existsb_exists in Eex as (x & Hx & Ex). apply Hnotseen. replace idx with x by lia. exact Hx. }
      apply FInv_set_mpc; [|not_start].
      assert (Hitem : payload_ok (yielded (cf_items c)) (QPiece idx h exc)).
      { unfold flight in Hpay. rewrite Ehq in Hpay. apply Forall_app in Hpay as [_ Hrest]. apply Forall_app in Hrest as [_ Hq]. inversion Hq; assumption. }
      assert (Hperm : Permutation (flat_map qidx (s_pq s ++ flat_map held_item (s_hs s) ++ r) ++ s_seen s ++ [idx]) (indices s)).
      { unfold indices, flight. rewrite Ehq, !qidx_app. cbn [flat_map qidx app]. rewrite <- !app_assoc.
        apply Permutation_app_head. apply Permutation_app_head. cbn [app].
        rewrite app_assoc. apply Permutation_sym. apply Permutation_cons_app. rewrite <- app_assoc, app_nil_r. reflexivity. }
      set (hashes' := match exc with [] => match h with Some hv => s_hashes s ++ [(idx, hv)] | None => s_hashes s end | _ :: _ => s_hashes s end).
      destruct Hinv. constructor; cbn [upd_collector set_hq s_ridx s_rtodo s_rst s_rpc s_seen s_hashes s_mpc]; try assumption.
      * unfold indices, flight. cbn [upd_collector set_hq s_pq s_hs s_hq s_seen]. apply (Permutation_NoDup (Permutation_sym Hperm)). exact Hnd.
      * unfold indices, flight. cbn [upd_collector set_hq s_pq s_hs s_hq s_seen]. apply (Permutation_Forall (Permutation_sym Hperm)). exact Hb.
      * unfold flight in *. cbn [upd_collector set_hq s_pq s_hs s_hq]. rewrite Ehq in Hpay.
        apply Forall_app in Hpay as [Hp Hrest]. apply Forall_app in Hrest as [Hh Hq]. inversion Hq; subst.
        apply Forall_app. split; [exact Hp|]. apply Forall_app. split; assumption.
      * fold hashes'. assert (Hold : Forall (fun ih : Z * Z => In (fst ih) (s_seen s ++ [idx]) /\ nth_error (yielded (cf_items c)) (Z.to_nat (fst ih)) = Some (RPiece (snd ih))) (s_hashes s)).
        { eapply Forall_impl; [|exact fi_hashes0]. cbn. intros a [A B]. split; [apply in_or_app; left; exact A|exact B]. }
        unfold hashes'. destruct exc; [|exact Hold]. destruct h as [hv|]; [|exact Hold].
        apply Forall_app. split; [exact Hold|]. constructor; [|constructor]. cbn [fst snd]. split; [apply in_or_app; right; left; reflexivity|].
        cbn [payload_ok] in Hitem. destruct Hitem as [_ Hitem]. destruct (nth_error _ _) as [[x|es| | |e]|]; try contradiction; destruct Hitem as [E1 E2]; try discriminate E1.
        injection E1 as ->. reflexivity.
      * fold hashes'. unfold hashes'. destruct exc; [|exact fi_hnodup0]. destruct h as [hv|]; [|exact fi_hnodup0].
        rewrite map_app. cbn [map fst].
        assert (Hni : ~ In idx (map fst (s_hashes s))).
        { intros Hi. apply in_map_iff in Hi as ([i0 h0] & E & Hi). cbn in E. subst i0. rewrite Forall_forall in fi_hashes0. destruct (fi_hashes0 _ Hi) as [A _]. exact (Hnotseen A). }
        apply NoDup_snoc; assumption.
  - (* the clock read and the callback *)
    destruct (collect_item_fview c (set_now s (s_now s + inc)) idx h exc) as [Ev Hm].
    injection Ev as E1 E2 E3 E4 E5 E6 E7 E8 E9. set (s' := collect_item _ _ _ _ _) in *.
    assert (Ef : flight s' = flight s) by (unfold flight; rewrite E5, E6, E7; reflexivity).
    assert (Ei : indices s' = indices s) by (unfold indices; rewrite Ef, E8; reflexivity).
    destruct Hinv. constructor; rewrite ?E1, ?E2, ?E3, ?E4, ?Ei, ?Ef, ?E8, ?E9; try assumption.
    intros t [E|E]; exfalso; [exact (proj1 (Hm t) E)|exact (proj2 (Hm t) E)].
  - destruct (s_stop s); [destruct a|]; apply FInv_set_mpc; try exact Hinv; not_start.
  - assert (Hs : FInv c (set_stop s true)) by (apply (FInv_of_fview c s); [reflexivity|exact Hinv]).
    destruct a; apply FInv_set_mpc; try exact Hs; not_start.
  - destruct (is_alive s 1); apply FInv_set_mpc; try exact Hinv; try not_start. apply next_hasher_not_start.
  - apply FInv_set_mpc; [exact Hinv|apply next_hasher_not_start].
  - destruct (is_alive s t); apply FInv_set_mpc; try exact Hinv; try not_start. apply next_hasher_not_start.
  - apply FInv_set_mpc; [exact Hinv|apply next_hasher_not_start].
  - destruct (is_alive s 2); [apply FInv_set_mpc; [exact Hinv|not_start]|apply FInv_finish; exact Hinv].
  - apply FInv_finish. exact Hinv.
  - exact Hinv.
Qed.

(* ---- the invariant holds in every reachable state ---- *)
Lemma enabled_reader_running c s a : enabled c s 1 a = true -> s_rst s = TRunning.
Proof.
  unfold enabled. intros H. apply existsb_exists in H as ([t a'] & Hin & Ht). cbn [fst snd] in Ht.
  apply andb_true_iff in Ht as [Ht _]. assert (t = 1) as -> by lia. unfold options in Hin.
  apply in_app_or in Hin as [Hin|Hin]; [apply in_map_iff in Hin as (x & E & _); discriminate E|].
  apply in_app_or in Hin as [Hin|Hin].
  - apply in_map_iff in Hin as (x & _ & Hx). unfold reader_enabled in Hx. destruct (s_rst s); [destruct Hx|reflexivity|destruct Hx].
  - apply in_app_or in Hin as [Hin|Hin]; [apply in_map_iff in Hin as (x & E & _); discriminate E|].
    apply in_flat_map in Hin as (i & _ & Hi). apply in_map_iff in Hi as (x & E & _). pose proof (f_equal fst E) as E1. cbn [fst] in E1. unfold hasher_tid in E1. lia.
Qed.

Theorem flow_invariant c s : reach c s -> FInv c s.
Proof.
  induction 1 as [|s t a inc Hr IH Hen Hinc]; [apply FInv_init|].
  unfold step. destruct (t =? 0) eqn:E0; [apply step_main_FInv; exact IH|].
  destruct (t =? 1) eqn:E1.
  - assert (t = 1) as -> by lia. pose proof (enabled_reader_running c s a Hen) as Hrun.
    destruct (s_rpc s); try (apply step_reader_FInv; assumption).
    apply step_reader_FInv; [exact Hrun|]. apply (FInv_of_fview c s); [reflexivity|exact IH].
  - destruct (t =? 2); [apply step_janitor_FInv|apply step_hasher_FInv]; exact IH.
Qed.

(* ---- a run that returns True has stored the digests of the pieces in order ---- *)
Definition RInv (c : config) (s : state) : Prop :=
  (s_result s <> None -> s_mpc s = MDone) /\
  (s_result s = Some ResTrue -> cf_verify c = None -> zlen (sorted_hashes (s_hashes s)) = cf_total c).

Definition rview (s : state) := (s_result s, s_hashes s, s_mpc s).

Lemma step_reader_rview s : rview (step_reader s) = rview s.
Proof.
  assert (Hn : forall s todo idx, rview (reader_next s todo idx) = rview s) by (intros s0 todo idx; unfold reader_next; destruct todo as [|[]]; reflexivity).
  unfold step_reader. destruct (s_rpc s).
  - destruct (s_stop s); [reflexivity|]. destruct (s_rtodo s) as [|[]]; reflexivity.
  - rewrite Hn. reflexivity.
  - destruct (_ >=? _); [destruct (negb _)|]; try rewrite Hn; reflexivity.
  - reflexivity.
  - reflexivity.
Qed.
Lemma step_hasher_rview s i a : rview (step_hasher s i a) = rview s.
Proof.
  unfold step_hasher. destruct (nth_error (s_hs s) i) as [[[] pc]|]; try reflexivity.
  destruct pc; try reflexivity. destruct a; [destruct (s_pq s) as [|[] r]; reflexivity|destruct (Nat.eqb i 0); reflexivity].
Qed.
Lemma step_janitor_rview s a : rview (step_janitor s a) = rview s.
Proof.
  unfold step_janitor. destruct (s_jpc s) as [|[|t r]|[|t r]| |]; try reflexivity.
  - destruct a; destruct (s_tracked s); reflexivity.
  - destruct (is_alive s t); [reflexivity|destruct r; reflexivity].
  - destruct r; reflexivity.
Qed.

Lemma RInv_of_rview c s s' : rview s' = rview s -> RInv c s -> RInv c s'.
Proof. unfold rview, RInv. intros E H. injection E as E1 E2 E3. rewrite E1, E2, E3. exact H. Qed.

Lemma collect_item_result c s idx h exc :
  s_result (collect_item c s idx h exc) = s_result s /\ s_hashes (collect_item c s idx h exc) = s_hashes s /\ s_mpc (collect_item c s idx h exc) <> MDone.
Proof.
  unfold collect_item. destruct (_ || _); [|repeat split; try reflexivity; cbn; discriminate].
  destruct (cf_verify c); destruct exc; destruct (has_user_cb c); try destruct (mismatch c idx h); try destruct (user_cb c _) as [[|]|];
    (repeat split; try reflexivity; cbn; discriminate).
Qed.

Lemma start_thread_rview s t : rview (start_thread s t) = rview s.
Proof.
  unfold start_thread. destruct (t =? 1); [|destruct (t =? 2); reflexivity].
  unfold reader_next. destruct (s_rtodo s) as [|[]]; reflexivity.
Qed.

Lemma step_main_RInv c s inc : RInv c s -> RInv c (step_main c s inc).
Proof.
  intros Hinv0. pose proof Hinv0 as [H1 H2].
  assert (Hnone : s_mpc s <> MDone -> s_result s = None).
  { intros Hm. destruct (s_result s) eqn:E; [|reflexivity]. exfalso. apply Hm. apply H1. discriminate. }
  assert (Hkeep : forall s' , s_result s' = s_result s -> s_mpc s' <> MDone -> s_mpc s <> MDone -> RInv c s').
  { intros s' Er Hm Hm0. split; rewrite Er, (Hnone Hm0); [intros C; exfalso; apply C; reflexivity|discriminate]. }
  assert (Hfin : forall r, (r = ResTrue -> cf_verify c = None -> zlen (sorted_hashes (s_hashes s)) = cf_total c) -> RInv c (finish_main s r)).
  { intros r Hr. split; cbn [finish_main s_result s_mpc s_hashes]; [reflexivity|]. intros E. injection E as ->. apply Hr. reflexivity. }
  assert (Hfinish : forall o, RInv c (finish c s o)).
  { intros o. unfold finish. destruct o; apply Hfin; [|discriminate]. unfold conclude. intros E Hv. rewrite Hv in E.
    destruct (zlen (sorted_hashes (s_hashes s)) =? cf_total c) eqn:En; [lia|]. destruct (_ <? _); discriminate E. }
  unfold step_main. destruct (s_mpc s) eqn:Empc; try (apply Hkeep; [reflexivity|cbn; discriminate|discriminate]).
  - destruct (refused c t).
    + destruct ((t =? 1) || (t =? 2) || (t =? 3)); [apply Hfin; discriminate|].
      destruct (next_to_start c t); apply Hkeep; try reflexivity; cbn; try discriminate; discriminate.
    + pose proof (start_thread_rview s t) as Ev. unfold rview in Ev. injection Ev as E1 E2 E3.
      destruct (next_to_start c t); apply Hkeep; cbn [set_mpc s_result s_mpc]; try exact E1; try discriminate; discriminate.
  - destruct (s_hq s) as [|[|idx h exc] r]; [exact Hinv0| |].
    + apply Hkeep; [reflexivity|cbn; discriminate|discriminate].
    + destruct (existsb _ _); apply Hkeep; try reflexivity; cbn; try discriminate; discriminate.
  - destruct (collect_item_result c (set_now s (s_now s + inc)) idx h exc) as (E1 & E2 & E3).
    apply Hkeep; [exact E1|exact E3|discriminate].
  - destruct (s_stop s); [destruct a|]; apply Hkeep; try reflexivity; cbn; try discriminate; discriminate.
  - destruct a; apply Hkeep; try reflexivity; cbn; try discriminate; discriminate.
  - destruct (is_alive s 1); apply Hkeep; try reflexivity; try (discriminate); cbn; try discriminate.
    unfold next_hasher. destruct (nth_error _ _); discriminate.
  - apply Hkeep; try reflexivity; try (discriminate). cbn. unfold next_hasher. destruct (nth_error _ _); discriminate.
  - destruct (is_alive s t); apply Hkeep; try reflexivity; try (discriminate); cbn; try discriminate.
    unfold next_hasher. destruct (nth_error _ _); discriminate.
  - apply Hkeep; try reflexivity; try (discriminate). cbn. unfold next_hasher. destruct (nth_error _ _); discriminate.
  - destruct (is_alive s 2); [apply Hkeep; [reflexivity|cbn; discriminate|discriminate]|apply Hfinish].
  - apply Hfinish.
  - exact Hinv0.
Qed.

Theorem result_invariant c s : reach c s -> RInv c s.
Proof.
  induction 1 as [|s t a inc Hr IH Hen Hinc]; [split; cbn; [intros C; exfalso; apply C; reflexivity|discriminate]|].
  unfold step. destruct (t =? 0); [apply step_main_RInv; exact IH|].
  destruct (t =? 1).
  - destruct (s_rpc s); try (apply (RInv_of_rview c s); [apply step_reader_rview|exact IH]).
    apply (RInv_of_rview c s); [rewrite step_reader_rview; reflexivity|exact IH].
  - destruct (t =? 2); apply (RInv_of_rview c s); try exact IH; [apply step_janitor_rview|apply step_hasher_rview].
Qed.

(* ---- sorted(hashes) is the list of digests in piece order ---- *)
From Torf Require Import Tree OrderProofs.

Definition pair_ltb (a b : Z * Z) : bool := (fst a <? fst b) || ((fst a =? fst b) && (snd a <? snd b)).

Lemma pair_ltb_irrefl a : pair_ltb a a = false. Proof. unfold pair_ltb. lia. Qed.
Lemma pair_ltb_trans a b c : pair_ltb a b = true -> pair_ltb b c = true -> pair_ltb a c = true. Proof. unfold pair_ltb. lia. Qed.
Lemma pair_ltb_total a b : pair_ltb a b = false -> pair_ltb b a = false -> a = b.
Proof. unfold pair_ltb. destruct a, b. cbn [fst snd]. intros. f_equal; lia. Qed.

Lemma insert_hash_ins x l : insert_hash x l = ins (fun p : Z * Z => p) pair_ltb x l.
Proof. induction l as [|y r IH]; cbn [insert_hash ins]; [reflexivity|]. unfold pair_ltb at 1. rewrite IH. reflexivity. Qed.

Lemma sorted_hashes_isort l : sorted_hashes l = map snd (isort (fun p : Z * Z => p) pair_ltb l).
Proof.
  unfold sorted_hashes. f_equal.
Qed.

Definition canon (hs : list Z) : list (Z * Z) := map (fun k => (Z.of_nat k, nth k hs 0)) (seq 0 (length hs)).

Lemma canon_snd hs : map snd (canon hs) = hs.
Proof.
  unfold canon. rewrite map_map. cbn [snd]. apply nth_ext with (d := 0) (d' := 0); [rewrite map_length, seq_length; reflexivity|].
  intros n Hn. rewrite map_length, seq_length in Hn.
  rewrite (nth_indep _ 0 (nth 0 hs 0)) by (rewrite map_length, seq_length; exact Hn).
  rewrite (map_nth (fun k => nth k hs 0) (seq 0 (length hs)) 0%nat n), seq_nth by exact Hn. reflexivity.
Qed.

Lemma canon_sorted hs : ssorted (fun p : Z * Z => p) pair_ltb (canon hs).
Proof.
  unfold canon. generalize 0%nat at 1 as a. induction (length hs) as [|n IH]; intros a; cbn [seq map]; [constructor|].
  constructor; [|apply IH]. intros y Hy. apply in_map_iff in Hy as (k & <- & Hk). apply in_seq in Hk. unfold pair_ltb. cbn [fst snd]. lia.
Qed.

Lemma isort_sorted_id {T K} (key : T -> K) (ltb : K -> K -> bool)
  (irr : forall a, ltb a a = false) (tr : forall a b c, ltb a b = true -> ltb b c = true -> ltb a c = true)
  (tot : forall a b, ltb a b = false -> ltb b a = false -> a = b) l :
  NoDup (map key l) -> (forall x y, In x l -> In y l -> key x = key y -> x = y) -> ssorted key ltb l -> isort key ltb l = l.
Proof.
  intros Hnd Hinj Hs. apply (ssorted_unique key ltb irr tr).
  - apply isort_sorted; assumption.
  - exact Hs.
  - intros x. split; intros Hx; [apply (Permutation_in _ (isort_perm key ltb l)); exact Hx|apply (Permutation_in _ (Permutation_sym (isort_perm key ltb l))); exact Hx].
Qed.

Lemma NoDup_map_fst_NoDup (l : list (Z * Z)) : NoDup (map fst l) -> NoDup l.
Proof.
  induction l as [|x l IH]; cbn; intros H; [constructor|]. inversion H; subst. constructor; [|apply IH; assumption].
  intros Hin. apply H2. apply in_map. exact Hin.
Qed.

Lemma hashes_are_reference (L : list (Z * Z)) hs :
  NoDup (map fst L) -> length L = length hs ->
  (forall i h, In (i, h) L -> 0 <= i /\ nth_error hs (Z.to_nat i) = Some h) ->
  sorted_hashes L = hs.
Proof.
  intros Hnd Hlen Hin. rewrite sorted_hashes_isort.
  assert (Hincl : incl L (canon hs)).
  { intros [i h] Hx. destruct (Hin i h Hx) as [Hi Hn]. unfold canon. apply in_map_iff. exists (Z.to_nat i). split.
    - rewrite Z2Nat.id by exact Hi. f_equal. apply nth_error_nth. exact Hn.
    - apply in_seq. split; [lia|]. cbn. apply nth_error_Some. rewrite Hn. discriminate. }
  assert (Hperm : Permutation L (canon hs)).
  { apply NoDup_Permutation_bis; [apply NoDup_map_fst_NoDup; exact Hnd| |exact Hincl]. unfold canon. rewrite map_length, seq_length. lia. }
  rewrite (isort_perm_invariant (fun p : Z * Z => p) pair_ltb pair_ltb_irrefl pair_ltb_trans pair_ltb_total L (canon hs) Hperm).
  - rewrite isort_sorted_id; [apply canon_snd|exact pair_ltb_irrefl|exact pair_ltb_trans|exact pair_ltb_total| | |apply canon_sorted].
    + rewrite map_id. apply (Permutation_NoDup Hperm). apply NoDup_map_fst_NoDup. exact Hnd.
    + intros x y _ _ E. exact E.
  - rewrite map_id. apply NoDup_map_fst_NoDup. exact Hnd.
Qed.

(* C03/C04, unbounded: whatever the schedule, the number of hashers and the number of pieces, a hashing
   run over readable pieces that returns True has collected exactly the digests of the pieces, in order *)
Theorem true_means_reference c s hs :
  reach c s -> cf_verify c = None -> yielded (cf_items c) = map RPiece hs -> cf_total c = zlen hs ->
  s_result s = Some ResTrue -> sorted_hashes (s_hashes s) = hs.
Proof.
  intros Hr Hv HY Htot Hres. pose proof (flow_invariant c s Hr) as Hf. destruct (result_invariant c s Hr) as [_ Hcount].
  specialize (Hcount Hres Hv). apply hashes_are_reference.
  - exact (fi_hnodup c s Hf).
  - rewrite sorted_hashes_isort in Hcount. unfold zlen in *. rewrite map_length in Hcount.
    rewrite (Permutation_length (isort_perm (fun p : Z * Z => p) pair_ltb (s_hashes s))) in Hcount. lia.
  - intros i h Hin. pose proof (fi_hashes c s Hf) as Hh. rewrite Forall_forall in Hh. destruct (Hh (i, h) Hin) as [Hseen Hn]. cbn [fst snd] in *.
    assert (Hi : 0 <= i).
    { pose proof (fi_bound c s Hf) as Hb. rewrite Forall_forall in Hb. apply (Hb i). unfold indices. apply in_or_app. right. exact Hseen. }
    split; [exact Hi|]. rewrite HY in Hn. rewrite nth_error_map in Hn. destruct (nth_error hs (Z.to_nat i)); [injection Hn as ->; reflexivity|discriminate].
Qed.

(* the collector's duplicate check ("assert piece_index not in self._pieces_seen") can never fire *)
Theorem no_piece_twice c s idx h exc r :
  reach c s -> s_hq s = QPiece idx h exc :: r -> ~ In idx (s_seen s).
Proof.
  intros Hr Ehq Hs. pose proof (fi_nodup c s (flow_invariant c s Hr)) as Hnd. unfold indices in Hnd.
  assert (Hin : In idx (flat_map qidx (flight s))) by (apply (In_indices_hq s (QPiece idx h exc)); [rewrite Ehq; left; reflexivity|left; reflexivity]).
  apply in_split in Hin as (l1 & l2 & E). rewrite E in Hnd. rewrite <- app_assoc in Hnd. cbn [app] in Hnd.
  apply NoDup_remove_2 in Hnd. apply Hnd. apply in_or_app. right. apply in_or_app. right. exact Hs.
Qed.
