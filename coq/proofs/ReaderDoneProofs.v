(* ReaderDoneProofs.v -- C03/C04, unbounded: a reader that ends without an error and without having been told
   to stop has handed over every item of the content.  (Every schedule, hasher count, input, callback, clock.) *)
From Coq Require Import Lia ZifyBool.
From Torf Require Import Base Pipeline PipelineProofs FlowProofs ThreadProofs.
Open Scope Z_scope.

Definition nitems (c : config) : Z := zlen (yielded (cf_items c)).

Definition RdInv (c : config) (s : state) : Prop :=
  (s_rpc s = RPutClosed None -> s_stop s = true \/ nitems c <= s_ridx s) /\
  (s_rst s = TDone -> s_rexc s = None -> s_stop s = true \/ nitems c <= s_ridx s).

Lemma RdInv_of_view c s s' :
  s_rpc s' = s_rpc s -> s_rst s' = s_rst s -> s_rexc s' = s_rexc s -> s_ridx s' = s_ridx s ->
  (s_stop s = true -> s_stop s' = true) -> RdInv c s -> RdInv c s'.
Proof.
  unfold RdInv. intros -> -> -> -> Hs [A B]. split.
  - intros E. destruct (A E) as [H|H]; [left; apply Hs; exact H|right; exact H].
  - intros E1 E2. destruct (B E1 E2) as [H|H]; [left; apply Hs; exact H|right; exact H].
Qed.

Lemma skipn_nil_len {X} (l : list X) n : skipn n l = [] -> (length l <= n)%nat.
Proof. revert n. induction l as [|x l IH]; intros [|n] H; cbn in *; try lia; try discriminate. pose proof (IH n H). lia. Qed.

(* the state after the reader has looked at the next event of the iterator *)
Lemma reader_next_RdInv c s todo idx :
  (todo = [] -> s_stop s = true \/ nitems c <= idx) -> RdInv c (reader_next s todo idx).
Proof.
  intros H. unfold reader_next. destruct todo as [|[h|es| | |e] rest]; split; cbn; try discriminate.
  intros _. apply H. reflexivity.
Qed.

Lemma step_reader_RdInv c s : FInv c s -> s_rst s = TRunning -> RdInv c s -> RdInv c (step_reader s).
Proof.
  intros Hf Hrun [A B]. unfold step_reader. destruct (s_rpc s) as [|it| |exc|] eqn:Erpc.
  - destruct (s_stop s) eqn:Es.
    + split; cbn; [intros _; left; exact Es|discriminate].
    + destruct (s_rtodo s) as [|[h|es| | |e] rest]; split; cbn; discriminate.
  - (* after piece_queue.put(piece): the next event *)
    apply reader_next_RdInv. intros Etl. right.
    destruct (fi_put c s Hf it Erpc) as (r & rest & h & exc & Et & Hi & _ & _).
    destruct (yielded_skipn_head c s r rest Et Hi (fi_todo c s Hf)) as (_ & Hy & Hlt).
    rewrite Et in Etl. cbn [tl] in Etl. subst rest. change (yielded []) with (@nil rev) in Hy. symmetry in Hy. apply skipn_nil_len in Hy.
    unfold nitems, zlen. pose proof (fi_ridx c s Hf). lia.
  - (* _handle_oom *)
    assert (Hnext : forall s0, s_stop s0 = s_stop s -> RdInv c (reader_next s0 (tl (s_rtodo s)) (s_ridx s))).
    { intros s0 Hs0. apply reader_next_RdInv. intros Etl. right.
      destruct (fi_clock c s Hf Erpc) as (rest & Et). rewrite Et in Etl. cbn [tl] in Etl. subst rest.
      destruct (fi_todo c s Hf) as [C|Hy]; [rewrite Et in C; discriminate|].
      rewrite Et in Hy. change (yielded [ROom]) with (@nil rev) in Hy. symmetry in Hy. apply skipn_nil_len in Hy. unfold nitems, zlen. pose proof (fi_ridx c s Hf). lia. }
    destruct (s_now s - s_memts s >=? 100).
    + destruct (negb (_ =? _)); [apply Hnext; reflexivity|split; cbn; discriminate].
    + apply Hnext. reflexivity.
  - split; cbn; [discriminate|]. intros _ ->. apply A. reflexivity.
  - unfold RdInv. rewrite Erpc. split; assumption.
Qed.

Lemma RdInv_init c : RdInv c (init c).
Proof. split; cbn; discriminate. Qed.

Lemma collect_item_stop c s idx h exc : s_stop (collect_item c s idx h exc) = s_stop s.
Proof.
  unfold collect_item. destruct (_ || _); [|reflexivity].
  destruct (cf_verify c); destruct exc; destruct (has_user_cb c); try destruct (mismatch c idx h); try destruct (user_cb c _) as [[|]|]; reflexivity.
Qed.

Lemma collect_item_rexc c s idx h exc : s_rexc (collect_item c s idx h exc) = s_rexc s.
Proof.
  unfold collect_item. destruct (_ || _); [|reflexivity].
  destruct (cf_verify c); destruct exc; destruct (has_user_cb c); try destruct (mismatch c idx h); try destruct (user_cb c _) as [[|]|]; reflexivity.
Qed.

Lemma step_main_RdInv c s inc : FInv c s -> RdInv c s -> RdInv c (step_main c s inc).
Proof.
  intros Hf Hinv. unfold step_main. destruct (s_mpc s) eqn:Empc;
    try (apply (RdInv_of_view c s); [reflexivity..|auto|exact Hinv]).
  - destruct (refused c t).
    + destruct ((t =? 1) || (t =? 2) || (t =? 3)); [apply (RdInv_of_view c s); try reflexivity; auto|].
      destruct (next_to_start c t); apply (RdInv_of_view c s); try reflexivity; auto.
    + assert (Hs : RdInv c (start_thread s t)).
      { unfold start_thread. destruct (t =? 1) eqn:E1.
        - assert (t = 1) as -> by lia. apply reader_next_RdInv. intros Et. right.
          destruct (fi_start c s Hf 1 (or_intror Empc)) as [_ Hnew]. destruct (fi_new c s Hf (Hnew eq_refl)) as [_ Ei].
          rewrite Ei in Et. unfold nitems. rewrite Et. cbn. lia.
        - destruct (t =? 2); apply (RdInv_of_view c s); try reflexivity; auto. }
      destruct (next_to_start c t); apply (RdInv_of_view c (start_thread s t)); try reflexivity; auto.
  - destruct (s_hq s) as [|[|idx h exc] r]; [exact Hinv|apply (RdInv_of_view c s); try reflexivity; auto|].
    cbn [set_hq s_seen]. destruct (existsb _ _); apply (RdInv_of_view c s); try reflexivity; auto.
  - destruct (collect_item_fview c (set_now s (s_now s + inc)) idx h exc) as [E _].
    injection E as E1 _ E3 E4 _ _ _ _ _.
    pose proof (collect_item_stop c (set_now s (s_now s + inc)) idx h exc) as Es.
    apply (RdInv_of_view c s); try assumption.
    + rewrite (collect_item_rexc c (set_now s (s_now s + inc)) idx h exc). reflexivity.
    + cbn [set_now s_stop] in Es. rewrite Es. auto.
  - destruct (s_stop s); [destruct a|]; apply (RdInv_of_view c s); try reflexivity; auto.
  - destruct a; apply (RdInv_of_view c s); try reflexivity; auto.
  - destruct (is_alive s 1); apply (RdInv_of_view c s); try reflexivity; auto.
  - destruct (is_alive s t); apply (RdInv_of_view c s); try reflexivity; auto.
  - destruct (is_alive s 2); [apply (RdInv_of_view c s); try reflexivity; auto|].
    unfold finish. destruct o; apply (RdInv_of_view c s); try reflexivity; auto.
  - unfold finish. destruct o; apply (RdInv_of_view c s); try reflexivity; auto.
Qed.

Lemma step_janitor_rd s a :
  let s' := step_janitor s a in
  s_rpc s' = s_rpc s /\ s_rst s' = s_rst s /\ s_rexc s' = s_rexc s /\ s_ridx s' = s_ridx s /\ s_stop s' = s_stop s.
Proof. cbv zeta. unfold step_janitor. break_match; cbn; repeat split; reflexivity. Qed.

Lemma step_hasher_rd s i a :
  let s' := step_hasher s i a in
  s_rpc s' = s_rpc s /\ s_rst s' = s_rst s /\ s_rexc s' = s_rexc s /\ s_ridx s' = s_ridx s /\ s_stop s' = s_stop s.
Proof. cbv zeta. unfold step_hasher. break_match; cbn; repeat split; reflexivity. Qed.

Theorem reader_invariant c s : reach c s -> RdInv c s.
Proof.
  induction 1 as [|s t a inc Hr IH Hen Hinc]; [apply RdInv_init|].
  pose proof (flow_invariant c s Hr) as Hf.
  unfold step. destruct (t =? 0) eqn:E0; [apply step_main_RdInv; assumption|].
  destruct (t =? 1) eqn:E1.
  - assert (Hrun : s_rst s = TRunning).
    { unfold enabled in Hen. apply existsb_exists in Hen as ([t' a'] & Hin & Hm). cbn [fst snd] in Hm.
      unfold options in Hin. apply in_app_or in Hin as [Hin|Hin].
      { apply in_map_iff in Hin as (x & Ex & _). injection Ex as <- <-. lia. }
      apply in_app_or in Hin as [Hin|Hin].
      { apply in_map_iff in Hin as (x & _ & Hx). unfold reader_enabled in Hx. destruct (s_rst s); [contradiction|reflexivity|contradiction]. }
      apply in_app_or in Hin as [Hin|Hin].
      { apply in_map_iff in Hin as (x & Ex & _). injection Ex as <- <-. lia. }
      apply in_flat_map in Hin as (i & _ & Hx). apply in_map_iff in Hx as (x & Ex & _). injection Ex as <- <-. unfold hasher_tid in Hm. lia. }
    destruct (s_rpc s) eqn:Erpc; try (apply step_reader_RdInv; assumption).
    apply step_reader_RdInv; [apply (FInv_of_fview c s); [reflexivity|exact Hf]|exact Hrun|apply (RdInv_of_view c s); try reflexivity; auto].
  - destruct (t =? 2).
    + destruct (step_janitor_rd s a) as (A1 & A2 & A3 & A4 & A5). apply (RdInv_of_view c s); try assumption. rewrite A5. auto.
    + destruct (step_hasher_rd s (hasher_index t) a) as (A1 & A2 & A3 & A4 & A5). apply (RdInv_of_view c s); try assumption. rewrite A5. auto.
Qed.

(* A reader that has ended without an error, in a run whose stop flag was never set, has handed over every item. *)
Theorem reader_done_means_everything_read c s :
  reach c s -> s_rst s = TDone -> s_rexc s = None -> s_stop s = false -> s_ridx s = nitems c.
Proof.
  intros Hr Hd He Hs. destruct (reader_invariant c s Hr) as [_ B]. pose proof (fi_ridx c (s) (flow_invariant c s Hr)) as Hb.
  destruct (B Hd He) as [C|C]; [rewrite Hs in C; discriminate|]. unfold nitems in *. lia.
Qed.
