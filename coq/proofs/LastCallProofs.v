(* LastCallProofs.v -- C12, unbounded: a hashing run with a progress callback that
   returns True has made its last report with done = total, whatever the schedule,
   the number of hashers, the reporting interval and the clock. *)
From Coq Require Import Lia ZifyBool Permutation.
From Torf Require Import Base Pipeline PipelineProofs FlowProofs.
Open Scope Z_scope.

Definition last_done_is (s : state) : Prop :=
  exists pre idx e, s_calls s = pre ++ [(zlen (s_seen s), idx, e)].

(* once the number of collected pieces has reached the total, the latest report carries the current count *)
Definition LInv (c : config) (s : state) : Prop :=
  match s_mpc s with
  | MClock _ _ _ => True
  | _ => cf_total c <= zlen (s_seen s) -> s_seen s <> [] -> last_done_is s
  end.

Definition lview (s : state) := (s_seen s, s_calls s, s_mpc s).

Lemma LInv_of_lview c s s' : lview s' = lview s -> LInv c s -> LInv c s'.
Proof. unfold lview, LInv, last_done_is. intros E H. injection E as E1 E2 E3. rewrite E1, E2, E3. exact H. Qed.

Lemma cview_lview s s' : cview s' = cview s -> lview s' = lview s.
Proof. unfold cview, lview. intros E. injection E as E1 E2 E3 _. rewrite E1, E2, E3. reflexivity. Qed.

Lemma LInv_set_mpc c s pc : (forall i h e, pc <> MClock i h e) -> (forall i h e, s_mpc s <> MClock i h e) -> LInv c s -> LInv c (set_mpc s pc).
Proof.
  intros Hpc Hs H. unfold LInv in *. cbn [set_mpc s_mpc s_seen s_calls]. unfold last_done_is in *. cbn [set_mpc s_seen s_calls].
  destruct pc; try (destruct (s_mpc s); try exact H; exfalso; eapply Hs; reflexivity). exfalso. eapply Hpc. reflexivity.
Qed.

(* items in flight carry no exceptions when every input item is a readable piece *)
Definition all_pieces (c : config) : Prop := exists hs, yielded (cf_items c) = map RPiece hs.

Lemma inflight_no_exc c s idx h exc r : all_pieces c -> FInv c s -> s_hq s = QPiece idx h exc :: r -> exc = [].
Proof.
  intros (hs & HY) Hf Ehq. pose proof (fi_payload c s Hf) as Hp. unfold flight in Hp. rewrite Ehq in Hp.
  apply Forall_app in Hp as [_ Hp]. apply Forall_app in Hp as [_ Hp]. inversion Hp as [|? ? Hx _]; subst.
  cbn [payload_ok] in Hx. destruct Hx as [_ Hx]. rewrite HY, nth_error_map in Hx.
  destruct (nth_error hs (Z.to_nat idx)); cbn in Hx; [destruct Hx as [_ E]; exact E|contradiction].
Qed.

Lemma last_of_batch calls done idx e es :
  exists pre idx' e', calls ++ batch done idx (e :: es) = pre ++ [(done, idx', e')].
Proof.
  destruct (exists_last (l := e :: es) ltac:(discriminate)) as (es' & e' & E). rewrite E. unfold batch. rewrite map_app. cbn [map].
  exists (calls ++ map (fun x => (done, idx, x)) es'), idx, e'. rewrite app_assoc. reflexivity.
Qed.

(* the clock-read step of the collector for an item without exceptions in a hashing run with callback *)
Lemma collect_item_LInv c s idx h :
  has_user_cb c = true -> cf_verify c = None -> LInv c (collect_item c s idx h []).
Proof.
  intros Hcb Hv. unfold LInv.
  pose proof (collect_item_not_clock c s idx h []) as Hnc.
  assert (Hgoal : cf_total c <= zlen (s_seen (collect_item c s idx h [])) -> s_seen (collect_item c s idx h []) <> [] -> last_done_is (collect_item c s idx h [])).
  { intros Htot _. rewrite collect_item_seen in Htot.
    assert (Hge : zlen (s_seen s) >= cf_total c) by lia.
    destruct (collect_item_forced c s idx h [] Hcb (or_intror eq_refl) (or_intror (or_introl Hge))) as (e & es & Ec).
    unfold last_done_is. rewrite collect_item_seen, Ec. apply last_of_batch. }
  destruct (s_mpc (collect_item c s idx h [])) eqn:Em; try exact Hgoal. exact I.
Qed.

(* the item whose report is pending at a clock read carries no exception *)
Lemma clock_item_no_exc c s : reach c s -> all_pieces c -> forall idx h exc, s_mpc s = MClock idx h exc -> exc = [].
Proof.
  intros Hr Hap. induction Hr as [|s t a inc Hr IH Hen Hinc]; intros idx h exc E; [discriminate E|].
  pose proof (flow_invariant c s Hr) as Hf.
  unfold step in E. destruct (t =? 0).
  - unfold step_main in E. destruct (s_mpc s) eqn:Empc; cbn [set_mpc s_mpc] in E; try discriminate E.
    + destruct (refused c t0); [destruct (_ || _); [discriminate E|destruct (next_to_start c t0); discriminate E]|destruct (next_to_start c t0); discriminate E].
    + destruct (s_hq s) as [|[|i0 h0 e0] r] eqn:Ehq; [rewrite Empc in E; discriminate E|discriminate E|].
      destruct (existsb _ _); [discriminate E|]. cbn [set_mpc s_mpc] in E. injection E as _ _ <-.
      exact (inflight_no_exc c s i0 h0 e0 r Hap Hf Ehq).
    + exfalso. eapply (collect_item_not_clock c (set_now s (s_now s + inc)) idx0 h0 exc0). exact E.
    + destruct (s_stop s); [destruct a0|]; discriminate E.
    + destruct a0; discriminate E.
    + destruct (is_alive s 1); [discriminate E|]. cbn [set_mpc s_mpc] in E. unfold next_hasher in E. destruct (nth_error _ _); discriminate E.
    + unfold next_hasher in E. destruct (nth_error _ _); discriminate E.
    + destruct (is_alive s t0); [discriminate E|]. cbn [set_mpc s_mpc] in E. unfold next_hasher in E. destruct (nth_error _ _); discriminate E.
    + unfold next_hasher in E. destruct (nth_error _ _); discriminate E.
    + destruct (is_alive s 2); [discriminate E|]. unfold finish in E. destruct o; discriminate E.
    + unfold finish in E. destruct o; discriminate E.
    + rewrite Empc in E. discriminate E.
  - assert (Em : forall s', cview s' = cview s -> s_mpc s' = MClock idx h exc -> exc = []).
    { intros s' Ev E'. unfold cview in Ev. injection Ev as _ _ E3 _. rewrite E3 in E'. exact (IH idx h exc E'). }
    destruct (t =? 1).
    + destruct (s_rpc s); (eapply Em; [|exact E]); rewrite step_reader_cview; reflexivity.
    + destruct (t =? 2); (eapply Em; [|exact E]); [apply step_janitor_cview|apply step_hasher_cview].
Qed.

Lemma step_main_LInv c s inc :
  has_user_cb c = true -> cf_verify c = None -> all_pieces c -> reach c s -> LInv c s -> LInv c (step_main c s inc).
Proof.
  intros Hcb Hv Hap Hr Hl. unfold step_main. destruct (s_mpc s) eqn:Empc;
    try (apply LInv_set_mpc; [discriminate|rewrite Empc; discriminate|exact Hl]).
  - destruct (refused c t).
    + destruct ((t =? 1) || (t =? 2) || (t =? 3)).
      * unfold LInv in *. rewrite Empc in Hl. cbn [finish_main s_mpc s_seen s_calls]. exact Hl.
      * destruct (next_to_start c t); apply LInv_set_mpc; try discriminate; try (rewrite Empc; discriminate); exact Hl.
    + assert (Hst : LInv c (start_thread s t)) by (apply (LInv_of_lview c s); [apply cview_lview; apply start_thread_cview|exact Hl]).
      assert (Hm : forall i h e, s_mpc (start_thread s t) <> MClock i h e).
      { intros i h e. pose proof (start_thread_cview s t) as Ev. unfold cview in Ev. injection Ev as _ _ E3 _. rewrite E3, Empc. discriminate. }
      destruct (next_to_start c t); apply LInv_set_mpc; try discriminate; assumption.
  - destruct (s_hq s) as [|[|idx h exc] r] eqn:Ehq; [exact Hl| |].
    + apply LInv_set_mpc; [discriminate|cbn; rewrite Empc; discriminate|]. apply (LInv_of_lview c s); [reflexivity|exact Hl].
    + destruct (existsb (Z.eqb idx) (s_seen (set_hq s r))).
      * apply LInv_set_mpc; [discriminate|cbn; rewrite Empc; discriminate|]. apply (LInv_of_lview c s); [reflexivity|exact Hl].
      * unfold LInv. cbn [set_mpc s_mpc]. exact I.
  - (* the clock read *)
    assert (exc = []) as ->.
    { exact (clock_item_no_exc c s Hr Hap idx h exc Empc). }
    apply collect_item_LInv; assumption.
  - destruct (s_stop s); [destruct a|]; apply LInv_set_mpc; try discriminate; try (rewrite Empc; discriminate); exact Hl.
  - assert (Hs : LInv c (set_stop s true)) by (apply (LInv_of_lview c s); [reflexivity|exact Hl]).
    destruct a; apply LInv_set_mpc; try discriminate; try (cbn; rewrite Empc; discriminate); exact Hs.
  - destruct (is_alive s 1); apply LInv_set_mpc; try discriminate; try (rewrite Empc; discriminate); try exact Hl.
    unfold next_hasher. destruct (nth_error _ _); discriminate.
  - apply LInv_set_mpc; [unfold next_hasher; destruct (nth_error _ _); discriminate|rewrite Empc; discriminate|exact Hl].
  - destruct (is_alive s t); apply LInv_set_mpc; try discriminate; try (rewrite Empc; discriminate); try exact Hl.
    unfold next_hasher. destruct (nth_error _ _); discriminate.
  - apply LInv_set_mpc; [unfold next_hasher; destruct (nth_error _ _); discriminate|rewrite Empc; discriminate|exact Hl].
  - destruct (is_alive s 2); [apply LInv_set_mpc; [discriminate|rewrite Empc; discriminate|exact Hl]|].
    unfold finish. destruct o; unfold LInv in *; rewrite Empc in Hl; cbn [finish_main s_mpc s_seen s_calls]; exact Hl.
  - unfold finish. destruct o; unfold LInv in *; rewrite Empc in Hl; cbn [finish_main s_mpc s_seen s_calls]; exact Hl.
  - exact Hl.
Qed.

Theorem last_invariant c s :
  has_user_cb c = true -> cf_verify c = None -> all_pieces c -> reach c s -> LInv c s.
Proof.
  intros Hcb Hv Hap Hr. induction Hr as [|s t a inc Hr IH Hen Hinc].
  - unfold LInv. cbn. intros _ C. exfalso. apply C. reflexivity.
  - unfold step. destruct (t =? 0); [apply step_main_LInv; assumption|].
    destruct (t =? 1).
    + destruct (s_rpc s); (apply (LInv_of_lview c s); [apply cview_lview; rewrite step_reader_cview; reflexivity|exact IH]).
    + destruct (t =? 2); (apply (LInv_of_lview c s); [apply cview_lview|exact IH]); [apply step_janitor_cview|apply step_hasher_cview].
Qed.

Lemma NoDup_bounded_length (l : list Z) n : 0 <= n -> NoDup l -> Forall (fun i => 0 <= i < n) l -> zlen l <= n.
Proof.
  intros Hn Hnd Hb.
  { assert (Hincl : incl (map Z.to_nat l) (seq 0 (Z.to_nat n))).
    { intros x Hx. apply in_map_iff in Hx as (i & <- & Hi). rewrite Forall_forall in Hb. specialize (Hb i Hi). apply in_seq. lia. }
    assert (Hnd' : NoDup (map Z.to_nat l)).
    { clear Hincl. induction l as [|x r IHl]; [constructor|]. inversion Hnd as [|? ? Hni Hnd0]; subst. inversion Hb as [|? ? Hx Hb0]; subst.
      cbn [map]. constructor; [|apply IHl; assumption]. intros Hin. apply in_map_iff in Hin as (y & Ey & Hy).
      rewrite Forall_forall in Hb0. pose proof (Hb0 y Hy). assert (y = x) by lia. subst y. exact (Hni Hy). }
    pose proof (NoDup_incl_length Hnd' Hincl) as Hlen. rewrite map_length, seq_length in Hlen. unfold zlen. lia. }
Qed.

(* C12: a hashing run with a callback that returns True made its last report with done = total *)
Theorem last_call_reports_total c s hs :
  reach c s -> cf_verify c = None -> has_user_cb c = true ->
  yielded (cf_items c) = map RPiece hs -> cf_total c = zlen hs -> 0 < cf_total c ->
  s_result s = Some ResTrue ->
  exists pre idx e, s_calls s = pre ++ [(cf_total c, idx, e)].
Proof.
  intros Hr Hv Hcb HY Htot Hpos Hres.
  pose proof (flow_invariant c s Hr) as Hf. destruct (result_invariant c s Hr) as [Hdone Hcount].
  pose proof (last_invariant c s Hcb Hv (ex_intro _ hs HY) Hr) as Hl.
  specialize (Hcount Hres Hv). unfold LInv in Hl.
  assert (Hmpc : s_mpc s = MDone) by (apply Hdone; rewrite Hres; discriminate). rewrite Hmpc in Hl.
  (* the number of collected pieces is exactly the total *)
  assert (Hlen_h : zlen (s_hashes s) = cf_total c).
  { rewrite sorted_hashes_isort in Hcount. unfold zlen in *. rewrite map_length in Hcount.
    rewrite (Permutation_length (OrderProofs.isort_perm (fun p : Z * Z => p) pair_ltb (s_hashes s))) in Hcount. exact Hcount. }
  assert (Hge : cf_total c <= zlen (s_seen s)).
  { pose proof (fi_hnodup c s Hf) as Hnd. pose proof (fi_hashes c s Hf) as Hh.
    assert (Hincl : incl (map fst (s_hashes s)) (s_seen s)).
    { intros i Hi. apply in_map_iff in Hi as (p & <- & Hp). rewrite Forall_forall in Hh. exact (proj1 (Hh p Hp)). }
    pose proof (NoDup_incl_length Hnd Hincl) as Hlen. rewrite map_length in Hlen. unfold zlen in *. lia. }
  assert (Hle : zlen (s_seen s) <= cf_total c).
  { pose proof (fi_nodup c s Hf) as Hnd. pose proof (fi_bound c s Hf) as Hb. pose proof (fi_ridx c s Hf) as Hri.
    unfold indices in *. apply NoDup_app_r in Hnd. apply Forall_app in Hb as [_ Hb].
    pose proof (NoDup_bounded_length (s_seen s) (s_ridx s) (proj1 Hri) Hnd Hb). rewrite HY in Hri. unfold zlen in *. rewrite map_length in Hri. lia. }
  assert (Hne : s_seen s <> []) by (intros E; rewrite E in Hge; unfold zlen in Hge; cbn in Hge; lia).
  destruct (Hl Hge Hne) as (pre & idx & e & Ec). exists pre, idx, e. rewrite Ec. repeat f_equal. lia.
Qed.
