(* FilesizeProofs.v -- C20: the file-size check is exact. *)
From Coq Require Import Lia ZifyBool.
From Torf Require Import Base Filesize.
Open Scope Z_scope.

Definition all_match (files : list Z) (disk : list fstate) : Prop :=
  Forall2 (fun expected st => st = FSize expected) files disk.

Lemma file_error_none expected st : file_error expected st = None <-> st = FSize expected.
Proof.
  destruct st as [|n]; cbn; [split; discriminate|].
  destruct (n =? expected) eqn:E; split; intros H; try discriminate; try reflexivity.
  - f_equal. lia.
  - inversion H. lia.
Qed.

(* without a callback: True iff every listed file has exactly the recorded size; otherwise the
   error of the FIRST offending file is raised *)
Theorem nocb_exact files : forall disk i n s calls,
  length files = length disk ->
  match vf_loop None i n s files disk calls with
  | (FRet b, calls') => b = negb s /\ all_match files disk /\ calls' = calls
  | (FRaise e, calls') =>
      calls' = calls /\
      exists k expected st, nth_error files k = Some expected /\ nth_error disk k = Some st /\
                            file_error expected st = Some e /\
                            all_match (firstn k files) (firstn k disk)
  end.
Proof.
  induction files as [|x fr IH]; intros [|st dr] i n s calls Hlen; try discriminate; cbn [vf_loop].
  - split; [reflexivity|split; [constructor|reflexivity]].
  - destruct (file_error x st) as [e|] eqn:Ee.
    + split; [reflexivity|]. exists 0%nat, x, st. repeat split; try assumption. constructor.
    + cbn [length] in Hlen. specialize (IH dr (i + 1) n s calls ltac:(lia)).
      destruct (vf_loop None (i + 1) n s fr dr calls) as [[b|e] calls'].
      * destruct IH as (A & B & C). split; [exact A|]. split; [|exact C].
        constructor; [apply file_error_none; exact Ee|exact B].
      * destruct IH as (A & k & ex & st' & K1 & K2 & K3 & K4). split; [exact A|].
        exists (S k), ex, st'. repeat split; try assumption. cbn [firstn]. constructor; [apply file_error_none; exact Ee|exact K4].
Qed.

(* the calls a never-cancelling callback receives: one per listed file, in order, done = index+1,
   an error iff the file is offending *)
Fixpoint spec_calls (i : Z) (files : list Z) (disk : list fstate) : list fcall :=
  match files, disk with
  | x :: fr, st :: dr => (i, i + 1, file_error x st) :: spec_calls (i + 1) fr dr
  | _, _ => []
  end.

Fixpoint any_err (files : list Z) (disk : list fstate) : bool :=
  match files, disk with
  | x :: fr, st :: dr => (match file_error x st with Some _ => true | None => false end) || any_err fr dr
  | _, _ => false
  end.

Theorem passive_cb files : forall disk i n s calls,
  0 <= n ->
  vf_loop (Some 0) i n s files disk calls =
    (FRet (negb (s || any_err files disk)), calls ++ spec_calls i files disk).
Proof.
  induction files as [|x fr IH]; intros disk i n s calls Hn; cbn [vf_loop spec_calls any_err].
  - rewrite orb_false_r, app_nil_r. destruct disk; reflexivity.
  - destruct disk as [|st dr]; [rewrite orb_false_r, app_nil_r; reflexivity|].
    replace (n + 1 =? 0) with false by lia. rewrite IH by lia.
    rewrite orb_assoc, <- app_assoc. reflexivity.
Qed.

(* a callback that cancels at its k-th call receives exactly k calls and the result is False *)
Theorem cancelling_cb files : forall disk i n s calls k,
  0 <= n -> n < k -> (Z.to_nat (k - n) <= Nat.min (length files) (length disk))%nat ->
  vf_loop (Some k) i n s files disk calls =
    (FRet false, calls ++ firstn (Z.to_nat (k - n)) (spec_calls i files disk)).
Proof.
  induction files as [|x fr IH]; intros disk i n s calls k Hn Hk Hlen.
  - cbn [length Nat.min] in Hlen. lia.
  - destruct disk as [|st dr]; [cbn [length] in Hlen; lia|].
    cbn [vf_loop spec_calls]. destruct (n + 1 =? k) eqn:E.
    + replace (Z.to_nat (k - n)) with 1%nat by lia. reflexivity.
    + rewrite IH; [|lia|lia|cbn [length] in Hlen; lia].
      replace (Z.to_nat (k - n)) with (S (Z.to_nat (k - (n + 1)))) by lia.
      cbn [firstn]. rewrite <- app_assoc. reflexivity.
Qed.

Lemma spec_calls_length i files disk : length files = length disk -> length (spec_calls i files disk) = length files.
Proof.
  revert i disk; induction files as [|x fr IH]; intros i [|st dr] H; try discriminate; [reflexivity|].
  cbn [spec_calls length]. f_equal. apply IH. cbn in H. lia.
Qed.

Lemma any_err_false files : forall disk, length files = length disk ->
  (any_err files disk = false <-> all_match files disk).
Proof.
  induction files as [|x fr IH]; intros [|st dr] H; try discriminate; cbn [any_err].
  - split; [constructor|reflexivity].
  - cbn in H. destruct (file_error x st) as [e|] eqn:E; cbn [orb].
    + split; [discriminate|]. intros Hm. inversion Hm as [|? ? ? ? Hh Ht]. apply file_error_none in Hh. congruence.
    + rewrite IH by lia. split; intros Hm; [constructor; [apply file_error_none; exact E|exact Hm]|inversion Hm; assumption].
Qed.
