(* PipeConfigs.v -- exhaustive exploration of concrete configurations of the
   pipeline model, decided inside Coq by vm_compute and lifted to all schedules by
   checkb_sound.  Each lemma is a bounded statement: the configuration is in its
   name and statement; the quantification over schedules (every interleaving at
   every scheduling point, every placement of every timeout) is complete. *)
From Torf Require Import Base Pipeline PipeExplore PipeExploreProofs.
Open Scope Z_scope.

Definition mk (items : list rev) (total : Z) (n : nat) (plan : cbplan) (refuse : list Z) (v : option (list Z)) : config :=
  {| cf_items := items; cf_total := total; cf_hashers := n; cf_interval := 0; cf_plan := plan; cf_verify := v; cf_refuse := refuse |}.

Definition FUEL : nat := Z.to_nat 1000000.
Definition DEPTH : nat := Z.to_nat 2000.

Definition all_schedules_ok (c : config) (ref : list Z) (may_false : bool) (raises : list Z) : Prop :=
  forall s, xreach c s -> goodb c ref may_false raises s = true /\ finishes c s.

Ltac explore := unfold all_schedules_ok; apply (checkb_sound FUEL DEPTH); vm_compute; reflexivity.

(* generate(): 4 pieces, one hasher: more pieces than the piece queue holds (3) *)
Definition G_4x1 := mk [RPiece 1; RPiece 2; RPiece 3; RPiece 4] 4 1 CbAbsent [] None.
Lemma G_4x1_ok : all_schedules_ok G_4x1 [1; 2; 3; 4] false [].
Proof. explore. Qed.

(* generate(): 2 pieces, two hashers (one vital, one that may quit when idle) *)
Definition G_2x2 := mk [RPiece 1; RPiece 2] 2 2 CbAbsent [] None.
Lemma G_2x2_ok : all_schedules_ok G_2x2 [1; 2] false [].
Proof. explore. Qed.

(* the callback cancels from the second piece on: False, or True with the complete string *)
Definition G_cancel := mk [RPiece 1; RPiece 2; RPiece 3] 3 1 (CbCancelFrom 2) [] None.
Lemma G_cancel_ok : all_schedules_ok G_cancel [1; 2; 3] true [].
Proof. explore. Qed.

(* the callback raises from the second piece on: its exception (-1) reaches the caller *)
Definition G_raise := mk [RPiece 1; RPiece 2; RPiece 3] 3 1 (CbRaiseFrom 2) [] None.
Lemma G_raise_ok : all_schedules_ok G_raise [1; 2; 3] false [-1].
Proof. explore. Qed.

(* the third read fails (ReadError 5) *)
Definition G_readfail := mk [RPiece 1; RPiece 2; RFail 5] 3 1 CbAbsent [] None.
Lemma G_readfail_ok : all_schedules_ok G_readfail [1; 2; 3] false [5].
Proof. explore. Qed.

(* the start of the second hasher is refused: harmless *)
Definition G_refuse_hasher2 := mk [RPiece 1; RPiece 2] 2 2 CbAbsent [4] None.
Lemma G_refuse_hasher2_ok : all_schedules_ok G_refuse_hasher2 [1; 2] false [].
Proof. explore. Qed.

(* verify(): the second item carries an error (missing file); with a callback: False *)
Definition V_exc_cb := mk [RPiece 1; RExc [2]; RPiece 3] 3 1 CbQuiet [] (Some [1; 2; 3]).
Lemma V_exc_cb_ok : all_schedules_ok V_exc_cb [1; 2; 3] true [].
Proof. explore. Qed.

(* ... without a callback: the error is raised *)
Definition V_exc_nocb := mk [RPiece 1; RExc [2]; RPiece 3] 3 1 CbAbsent [] (Some [1; 2; 3]).
Lemma V_exc_nocb_ok : all_schedules_ok V_exc_nocb [1; 2; 3] false [2].
Proof. explore. Qed.

(* verify(): the second piece is corrupt (hash 9 instead of 2): content error 1000, or False with a callback *)
Definition V_corrupt_nocb := mk [RPiece 1; RPiece 9; RPiece 3] 3 1 CbAbsent [] (Some [1; 2; 3]).
Lemma V_corrupt_nocb_ok : all_schedules_ok V_corrupt_nocb [1; 2; 3] false [1000].
Proof. explore. Qed.
Definition V_corrupt_cb := mk [RPiece 1; RPiece 9; RPiece 3] 3 2 CbQuiet [] (Some [1; 2; 3]).
Lemma V_corrupt_cb_ok : all_schedules_ok V_corrupt_cb [1; 2; 3] true [].
Proof. explore. Qed.

(* verify(): intact content, two hashers *)
Definition V_clean := mk [RPiece 1; RPiece 2] 2 2 CbQuiet [] (Some [1; 2]).
Lemma V_clean_ok : all_schedules_ok V_clean [1; 2] false [].
Proof. explore. Qed.

(* refuted (known findings): the start of the janitor / of the first hasher is refused:
   the call raises RuntimeError while worker threads are still running *)
Definition G_refuse_janitor := mk [RPiece 1; RPiece 2] 2 1 CbAbsent [2] None.
Lemma G_refuse_janitor_refuted :
  exists sched, let s := fst (run G_refuse_janitor (init G_refuse_janitor) sched) in
                s_result s = Some (ResRuntimeError 1) /\ running_threads G_refuse_janitor s = [1; 3].
Proof. exists [(0, AGo, 0); (0, AGo, 0); (0, AGo, 0); (0, AGo, 0); (0, AGo, 0); (0, AGo, 0)]. vm_compute. split; reflexivity. Qed.

Definition G_refuse_hasher1 := mk [RPiece 1; RPiece 2] 2 1 CbAbsent [3] None.
Lemma G_refuse_hasher1_refuted :
  exists sched, let s := fst (run G_refuse_hasher1 (init G_refuse_hasher1) sched) in
                s_result s = Some (ResRuntimeError 1) /\ running_threads G_refuse_hasher1 s = [1].
Proof. exists [(0, AGo, 0); (0, AGo, 0); (0, AGo, 0); (0, AGo, 0)]. vm_compute. split; reflexivity. Qed.
