(* ConvertProofs.v -- C06: the bytes hashed by Torrent.infohash are exactly the span
   of the info value inside the dumped bytes; C08: read_stream only produces the
   documented errors (model level). *)
From Coq Require Import Lia ZifyBool.
From Torf Require Import Base Sexp Bencode PyVal Extracted Convert Validate Export BencodeProofs.
Open Scope Z_scope.

Lemma bytes_eqb_eq a : forall b, bytes_eqb a b = true <-> a = b.
Proof.
  induction a as [|x a IH]; intros [|y b]; cbn [bytes_eqb]; split; intros H; try discriminate; try reflexivity.
  - apply andb_true_iff in H as [H1 H2]. apply N.eqb_eq in H1. apply IH in H2. congruence.
  - inversion H; subst. rewrite N.eqb_refl. cbn. apply IH. reflexivity.
Qed.

Lemma bind_ok {A B} (r : res A) (f : A -> res B) y :
  bind r f = Ok y -> exists x, r = Ok x /\ f x = Ok y.
Proof. destruct r as [x|e]; cbn [bind]; intros H; [eauto|discriminate]. Qed.

(* ---- mapM ---- *)
Lemma mapM_In {A B} (f : A -> res B) : forall l l' x,
  mapM f l = Ok l' -> In x l -> exists y, f x = Ok y /\ In y l'.
Proof.
  induction l as [|a r IH]; intros l' x H Hin; [destruct Hin|].
  cbn [mapM] in H. destruct (f a) as [b|e] eqn:Ea; cbn [bind] in H; [|discriminate].
  destruct (mapM f r) as [bs|e] eqn:Er; cbn [bind] in H; [|discriminate].
  inversion H; subst. destruct Hin as [->|Hin].
  - exists b. split; [exact Ea|left; reflexivity].
  - destruct (IH bs x eq_refl Hin) as (y & Hy & Hin'). exists y. split; [exact Hy|right; exact Hin'].
Qed.

Lemma mapM_ext_ok {A B} (f g : A -> res B) : forall l l',
  (forall x y, In x l -> f x = Ok y -> g x = Ok y) -> mapM f l = Ok l' -> mapM g l = Ok l'.
Proof.
  induction l as [|a r IH]; intros l' Hfg H; [exact H|].
  cbn [mapM] in *. destruct (f a) as [b|e] eqn:Ea; cbn [bind] in H; [|discriminate].
  rewrite (Hfg a b (or_introl eq_refl) Ea). cbn [bind].
  destruct (mapM f r) as [bs|e] eqn:Er; cbn [bind] in H; [|discriminate].
  rewrite (IH bs (fun x y Hx => Hfg x y (or_intror Hx)) eq_refl). exact H.
Qed.

(* ---- unfolding equations ---- *)
Lemma ev_list f l : encode_value (S f) (PList l) = (do l' <- mapM (encode_value f) l; Ok (BList l')).
Proof. reflexivity. Qed.
Lemma ev_tuple f l : encode_value (S f) (PTuple l) = (do l' <- mapM (encode_value f) l; Ok (BList l')).
Proof. reflexivity. Qed.
Lemma ev_set f l : encode_value (S f) (PSet l) = (do l' <- mapM (encode_value f) l; Ok (BList l')).
Proof. reflexivity. Qed.
Lemma ev_dict f kvs : encode_value (S f) (PDict kvs) = encode_dict_aux f kvs.
Proof. reflexivity. Qed.
Lemma ed_eq f kvs : encode_dict_aux (S f) kvs =
  match str_keys kvs with
  | None => Err IValue
  | Some skvs =>
      do enc <- mapM (fun kv => do v' <- encode_value f (snd kv); Ok (fst kv, v')) (sort_kvs skvs);
      Ok (BDict enc)
  end.
Proof. reflexivity. Qed.

(* ---- more fuel never changes a successful conversion ---- *)
Lemma encode_fuel_mono : forall f,
  (forall v r, encode_value f v = Ok r -> encode_value (S f) v = Ok r) /\
  (forall kvs r, encode_dict_aux f kvs = Ok r -> encode_dict_aux (S f) kvs = Ok r).
Proof.
  induction f as [|f [IHv IHd]]; [split; intros; discriminate|].
  assert (forall l l', mapM (encode_value f) l = Ok l' -> mapM (encode_value (S f)) l = Ok l') as Hm.
  { intros l l' E. apply (mapM_ext_ok (encode_value f) (encode_value (S f)) l l'); [|exact E].
    intros x y _ Hx. apply IHv. exact Hx. }
  assert (forall v r, encode_value (S f) v = Ok r -> encode_value (S (S f)) v = Ok r) as Hv.
  { intros v r H. destruct v; try exact H.
    - rewrite ev_list in *. destruct (mapM (encode_value f) l) as [l'|e] eqn:E; cbn [bind] in H; [|discriminate].
      rewrite (Hm l l' E). exact H.
    - rewrite ev_tuple in *. destruct (mapM (encode_value f) l) as [l'|e] eqn:E; cbn [bind] in H; [|discriminate].
      rewrite (Hm l l' E). exact H.
    - rewrite ev_dict in *. apply IHd. exact H.
    - rewrite ev_set in *. destruct (mapM (encode_value f) l) as [l'|e] eqn:E; cbn [bind] in H; [|discriminate].
      rewrite (Hm l l' E). exact H. }
  split; [exact Hv|].
  intros kvs r H. rewrite ed_eq in *.
  destruct (str_keys kvs) as [skvs|]; [|discriminate].
  match type of H with bind (mapM ?F ?L) _ = _ => destruct (mapM F L) as [enc|e] eqn:E end; cbn [bind] in H; [|discriminate].
  erewrite mapM_ext_ok; [exact H| |exact E].
  intros [k v] y _ Hy. cbn [fst snd] in *.
  destruct (encode_value f v) as [v'|e] eqn:Ev; cbn [bind] in Hy; [|discriminate].
  rewrite (IHv v v' Ev). exact Hy.
Qed.

Lemma encode_value_mono f f' v r : (f <= f')%nat -> encode_value f v = Ok r -> encode_value f' v = Ok r.
Proof.
  intros Hle H. induction Hle as [|m Hle IH]; [exact H|]. apply (proj1 (encode_fuel_mono m)). exact IH.
Qed.

Lemma encode_dict_aux_mono f f' kvs r : (f <= f')%nat -> encode_dict_aux f kvs = Ok r -> encode_dict_aux f' kvs = Ok r.
Proof.
  intros Hle H. induction Hle as [|m Hle IH]; [exact H|]. apply (proj2 (encode_fuel_mono m)). exact IH.
Qed.

Lemma str_keys_get kvs : forall skvs k v,
  str_keys kvs = Some skvs -> dict_get kvs (PStr k) = Some v -> In (k, v) skvs.
Proof.
  induction kvs as [|[k0 v0] r IH]; intros skvs k v Hs Hg; [discriminate|].
  cbn [str_keys] in Hs. destruct k0; try discriminate.
  destruct (str_keys r) as [l|] eqn:El; [|discriminate]. inversion Hs; subst.
  cbn [dict_get py_eqb] in Hg. destruct (bytes_eqb s k) eqn:E.
  - apply bytes_eqb_eq in E. inversion Hg; subst. left. reflexivity.
  - right. eapply IH; eauto.
Qed.

Lemma encode_dict_aux_agree f1 f2 kvs r1 r2 :
  encode_dict_aux f1 kvs = Ok r1 -> encode_dict_aux f2 kvs = Ok r2 -> r1 = r2.
Proof.
  intros H1 H2.
  pose proof (encode_dict_aux_mono f1 (Nat.max f1 f2) kvs r1 (Nat.le_max_l _ _) H1) as A.
  pose proof (encode_dict_aux_mono f2 (Nat.max f1 f2) kvs r2 (Nat.le_max_r _ _) H2) as B.
  congruence.
Qed.

(* fuel-generic form of the span lemma *)
Lemma dict_span_gen f f2 kvs bv k info vi :
  encode_dict_aux f kvs = Ok bv -> dict_get kvs (PStr k) = Some (PDict info) ->
  encode_dict_aux f2 info = Ok vi ->
  exists pre post, benc bv = pre ++ benc_str k ++ benc vi ++ post.
Proof.
  intros Ec Eg Ei. destruct f as [|f]; [discriminate|]. rewrite ed_eq in Ec.
  destruct (str_keys kvs) as [skvs|] eqn:Es; [|discriminate].
  match type of Ec with bind (mapM ?F ?L) _ = _ => destruct (mapM F L) as [enc|e] eqn:Em end; cbn [bind] in Ec; [|discriminate].
  inversion Ec; subst. clear Ec.
  pose proof (str_keys_get _ _ _ _ Es Eg) as Hin.
  apply (proj2 (sort_kvs_In skvs (k, PDict info))) in Hin.
  destruct (mapM_In _ _ _ _ Em Hin) as (y & Hy & Hyin). cbn [fst snd] in Hy.
  match type of Hy with bind ?X _ = _ => destruct X as [v'|e] eqn:Ev end; cbn [bind] in Hy; [|discriminate].
  inversion Hy; subst. clear Hy.
  destruct f as [|f]; [discriminate|]. rewrite ev_dict in Ev.
  rewrite (encode_dict_aux_agree _ _ _ _ _ Ev Ei) in Hyin.
  apply benc_dict_span. exact Hyin.
Qed.

Lemma encode_dict_unfold kvs : encode_dict kvs = encode_dict_aux depth_limit kvs.
Proof. reflexivity. Qed.

Section Exp.
Variable is_url : bytes -> bool.

(* C06: the hashed bytes are the span of the info value in the dumped bytes *)
Lemma encode_ok bv x : encode bv = Ok x -> x = benc bv.
Proof. unfold encode. destruct (has_huge_int bv); intros H; inversion H; reflexivity. Qed.

Lemma encode_m_ok bv x : encode_m bv = Ok x -> x = benc bv.
Proof.
  unfold encode_m. intros H. apply encode_ok.
  destruct (encode bv) as [y|e]; [exact H|destruct e; discriminate].
Qed.

Lemma convert_ok md bv : convert md = Ok bv -> encode_dict (ensure_info md) = Ok bv.
Proof.
  unfold convert. destruct (encode_dict (ensure_info md)) as [bv'|e]; [auto|destruct e; discriminate].
Qed.

Lemma dump_ok fs v md x :
  dump is_url fs v md = Ok x -> exists bv, encode_dict (ensure_info md) = Ok bv /\ x = benc bv.
Proof.
  unfold dump. intros Hd.
  apply bind_ok in Hd as (u & _ & Hd).
  apply bind_ok in Hd as (bv & Hc & Hd).
  exists bv. split; [apply convert_ok; exact Hc|apply encode_m_ok; exact Hd].
Qed.

Lemma infohash_input_ok fs md h :
  infohash_input is_url fs md = Ok h ->
  exists info vi, dict_get (ensure_info md) (PStr k_info) = Some (PDict info) /\
                  encode_dict info = Ok vi /\ h = benc vi.
Proof.
  unfold infohash_input. intros Hi.
  apply bind_ok in Hi as (u & _ & Hi).
  destruct (dict_get (ensure_info md) (PStr k_info)) as [iv|] eqn:Eg; [|discriminate].
  destruct iv; try discriminate.
  destruct (encode_dict kvs) as [vi|e] eqn:Ei; [|destruct e; discriminate].
  exists kvs, vi. split; [reflexivity|]. split; [exact Ei|].
  apply encode_m_ok. exact Hi.
Qed.

Theorem infohash_is_info_span fs v md x h :
  dump is_url fs v md = Ok x -> infohash_input is_url fs md = Ok h ->
  exists pre post, x = pre ++ benc_str k_info ++ h ++ post.
Proof.
  intros Hd Hi.
  destruct (dump_ok _ _ _ _ Hd) as (bv & Ec & ->).
  destruct (infohash_input_ok _ _ _ Hi) as (info & vi & Eg & Ei & ->).
  rewrite encode_dict_unfold in Ec, Ei.
  exact (dict_span_gen depth_limit depth_limit (ensure_info md) bv k_info info vi Ec Eg Ei).
Qed.

(* C08 (model level): without validation read_stream only fails with the decode or
   metainfo error (the size guard is outside the property's domain) *)
Lemma decode_value_err : forall f v e, decode_value f v = Err e -> e = IRecursion.
Proof.
  induction f as [|f IH]; intros v e H; [inversion H; reflexivity|].
  destruct v as [z|b|l|kvs]; cbn [decode_value] in H; try discriminate.
  - induction l as [|x r IHl]; cbn [mapM bind] in H; [discriminate|].
    destruct (decode_value f x) as [x'|e'] eqn:Ex; cbn [bind] in H; [|inversion H; subst; eapply IH; eauto].
    destruct (mapM (decode_value f) r) as [r'|e'] eqn:Er; cbn [bind] in H; [discriminate|].
    apply IHl. cbn [bind]. exact H.
  - destruct f as [|f2]; [inversion H; reflexivity|].
    assert (forall v0 e0, decode_value f2 v0 = Err e0 -> e0 = IRecursion) as IH2.
    { intros v0 e0 Hv. (* the induction hypothesis at S f2, through a one-element list *)
      apply (IH (BList [v0]) e0). cbn [decode_value mapM]. rewrite Hv. reflexivity. }
    induction kvs as [|[k x] r IHl]; cbn [mapM bind] in H; [discriminate|].
    cbn [fst snd] in H.
    destruct (decode_value f2 x) as [x'|e'] eqn:Ex; cbn [bind] in H; [|inversion H; subst; eapply IH2; eauto].
    match type of H with bind (bind (mapM ?F r) _) _ = _ => destruct (mapM F r) as [r'|e'] eqn:Er end; cbn [bind] in H; [discriminate|].
    apply IHl. cbn [bind]. exact H.
Qed.

Definition doc_err {X} (r : res X) : Prop :=
  match r with Ok _ => True | Err e => e = DBdecode \/ e = DMetainfo end.

Lemma rs_decode_typed x : doc_err (rs_decode x).
Proof.
  unfold rs_decode. pose proof (bdec_typed x) as Hb.
  destruct (bdec x) as [v|e]; [exact I|].
  cbn in Hb. destruct Hb as [-> | [-> | ->]]; vm_compute; auto.
Qed.

Lemma rs_convert_typed v : doc_err (rs_convert v).
Proof.
  unfold rs_convert. pose proof (decode_value_err (S depth_limit) v) as Hd.
  destruct (decode_value (S depth_limit) v) as [p|e]; [exact I|].
  rewrite (Hd e eq_refl). vm_compute. auto.
Qed.

Lemma rs_info_check_typed b md : doc_err (rs_info_check b md).
Proof.
  unfold rs_info_check. destruct (dict_get md (PStr k_info)) as [[]|]; try (cbn; auto; fail).
  destruct b; cbn; auto.
Qed.

Lemma rs_cdate_typed ekvs md : doc_err (rs_cdate ekvs md).
Proof.
  unfold rs_cdate. destruct (bdict_get ekvs k_creation_date) as [[z|b|l|kvs]|]; try exact I.
  - destruct ((ts_min <=? z) && (z <=? ts_max)); [exact I|]. vm_compute. auto.
  - destruct (bval_truthy (BStr b)); [vm_compute; auto|exact I].
  - destruct (bval_truthy (BList l)); [vm_compute; auto|exact I].
  - destruct (bval_truthy (BDict kvs)); [vm_compute; auto|exact I].
Qed.

Lemma doc_err_bind {A B} (r : res A) (f : A -> res B) :
  doc_err r -> (forall a, doc_err (f a)) -> doc_err (bind r f).
Proof. destruct r as [a|e]; cbn [bind]; intros H Hf; [apply Hf|exact H]. Qed.

Theorem read_stream_novalidate_typed x :
  Z.of_nat (length x) <= ex_max_torrent_file_size ->
  doc_err (read_stream is_url false x).
Proof.
  intros Hsz. unfold read_stream.
  replace (Z.of_nat (length x) >? ex_max_torrent_file_size) with false by lia.
  apply doc_err_bind; [apply rs_decode_typed|]. intros enc.
  destruct enc as [z|b|l|ekvs]; try (cbn; auto; fail).
  destruct (rs_strip_pieces ekvs) as [pieces ekvs1].
  apply doc_err_bind; [apply rs_convert_typed|]. intros dec.
  destruct dec; try (cbn; auto; fail).
  apply doc_err_bind; [apply rs_info_check_typed|]. intros _.
  apply doc_err_bind; [apply rs_cdate_typed|]. intros md2. exact I.
Qed.

Lemma ensure_info_idem md : ensure_info (ensure_info md) = ensure_info md.
Proof.
  unfold ensure_info at 1. destruct (dict_get (ensure_info md) (PStr k_info)) eqn:E; [reflexivity|].
  exfalso. unfold ensure_info in E. destruct (dict_get md (PStr k_info)) eqn:E2; [congruence|].
  clear E2. induction md as [|[k v] r IH]; cbn [app dict_get] in E.
  - cbn in E. discriminate.
  - destruct (py_eqb k (PStr k_info)); [discriminate|]. apply IH. exact E.
Qed.

Lemma validate_ensure_info fs md : validate is_url fs (ensure_info md) = validate is_url fs md.
Proof. unfold validate. rewrite ensure_info_idem. reflexivity. Qed.

Theorem read_stream_validated x md :
  read_stream is_url true x = Ok md -> validate is_url FSNone md = Ok tt.
Proof.
  unfold read_stream. destruct (Z.of_nat (length x) >? ex_max_torrent_file_size); [discriminate|].
  intros H. apply bind_ok in H as (enc & _ & H).
  destruct enc as [z|b|l|ekvs]; try discriminate.
  destruct (rs_strip_pieces ekvs) as [pieces ekvs1].
  apply bind_ok in H as (dec & _ & H). destruct dec; try discriminate.
  apply bind_ok in H as (u & _ & H). apply bind_ok in H as (md2 & _ & H).
  unfold rs_finish in H. apply bind_ok in H as ([] & Hv & H).
  inversion H; subst. rewrite validate_ensure_info. exact Hv.
Qed.
End Exp.
