(* QueryProofs.v -- C13: a rendered query string splits back into exactly the
   rendered fields: parse_qsl inverts the joining of key=value fields whose values
   are URL-encoded. *)
From Coq Require Import Lia ZifyBool.
From Torf Require Import Base Sexp UrlQuote UrlQuoteProofs.
Open Scope Z_scope.

(* ---- splitting on a separator ---- *)
Lemma split_on_no_sep sep b : forall cur, ~ In sep b -> split_on sep b cur = [rev cur ++ b].
Proof.
  induction b as [|c r IH]; intros cur Hn; cbn [split_on]; [rewrite app_nil_r; reflexivity|].
  destruct (c =? sep)%N eqn:E; [exfalso; apply Hn; left; lia|].
  rewrite IH by (intros H; apply Hn; right; exact H). cbn [rev]. rewrite <- app_assoc. reflexivity.
Qed.

Lemma split_on_app sep a b : forall cur, ~ In sep a ->
  split_on sep (a ++ sep :: b) cur = (rev cur ++ a) :: split_on sep b [].
Proof.
  induction a as [|c r IH]; intros cur Hn; cbn [app split_on].
  - rewrite N.eqb_refl, app_nil_r. reflexivity.
  - destruct (c =? sep)%N eqn:E; [exfalso; apply Hn; left; lia|].
    rewrite IH by (intros H; apply Hn; right; exact H). cbn [rev]. rewrite <- app_assoc. reflexivity.
Qed.

Lemma split_on_join sep l : Forall (fun x => ~ In sep x) l -> l <> [] -> split_on sep (join_with sep l) [] = l.
Proof.
  induction l as [|x r IH]; intros Hf Hne; [exfalso; apply Hne; reflexivity|].
  inversion Hf as [|? ? Hx Hr]; subst. destruct r as [|y r'].
  - cbn [join_with]. apply split_on_no_sep. exact Hx.
  - cbn [join_with]. rewrite split_on_app by exact Hx. cbn [rev app]. f_equal. apply IH; [exact Hr|discriminate].
Qed.

(* ---- key = value ---- *)
Lemma cut_eq_spec k v : forall acc, ~ In 61%N k -> cut_eq (k ++ 61%N :: v) acc = Some (rev acc ++ k, v).
Proof.
  induction k as [|c r IH]; intros acc Hn; cbn [app cut_eq].
  - rewrite app_nil_r. reflexivity.
  - destruct (c =? 61)%N eqn:E; [exfalso; apply Hn; left; lia|].
    rewrite IH by (intros H; apply Hn; right; exact H). cbn [rev]. rewrite <- app_assoc. reflexivity.
Qed.

(* text without '+' and '%' is not changed by unquoting *)
Lemma unquote_plain b : ~ In 43%N b -> ~ In 37%N b -> forall fuel, (length b < fuel)%nat -> unquote_plus_fuel fuel b = b.
Proof.
  induction b as [|c r IH]; intros H1 H2 fuel Hf; [destruct fuel; reflexivity|].
  destruct fuel as [|fuel]; [cbn in Hf; lia|]. cbn [unquote_plus_fuel].
  destruct (c =? 43)%N eqn:E1; [exfalso; apply H1; left; lia|].
  destruct (c =? 37)%N eqn:E2; [exfalso; apply H2; left; lia|].
  f_equal. apply IH; [intros H; apply H1; right; exact H|intros H; apply H2; right; exact H|cbn in Hf; lia].
Qed.

Lemma unquote_plus_plain b : ~ In 43%N b -> ~ In 37%N b -> unquote_plus b = b.
Proof. intros H1 H2. unfold unquote_plus. apply unquote_plain; [exact H1|exact H2|lia]. Qed.

(* a key: no separator, no escape character *)
Definition key_ok (k : bytes) : Prop := ~ In 38%N k /\ ~ In 61%N k /\ ~ In 43%N k /\ ~ In 37%N k.
(* an encoded value: not empty, no field separator *)
Definition enc_ok (e : bytes) : Prop := e <> [] /\ ~ In 38%N e.

Lemma in_kv_amp k e : ~ In 38%N k -> ~ In 38%N e -> ~ In 38%N (k ++ 61%N :: e).
Proof. intros H1 H2 H. apply in_app_or in H as [H|[H|H]]; [exact (H1 H)|discriminate H|exact (H2 H)]. Qed.

Theorem parse_qsl_join (fields : list (bytes * bytes)) :
  Forall (fun p => key_ok (fst p) /\ enc_ok (snd p)) fields ->
  parse_qsl (join_with 38%N (map (fun p => fst p ++ 61%N :: snd p) fields)) = map (fun p => (fst p, unquote_plus (snd p))) fields.
Proof.
  intros Hf. unfold parse_qsl. destruct fields as [|f0 fr] eqn:Ef; [reflexivity|]. rewrite <- Ef in *. clear Ef f0 fr.
  assert (Hne : map (fun p : bytes * bytes => fst p ++ 61%N :: snd p) fields <> [] \/ fields = []) by (destruct fields; [right; reflexivity|left; discriminate]).
  destruct Hne as [Hne| ->]; [|reflexivity].
  rewrite split_on_join; [|apply Forall_forall; intros x Hx; apply in_map_iff in Hx as (p & <- & Hp); rewrite Forall_forall in Hf; destruct (Hf p Hp) as [(A & _) (_ & B)]; apply in_kv_amp; assumption|exact Hne].
  clear Hne. induction Hf as [|p r [(K1 & K2 & K3 & K4) (E1 & E2)] Hr IH]; [reflexivity|].
  cbn [map flat_map]. cbv beta. unfold bytes in *. rewrite cut_eq_spec by exact K2. cbn [rev app].
  destruct (snd p) as [|e0 er] eqn:Ee; [exfalso; apply E1; reflexivity|]. rewrite <- Ee.
  rewrite (unquote_plus_plain (fst p) K3 K4). cbn [app]. f_equal. exact IH.
Qed.
