(* MonListProofs.v -- C16: under every history of (modelled) edit operations the
   tracker tiers stay duplicate-free, without empty tier and made of well-formed
   URLs only; the metainfo written back is a function of the tiers and reading it
   back returns exactly these tiers. *)
From Coq Require Import Lia ZifyBool Permutation.
From Torf Require Import Base Extracted Geometry GeometryProofs MonList.
Open Scope Z_scope.

Lemma NoDup_snoc {X} (l : list X) x : NoDup l -> ~ In x l -> NoDup (l ++ [x]).
Proof.
  intros Hnd Hx. apply (Permutation_NoDup (l := x :: l)); [apply Permutation_cons_append|].
  constructor; assumption.
Qed.

Lemma NoDup_app_remove_l {X} (a b : list X) : NoDup (a ++ b) -> NoDup b.
Proof. induction a as [|x a IH]; intros H; [exact H|]. inversion H; subst. apply IH. assumption. Qed.

Lemma NoDup_app_remove_r {X} (a b : list X) : NoDup (a ++ b) -> NoDup a.
Proof.
  intros H. apply (Permutation_NoDup (Permutation_app_comm a b)) in H. eapply NoDup_app_remove_l; eauto.
Qed.

Lemma NoDup_app_disjoint {X} (a b : list X) :
  NoDup a -> NoDup b -> (forall x, In x a -> ~ In x b) -> NoDup (a ++ b).
Proof.
  induction a as [|x a IH]; intros Ha Hb Hd; [exact Hb|].
  inversion Ha; subst. cbn [app]. constructor.
  - intros Hin. apply in_app_iff in Hin as [Hin|Hin]; [contradiction|]. apply (Hd x); [left; reflexivity|exact Hin].
  - apply IH; [assumption|assumption|]. intros y Hy. apply Hd. right. exact Hy.
Qed.

Lemma Forall_firstn {X} (P : X -> Prop) k (l : list X) : Forall P l -> Forall P (firstn k l).
Proof.
  intros H. apply Forall_forall. intros x Hx. apply (proj1 (Forall_forall _ _) H x). eapply In_firstn; eauto.
Qed.

Lemma In_skipn {X} (x : X) k l : In x (skipn k l) -> In x l.
Proof.
  revert l; induction k as [|k IH]; intros l H; [exact H|]. destruct l as [|y l]; [destruct H|].
  right. apply IH. exact H.
Qed.

Lemma Forall_skipn {X} (P : X -> Prop) k (l : list X) : Forall P l -> Forall P (skipn k l).
Proof.
  intros H. apply Forall_forall. intros x Hx. apply (proj1 (Forall_forall _ _) H x). eapply In_skipn; eauto.
Qed.

Section ML.
Variable valid : Z -> bool.
Variable norm : Z -> Z.
(* the stored form of a valid URL is itself a valid URL in stored form
   (URL(s) replaces spaces by '+'); checked for the harness's URL pool by computation *)
Hypothesis norm_valid : forall u, valid u = true -> valid (norm u) = true.
Hypothesis norm_idem : forall u, valid u = true -> norm (norm u) = norm u.

Definition stored (u : Z) : Prop := valid u = true /\ norm u = u.

Lemma stored_norm u : valid u = true -> stored (norm u).
Proof. intros H. split; [apply norm_valid; exact H|apply norm_idem; exact H]. Qed.

Lemma zmem_true x l : zmem x l = true <-> In x l. Proof. apply zmem_In. Qed.
Lemma zmem_false x l : zmem x l = false <-> ~ In x l.
Proof. rewrite <- zmem_true. destruct (zmem x l); split; intros; congruence. Qed.

(* ---- coerce / dedup ---- *)
Lemma coerce_all_ok l : forall c, coerce_all valid norm l = Ok c -> Forall stored c.
Proof.
  induction l as [|u r IH]; intros c H; cbn [coerce_all] in H.
  - inversion H; subst. constructor.
  - destruct (valid u) eqn:Ev; [|discriminate].
    destruct (coerce_all valid norm r) as [r'|e] eqn:Er; cbn [bind] in H; [|discriminate].
    inversion H; subst. constructor; [apply stored_norm; exact Ev|apply IH; reflexivity].
Qed.

Lemma coerce_all_err l e : coerce_all valid norm l = Err e -> e = DURL.
Proof.
  induction l as [|u r IH]; cbn [coerce_all]; [discriminate|].
  destruct (valid u); [|intros H; inversion H; reflexivity].
  destruct (coerce_all valid norm r); cbn [bind]; [discriminate|]. intros H. inversion H; subst. apply IH. reflexivity.
Qed.

Lemma coerce_all_stored l : Forall stored l -> coerce_all valid norm l = Ok l.
Proof.
  induction 1 as [|u r [Hv Hn] Hr IH]; [reflexivity|]. cbn [coerce_all]. rewrite Hv, IH. cbn [bind]. rewrite Hn. reflexivity.
Qed.

Lemma dedup_into_spec known : forall new items,
  NoDup items ->
  NoDup (dedup_into known items new) /\
  (forall x, In x items -> In x (dedup_into known items new)) /\
  (forall x, In x (dedup_into known items new) -> In x items \/ (In x new /\ ~ In x known)).
Proof.
  induction new as [|u rest IH]; intros items Hnd; cbn [dedup_into].
  - split; [exact Hnd|]. split; [auto|]. intros x Hx. left. exact Hx.
  - destruct (zmem u items || zmem u known) eqn:E.
    + destruct (IH items Hnd) as (A & B & C). split; [exact A|]. split; [exact B|].
      intros x Hx. destruct (C x Hx) as [Hi|[Hn Hk]]; [left; exact Hi|right; split; [right; exact Hn|exact Hk]].
    + apply orb_false_iff in E as [E1 E2]. apply zmem_false in E1, E2.
      destruct (IH (items ++ [u]) (NoDup_snoc items u Hnd E1)) as (A & B & C). split; [exact A|]. split.
      * intros x Hx. apply B. apply in_or_app. left. exact Hx.
      * intros x Hx. destruct (C x Hx) as [Hi|[Hn Hk]].
        -- apply in_app_iff in Hi as [Hi|[<-|[]]]; [left; exact Hi|right; split; [left; reflexivity|exact E2]].
        -- right. split; [right; exact Hn|exact Hk].
Qed.

(* a list equal to itself after de-duplication when it is duplicate-free and fresh *)
Lemma dedup_into_fresh known : forall new items,
  NoDup (items ++ new) -> (forall x, In x new -> ~ In x known) ->
  dedup_into known items new = items ++ new.
Proof.
  induction new as [|u rest IH]; intros items Hnd Hk; cbn [dedup_into]; [rewrite app_nil_r; reflexivity|].
  assert (~ In u items) as Hu.
  { intros Hi. apply NoDup_remove_2 in Hnd. apply Hnd. apply in_or_app. left. exact Hi. }
  replace (zmem u items) with false by (symmetry; apply zmem_false; exact Hu).
  replace (zmem u known) with false by (symmetry; apply zmem_false; apply Hk; left; reflexivity).
  cbn [orb]. rewrite IH.
  - rewrite <- app_assoc. reflexivity.
  - rewrite <- app_assoc. exact Hnd.
  - intros x Hx. apply Hk. right. exact Hx.
Qed.

Lemma make_urls_spec known urls r :
  make_urls valid norm known urls = Ok r ->
  NoDup r /\ Forall stored r /\ (forall x, In x r -> ~ In x known).
Proof.
  unfold make_urls. destruct (coerce_all valid norm urls) as [c|e] eqn:Ec; cbn [bind]; [|discriminate].
  intros H. inversion H; subst.
  destruct (dedup_into_spec known c [] (NoDup_nil _)) as (A & _ & C).
  split; [exact A|]. split.
  - apply Forall_forall. intros x Hx. destruct (C x Hx) as [[]|[Hc _]].
    apply (proj1 (Forall_forall _ _) (coerce_all_ok urls c Ec) x Hc).
  - intros x Hx. destruct (C x Hx) as [[]|[_ Hk]]. exact Hk.
Qed.

Lemma make_urls_err known urls e : make_urls valid norm known urls = Err e -> e = DURL.
Proof.
  unfold make_urls. destruct (coerce_all valid norm urls) as [c|e'] eqn:Ec; cbn [bind]; [discriminate|].
  intros H. inversion H; subst. eapply coerce_all_err; eauto.
Qed.

(* ---- the invariant on tiers ---- *)
Definition tiers_ok (t : tiers) : Prop :=
  NoDup (flat t) /\ Forall (fun tier => tier <> []) t /\ Forall stored (flat t).

Lemma tiers_ok_nil : tiers_ok [].
Proof. repeat split; constructor. Qed.

Lemma flat_insert t k tier :
  Permutation (flat (firstn k t ++ tier :: skipn k t)) (tier ++ flat t).
Proof.
  unfold flat. rewrite concat_app. cbn [concat].
  rewrite <- (firstn_skipn k t) at 3. rewrite concat_app.
  rewrite app_assoc. rewrite (app_assoc tier). apply Permutation_app_tail. apply Permutation_app_comm.
Qed.

Lemma tiers_ok_insert t k tier :
  tiers_ok t -> tier <> [] -> NoDup tier -> Forall stored tier -> (forall x, In x tier -> ~ In x (flat t)) ->
  tiers_ok (firstn k t ++ tier :: skipn k t).
Proof.
  intros (Hnd & Hne & Hst) Htne Htnd Htst Hdis. split; [|split].
  - apply (Permutation_NoDup (l := tier ++ flat t)); [apply Permutation_sym, flat_insert|].
    apply NoDup_app_disjoint; assumption.
  - apply Forall_app. split; [apply Forall_firstn; exact Hne|].
    constructor; [exact Htne|apply Forall_skipn; exact Hne].
  - apply Forall_forall. intros x Hx.
    apply (Permutation_in _ (flat_insert t k tier)) in Hx. apply in_app_iff in Hx as [Hx|Hx].
    + apply (proj1 (Forall_forall _ _) Htst x Hx).
    + apply (proj1 (Forall_forall _ _) Hst x Hx).
Qed.

Lemma del_at_cases {X} (t : list X) : forall k,
  (exists a y b, t = a ++ y :: b /\ del_at t k = a ++ b) \/ del_at t k = t.
Proof.
  induction t as [|y r IH]; intros k.
  - right. unfold del_at. destruct k; reflexivity.
  - destruct k as [|k].
    + left. exists [], y, r. split; reflexivity.
    + unfold del_at in *. cbn [firstn skipn app]. destruct (IH k) as [(a & z & b & E1 & E2)|E].
      * left. exists (y :: a), z, b. cbn [app]. split; [f_equal; exact E1|f_equal; exact E2].
      * right. f_equal. exact E.
Qed.

Lemma flat_del_perm (a : tiers) y b : Permutation (flat (a ++ y :: b)) (y ++ flat (a ++ b)).
Proof.
  unfold flat. rewrite !concat_app. cbn [concat]. rewrite !app_assoc. apply Permutation_app_tail. apply Permutation_app_comm.
Qed.

Lemma flat_del_incl t k x : In x (flat (del_at t k)) -> In x (flat t).
Proof.
  destruct (del_at_cases t k) as [(a & y & b & -> & ->) | ->]; [|auto].
  intros H. apply (Permutation_in _ (Permutation_sym (flat_del_perm a y b))). apply in_or_app. right. exact H.
Qed.

Lemma NoDup_concat_del t k : NoDup (flat t) -> NoDup (flat (del_at t k)).
Proof.
  destruct (del_at_cases t k) as [(a & y & b & -> & ->) | ->]; [|auto].
  intros H. apply (Permutation_NoDup (flat_del_perm a y b)) in H. apply NoDup_app_remove_l in H. exact H.
Qed.

Lemma tiers_ok_del t k : tiers_ok t -> tiers_ok (del_at t k).
Proof.
  intros (Hnd & Hne & Hst). split; [apply NoDup_concat_del; exact Hnd|]. split.
  - unfold del_at. apply Forall_app. split; [apply Forall_firstn; exact Hne|apply Forall_skipn; exact Hne].
  - apply Forall_forall. intros x Hx. apply (proj1 (Forall_forall _ _) Hst x). eapply flat_del_incl; eauto.
Qed.

(* ---- Trackers.insert / construction ---- *)
Lemma py_insert_form {X} (l : list X) i x : exists k, py_insert l i x = firstn k l ++ x :: skipn k l.
Proof. unfold py_insert. eexists. reflexivity. Qed.

Theorem tr_insert_ok t i urls t' :
  tiers_ok t -> tr_insert valid norm t i urls = Ok t' -> tiers_ok t'.
Proof.
  intros Hok. unfold tr_insert.
  destruct (make_urls valid norm (flat t) urls) as [tier|e] eqn:Em; cbn [bind]; [|discriminate].
  destruct (make_urls_spec _ _ _ Em) as (A & B & C).
  destruct tier as [|u tier]; [intros H; inversion H; subst; exact Hok|].
  destruct (existsb (set_eqb (u :: tier)) t); intros H; inversion H; subst; [exact Hok|].
  destruct (py_insert_form t i (u :: tier)) as [k ->].
  apply tiers_ok_insert; try assumption. discriminate.
Qed.

Theorem tr_insert_err t i urls e : tr_insert valid norm t i urls = Err e -> e = DURL.
Proof.
  unfold tr_insert. destruct (make_urls valid norm (flat t) urls) as [tier|e'] eqn:Em; cbn [bind].
  - destruct tier; [discriminate|]. destruct (existsb _ t); discriminate.
  - intros H. inversion H; subst. eapply make_urls_err; eauto.
Qed.

Theorem tr_build_ok ts : forall acc t', tiers_ok acc -> tr_build valid norm acc ts = Ok t' -> tiers_ok t'.
Proof.
  induction ts as [|x r IH]; intros acc t' Hok H; cbn [tr_build] in H; [inversion H; subst; exact Hok|].
  destruct (tr_insert valid norm acc (Z.of_nat (length acc)) x) as [acc'|e] eqn:Ei; cbn [bind] in H; [|discriminate].
  eapply IH; [|exact H]. eapply tr_insert_ok; eauto.
Qed.

(* ---- reading back what was written ---- *)
Lemma subset_false_head u tier x : ~ In u x -> subset (u :: tier) x = false.
Proof. intros H. cbn [subset]. replace (zmem u x) with false by (symmetry; apply zmem_false; exact H). reflexivity. Qed.

Lemma tr_build_id : forall ts acc,
  tiers_ok (acc ++ ts) -> tr_build valid norm acc ts = Ok (acc ++ ts).
Proof.
  induction ts as [|tier r IH]; intros acc Hok; cbn [tr_build]; [rewrite app_nil_r; reflexivity|].
  destruct Hok as (Hnd & Hne & Hst).
  assert (tier <> []) as Htne.
  { apply (proj1 (Forall_forall _ _) Hne). apply in_or_app. right. left. reflexivity. }
  unfold flat in Hnd, Hst. rewrite concat_app in Hnd, Hst. cbn [concat] in Hnd, Hst.
  assert (NoDup tier) as Htnd.
  { apply NoDup_app_remove_l in Hnd. apply NoDup_app_remove_r in Hnd. exact Hnd. }
  assert (forall x, In x tier -> ~ In x (flat acc)) as Hdis.
  { intros x Hx Ha. clear -Hnd Hx Ha. unfold flat in Ha. revert Hnd Ha. generalize (concat acc) as a. intros a Hnd Ha.
    induction a as [|z a IHa]; [destruct Ha|]. inversion Hnd; subst. destruct Ha as [->|Ha].
    - apply H1. apply in_or_app. right. apply in_or_app. left. exact Hx.
    - apply IHa; assumption. }
  assert (Forall stored tier) as Htst.
  { apply Forall_app in Hst as [_ Hst]. apply Forall_app in Hst as [Hst _]. exact Hst. }
  unfold tr_insert, make_urls. rewrite (coerce_all_stored tier Htst). cbn [bind].
  rewrite (dedup_into_fresh (flat acc) tier []) by (assumption || (cbn [app]; exact Htnd)).
  cbn [app bind]. destruct tier as [|u tier]; [contradiction|].
  assert (existsb (set_eqb (u :: tier)) acc = false) as Hex.
  { apply not_true_is_false. intros Hex. apply existsb_exists in Hex as (x & Hx & Heq).
    unfold set_eqb in Heq. apply andb_true_iff in Heq as [Heq _].
    rewrite subset_false_head in Heq; [discriminate|].
    intros Hu. apply (Hdis u (or_introl eq_refl)). unfold flat. apply in_concat. exists x. split; assumption. }
  rewrite Hex. unfold py_insert.
  replace (Z.of_nat (length acc) <? 0) with false by lia. rewrite Z.min_id, Nat2Z.id.
  rewrite firstn_all, skipn_all. cbn [app bind].
  replace (acc ++ (u :: tier) :: r) with ((acc ++ [u :: tier]) ++ r) by (rewrite <- app_assoc; reflexivity).
  apply IH. rewrite <- app_assoc. cbn [app]. split; [|split].
  - unfold flat. rewrite concat_app. cbn [concat]. exact Hnd.
  - exact Hne.
  - unfold flat. rewrite concat_app. cbn [concat]. exact Hst.
Qed.

Theorem read_back t m : tiers_ok t -> read_trackers valid norm (write_trackers t m) = Ok t.
Proof.
  intros Hok. unfold read_trackers, write_trackers. cbn [md_alist md_announce].
  destruct (Z.of_nat (length (flat t)) <=? 1) eqn:Elen.
  - (* at most one URL: only 'announce' is stored *)
    destruct Hok as (Hnd & Hne & Hst).
    destruct t as [|[|u tier] r]; [reflexivity| |].
    + inversion Hne; subst. contradiction.
    + assert (tier = [] /\ r = []) as [-> ->].
      { unfold flat in Elen. cbn [concat] in Elen. rewrite app_length in Elen. cbn [length] in Elen.
        destruct tier; [|cbn [length] in Elen; lia]. split; [reflexivity|].
        destruct r as [|[|v t2] r2]; [reflexivity| |].
        - inversion Hne as [|? ? _ Hne2]; subst. inversion Hne2; subst. contradiction.
        - cbn [concat length app] in Elen. rewrite app_length in Elen. cbn [length] in Elen. lia. }
      cbn [flat concat zmem]. apply (tr_build_id [[u]] []). cbn [app]. split; [|split]; assumption.
  - destruct t as [|[|u tier] r].
    + cbn in Elen. discriminate.
    + destruct Hok as (_ & Hne & _). inversion Hne; subst. contradiction.
    + replace (zmem u (flat ((u :: tier) :: r))) with true by (symmetry; apply zmem_true; left; reflexivity).
      apply (tr_build_id ((u :: tier) :: r) []). exact Hok.
Qed.

(* ---- the written metainfo is a function of the tiers (as in Torrent._trackers_changed) ---- *)
Theorem written_fields t m :
  md_announce (write_trackers t m) = match flat t with u :: _ => (match t with (v :: _) :: _ => Some v | _ => None end) | [] => match t with (v :: _) :: _ => Some v | _ => None end end /\
  (md_alist (write_trackers t m) = if Z.of_nat (length (flat t)) <=? 1 then None else Some t).
Proof. split; [destruct (flat t); reflexivity|reflexivity]. Qed.

Lemma first_url_is_head t : tiers_ok t ->
  md_announce (write_trackers t init) = match flat t with u :: _ => Some u | [] => None end.
Proof.
  intros (_ & Hne & _). unfold write_trackers. cbn [md_announce].
  destruct t as [|[|u tier] r]; [reflexivity| |reflexivity]. inversion Hne; subst. contradiction.
Qed.

End ML.
