(* ReportProofs.v -- C02, unbounded: verification with a passive callback reports exactly the damaged pieces.
   For every schedule, hasher count, reporting interval and clock: every error a collected item carries (the read /
   size errors of its files) and every hash mismatch is delivered to the callback for that piece index, and
   nothing else is ever delivered as an error; when the run returns, that covers every piece of the content. *)
From Coq Require Import Lia ZifyBool Permutation.
From Torf Require Import Base Pipeline PipelineProofs Tree OrderProofs FlowProofs ThreadProofs DeadlockProofs ConservationProofs ReaderDoneProofs
  DrainProofs ExceptionProofs LastCallProofs VerifyTrueProofs VerifyFalseProofs LastCallVerify CompleteProofs LastCallVerdict.
Open Scope Z_scope.

Section Rep.
Variable c : config.
Variable expd : list Z.
Hypothesis Hplan : cf_plan c = CbQuiet.
Hypothesis Hver : cf_verify c = Some expd.

(* the errors piece [idx] of the content must be reported with *)
Definition errs (idx : Z) : list Z :=
  match nth_error (yielded (cf_items c)) (Z.to_nat idx) with
  | Some (RExc es) => es
  | Some (RPiece x) => if nth (Z.to_nat idx) expd 0 =? x then [] else [1000]
  | _ => []
  end.

(* what the collector adds to the calls for an item with the payload of the content *)
Lemma collect_item_quiet_calls s idx h exc :
  payload_ok (yielded (cf_items c)) (QPiece idx h exc) ->
  exists tail, s_calls (collect_item c s idx h exc) = s_calls s ++ tail /\
    (forall e, In e (errs idx) -> In (zlen (s_seen s), idx, Some e) tail) /\
    (forall d i e, In (d, i, Some e) tail -> i = idx /\ In e (errs idx)).
Proof.
  cbn [payload_ok]. intros [_ Hpay]. unfold errs.
  destruct (nth_error (yielded (cf_items c)) (Z.to_nat idx)) as [[x|es| | |e0]|] eqn:En; try contradiction.
  - destruct Hpay as [-> ->].
    destruct (mismatch c idx (Some x)) eqn:Em.
    + exists [(zlen (s_seen s), idx, Some 1000)]. split; [apply (collect_item_reports_mismatch c s idx (Some x) expd Hplan Hver Em)|].
      unfold mismatch in Em. rewrite Hver in Em. destruct (nth (Z.to_nat idx) expd 0 =? x); [discriminate Em|].
      split; [intros e [<-|[]]; left; reflexivity|]. intros d i e [E|[]]. injection E as _ <- <-. split; [reflexivity|left; reflexivity].
    + unfold mismatch in Em. rewrite Hver in Em. destruct (nth (Z.to_nat idx) expd 0 =? x) eqn:Ex; [|discriminate Em].
      unfold collect_item, has_user_cb, user_cb. rewrite Hplan, Hver. unfold mismatch. rewrite Hver, Ex. cbn [negb orb].
      destruct (_ || _); [|exists []; split; [rewrite app_nil_r; reflexivity|split; [intros e []|intros d i e []]]].
      exists [(zlen (s_seen s), idx, None)]. split; [reflexivity|]. split; [intros e []|]. intros d i e [E|[]]. discriminate E.
  - destruct Hpay as [-> ->]. destruct es as [|e1 r].
    + unfold collect_item, has_user_cb, user_cb. rewrite Hplan, Hver. unfold mismatch. rewrite Hver. cbn [orb].
      destruct (_ || _); [|exists []; split; [rewrite app_nil_r; reflexivity|split; [intros e []|intros d i e []]]].
      exists [(zlen (s_seen s), idx, None)]. split; [reflexivity|]. split; [intros e []|]. intros d i e [E|[]]. discriminate E.
    + exists (batch (zlen (s_seen s)) idx (map Some (e1 :: r))).
      split; [apply (collect_item_reports_errors c s idx None (e1 :: r) expd Hplan Hver); discriminate|].
      split.
      * intros e He. unfold batch. apply in_map_iff. exists (Some e). split; [reflexivity|apply in_map; exact He].
      * intros d i e Hin. unfold batch in Hin. apply in_map_iff in Hin as (oe & E & Ho). injection E as E1 E2 E3. subst oe i.
        apply in_map_iff in Ho as (e' & E' & He'). injection E' as ->. split; [reflexivity|exact He'].
  - destruct Hpay as [-> ->].
    unfold collect_item, has_user_cb, user_cb. rewrite Hplan, Hver. unfold mismatch. rewrite Hver. cbn [orb].
    destruct (_ || _); [|exists []; split; [rewrite app_nil_r; reflexivity|split; [intros e []|intros d i e []]]].
    exists [(zlen (s_seen s), idx, None)]. split; [reflexivity|]. split; [intros e []|]. intros d i e [E|[]]. discriminate E.
Qed.

(* every collected piece (other than the one the collector is handling right now) has had its errors reported;
   and every error ever reported is an error of that piece *)
Definition Rp (s : state) : Prop :=
  (forall idx, In idx (s_seen s) -> (forall h exc, s_mpc s <> MClock idx h exc) ->
     forall e, In e (errs idx) -> exists d, In (d, idx, Some e) (s_calls s)) /\
  (forall d idx e, In (d, idx, Some e) (s_calls s) -> In e (errs idx)).

Lemma Rp_keep s s' : s_seen s' = s_seen s -> s_calls s' = s_calls s -> s_mpc s' = s_mpc s -> Rp s -> Rp s'.
Proof. unfold Rp. intros -> -> ->. auto. Qed.

(* main moves its program counter, not to the handling of an item *)
Lemma Rp_to s pc : (forall idx h exc, s_mpc s <> MClock idx h exc) -> Rp s -> Rp (set_mpc s pc).
Proof.
  intros Hnc [A B]. split; cbn [set_mpc s_seen s_calls s_mpc]; [|exact B].
  intros idx Hin _ e He. exact (A idx Hin (Hnc idx) e He).
Qed.

Lemma Rp_to2 s s' : s_seen s' = s_seen s -> s_calls s' = s_calls s -> (forall idx h exc, s_mpc s <> MClock idx h exc) -> Rp s -> Rp s'.
Proof.
  intros E1 E2 Hnc [A B]. split; rewrite ?E1, E2; [|exact B].
  intros idx Hin _ e He. exact (A idx Hin (Hnc idx) e He).
Qed.

Lemma step_main_Rp s inc : reach c s -> Rp s -> Rp (step_main c s inc).
Proof.
  intros Hr HR. pose proof HR as [A B]. unfold step_main. destruct (s_mpc s) eqn:Empc;
    try (apply (Rp_to2 s); [reflexivity|reflexivity|intros i0 h0 x0 E0; rewrite Empc in E0; discriminate E0|exact HR]).
  - destruct (refused c t).
    + destruct ((t =? 1) || (t =? 2) || (t =? 3)); [apply (Rp_to2 s); [reflexivity|reflexivity|intros i0 h0 x0 E0; rewrite Empc in E0; discriminate E0|exact HR]|].
      destruct (next_to_start c t); apply (Rp_to2 s); try reflexivity; try exact HR; intros i0 h0 x0 E0; rewrite Empc in E0; discriminate E0.
    + pose proof (start_thread_cview s t) as Ev. unfold cview in Ev. injection Ev as E1 E2 _ _.
      destruct (next_to_start c t); apply (Rp_to2 s); cbn [set_mpc s_seen s_calls]; try assumption; intros i0 h0 x0 E0; rewrite Empc in E0; discriminate E0.
  - destruct (s_hq s) as [|[|idx h exc] r] eqn:Ehq; [exact HR|apply (Rp_to2 s); [reflexivity|reflexivity|intros i0 h0 x0 E0; rewrite Empc in E0; discriminate E0|exact HR]|].
    cbn [set_hq s_seen]. destruct (existsb (Z.eqb idx) (s_seen s)) eqn:Eex;
      [apply (Rp_to2 s); [reflexivity|reflexivity|intros i0 h0 x0 E0; rewrite Empc in E0; discriminate E0|exact HR]|].
    split; cbn [set_mpc upd_collector set_hq s_seen s_calls s_mpc]; [|exact B].
    intros idx' Hin Hnc e He. apply in_app_or in Hin as [Hin|[<-|[]]].
    + apply (A idx' Hin); [intros h0 x0 E0; discriminate E0|exact He].
    + exfalso. exact (Hnc h exc eq_refl).
  - (* the collector handles the item *)
    destruct (exception_invariant c s Hr) as [_ (_ & Q2 & _)]. pose proof (Q2 idx h exc Empc) as Hpay.
    set (s1 := set_now s (s_now s + inc)).
    destruct (collect_item_quiet_calls s1 idx h exc Hpay) as (tail & Ec & T1 & T2).
    pose proof (collect_item_seen c s1 idx h exc) as Es. pose proof (collect_item_quiet c s1 idx h exc Hplan ltac:(rewrite Hver; discriminate)) as Em.
    split; rewrite ?Es, Ec, ?Em; subst s1; cbn [set_now s_seen s_calls] in *.
    + intros idx' Hin _ e He. destruct (Z.eq_dec idx' idx) as [->|Hne].
      * exists (zlen (s_seen s)). apply in_or_app. right. exact (T1 e He).
      * destruct (A idx' Hin ltac:(intros h' exc' E; injection E as E _ _; congruence) e He) as [d Hd].
        exists d. apply in_or_app. left. exact Hd.
    + intros d i e Hin. apply in_app_or in Hin as [Hin|Hin]; [exact (B d i e Hin)|]. destruct (T2 d i e Hin) as [-> He]. exact He.
  - destruct (s_stop s); [destruct a|]; apply (Rp_to2 s); try reflexivity; try exact HR; intros i0 h0 x0 E0; rewrite Empc in E0; discriminate E0.
  - destruct a; apply (Rp_to2 s); try reflexivity; try exact HR; intros i0 h0 x0 E0; rewrite Empc in E0; discriminate E0.
  - destruct (is_alive s 1); apply (Rp_to2 s); try reflexivity; try exact HR; intros i0 h0 x0 E0; rewrite Empc in E0; discriminate E0.
  - destruct (is_alive s t); apply (Rp_to2 s); try reflexivity; try exact HR; intros i0 h0 x0 E0; rewrite Empc in E0; discriminate E0.
  - destruct (is_alive s 2); [apply (Rp_to2 s); try reflexivity; try exact HR; intros i0 h0 x0 E0; rewrite Empc in E0; discriminate E0|].
    unfold finish. destruct o; apply (Rp_to2 s); try reflexivity; try exact HR; intros i0 h0 x0 E0; rewrite Empc in E0; discriminate E0.
  - unfold finish. destruct o; apply (Rp_to2 s); try reflexivity; try exact HR; intros i0 h0 x0 E0; rewrite Empc in E0; discriminate E0.
Qed.

Theorem report_invariant s : reach c s -> Rp s.
Proof.
  induction 1 as [|s t a inc Hr IH Hen Hinc]; [split; cbn; [intros idx []|intros d idx e []]|].
  assert (Hv : forall s', cview s' = cview s -> Rp s').
  { intros s' E. unfold cview in E. injection E as E1 E2 E3 _. apply (Rp_keep s); assumption. }
  unfold step. destruct (t =? 0); [apply step_main_Rp; assumption|].
  destruct (t =? 1).
  - destruct (s_rpc s); apply Hv; try apply step_reader_cview; rewrite step_reader_cview; reflexivity.
  - destruct (t =? 2); apply Hv; [apply step_janitor_cview|apply step_hasher_cview].
Qed.

(* nothing is ever reported as an error of a piece that is not one of its errors *)
Theorem no_spurious_report s d idx e : reach c s -> In (d, idx, Some e) (s_calls s) -> In e (errs idx).
Proof. intros Hr. destruct (report_invariant s Hr) as [_ B]. exact (B d idx e). Qed.

(* when the run returns a verdict, every error of every piece of the content has been reported for that piece *)
Theorem every_damaged_piece_reported s r i e :
  (1 <= cf_hashers c)%nat -> reach c s -> s_result s = Some r -> verdict r ->
  0 <= i < nitems c -> In e (errs i) -> exists d, In (d, i, Some e) (s_calls s).
Proof.
  intros Hn Hr Hres Hvd Hi He.
  pose proof (thread_invariant c s Hn Hr) as T.
  assert (Hmd : s_mpc s = MDone) by (apply (t_done c s T); apply (t_result c s T); rewrite Hres; discriminate).
  destruct (quiet_never_stops c s Hplan ltac:(rewrite Hver; discriminate) Hr) as [Hs _].
  destruct (verdict_invariant_rexc c s Hn Hr) as [_ X2]. pose proof (X2 Hmd r Hres Hvd) as Hex.
  pose proof (uncancelled_run_collects_everything c s r Hn Hr Hres Hvd Hs Hex) as Hp.
  assert (Hin : In i (s_seen s)).
  { apply (Permutation_in i (Permutation_sym Hp)). apply in_map_iff. exists (Z.to_nat i). split; [lia|]. apply in_seq. lia. }
  destruct (report_invariant s Hr) as [A _]. apply (A i Hin); [intros h exc E; rewrite Hmd in E; discriminate E|exact He].
Qed.
End Rep.
